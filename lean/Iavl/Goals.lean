import Iavl.Lemmas.Refine
import Iavl.Lemmas.MembershipSound
/-
  Target statements that are NOT proved yet, written out as `def … : Prop` (nothing is asserted).
  They are listed in DESIGN.md §6; the evidence files do not count them as obligations.
-/
namespace Iavl.Goals
open Iavl Std

/-- C19: on histories with at most one write or removal per key per version, v2's in-place
    algorithm builds the tree v1's path-copying algorithm builds (up to node keys) -/
def v2_eq_v1_goal : Prop :=
  ∀ (V2 : Type) (runV2 : List (List (Op Bytes Bytes)) → V2) (eraseSeq : V2 → OTree Bytes Bytes)
    (runV1 : List (List (Op Bytes Bytes)) → OTree Bytes Bytes) (h : List (List (Op Bytes Bytes))),
    eraseSeq (runV2 h) = runV1 h

end Iavl.Goals
