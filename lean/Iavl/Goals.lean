import Iavl.Lemmas.Refine
import Iavl.Lemmas.MembershipSound
/-
  Target statements that are NOT proved yet, written out as `def … : Prop` (nothing is asserted).
  They are listed in DESIGN.md §6; the evidence files do not count them as obligations.
-/
namespace Iavl.Goals
open Iavl Std

/-- C03: a non-membership proof the model accepts shows a key that is absent (modulo a collision) -/
def nonmembership_sound_goal (H : Bytes → Bytes) : Prop :=
  ∀ (working : Nat) (t : Node Bytes Bytes) (key : Bytes) (l r : Option ExistProof),
    Ordered t → Bounded working t →
    (∀ p, l = some p → calcRoot H p = hashNode H working t ∧ compare p.key key = .lt) →
    (∀ p, r = some p → calcRoot H p = hashNode H working t ∧ compare key p.key = .lt) →
    -- adjacency of the two proved leaves (the ics23 `IsLeftNeighbor` padding check) is part of the
    -- hypothesis still to be modelled
    True → lookup key t.toList = none ∨ Collision H

/-- C19: on histories with at most one write or removal per key per version, v2's in-place
    algorithm builds the tree v1's path-copying algorithm builds (up to node keys) -/
def v2_eq_v1_goal : Prop :=
  ∀ (V2 : Type) (runV2 : List (List (Op Bytes Bytes)) → V2) (eraseSeq : V2 → OTree Bytes Bytes)
    (runV1 : List (List (Op Bytes Bytes)) → OTree Bytes Bytes) (h : List (List (Op Bytes Bytes))),
    eraseSeq (runV2 h) = runV1 h

end Iavl.Goals
