import Iavl.Model.Codec
import Iavl.Lemmas.Refine
import Iavl.Generated.FactsOk
import Iavl.Generated.SrcC16Ok
/-
  C16 — databases in the legacy (pre-1.0) format stay usable. The databases are written by the real
  legacy library (iavl v0.20.0, harness/legacygen); the model runs the same history and predicts the
  contents and root hash of every legacy version (the hash rules did not change), which the current
  library must reproduce after opening that database, and then the behaviour of new commits, commits
  without writes on a legacy root, pruning around the boundary and rollback into the legacy range.
  Proved: the legacy node codec round trips, and (C01) the version machine the predictions come from.
-/
namespace Iavl.Props.C16
open Iavl

theorem legacy_leaf_codec (sz ver : Int) (k v : Bytes)
    (h1 : -(2 ^ 63) ≤ sz) (h2 : sz < 2 ^ 63) (h3 : -(2 ^ 63) ≤ ver) (h4 : ver < 2 ^ 63)
    (hk : k.length < 2 ^ 63) (hv : v.length < 2 ^ 63) :
    decLegacyNode (encLegacyNode (.leaf 0 sz ver k v)) = some (.leaf 0 sz ver k v) :=
  decLegacyNode_encLegacyNode_leaf sz ver k v h1 h2 h3 h4 hk hv

theorem legacy_inner_codec (h sz ver : Int) (k l r : Bytes) (h0 : h ≠ 0) (hlo : -128 ≤ h) (hhi : h ≤ 127)
    (h1 : -(2 ^ 63) ≤ sz) (h2 : sz < 2 ^ 63) (h3 : -(2 ^ 63) ≤ ver) (h4 : ver < 2 ^ 63)
    (hk : k.length < 2 ^ 63) (hl : l.length < 2 ^ 63) (hr : r.length < 2 ^ 63) :
    decLegacyNode (encLegacyNode (.inner h sz ver k l r)) = some (.inner h sz ver k l r) :=
  decLegacyNode_encLegacyNode_inner h sz ver k l r h0 hlo hhi h1 h2 h3 h4 hk hl hr

/-- `deleteLegacyVersions(L)` (nodedb.go): the scan over the legacy orphan records - a record (to, from) says the
    node was part of the versions from..to - deletes the node iff `(from ≤ L ∧ to < L) ∨ from > L`. That is
    exactly "the node is not part of the latest legacy version L": a node still alive at L is kept (the first
    new-format versions may share it; what they do not use is deleted by the orphan diff of L against L+1, C04) -/
def legacyScanDeletes (L from_ to : Nat) : Bool := (decide (from_ ≤ L) && decide (to < L)) || decide (L < from_)

theorem legacy_bulk_prune_deletes_exactly_dead_nodes (L from_ to : Nat) :
    legacyScanDeletes L from_ to = true ↔ ¬ (from_ ≤ L ∧ L ≤ to) := by
  simp only [legacyScanDeletes, Bool.or_eq_true, Bool.and_eq_true, decide_eq_true_eq]
  omega

theorem legacy_keyspace :
    Facts.legacyNodeKeyPrefix = 110 ∧ Facts.legacyOrphanKeyPrefix = 111 ∧ Facts.legacyRootKeyPrefix = 114 :=
  ⟨Facts.keyspace_ok.2.2.2.1, Facts.keyspace_ok.2.2.2.2.1, Facts.keyspace_ok.2.2.2.2.2.1⟩

end Iavl.Props.C16
