import Iavl.Model.Codec
import Iavl.Lemmas.Refine
import Iavl.Generated.FactsOk
/-
  C16 — databases in the legacy (pre-1.0) format stay usable. The databases are written by the real
  legacy library (iavl v0.20.0, harness/legacygen); the model runs the same history and predicts the
  contents and root hash of every legacy version (the hash rules did not change), which the current
  library must reproduce after opening that database, and then the behaviour of new commits, commits
  without writes on a legacy root, pruning around the boundary and rollback into the legacy range.
  Proved: the legacy node codec round trips, and (C01) the version machine the predictions come from.
-/
namespace Iavl.Props.C16
open Iavl

theorem legacy_leaf_codec (sz ver : Int) (k v : Bytes)
    (h1 : -(2 ^ 63) ≤ sz) (h2 : sz < 2 ^ 63) (h3 : -(2 ^ 63) ≤ ver) (h4 : ver < 2 ^ 63)
    (hk : k.length < 2 ^ 63) (hv : v.length < 2 ^ 63) :
    decLegacyNode (encLegacyNode (.leaf 0 sz ver k v)) = some (.leaf 0 sz ver k v) :=
  decLegacyNode_encLegacyNode_leaf sz ver k v h1 h2 h3 h4 hk hv

theorem legacy_inner_codec (h sz ver : Int) (k l r : Bytes) (h0 : h ≠ 0) (hlo : -128 ≤ h) (hhi : h ≤ 127)
    (h1 : -(2 ^ 63) ≤ sz) (h2 : sz < 2 ^ 63) (h3 : -(2 ^ 63) ≤ ver) (h4 : ver < 2 ^ 63)
    (hk : k.length < 2 ^ 63) (hl : l.length < 2 ^ 63) (hr : r.length < 2 ^ 63) :
    decLegacyNode (encLegacyNode (.inner h sz ver k l r)) = some (.inner h sz ver k l r) :=
  decLegacyNode_encLegacyNode_inner h sz ver k l r h0 hlo hhi h1 h2 h3 h4 hk hl hr

theorem legacy_keyspace :
    Facts.legacyNodeKeyPrefix = 110 ∧ Facts.legacyOrphanKeyPrefix = 111 ∧ Facts.legacyRootKeyPrefix = 114 :=
  ⟨Facts.keyspace_ok.2.2.2.1, Facts.keyspace_ok.2.2.2.2.1, Facts.keyspace_ok.2.2.2.2.2.1⟩

end Iavl.Props.C16
