import Iavl.Lemmas.V2LogCorrect
import Iavl.Generated.SrcC20Ok
/-
  C20 — v2 persistence, the logical core (Model/V2Log.lean): which checkpoint a load starts from, which rows it
  replays, and which rows a deletion of old versions removes. What the SQLite layer does with these rows, the
  tree shards and the branch orphans is tied by correspondence only (harness/v2: every retained version is
  reloaded after every deletion and after reopening, with all checkpoint intervals); `FindPrevious` itself is
  also compared directly with `VersionRange.FindPrevious` on generated ranges.
-/
namespace Iavl.Props.C20
open Iavl.V2
variable {K V T : Type}

/-- `VersionRange.FindPrevious` (the binary search of range.go, modelled line by line) returns the greatest
    checkpoint not above the version, and -1 (`none`) exactly when there is none -/
theorem find_previous_is_greatest_checkpoint (vs : List Nat) (hs : vs.Pairwise (· < ·)) (version : Nat) :
    (findPrevious vs version = none ↔ ∀ d ∈ vs, version < d) ∧
    (∀ c, findPrevious vs version = some c ↔ c ∈ vs ∧ c ≤ version ∧ ∀ d ∈ vs, d ≤ version → d ≤ c) :=
  ⟨(findPrevious_spec vs hs version).1, fun c => findPrevious_eq_some_iff vs hs version c⟩

/-- every `VersionRange` built by `Add` calls (failed ones refused) is strictly ascending: the hypothesis of the
    two search theorems is met by every range the library can hold -/
theorem version_range_always_sorted (adds : List Nat) : (rangeOf adds).Pairwise (· < ·) := rangeOf_sorted adds

/-- `VersionRange.Find` (the shard lookup of `getShard`) returns the least checkpoint not below the version,
    and -1 exactly when the version lies beyond the last one -/
theorem find_is_least_checkpoint_at_or_above (vs : List Nat) (hs : vs.Pairwise (· < ·)) (version : Nat) :
    (find vs version = none ↔ ∀ d ∈ vs, d < version) ∧
    (∀ c, find vs version = some c → c ∈ vs ∧ version ≤ c ∧ ∀ d ∈ vs, version ≤ d → c ≤ d) :=
  find_spec vs hs version

/-- **every committed version has a checkpoint less than one interval below it**: under `SaveVersion`'s checkpoint
    rule (version 1, or `interval` versions after the last checkpoint; memory pressure and explicit requests only
    add checkpoints - `extra`), `FindPrevious` never answers -1 for a committed version and a load never replays
    `interval` versions or more -/
theorem every_version_has_a_checkpoint_within_the_interval (interval : Nat) (hi : 0 < interval) (extra : Nat → Bool)
    (n v : Nat) (hv1 : 1 ≤ v) (hvn : v ≤ n) :
    ∃ c, findPrevious (autoCkpts interval extra n) v = some c ∧ c ≤ v ∧ v - c < interval :=
  checkpoint_within_interval interval hi extra n v hv1 hvn

/-- **loading a version by checkpoint and replay reproduces it**: for every history of commits (any writes,
    any checkpoint placement), replaying the stored rows of the versions in `(c, v]`, in stored order, on the
    state of `c` yields the state of `v` — for every way `apply` acts on a state (the tree operations of
    C19 in particular, which are those of v1) -/
theorem reload_reproduces_version (apply : T → Ev K V → T) (t0 : T) (hs : List (Commit K V)) (c v : Nat) (hcv : c ≤ v) :
    ((replayRows (buildFrom (emptyStore : Store K V) 1 hs) c v).map (·.ev)).foldl apply (stateOf apply t0 hs c) =
      stateOf apply t0 hs v :=
  replay_reproduces apply t0 hs c v hcv

/-- **deleting versions up to `req` keeps every version at or above the last checkpoint not after `req`
    loadable, and it reloads to the same state**: in the store of any history, after `DeleteVersionsTo(req)`
    rounded to checkpoint `P`, every `v ≥ P` that could be loaded before is loaded from the same checkpoint
    `c ≥ P`, replays exactly the same rows, and so reproduces version `v`. (Repeated deletions: `loginv_prune`
    keeps the invariant the theorem needs.) -/
theorem prune_keeps_versions_loadable (apply : T → Ev K V → T) (t0 : T) (hs : List (Commit K V))
    (hwf : WellFormed 1 hs) (req P v c : Nat)
    (hP : findPrevious (buildFrom (emptyStore : Store K V) 1 hs).ckpts req = some P) (hv : P ≤ v)
    (hc : loadPoint (buildFrom (emptyStore : Store K V) 1 hs) v = some c) :
    let s' := prune (buildFrom (emptyStore : Store K V) 1 hs) req
    loadPoint s' v = some c ∧ P ≤ c ∧
    ((replayRows s' c v).map (·.ev)).foldl apply (stateOf apply t0 hs c) = stateOf apply t0 hs v := by
  have hinv := loginv_buildFrom (emptyStore : Store K V) 1 hs loginv_empty (by intro c hc; cases hc) hwf
  obtain ⟨h1, h2⟩ := prune_keeps _ hinv req P hP v hv
  obtain ⟨hPc, hrows⟩ := h2 c hc
  have hcv : c ≤ v := by
    have : findPrevious (buildFrom (emptyStore : Store K V) 1 hs).ckpts v = some c := by
      simp only [loadPoint] at hc
      split at hc
      · exact hc
      · cases hc
    exact ((findPrevious_eq_some_iff _ hinv.asc v c).mp this).2.1
  refine ⟨by rw [h1]; exact hc, hPc, ?_⟩
  rw [hrows]
  exact replay_reproduces apply t0 hs c v hcv

/-- a deletion request below the first checkpoint changes nothing -/
theorem prune_below_first_checkpoint (s : Store K V) (req : Nat) (h : findPrevious s.ckpts req = none) :
    prune s req = s := prune_of_none s req h

/-- non-vacuity: five versions, checkpoints at 1 and 3, a leaf of version 2 replaced in version 4; deleting up
    to 4 rounds to checkpoint 3: versions 3, 4, 5 stay loadable from 3 with their rows, the delete row of version 2
    and checkpoint 1 are gone -/
example :
    let hs : List (Commit Nat Nat) :=
      [⟨[.set 1 10], [], true⟩, ⟨[.set 2 20, .del 1], [(1, 1)], false⟩, ⟨[.set 3 30], [], true⟩,
       ⟨[.set 2 21], [(2, 1)], false⟩, ⟨[.del 3], [(3, 1)], false⟩]
    let s := buildFrom (emptyStore : Store Nat Nat) 1 hs
    findPrevious s.ckpts 4 = some 3 ∧ (prune s 4).ckpts = [3] ∧ (prune s 4).roots = [3, 4, 5] ∧
      loadPoint (prune s 4) 5 = some 3 ∧ loadPoint (prune s 4) 2 = none ∧
      ((replayRows (prune s 4) 3 5).map (fun r => (r.ver, r.seq))) = [(4, 1), (5, 1)] ∧
      (prune s 4).rows.length = 4 ∧ s.rows.length = 6 := by decide

end Iavl.Props.C20
