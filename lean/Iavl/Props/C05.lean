import Iavl.Model.KV
import Iavl.Generated.FactsOk
import Iavl.Model.Flusher
/-
  C05 — crash atomicity. The property is decided on the implementation by exhaustive enumeration of
  every boundary between two physical writes of every mutating operation (harness mode `crash`).
  What is proved here is the storage-level fact that makes that enumeration meaningful: splitting a
  logical batch into consecutive physical writes (what `BatchWithFlusher` does when the threshold is
  exceeded) never changes the crash-free result, and the image at a cut is the image of a prefix of
  the operation's writes — so the set of images the harness rebuilds is exactly the set of states a
  stop between two physical writes can leave.
-/
namespace Iavl.Props.C05
open Iavl

theorem applyOps_append (m : SMapB) (a b : List BOp) : applyOps m (a ++ b) = applyOps (applyOps m a) b := by
  induction a generalizing m with
  | nil => rfl
  | cons op a ih => cases op <;> simp [applyOps, ih]

/-- writing the chunks of any split of a batch one after the other = writing the batch at once -/
theorem flush_split_same_result (m : SMapB) (chunks : List (List BOp)) :
    chunks.foldl applyOps m = applyOps m chunks.flatten := by
  induction chunks generalizing m with
  | nil => rfl
  | cons c cs ih => simp [List.foldl_cons, ih, applyOps_append]

/-- the image after the first `i` physical writes is the image of the flattened prefix -/
theorem cut_image (m : SMapB) (chunks : List (List BOp)) (i : Nat) :
    (chunks.take i).foldl applyOps m = applyOps m (chunks.take i).flatten :=
  flush_split_same_result m (chunks.take i)

/-- `BatchWithFlusher` (Model/Flusher.lean) neither loses, duplicates nor reorders an operation: the
    concatenation of its physical writes is the logical sequence -/
theorem flusher_preserves_operations (thr : Nat) (ops : List BOp) : (flushSplit thr ops).flatten = ops :=
  flushSplit_flatten thr ops

/-- hence the crash-free result does not depend on the threshold -/
theorem flusher_result_independent_of_threshold (thr : Nat) (m : SMapB) (ops : List BOp) :
    (flushSplit thr ops).foldl applyOps m = applyOps m ops := by
  rw [flush_split_same_result, flushSplit_flatten]

/-- an operation whose writes stay within the threshold (estimate: key and value lengths plus the 100
    bytes the estimate adds) is ONE physical write, so a stop between physical writes leaves either the
    image before it or the image after it: it is atomic. With the default threshold of 100000 bytes this is
    every commit, deletion and rollback of fewer than about 100 KB of records; the recorded findings
    K7 / K7c / K7f are exactly the operations beyond it. -/
theorem atomic_within_threshold (thr : Nat) (m : SMapB) (ops : List BOp) (h : sizeOf ops + 100 ≤ thr) (i : Nat) :
    ((flushSplit thr ops).take i).foldl applyOps m = m ∨
    ((flushSplit thr ops).take i).foldl applyOps m = applyOps m ops := by
  rw [single_write_when_small thr ops h]
  cases i with
  | zero => left; rfl
  | succ j => right; simp [List.take]

/-- K7 as a theorem about the model: beyond the threshold the statement of `atomic_within_threshold` is false - a
    batch of two records under a threshold that holds one of them (103: the estimate adds 100 per operation) is two physical writes, and the image after
    the first is neither the old nor the new one. (The same history on the library: `corpus/C05/K7-commit-cut.hist`.) -/
theorem beyond_threshold_not_atomic :
    let ops : List BOp := [.set [1] [10], .set [2] [20]]
    let cut := ((flushSplit 103 ops).take 1).foldl applyOps ([] : SMapB)
    (flushSplit 103 ops).length = 2 ∧ cut ≠ [] ∧ cut ≠ applyOps [] ops := by decide

theorem default_threshold : Facts.defaultFlushThreshold = 100000 := Facts.numbering_ok.2.2

end Iavl.Props.C05
