import Iavl.Lemmas.Versions
import Iavl.Lemmas.Twin
/-
  C09 — rollback erases the future (version-machine level; holds for the versioned map and the tree
  machine alike, which answer identically by C01).
-/
namespace Iavl.Props.C09
open Iavl Std
variable {K V C : Type} (ct : Content K V C)

theorem rollback_discards (s : VState C) :
    (s.step ct .rollback).1 = { s with working := if s.base = 0 then ct.empty else s.lastSaved } :=
  rollback_effect ct s

theorem load_for_overwriting (s s' : VState C) (target lat : Nat) (hl : s.load target = some (s', lat)) (w : Nat) :
    let r := (s.step ct (.loadow target)).1
    r.working = s'.working ∧ r.lastSaved = s'.lastSaved ∧ r.base = s'.base ∧
    findVer r.versions w = if w ≤ s'.base then findVer s'.versions w else none :=
  loadow_effect ct s s' target lat hl w

theorem delete_versions_from (s : VState C) (n w : Nat) :
    findVer (s.step ct (.delfrom n)).1.versions w = if w < n then findVer s.versions w else none :=
  delfrom_effect ct s n w

/-- **the twin statement**: `LoadVersionForOverwriting(target)` leaves exactly the state obtained
    by loading `target` in a store whose history ended at `target` (`truncate`), which then reports
    `target` as its latest version. The machine being a function of its state, every later read,
    commit number, hash, deletion and reopening is the same as in the history that never had the
    later versions. (`AscV`: versions listed in ascending order, which commits maintain.) -/
theorem rollback_equals_history_that_ended (s s' : VState C) (target lat : Nat) (ht : target ≠ 0)
    (ha : AscV s.versions) (hl : s.load target = some (s', lat)) :
    (truncate s target).load target = some ((s.step ct (.loadow target)).1, target) :=
  rollback_is_truncation ct s s' target lat ht ha hl

/-- a failed rollback target leaves the machine unchanged -/
theorem loadow_missing (s : VState C) (target : Nat) (h : s.load target = none) :
    s.step ct (.loadow target) = (s, .err) := by
  simp [VState.step, h]

end Iavl.Props.C09
