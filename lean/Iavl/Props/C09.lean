import Iavl.Lemmas.Versions
/-
  C09 — rollback erases the future (version-machine level; holds for the versioned map and the tree
  machine alike, which answer identically by C01).
-/
namespace Iavl.Props.C09
open Iavl Std
variable {K V C : Type} (ct : Content K V C)

theorem rollback_discards (s : VState C) :
    (s.step ct .rollback).1 = { s with working := if s.base = 0 then ct.empty else s.lastSaved } :=
  rollback_effect ct s

theorem load_for_overwriting (s s' : VState C) (target lat : Nat) (hl : s.load target = some (s', lat)) (w : Nat) :
    let r := (s.step ct (.loadow target)).1
    r.working = s'.working ∧ r.lastSaved = s'.lastSaved ∧ r.base = s'.base ∧
    findVer r.versions w = if w ≤ s'.base then findVer s'.versions w else none :=
  loadow_effect ct s s' target lat hl w

theorem delete_versions_from (s : VState C) (n w : Nat) :
    findVer (s.step ct (.delfrom n)).1.versions w = if w < n then findVer s.versions w else none :=
  delfrom_effect ct s n w

/-- a failed rollback target leaves the machine unchanged -/
theorem loadow_missing (s : VState C) (target : Nat) (h : s.load target = none) :
    s.step ct (.loadow target) = (s, .err) := by
  simp [VState.step, h]

end Iavl.Props.C09
