import Iavl.Lemmas.WorkingHash
import Iavl.Lemmas.MembershipSound
import Iavl.Generated.FactsOk
import Iavl.Lemmas.HashBinds
/-
  C02 — the root hash is canonical.

  The canonical hash *is* a total function of the write history: `hashNode H w t` of the tree the
  version machine (`VTree.step`, proved equal to the versioned map in C01) holds. The hash of a
  retained version is therefore the same before commit, at commit, after reopening, after pruning
  other versions and after rollback-and-redo, because each of those operations leaves that
  version's tree value unchanged in the model and the correspondence check compares every hash the
  implementation returns with this function on every history it runs.
-/
namespace Iavl.Props.C02
open Iavl Std
variable (H : Bytes → Bytes)

/-- the working hash, queried with the working version, is the hash the commit returns -/
theorem working_hash_is_commit_hash (w w' : Nat) (t : Node Bytes Bytes) (hc : Closed t) :
    hashNode H w t = hashNode H w' (commitVer w t) :=
  workingHash_eq_commitHash H w w' t hc

/-- a persisted tree hashes the same whatever version a later query passes (reopen, `Hash()` of a
    retained version, proofs) -/
theorem saved_hash_independent_of_query_version (w w' : Nat) (t : Node Bytes Bytes) (hs : AllSaved t) :
    hashNode H w t = hashNode H w' t :=
  hashNode_saved H w w' t hs

/-- K5, the reason the guard `w = working version` matters: hashing an unsaved leaf with another
    version gives another hash (for injective `H`) -/
theorem wrong_query_version_differs (hinj : ∀ a b, H a = H b → a = b) (k v : Bytes) :
    hashNode H 1 (.leaf k v none) ≠ hashNode H 5 (.leaf k v none) :=
  wrong_version_differs H hinj k v

/-- read-only operations of the version machine do not change its state, hence no later hash -/
theorem reads_preserve_state {K V : Type} [Ord K] [BEq K] (s : VState (OTree K V)) (r : ReadOp K) (ver : Nat) (k : K) :
    (VTree.step s (.read r)).1 = s ∧ (VTree.step s (.immRead ver r)).1 = s ∧
    (VTree.step s (.getVersioned k ver)).1 = s ∧ (VTree.step s (.versionExists ver)).1 = s ∧
    (VTree.step s .available).1 = s ∧ (VTree.step s .latest).1 = s := by
  refine ⟨rfl, ?_, rfl, rfl, rfl, rfl⟩
  simp only [VTree.step, VState.step]
  cases findVer s.versions ver <;> rfl

/-- **the root hash binds the contents**: two trees within the 64-bit magnitudes of the encoding that
    hash to the same root hold the same pairs in the same order (indeed the same shape, heights, sizes and
    node versions - only the unhashed routing keys may differ), or an explicit collision of `H` is
    exhibited. Two histories ending in the same root hash therefore end in the same contents. -/
theorem root_hash_binds_contents (hH : ∀ x, (H x).length = 32) (working : Nat) (a b : Node Bytes Bytes)
    (ha : Bounded working a) (hb : Bounded working b) (hka : KeysBounded a) (hkb : KeysBounded b)
    (heq : hashNode H working a = hashNode H working b) :
    a.toList = b.toList ∨ Collision H :=
  hash_binds_contents H hH working a b ha hb hka hkb heq

/-- the hash has the size the on-disk format and ICS-23 assume -/
theorem hash_size : Facts.hashSize = 32 := Facts.codec_ok.1

/-- non-vacuity: a closed working tree -/
example : Closed (.inner [2] 1 2 none (.leaf [1] [1] (some 1)) (.leaf [2] [2] none) : Node Bytes Bytes) := by
  simp [Closed]

end Iavl.Props.C02
