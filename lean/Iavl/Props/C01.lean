import Iavl.Lemmas.Refine
import Iavl.Generated.FactsOk
/-
  C01 — versioned key-value semantics: every read matches a versioned-map model.

  `VMap` (one sorted association list per committed version plus a working list) is the "plain
  versioned map" of the property text; `VTree` is the same version machine over IAVL+ trees with the
  Go algorithms `recursiveSet`, `recursiveRemove`, `balance`, `get`, `has`, `getByIndex`, the pruned
  range walk of `traversal.next`, and `saveNewNodes`' version assignment.
-/
namespace Iavl.Props.C01
open Iavl Std
variable {K V : Type} [Ord K] [BEq K] [TransOrd K] [LawfulEqOrd K]

/-- **Main theorem.** For every finite history over Set / Remove / SaveVersion (also onto an existing
    version) / Rollback / LoadVersion / LoadVersionForOverwriting / DeleteVersionsTo /
    DeleteVersionsFrom / reopen (any InitialVersion option) and every read of the working tree and of
    any retained version (lookup by key, by rank, existence, size, ordered range in both directions,
    versioned lookup, VersionExists, AvailableVersions, latest), started from an empty store, the
    tree machine gives exactly the answers of the versioned map. Holds for every key type with a
    lawful total order (byte strings in particular), every value type, every initial version. -/
theorem history_refines (iv : Option Nat) (ops : List (Op K V)) :
    runTree (initT iv : VState (OTree K V)) ops = runMap (initM iv) ops :=
  fresh_history_refines iv ops

/-- the same from any state whose trees are ordered, routing-minimal and AVL (the invariant is
    preserved by every step, see `step_keeps_invariant`) -/
theorem history_refines_from (vt : VState (OTree K V)) (h : Inv vt) (ops : List (Op K V)) :
    runTree vt ops = runMap (absS vt) ops :=
  runTree_eq_runMap vt h ops

theorem step_keeps_invariant (vt : VState (OTree K V)) (h : Inv vt) (op : Op K V) :
    Inv (VTree.step vt op).1 :=
  (step_refines vt h op).2

/-- every read path on one tree = the sorted map of its contents -/
theorem read_any_tree (c : OTree K V) (hg : GoodO c) (r : ReadOp K) :
    readTree c r = readMap (contents c) r :=
  (read_refines c hg r).symm

/-- `Set` reports whether the key existed, and the new contents are the sorted insertion -/
theorem set_spec (t : Node K V) (k : K) (v : V) (ho : Ordered t) (hr : RoutingMin t) :
    (t.set k v).1.toList = insertSorted k v t.toList ∧
    ((t.set k v).2 = true ↔ lookup k t.toList ≠ none) :=
  ⟨(set_ok t k v ho hr).list, (set_ok t k v ho hr).upd⟩

/-- `Remove` of an absent key changes nothing; of a present key it reports the previous value and
    the new contents are the sorted erasure -/
theorem remove_spec (t : Node K V) (k : K) (ho : Ordered t) (hr : RoutingMin t) :
    RemOK t k (t.remove k) :=
  remove_ok t k ho hr

/-- non-vacuity: a concrete two-version history on byte strings, answered identically -/
example :
    runTree (initT none : VState (OTree Bytes Bytes))
      [.set [1] [10], .set [2] [20], .save false, .remove [1], .read (.get [1]), .immRead 1 (.get [1]), .available]
    = runMap (initM none)
      [.set [1] [10], .set [2] [20], .save false, .remove [1], .read (.get [1]), .immRead 1 (.get [1]), .available] :=
  history_refines none _

end Iavl.Props.C01
