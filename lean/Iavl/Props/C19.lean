import Iavl.Lemmas.V2EvictCorrect
import Iavl.Lemmas.V2Touch
import Iavl.Lemmas.V2Saved
import Iavl.Lemmas.GetRank
import Iavl.Generated.SrcC19Ok
/-
  C19 — v2 computes the same tree as v1. v2's `recursiveSet` / `recursiveRemove` / `balance` are ports of
  v1's and are compared with the proved v1 model (C01, C02) by translation validation. What v2 adds to
  the read path, and what the property quantifies over as "every combination of leaf eviction (height
  filter) and eviction depth", is proved here on `Model/V2Evict.lean`: dropping child pointers after
  hashing and fetching them back by node key is invisible to every read, for EVERY eviction rule, the
  rule of `deepHash` in particular, as long as the evicted nodes were written first.
  Not modelled: the node pool, SQLite and its shards (the store is a function from node keys).
-/
namespace Iavl.Props.C19
open Iavl Std

variable {K V : Type}

/-- **eviction is invisible** (any rule): a tree all of whose nodes the store can answer gives, after any
    eviction from any depth, the lookups (value and index), existence tests, size, contents and forward /
    reverse / inclusive range walks of the tree that was never evicted - no fetch fails -/
theorem eviction_is_invisible [Ord K] (st : Nat → Option (Node K V)) (ref : Node K V → Nat)
    (policy : Nat → Node K V → Bool) (d : Nat) (t : Node K V) (hs : Saved st ref t) :
    (evict policy ref d t).resolve st = some t ∧
    (∀ key, (evict policy ref d t).get st key = some (t.get key)) ∧
    (∀ key, (evict policy ref d t).has st key = some (t.has key)) ∧
    (evict policy ref d t).size st = some t.size ∧
    (evict policy ref d t).toList st = some t.toList ∧
    (∀ s e asc incl, (evict policy ref d t).range st s e asc incl = some (t.range s e asc incl)) :=
  ⟨resolve_evict st ref policy t d hs, fun key => get_evict st ref policy key t d hs,
   fun key => has_evict st ref policy key t d hs, size_evict st ref policy t d,
   toList_evict st ref policy t d hs, fun s e asc incl => range_evict st ref policy s e asc incl t d hs⟩

/-- **every option combination**: with the rule of `deepHash` as written - leaves dropped when the height
    filter is positive, all children of nodes at or below the eviction depth dropped on a checkpoint - for
    every height filter, every eviction depth, checkpoint or not, a lookup through the evicted tree answers
    the rank and value of the sorted map of the tree's contents (C01's specification) -/
theorem v2_lookup_under_every_eviction_setting [Ord K] [BEq K] [TransOrd K] [LawfulEqOrd K]
    (heightFilter evictionDepth : Nat) (shouldCheckpoint : Bool)
    (st : Nat → Option (Node K V)) (ref : Node K V → Nat) (t : Node K V)
    (hs : Saved st ref t) (ho : Ordered t) (hz : SizeOK t) (key : K) :
    (evict (v2Policy heightFilter shouldCheckpoint evictionDepth) ref 0 t).get st key
      = some (rank key t.toList, lookup key t.toList) := by
  rw [get_evict st ref _ key t 0 hs, get_eq t key ho hz]

/-- ... and the iterators: forward, reverse, inclusive or not, any bounds -/
theorem v2_iteration_under_every_eviction_setting [Ord K]
    (heightFilter evictionDepth : Nat) (shouldCheckpoint : Bool)
    (st : Nat → Option (Node K V)) (ref : Node K V → Nat) (t : Node K V) (hs : Saved st ref t)
    (s e : Option K) (asc incl : Bool) :
    (evict (v2Policy heightFilter shouldCheckpoint evictionDepth) ref 0 t).range st s e asc incl
      = some (t.range s e asc incl) :=
  range_evict st ref _ s e asc incl t 0 hs

/-- **reads re-load, invisibly**: `getLeftNode` / `getRightNode` keep the fetched child in the parent, so every
    lookup changes the in-memory tree (`ENode.touch`: stubs on the search path become nodes whose other children are
    stubs again). After any eviction and ANY sequence of lookups the in-memory tree still re-hydrates to `t`, and the
    next lookup and the next range walk answer as `t` does: "the exact sequence of touches" does not matter -/
theorem any_sequence_of_touches_is_invisible [Ord K] (st : Nat → Option (Node K V)) (ref : Node K V → Nat)
    (policy : Nat → Node K V → Bool) (d : Nat) (t : Node K V) (hs : Saved st ref t) (touched : List K) :
    let e := touched.foldl (fun e k => e.touch st ref k) (evict policy ref d t)
    e.resolve st = some t ∧
    (∀ key, e.get st key = some (t.get key)) ∧
    (∀ s en asc incl, e.range st s en asc incl = some (t.range s en asc incl)) := by
  intro e
  have hb := backed_evict st ref policy t d hs
  have hr : e.resolve st = some t :=
    (resolve_touches st ref touched _ hb).1.trans (resolve_evict st ref policy t d hs)
  exact ⟨hr, fun key => get_of_resolve st key e hr, fun s en asc incl => range_of_resolve st s en asc incl e hr⟩

/-- **write, then evict**: where the hypothesis comes from. A checkpoint writes every node of the tree under its node
    key (`writeAll`, over any earlier store); if the node keys are unique within the tree - what the per-version
    `leafSequence` / `branchSequence` allocation is for - then after any eviction and any lookups every read answers
    as the tree does -/
theorem write_then_evict_is_invisible [Ord K] (st : Nat → Option (Node K V)) (ref : Node K V → Nat)
    (policy : Nat → Node K V → Bool) (d : Nat) (t : Node K V) (hu : UniqueKeys ref t) (touched : List K) :
    let st' := writeAll st ref t
    let e := touched.foldl (fun e k => e.touch st' ref k) (evict policy ref d t)
    (∀ key, e.get st' key = some (t.get key)) ∧
    (∀ s en asc incl, e.range st' s en asc incl = some (t.range s en asc incl)) :=
  (any_sequence_of_touches_is_invisible (writeAll st ref t) ref policy d t (saved_writeAll st ref t hu) touched).2

/-- ... and uniqueness is needed: two leaves allocated the same node key, both evicted - the lookup of the second
    answers with the first (a node key handed out twice / a sequence counter not advanced) -/
theorem colliding_node_keys_corrupt_reads :
    let t : Node Bytes Bytes := .inner [98] 1 2 (some 1) (.leaf [97] [1] (some 1)) (.leaf [98] [2] (some 1))
    let ref : Node Bytes Bytes → Nat := fun n => match n with | .leaf .. => 5 | .inner .. => 1
    (evict (v2Policy 1 false 0) ref 0 t).get (writeAll (fun _ => none) ref t) [98] = some (2, none) ∧
    t.get [98] = (1, some [2]) := by
  decide

/-- the hypothesis is needed: evicting a node that was never written loses it (the failure mode of
    returning a dirty leaf to the pool / evicting before the write) - the fetch fails instead of answering -/
theorem unsaved_eviction_fails :
    let t : Node Bytes Bytes := .inner [98] 1 2 none (.leaf [97] [1] none) (.leaf [98] [2] none)
    (evict (v2Policy 1 false 0) (fun _ => 0) 0 t).get (fun _ => none) [97] = none := by
  decide

/-- non-vacuity: a three-leaf tree saved under distinct references, height filter 1: both children of the
    inner left node and the right leaf are stubs, and every read still answers -/
example :
    let ll : Node Bytes Bytes := .leaf [97] [1] (some 1)
    let lr : Node Bytes Bytes := .leaf [98] [2] (some 1)
    let l  : Node Bytes Bytes := .inner [98] 1 2 (some 1) ll lr
    let r  : Node Bytes Bytes := .leaf [99] [3] (some 1)
    let t  : Node Bytes Bytes := .inner [99] 2 3 (some 1) l r
    let ref : Node Bytes Bytes → Nat := fun n => match n with
      | .leaf k _ _ => k.headD 0 |>.toNat | .inner k h _ _ _ _ => 1000 * h + (k.headD 0).toNat
    let st : Nat → Option (Node Bytes Bytes) := fun n =>
      if n = 97 then some ll else if n = 98 then some lr else if n = 99 then some r
      else if n = 1098 then some l else if n = 2099 then some t else none
    (evict (v2Policy 1 false 0) ref 0 t).get st [98] = some (1, some [2]) ∧
    (evict (v2Policy 1 true 0) ref 0 t).range st none none false false = some [([99], [3]), ([98], [2]), ([97], [1])] ∧
    (((evict (v2Policy 1 true 0) ref 0 t).touch st ref [97]).touch st ref [99]).get st [98] = some (1, some [2]) := by
  decide

end Iavl.Props.C19
