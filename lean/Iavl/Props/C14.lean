import Iavl.Lemmas.Versions
import Iavl.Lemmas.Contig
import Iavl.Lemmas.ContigHistory
import Iavl.Model.FirstVersion
import Iavl.Generated.FactsOk
/-
  C14 — version bookkeeping and API contract.
-/
namespace Iavl.Props.C14
open Iavl Std
variable {K V C : Type} (ct : Content K V C)

theorem queries_agree (s : VState C) (v : Nat) :
    ((s.step ct (.versionExists v)).2 = .bool (findVer s.versions v).isSome) ∧
    ((s.step ct .available).2 = .versions (s.versions.map (·.1))) ∧
    ((s.step ct .latest).2 = .nat (latestVer s.versions)) :=
  version_queries_agree ct s v

theorem commit_existing (s : VState C) (same : Bool) (c : C) (h : findVer s.versions s.workingVersion = some c) :
    (s.step ct (.save same)).1.versions = s.versions ∧
    ((s.step ct (.save same)).2 = if same then .version s.workingVersion else .err) :=
  save_existing ct s same c h

theorem commit_new (s : VState C) (same : Bool) (h : findVer s.versions s.workingVersion = none)
    (hl : latestVer s.versions < s.workingVersion) :
    (s.step ct (.save same)).1.versions = s.versions ++ [(s.workingVersion, ct.commit s.workingVersion s.working)] ∧
    (s.step ct (.save same)).2 = .version s.workingVersion :=
  save_new ct s same h hl

theorem load_outside_fails (s : VState C) (target : Nat) (h : s.load target = none) :
    s.step ct (.load target) = (s, .err) := load_missing_fails ct s target h

theorem read_outside_fails (s : VState C) (ver : Nat) (r : ReadOp K) (h : findVer s.versions ver = none) :
    s.step ct (.immRead ver r) = (s, .err) := immRead_missing_fails ct s ver r h

/-- the first-version discovery (binary search over "has a root key") returns the oldest version
    whenever that predicate is monotone on the searched interval — which the re-keying of deleted
    roots (K2 repair) maintains -/
theorem first_version_search (has : Nat → Bool) (first latest f : Nat)
    (hf1 : first ≤ f) (hf2 : f ≤ latest)
    (hmono : ∀ v, first ≤ v → v ≤ latest → (has v = true ↔ f ≤ v)) :
    searchFirst has first latest = f :=
  searchFirst_correct has first latest f hf1 hf2 hmono

/-- the available versions stay a contiguous range: a commit onto an existing number adds nothing;
    at the tip (the tree positioned on the latest version, or nothing committed yet) it appends
    `latest + 1` — or the configured initial version as the very first commit -/
theorem commit_keeps_range_contiguous (s : VState C) (same : Bool) (h : Contig (verNums s))
    (hpos : ∀ v ∈ verNums s, 0 < v)
    (htip : findVer s.versions s.workingVersion = none → AtTip s) :
    Contig (verNums (s.step ct (.save same)).1) :=
  save_keeps_contig ct s same h hpos htip

/-- … and deletions of old versions, rollbacks and deletions from a version upwards keep it contiguous -/
theorem delete_keeps_range_contiguous (s : VState C) (n : Nat) (h : Contig (verNums s)) :
    Contig (verNums (s.step ct (.prune n)).1) ∧ Contig (verNums (s.step ct (.delfrom n)).1) ∧
    Contig (verNums (s.step ct (.loadow n)).1) :=
  ⟨prune_keeps_contig ct s n h, delfrom_keeps_contig ct s n h, loadow_keeps_contig ct s n h⟩

/-- **for every history**: in every state the version machine reaches from an empty store the available
    versions are a contiguous range of positive numbers and the tree object is positioned at or below
    the latest one — provided no step is one of the two documented misuses (`OpOk`: a bare
    `DeleteVersionsFrom` that removes the version the object is positioned on while older versions survive;
    a first commit through a never-loaded object on a non-empty store with an initial version beyond
    latest + 1). Rollbacks that delete *every* version, pruning of the loaded version, reopening with any
    option and failed loads are all inside the quantifier. -/
theorem versions_contiguous_in_every_history (iv : Option Nat) (ops : List (Op K V))
    (hok : RunOk ct { versions := [], working := ct.empty, lastSaved := ct.empty, base := 0,
                      ivOpt := iv.getD 0, ivSet := iv.isSome } ops) :
    let s := VState.run ct { versions := [], working := ct.empty, lastSaved := ct.empty, base := 0,
                             ivOpt := iv.getD 0, ivSet := iv.isSome } ops
    Contig (verNums s) ∧ (∀ v ∈ verNums s, 0 < v) ∧ (s.versions = [] ∨ s.base ≤ latestVer s.versions) := by
  have h := run_cinv ct _ ⟨by simp [verNums, Contig], by intro v hv; simp [verNums] at hv, Or.inl rfl⟩ ops hok
  exact ⟨h.contig, h.pos, h.tip⟩

/-- the side conditions are met by a non-trivial history (initial version 5; commits, a rollback that
    deletes everything, a reopen, pruning of the loaded version) and the outcome is what the theorem says -/
example :
    let ops : List (Op Nat Nat) := [.set 1 1, .save true, .set 2 2, .save true, .save true, .load 5, .prune 5,
      .delfrom 6, .reopen (some 5) 0, .set 3 3, .save true, .save true]
    RunOk (mapContent (K := Nat) (V := Nat)) (initM (some 5)) ops ∧
      verNums (VState.run mapContent (initM (some 5)) ops) = [5, 6] := by
  refine ⟨?_, by decide⟩
  simp only [RunOk, OpOk, and_true, true_and]
  refine ⟨?_, ?_, ?_, ?_, ?_, ?_⟩ <;> decide

theorem numbering : Facts.genesisVersion = 1 := Facts.numbering_ok.1

end Iavl.Props.C14
