import Iavl.Lemmas.Versions
import Iavl.Lemmas.Orphans2
import Iavl.Generated.FactsOk
import Iavl.Lemmas.VersionSharingN
import Iavl.Lemmas.PruneSafe
/-
  C04 — pruning safety. Two layers: (a) the version machine (the behaviour the API must show, equal
  for the versioned map and the tree machine by C01): a deletion up to `n` removes exactly the
  versions ≤ n and is rejected when it would remove the latest; (b) the storage layer: the set of
  nodes `deleteVersion` removes (the two-cursor diff of `traverseOrphans`) is exactly the nodes of
  version v that version v+1 does not use — so no node of a later version is deleted.
-/
namespace Iavl.Props.C04
open Iavl Std
variable {K V C : Type} (ct : Content K V C)

theorem delete_latest_rejected (s : VState C) (n : Nat) (h : latestVer s.versions ≤ n) :
    s.step ct (.prune n) = (s, .err) := prune_rejected ct s n h

theorem later_versions_unchanged (s : VState C) (n : Nat) (h : ¬ latestVer s.versions ≤ n) (w : Nat) :
    findVer (s.step ct (.prune n)).1.versions w = if n < w then findVer s.versions w else none :=
  prune_effect ct s n h w

theorem working_state_unchanged (s : VState C) (n : Nat) :
    (s.step ct (.prune n)).1.working = s.working ∧ (s.step ct (.prune n)).1.base = s.base :=
  prune_keeps_working ct s n

section storage
variable {K V : Type} [Ord K] [TransOrd K] [LawfulEqOrd K] [DecidableEq K] [DecidableEq V]
/-- the orphan computation: for the tree `T` of version v and `T'` of version v+1 (both ordered),
    under the sharing invariant that `set`/`remove` establish (every node of `T'` persisted at or
    before v is a subtree of `T`), the diff returns exactly the nodes of `T` that do not occur in
    `T'` and consumes every shared root -/
theorem orphans_exact (v : Nat) (T T' : Node K V) (hT : Ordered T) (hT' : Ordered T')
    (hle : AllLe v T) (hshare : ∀ s ∈ sharedRoots v T', Sub s T) :
    diff T (sharedRoots v T') = ((pre T).filter (fun n => decide (¬ Sub n T')), []) :=
  orphans_correct v T T' hT hT' hle hshare

/-- **for every history**: in every state the version machine reaches from an empty store, for every two
    consecutive retained versions `u`, `u+1` with non-empty trees `T`, `T'`, the orphan diff that
    `deleteVersion(u)` computes returns exactly the nodes of `T` that do not occur in `T'` (pre-order) and
    consumes every shared root: no node a later version needs is deleted, no node only `u` used is left.
    The hypotheses of `orphans_exact` are invariants of the machine (`step_ninv`: writes share saved
    subtrees, a commit stamps only new nodes, every node of version `u` is persisted at or before `u`). -/
theorem orphans_exact_of_every_history [BEq K] (iv : Option Nat) (ops : List (Op K V)) (u : Nat) (T T' : Node K V)
    (h1 : (u, some T) ∈ (stateAfter (initT iv) ops).versions)
    (h2 : (u + 1, some T') ∈ (stateAfter (initT iv) ops).versions) :
    diff T (sharedRoots u T') = ((pre T).filter (fun n => decide (¬ Sub n T')), []) := by
  have hn := stateAfter_ninv (initT iv : VState (OTree K V)) (ninv_init iv) ops
  have hi := stateAfter_inv (initT iv : VState (OTree K V))
    ⟨trivial, trivial, by intro q hq; simp [initT] at hq⟩ ops
  have gT : Good T := hi.gv _ h1
  have gT' : Good T' := hi.gv _ h2
  refine orphans_correct u T T' gT.1 gT'.1 (hn.allLe _ h1) ?_
  intro s hs
  exact hn.pairs u (some T) (some T') h1 h2 s (sharedRoots_sub u T' s hs) (sharedRoots_sharedAt u T' s hs)
/-- **no later version needs what pruning deletes, in every history.** `orphans_exact_of_every_history`
    says the deleted set for version `u` is "the nodes of `u` that `u+1` does not use"; this closes the gap to
    the property's wording: such a node is used by **no** retained version above `u`, in every state reached
    from an empty store by a history free of the two documented misuses (`OpOk`, see C14). -/
theorem pruned_nodes_needed_by_no_later_version [BEq K] (iv : Option Nat) (ops : List (Op K V))
    (hok : RunOk treeContent (initT iv : VState (OTree K V)) ops) (u w : Nat) (T : Node K V) (c' c : OTree K V)
    (h1 : (u, some T) ∈ (stateAfter (initT iv) ops).versions)
    (h2 : (u + 1, c') ∈ (stateAfter (initT iv) ops).versions)
    (hw : (w, c) ∈ (stateAfter (initT iv) ops).versions) (huw : u + 1 ≤ w)
    (n : Node K V) (hn : Sub n T) (hnot : ¬ SubO n c') : ¬ SubO n c :=
  pruned_unused_in_every_history iv ops hok u w T c' c h1 h2 hw huw n hn hnot

end storage

end Iavl.Props.C04
