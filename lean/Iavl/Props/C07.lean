import Iavl.Model.Merge
import Iavl.Lemmas.Refine
import Iavl.Generated.FactsOk
/-
  C07 — fast index coherence. What is proved: the merge of persisted index and uncommitted overlay
  (`UnsavedFastIterator`) yields exactly the overlaid state; the answers the index must give are those
  of the tree walk, which are those of the versioned map (C01). The byte-level index machine
  (label, rebuild decision) is tied by correspondence only (see DESIGN.md §5 C07).
-/
namespace Iavl.Props.C07
open Iavl Std
set_option linter.unusedSectionVars false
variable {K V : Type} (cmp : K → K → Ordering) [TransCmp cmp] [LawfulEqCmp cmp]

theorem overlay_members (rem : K → Bool) (disk adds : List (K × V))
    (hd : SortedBy cmp disk) (ha : SortedBy cmp adds) (p : K × V) :
    p ∈ mergeNext cmp rem disk adds ↔
      p ∈ adds ∨ (p ∈ disk ∧ rem p.1 = false ∧ ∀ a ∈ adds, cmp p.1 a.1 ≠ .eq) :=
  mem_mergeNext cmp rem disk adds hd ha p

theorem overlay_sorted (rem : K → Bool) (disk adds : List (K × V))
    (hd : SortedBy cmp disk) (ha : SortedBy cmp adds) : SortedBy cmp (mergeNext cmp rem disk adds) :=
  sorted_mergeNext cmp rem disk adds hd ha

theorem label_constants :
    Facts.storageVersionKey = "storage_version" ∧ Facts.fastStorageVersionDelimiter = "-" ∧
    Facts.defaultStorageVersionValue = "1.0.0" ∧ Facts.fastStorageVersionValue = "1.1.0" := Facts.label_ok

end Iavl.Props.C07
