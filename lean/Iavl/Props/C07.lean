import Iavl.Model.Merge
import Iavl.Lemmas.Refine
import Iavl.Generated.FactsOk
import Iavl.Lemmas.FastIndexCorrect
import Iavl.Lemmas.IndexMachineReads
/-
  C07 — fast index coherence. What is proved: the merge of persisted index and uncommitted overlay
  (`UnsavedFastIterator`) yields exactly the overlaid state; the answers the index must give are those
  of the tree walk, which are those of the versioned map (C01); and, over whole histories of writes,
  commits and discards, the index with its overlay (`unsavedFastNodeAdditions` / `Removals`, Model/FastIndex.lean)
  answers lookups like the working map, iterates the working contents, and holds exactly the last committed
  contents (`index_overlay_coherent`). The byte-level index machine (label, rebuild decision) is tied by
  correspondence only (see DESIGN.md §5 C07).
-/
namespace Iavl.Props.C07
open Iavl Std
set_option linter.unusedSectionVars false
variable {K V : Type} (cmp : K → K → Ordering) [TransCmp cmp] [LawfulEqCmp cmp]

theorem overlay_members (rem : K → Bool) (disk adds : List (K × V))
    (hd : SortedBy cmp disk) (ha : SortedBy cmp adds) (p : K × V) :
    p ∈ mergeNext cmp rem disk adds ↔
      p ∈ adds ∨ (p ∈ disk ∧ rem p.1 = false ∧ ∀ a ∈ adds, cmp p.1 a.1 ≠ .eq) :=
  mem_mergeNext cmp rem disk adds hd ha p

theorem overlay_sorted (rem : K → Bool) (disk adds : List (K × V))
    (hd : SortedBy cmp disk) (ha : SortedBy cmp adds) : SortedBy cmp (mergeNext cmp rem disk adds) :=
  sorted_mergeNext cmp rem disk adds hd ha

section overlay
variable {K V : Type} [Ord K] [TransOrd K] [LawfulEqOrd K] [DecidableEq K]

/-- after any history of sets, removals (recorded only when the key existed), commits and discards
    (Rollback / LoadVersion): `Get` through additions, removals and persisted entries equals the lookup in
    the working map; the merge iterator yields the working contents; the persisted entries are the last
    committed contents -/
theorem index_overlay_coherent (ops : List (FOp K V)) :
    let s := ops.foldl FMach.step (FMach.init : FMach K V)
    (∀ k, s.fs.get k = lookup k s.working) ∧
    mergeNext compare (fun k => decide (k ∈ s.fs.rems)) s.fs.index s.fs.adds = s.working ∧
    s.fs.index = s.committed := index_coherent ops

/-- non-vacuity: a concrete history whose index state is not trivial -/
example : let s := ([.set 1 10, .set 2 20, .save, .remove 1, .set 3 30] : List (FOp Nat Nat)).foldl FMach.step FMach.init
    s.fs.index = [(1, 10), (2, 20)] ∧ s.fs.adds = [(3, 30)] ∧ s.fs.rems = [1] ∧ s.working = [(2, 20), (3, 30)] := by decide
end overlay

section machine
variable {K V : Type} [Ord K] [TransOrd K] [LawfulEqOrd K] [DecidableEq K]

/-- **every answer served through the index equals the tree walk, in every history.** `IxSt`
    (Model/IndexMachine.lean) is the index as a machine over whole histories: persisted entries with their
    "version last updated", the label, the per-object overlay, the rebuild decision of
    `enableFastStorageAndCommitIfNotEnabled`, the version guards of `ImmutableTree.Get` and `GetVersioned`,
    `IsFastCacheEnabled`; each (re)open chooses independently whether the object maintains the index (`Bool`
    beside each operation), which version to load, and the initial version. For every history from an empty
    store whose steps meet the side conditions `IxOk` (those of C14, no hash collision on an identical
    re-commit, a maintaining object commits only when positioned on a retained version), in the state
    reached:
    * `MutableTree.Get` = the lookup in the working contents and `MutableTree.Iterator` yields the working
      contents (object positioned on a retained version, or never loaded on an empty store);
    * `GetVersioned` and `GetImmutable(v).Get` = the lookup in the contents of `v`, for every retained `v`
      (object loaded, or the store empty).
    The right-hand sides are the answers of the tree walk by C01 (`history_refines`, `read_any_tree`). -/
theorem indexed_reads_equal_walk_in_every_history (iv : Option Nat) (mode : Bool) (ops : List (Bool × Op K V))
    (hok : IxRunOk (IxSt.init iv mode : IxSt K V) ops) :
    let s := (IxSt.init iv mode : IxSt K V).run ops
    (Positioned s → ∀ k, s.get k = lookup k s.vs.working) ∧
    (Positioned s → s.iterate = s.vs.working) ∧
    (Ready s → ∀ k ver, s.getVersioned k ver = (findVer s.vs.versions ver).bind (fun c => lookup k c)) ∧
    (Ready s → ∀ b c, (b, c) ∈ s.vs.versions → ∀ k, s.immGet b c k = lookup k c) := by
  have h := run_iinv _ (iinv_init iv mode) ops hok
  refine ⟨fun hp k => ix_get_eq _ h hp k, fun hp => ix_iterate_eq _ h hp,
    fun hr k ver => ix_getVersioned_eq _ h hr k ver, ?_⟩
  intro hr b c hm k
  refine immGet_retained _ h ?_ b c hm k
  intro hfast
  rcases hr hfast with hb | he
  · exact h.fastLabel hfast hb
  · rw [he] at hm; cases hm

/-- **after any commit or open the persistent index describes exactly the latest version**: in every state
    reached, whenever the tree object maintains the index and has been loaded or has committed (`base ≠ 0`),
    the label names the latest version and the persisted entries are exactly its contents; and whoever
    opened the store, a label that names the latest version is never wrong about the entries. -/
theorem index_describes_latest_in_every_history (iv : Option Nat) (mode : Bool) (ops : List (Bool × Op K V))
    (hok : IxRunOk (IxSt.init iv mode : IxSt K V) ops) :
    let s := (IxSt.init iv mode : IxSt K V).run ops
    (s.fast = true → s.vs.base ≠ 0 →
      s.label = some (latestVer s.vs.versions) ∧ proj s.index = latestCV s.vs.versions) ∧
    (s.label = some (latestVer s.vs.versions) → proj s.index = latestCV s.vs.versions) := by
  have h := run_iinv _ (iinv_init iv mode) ops hok
  exact ⟨fun hf hb => ⟨h.fastLabel hf hb, index_is_latest _ h (h.fastLabel hf hb)⟩, fun hl => index_is_latest _ h hl⟩

theorem none_case {α : Type} {o : Option α} (h : o = none) (P : α → Prop) : ∀ c, o = some c → P c := by
  intro c hc; rw [h] at hc; cases hc

/-- non-vacuity: commits with the index, a reopen without it and a commit that leaves the index behind, a
    reopen with it (rebuild), a rollback; the side conditions hold and the outcome is the expected one -/
def exampleOps : List (Bool × Op Nat Nat) :=
  [(true, .set 1 10), (true, .save true), (true, .set 2 20), (true, .remove 1), (true, .save true),
   (false, .reopen none 0), (false, .set 3 30), (false, .save true),
   (true, .reopen none 0), (true, .set 4 40), (true, .loadow 2), (true, .set 5 50)]

example : IxRunOk (IxSt.init none true : IxSt Nat Nat) exampleOps := by
  simp only [exampleOps, IxRunOk, IxOk, OpOk, and_true, true_and]
  exact ⟨⟨by decide, fun _ => none_case (by decide) _, fun _ => Or.inr ⟨by decide, by decide, Or.inr (by decide)⟩⟩,
    ⟨by decide, fun _ => none_case (by decide) _, fun _ => Or.inl ⟨[(1, 10)], by decide⟩⟩,
    ⟨by decide, fun _ => none_case (by decide) _, fun h => absurd h (by decide)⟩⟩

example :
    let s := (IxSt.init none true : IxSt Nat Nat).run exampleOps
    s.label = some 2 ∧ s.index = [(2, (20, 2))] ∧ s.adds = [(5, (50, 3))] ∧ s.get 5 = some 50 ∧ s.get 3 = none ∧
      s.vs.working = [(2, 20), (5, 50)] ∧ s.fastEnabled = true := by decide

end machine

theorem label_constants :
    Facts.storageVersionKey = "storage_version" ∧ Facts.fastStorageVersionDelimiter = "-" ∧
    Facts.defaultStorageVersionValue = "1.0.0" ∧ Facts.fastStorageVersionValue = "1.1.0" := Facts.label_ok

end Iavl.Props.C07
