import Iavl.Model.Merge
import Iavl.Lemmas.Refine
import Iavl.Generated.FactsOk
import Iavl.Lemmas.FastIndexCorrect
/-
  C07 — fast index coherence. What is proved: the merge of persisted index and uncommitted overlay
  (`UnsavedFastIterator`) yields exactly the overlaid state; the answers the index must give are those
  of the tree walk, which are those of the versioned map (C01); and, over whole histories of writes,
  commits and discards, the index with its overlay (`unsavedFastNodeAdditions` / `Removals`, Model/FastIndex.lean)
  answers lookups like the working map, iterates the working contents, and holds exactly the last committed
  contents (`index_overlay_coherent`). The byte-level index machine (label, rebuild decision) is tied by
  correspondence only (see DESIGN.md §5 C07).
-/
namespace Iavl.Props.C07
open Iavl Std
set_option linter.unusedSectionVars false
variable {K V : Type} (cmp : K → K → Ordering) [TransCmp cmp] [LawfulEqCmp cmp]

theorem overlay_members (rem : K → Bool) (disk adds : List (K × V))
    (hd : SortedBy cmp disk) (ha : SortedBy cmp adds) (p : K × V) :
    p ∈ mergeNext cmp rem disk adds ↔
      p ∈ adds ∨ (p ∈ disk ∧ rem p.1 = false ∧ ∀ a ∈ adds, cmp p.1 a.1 ≠ .eq) :=
  mem_mergeNext cmp rem disk adds hd ha p

theorem overlay_sorted (rem : K → Bool) (disk adds : List (K × V))
    (hd : SortedBy cmp disk) (ha : SortedBy cmp adds) : SortedBy cmp (mergeNext cmp rem disk adds) :=
  sorted_mergeNext cmp rem disk adds hd ha

section overlay
variable {K V : Type} [Ord K] [TransOrd K] [LawfulEqOrd K] [DecidableEq K]

/-- after any history of sets, removals (recorded only when the key existed), commits and discards
    (Rollback / LoadVersion): `Get` through additions, removals and persisted entries equals the lookup in
    the working map; the merge iterator yields the working contents; the persisted entries are the last
    committed contents -/
theorem index_overlay_coherent (ops : List (FOp K V)) :
    let s := ops.foldl FMach.step (FMach.init : FMach K V)
    (∀ k, s.fs.get k = lookup k s.working) ∧
    mergeNext compare (fun k => decide (k ∈ s.fs.rems)) s.fs.index s.fs.adds = s.working ∧
    s.fs.index = s.committed := index_coherent ops

/-- non-vacuity: a concrete history whose index state is not trivial -/
example : let s := ([.set 1 10, .set 2 20, .save, .remove 1, .set 3 30] : List (FOp Nat Nat)).foldl FMach.step FMach.init
    s.fs.index = [(1, 10), (2, 20)] ∧ s.fs.adds = [(3, 30)] ∧ s.fs.rems = [1] ∧ s.working = [(2, 20), (3, 30)] := by decide
end overlay

theorem label_constants :
    Facts.storageVersionKey = "storage_version" ∧ Facts.fastStorageVersionDelimiter = "-" ∧
    Facts.defaultStorageVersionValue = "1.0.0" ∧ Facts.fastStorageVersionValue = "1.1.0" := Facts.label_ok

end Iavl.Props.C07
