import Iavl.Model.Store
import Iavl.Lemmas.Orphans2
import Iavl.Lemmas.Sharing
import Iavl.Generated.FactsOk
/-
  C12 — storage holds exactly the nodes reachable from retained versions. The executable audit
  `auditDump` (Model/Store.lean) decides the property on a concrete database image; it is run on the
  implementation's raw storage after the steps of every generated history. What is proved here is
  the logical core that makes pruning delete exactly the unreachable nodes: the orphan diff and the
  sharing lemmas it rests on, and the codec law that makes the audit's decoder trustworthy.
-/
namespace Iavl.Props.C12
open Iavl Std
variable {K V : Type} [Ord K] [BEq K] [TransOrd K] [LawfulEqOrd K] [DecidableEq K] [DecidableEq V]

/-- what `deleteVersion` removes = the nodes of version v not used by version v+1 -/
theorem deleted_nodes_exact (v : Nat) (T T' : Node K V) (hT : Ordered T) (hT' : Ordered T')
    (hle : AllLe v T) (hshare : ∀ s ∈ sharedRoots v T', Sub s T) :
    diff T (sharedRoots v T') = ((pre T).filter (fun n => decide (¬ Sub n T')), []) :=
  orphans_correct v T T' hT hT' hle hshare

/-- the audit's node decoder inverts the encoder on every well-formed record -/
theorem audit_decoder_sound (n : NodeRec) (hwf : NodeWF n) : decNode (encNode n) = some n :=
  decNode_encNode n hwf

theorem keyspace : Facts.nodeKeyPrefix = 115 ∧ Facts.fastKeyPrefix = 102 ∧ Facts.metadataKeyPrefix = 109 :=
  ⟨Facts.keyspace_ok.1, Facts.keyspace_ok.2.1, Facts.keyspace_ok.2.2.1⟩

end Iavl.Props.C12
