import Iavl.Model.Store
import Iavl.Lemmas.Orphans2
import Iavl.Lemmas.Sharing
import Iavl.Generated.FactsOk
import Iavl.Lemmas.VersionSharingN
import Iavl.Lemmas.PruneSafe
import Iavl.Lemmas.RootRecordsInv
/-
  C12 — storage holds exactly the nodes reachable from retained versions. The executable audit
  `auditDump` (Model/Store.lean) decides the property on a concrete database image; it is run on the
  implementation's raw storage after the steps of every generated history. What is proved here is
  the logical core that makes pruning delete exactly the unreachable nodes: the orphan diff and the
  sharing lemmas it rests on, and the codec law that makes the audit's decoder trustworthy.
-/
namespace Iavl.Props.C12
open Iavl Std
variable {K V : Type} [Ord K] [BEq K] [TransOrd K] [LawfulEqOrd K] [DecidableEq K] [DecidableEq V]

/-- what `deleteVersion` removes = the nodes of version v not used by version v+1 -/
theorem deleted_nodes_exact (v : Nat) (T T' : Node K V) (hT : Ordered T) (hT' : Ordered T')
    (hle : AllLe v T) (hshare : ∀ s ∈ sharedRoots v T', Sub s T) :
    diff T (sharedRoots v T') = ((pre T).filter (fun n => decide (¬ Sub n T')), []) :=
  orphans_correct v T T' hT hT' hle hshare

/-- the same for every reachable state of the version machine: between any two consecutive retained
    versions the deleted set is exactly the unreachable set (see C04 `orphans_exact_of_every_history`) -/
theorem deleted_nodes_exact_in_every_history (iv : Option Nat) (ops : List (Op K V)) (u : Nat) (T T' : Node K V)
    (h1 : (u, some T) ∈ (stateAfter (initT iv) ops).versions)
    (h2 : (u + 1, some T') ∈ (stateAfter (initT iv) ops).versions) :
    diff T (sharedRoots u T') = ((pre T).filter (fun n => decide (¬ Sub n T')), []) := by
  have hn := stateAfter_ninv (initT iv : VState (OTree K V)) (ninv_init iv) ops
  have hi := stateAfter_inv (initT iv : VState (OTree K V))
    ⟨trivial, trivial, by intro q hq; simp [initT] at hq⟩ ops
  have gT : Good T := hi.gv _ h1
  have gT' : Good T' := hi.gv _ h2
  refine orphans_correct u T T' gT.1 gT'.1 (hn.allLe _ h1) ?_
  intro s hs
  exact hn.pairs u (some T) (some T') h1 h2 s (sharedRoots_sub u T' s hs) (sharedRoots_sharedAt u T' s hs)

/-- every node of a retained version was persisted at or before that version, in every reachable state:
    a version never refers to a node of a later version -/
theorem versions_refer_backwards (iv : Option Nat) (ops : List (Op K V)) (u : Nat) (T : Node K V)
    (h1 : (u, some T) ∈ (stateAfter (initT iv) ops).versions) : AllLe u T :=
  (stateAfter_ninv (initT iv : VState (OTree K V)) (ninv_init iv) ops).allLe _ h1

/-- **no later version needs what pruning deletes, in every history.** `orphans_exact_of_every_history`
    says the deleted set for version `u` is "the nodes of `u` that `u+1` does not use"; this closes the gap to
    the property's wording: such a node is used by **no** retained version above `u`, in every state reached
    from an empty store by a history free of the two documented misuses (`OpOk`, see C14). -/
theorem pruned_nodes_needed_by_no_later_version (iv : Option Nat) (ops : List (Op K V))
    (hok : RunOk treeContent (initT iv : VState (OTree K V)) ops) (u w : Nat) (T : Node K V) (c' c : OTree K V)
    (h1 : (u, some T) ∈ (stateAfter (initT iv) ops).versions)
    (h2 : (u + 1, c') ∈ (stateAfter (initT iv) ops).versions)
    (hw : (w, c) ∈ (stateAfter (initT iv) ops).versions) (huw : u + 1 ≤ w)
    (n : Node K V) (hn : Sub n T) (hnot : ¬ SubO n c') : ¬ SubO n c :=
  pruned_unused_in_every_history iv ops hok u w T c' c h1 h2 hw huw n hn hnot

/-- the audit's node decoder inverts the encoder on every well-formed record -/
theorem audit_decoder_sound (n : NodeRec) (hwf : NodeWF n) : decNode (encNode n) = some n :=
  decNode_encNode n hwf

section roots
open Iavl.Roots
/-- **the root records stay right** (Model/RootRecords.lean: node keys (version, nonce), root record = the root
    node / a reference to an older node / the empty value, `deleteVersion` re-keying a root that is still used
    to nonce 0, the fallbacks of `GetRoot` and `GetNode`). In every state reached from the empty store by
    commits, deletions of the lowest version and rollbacks (`DeleteVersionsFrom`, also one that deletes every version): `GetRoot` resolves the root of every retained version to the
    key it is stored under, `GetNode` finds every node of every retained version through the key it was
    created under, and `hasVersion` (the predicate behind `VersionExists`, `AvailableVersions` and the
    first-version search of C14) holds exactly for the retained versions - so a deleted version is gone
    although its root may live on, and nothing a retained version needs is missing. -/
theorem root_records_right_in_every_history (s : Store) (w : World) (h : Reach s w) :
    (∀ v, w.retained v →
      getRoot s v = match w.root v with | none => .emptyTree | some id => .at (phys w.first id)) ∧
    (∀ v id, w.retained v → id ∈ w.nodes v → getNode s id = some (.node id)) ∧
    (∀ v, hasVersion s v = true ↔ w.retained v) :=
  have hi := reach_inv s w h
  ⟨fun v hv => getRoot_retained s w hi v hv, fun v id hv hm => getNode_retained s w hi v hv id hm,
   fun v => hasVersion_iff s w hi v⟩

/-- non-vacuity: three commits (a three-node tree; a commit without writes; a tree that shares the old root as an
    inner child), then the first two versions are deleted: the old root is re-keyed, version 3 still finds it -/
example :
    let s1 := save (fun _ => none) 1 [2, 3] .created
    let s2 := save s1 2 [] (.inherited (1, 1))
    let s3 := save s2 3 [2] .created
    let s4 := deleteVersion s3 1 []
    let s5 := deleteVersion s4 2 []
    getRoot s3 2 = .at (1, 1) ∧ getRoot s5 3 = .at (3, 1) ∧ hasVersion s5 1 = false ∧ hasVersion s5 2 = false ∧
      s5 (1, 1) = none ∧ s5 (1, 0) = some (.node (1, 1)) ∧ getNode s5 (1, 1) = some (.node (1, 1)) ∧
      getRoot s4 2 = .at (1, 0) := by decide
end roots

theorem keyspace : Facts.nodeKeyPrefix = 115 ∧ Facts.fastKeyPrefix = 102 ∧ Facts.metadataKeyPrefix = 109 :=
  ⟨Facts.keyspace_ok.1, Facts.keyspace_ok.2.1, Facts.keyspace_ok.2.2.1⟩

end Iavl.Props.C12
