import Iavl.Lemmas.MembershipComplete
import Iavl.Lemmas.NonMembershipSound
import Iavl.Lemmas.NonMembershipComplete
import Iavl.Lemmas.VMachineInv
import Iavl.Generated.FactsOk
/-
  C03 — ICS-23 proofs: complete for every key and bound to key, value and root.
  `mkProof` = `PathToLeaf` + `convertLeafOp` + `convertInnerOps`; `calcRoot` = ics23 `LeafOp.Apply` /
  `InnerOp.Apply` for the IAVL spec; `LeafChecked` / `InnerChecked` = the structural checks of
  `CheckAgainstSpec` + `validateIavlOps` that matter for soundness.
-/
namespace Iavl.Props.C03
open Iavl Std
variable (H : Bytes → Bytes) (hH : ∀ x, (H x).length = 32)

/-- for **every** tree and key the verifier's root computation on the generated path is the tree's
    root hash (no ordering assumption needed) -/
theorem root_of_generated_proof (working : Nat) (t : Node Bytes Bytes) (key : Bytes) :
    calcRoot H (mkProof H working t key) = hashNode H working t :=
  calcRoot_mkProof H working t key

include hH in
/-- completeness for present keys: the proof passes the verifier's structural checks, computes the
    root hash and carries exactly the key and the stored value -/
theorem existence_proof_complete (working : Nat) (t : Node Bytes Bytes) (ho : Ordered t) (hb : Bounded working t)
    (key v : Bytes) (hv : lookup key t.toList = some v) :
    let p := mkProof H working t key
    LeafChecked p.leafPfx ∧ (∀ op ∈ p.path, InnerChecked op) ∧
    calcRoot H p = hashNode H working t ∧ p.key = key ∧ p.value = v :=
  membership_complete H hH working t ho hb key v hv

include hH in
/-- soundness: a structurally valid existence proof whose computed root is the root hash of `t`
    proves a pair that is in `t` — or an explicit collision of `H` is exhibited. Hence it does not
    verify for a different value, a different key, or against the root of a version in which the
    claim is false. -/
theorem existence_proof_sound (working : Nat) (t : Node Bytes Bytes) (hb : Bounded working t)
    (hk : KeysBounded t) (p : ExistProof) (hkey : p.key.length < 2 ^ 64)
    (hleaf : LeafChecked p.leafPfx) (hops : ∀ op ∈ p.path, InnerChecked op)
    (hroot : calcRoot H p = hashNode H working t) :
    (p.key, p.value) ∈ t.toList ∨ Collision H :=
  membership_sound H hH working t hb hk p hkey hleaf hops hroot

include hH in
/-- the same for the executable model of `ExistenceProof.Verify` (Model/Ics23.lean; compared with the
    real verifier's verdicts on genuine and mutated proofs on every run): what it accepts is in the tree -/
theorem verified_membership_is_true (working : Nat) (t : Node Bytes Bytes) (hb : Bounded working t)
    (hk : KeysBounded t) (p : ExistProof) (key value : Bytes) (hkey : p.key.length < 2 ^ 64)
    (hv : verifyExist H (hashNode H working t) p key value = true) :
    (key, value) ∈ t.toList ∨ Collision H := by
  have hv' := hv
  simp only [verifyExist, Bool.and_eq_true, beq_iff_eq] at hv
  obtain ⟨⟨⟨⟨⟨⟨⟨hleaf, _⟩, hpath⟩, hk1⟩, hv1⟩, _⟩, _⟩, hroot⟩ := hv
  rw [hk1, hv1]
  exact membership_sound H hH working t hb hk p hkey (checkLeaf_checked _ hleaf)
    (checkPath_checked p.path 1 (by omega) hpath) hroot

include hH in
/-- **non-membership soundness**: a non-existence proof accepted by the model of
    `NonExistenceProof.Verify` for `key` against the root hash of an ordered tree shows that `key` is
    absent - it never verifies for a present key - or a collision of `H` is exhibited. Route: accepted
    existence proofs locate their leaves; the padding tests force the directions; left-most, right-most
    and neighbouring paths end at the first, last and adjacent pairs of the sorted contents. -/
theorem nonexistence_proof_sound (working : Nat) (t : Node Bytes Bytes) (ho : Ordered t)
    (hb : Bounded working t) (hk : KeysBounded t) (p : NonExistProof) (key : Bytes)
    (hkl : ∀ l, p.left = some l → l.key.length < 2 ^ 64)
    (hkr : ∀ r, p.right = some r → r.key.length < 2 ^ 64)
    (hv : verifyNonExist H (hashNode H working t) p key = true) :
    lookup key t.toList = none ∨ Collision H :=
  nonmembership_sound H hH working t ho hb hk p key hkl hkr hv

include hH in
/-- the opposite kind of claim is excluded in both directions: for a key that a verified existence
    proof shows present, no non-existence proof verifies against the same root (modulo a collision) -/
theorem no_opposite_claim (working : Nat) (t : Node Bytes Bytes) (ho : Ordered t)
    (hb : Bounded working t) (hk : KeysBounded t) (e : ExistProof) (n : NonExistProof) (key value : Bytes)
    (hkey : e.key.length < 2 ^ 64)
    (hkl : ∀ l, n.left = some l → l.key.length < 2 ^ 64)
    (hkr : ∀ r, n.right = some r → r.key.length < 2 ^ 64)
    (he : verifyExist H (hashNode H working t) e key value = true)
    (hn : verifyNonExist H (hashNode H working t) n key = true) : Collision H := by
  rcases verified_membership_is_true H hH working t hb hk e key value hkey he with hm | hc
  · rcases nonmembership_sound H hH working t ho hb hk n key hkl hkr hn with hl | hc
    · exfalso
      have := (lookup_none_iff key t.toList).mp hl (key, value) hm
      exact this (by simp [Std.ReflCmp.compare_self])
    · exact hc
  · exact hc

include hH in
/-- **completeness for present keys under the verifier model**: the generated existence proof of a
    stored pair is accepted (non-empty key and value: K28 / K6 are exactly the excluded cases) -/
theorem generated_membership_verifies (working : Nat) (t : Node Bytes Bytes) (key v : Bytes) (ho : Ordered t)
    (ha : AVL t) (hb : BoundedS working t) (hv : lookup key t.toList = some v) (hk0 : key ≠ []) (hv0 : v ≠ []) :
    verifyExist H (hashNode H working t) (mkProof H working t key) key v = true :=
  verifyExist_generated H hH working t key v ho (AVL.heightOK t ha) hb hv hk0 hv0

include hH in
/-- **completeness for absent keys**: what `GetNonMembershipProof` builds (rank of the key, the pairs
    at rank-1 and rank, one existence proof each) is a non-existence proof that the verifier model
    accepts - its neighbours verify, bracket the key, and pass `IsLeftMost` / `IsRightMost` /
    `IsLeftNeighbor` - for every ordered AVL tree within the prefix window (height < 64, size and
    versions < 2^34) with non-empty keys and values -/
theorem generated_nonmembership_verifies (working : Nat) (t : Node Bytes Bytes) (key : Bytes)
    (ho : Ordered t) (ha : AVL t) (hb : BoundedS working t)
    (hne : ∀ p ∈ t.toList, p.1 ≠ [] ∧ p.2 ≠ [])
    (habs : lookup key t.toList = none) :
    ∃ l r, nonMemProofG H working t key = .nonexist key l r ∧
      verifyNonExist H (hashNode H working t) ⟨key, l, r⟩ key = true :=
  nonmembership_complete H hH working t key ho (avl_sizeOK t ha) (AVL.heightOK t ha) hb hne habs

/-- asking for the wrong kind is an error: no non-membership proof for a present key -/
theorem nonmembership_of_present_is_error (working : Nat) (t : Node Bytes Bytes) (key v : Bytes)
    (ho : Ordered t) (ha : AVL t) (hv : lookup key t.toList = some v) :
    nonMemProofG H working t key = .err := by
  simp [nonMemProofG, get_eq t key ho (avl_sizeOK t ha), hv]

/-- the premises are satisfiable: a two-leaf tree meets them -/
example : let t : Node Bytes Bytes := .inner [2] 1 2 (some 1) (.leaf [1] [7] (some 1)) (.leaf [2] [8] (some 1))
    Ordered t ∧ AVL t ∧ BoundedS 1 t ∧ (∀ p ∈ t.toList, p.1 ≠ [] ∧ p.2 ≠ []) := by
  refine ⟨⟨trivial, trivial, ?_, ?_⟩, ⟨trivial, trivial, rfl, rfl, by decide, by decide⟩,
    ⟨by decide, by decide, by decide, by decide, by simp [BoundedS, verOf], by simp [BoundedS, verOf]⟩, ?_⟩
  · intro p hp; simp [Node.toList] at hp; subst hp; decide
  · intro p hp; simp [Node.toList] at hp; subst hp; decide
  · intro p hp; simp [Node.toList] at hp; rcases hp with h | h <;> subst h <;> simp

end Iavl.Props.C03
