import Iavl.Lemmas.MembershipComplete
import Iavl.Generated.FactsOk
/-
  C03 — ICS-23 proofs: complete for every key and bound to key, value and root.
  `mkProof` = `PathToLeaf` + `convertLeafOp` + `convertInnerOps`; `calcRoot` = ics23 `LeafOp.Apply` /
  `InnerOp.Apply` for the IAVL spec; `LeafChecked` / `InnerChecked` = the structural checks of
  `CheckAgainstSpec` + `validateIavlOps` that matter for soundness.
-/
namespace Iavl.Props.C03
open Iavl Std
variable (H : Bytes → Bytes) (hH : ∀ x, (H x).length = 32)

/-- for **every** tree and key the verifier's root computation on the generated path is the tree's
    root hash (no ordering assumption needed) -/
theorem root_of_generated_proof (working : Nat) (t : Node Bytes Bytes) (key : Bytes) :
    calcRoot H (mkProof H working t key) = hashNode H working t :=
  calcRoot_mkProof H working t key

include hH in
/-- completeness for present keys: the proof passes the verifier's structural checks, computes the
    root hash and carries exactly the key and the stored value -/
theorem existence_proof_complete (working : Nat) (t : Node Bytes Bytes) (ho : Ordered t) (hb : Bounded working t)
    (key v : Bytes) (hv : lookup key t.toList = some v) :
    let p := mkProof H working t key
    LeafChecked p.leafPfx ∧ (∀ op ∈ p.path, InnerChecked op) ∧
    calcRoot H p = hashNode H working t ∧ p.key = key ∧ p.value = v :=
  membership_complete H hH working t ho hb key v hv

include hH in
/-- soundness: a structurally valid existence proof whose computed root is the root hash of `t`
    proves a pair that is in `t` — or an explicit collision of `H` is exhibited. Hence it does not
    verify for a different value, a different key, or against the root of a version in which the
    claim is false. -/
theorem existence_proof_sound (working : Nat) (t : Node Bytes Bytes) (hb : Bounded working t)
    (hk : KeysBounded t) (p : ExistProof) (hkey : p.key.length < 2 ^ 64)
    (hleaf : LeafChecked p.leafPfx) (hops : ∀ op ∈ p.path, InnerChecked op)
    (hroot : calcRoot H p = hashNode H working t) :
    (p.key, p.value) ∈ t.toList ∨ Collision H :=
  membership_sound H hH working t hb hk p hkey hleaf hops hroot

end Iavl.Props.C03
