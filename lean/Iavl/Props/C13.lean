import Iavl.Model.Codec
import Iavl.Model.Uvarint
import Iavl.Generated.FactsOk
/-
  C13 — the on-disk format is stable and every decoder is total. The model's decoders are total
  functions into `Option` by construction (structural recursion on the input, no partiality), and
  they are compared with `MakeNode`, `MakeLegacyNode`, `fastnode.DeserializeNode` and the varint /
  bytes decoders on structured, mutated and random inputs; the format itself is pinned by the
  round-trip theorems below and by the raw-store audit of C12 (library writes, model reads).
-/
namespace Iavl.Props.C13
open Iavl

/-- node records: decode ∘ encode = id (new-format and legacy child references, mode bits, the
    int8 height and uint32 nonce range checks) -/
theorem node_roundtrip (n : NodeRec) (hwf : NodeWF n) : decNode (encNode n) = some n :=
  decNode_encNode n hwf

theorem fast_node_roundtrip (ver : Int) (v : Bytes) (h1 : -(2 ^ 63) ≤ ver) (h2 : ver < 2 ^ 63)
    (hv : v.length < 2 ^ 63) : decFastNode (encFastNode ver v) = some (ver, v) :=
  decFastNode_encFastNode ver v h1 h2 hv

theorem legacy_leaf_roundtrip (sz ver : Int) (k v : Bytes)
    (h1 : -(2 ^ 63) ≤ sz) (h2 : sz < 2 ^ 63) (h3 : -(2 ^ 63) ≤ ver) (h4 : ver < 2 ^ 63)
    (hk : k.length < 2 ^ 63) (hv : v.length < 2 ^ 63) :
    decLegacyNode (encLegacyNode (.leaf 0 sz ver k v)) = some (.leaf 0 sz ver k v) :=
  decLegacyNode_encLegacyNode_leaf sz ver k v h1 h2 h3 h4 hk hv

theorem legacy_inner_roundtrip (h sz ver : Int) (k l r : Bytes) (h0 : h ≠ 0) (hlo : -128 ≤ h) (hhi : h ≤ 127)
    (h1 : -(2 ^ 63) ≤ sz) (h2 : sz < 2 ^ 63) (h3 : -(2 ^ 63) ≤ ver) (h4 : ver < 2 ^ 63)
    (hk : k.length < 2 ^ 63) (hl : l.length < 2 ^ 63) (hr : r.length < 2 ^ 63) :
    decLegacyNode (encLegacyNode (.inner h sz ver k l r)) = some (.inner h sz ver k l r) :=
  decLegacyNode_encLegacyNode_inner h sz ver k l r h0 hlo hhi h1 h2 h3 h4 hk hl hr

/-- zig-zag varints and length-prefixed bytes -/
theorem varint_roundtrip (i : Int) (hlo : -(2 ^ 63) ≤ i) (hhi : i < 2 ^ 63) (rest : Bytes) :
    takeVarint (varint i ++ rest) = some (i, rest) := takeVarint_put i hlo hhi rest

theorem bytes_roundtrip (b rest : Bytes) (hb : b.length < 2 ^ 63) :
    takeBytes (encBytes b ++ rest) = some (b, rest) := takeBytes_put b rest hb

/-- Go's `binary.Uvarint ∘ binary.PutUvarint` below 2^64, overflow checks modelled -/
theorem uvarint_roundtrip (n : Nat) (hn : n < 2 ^ 64) (rest : Bytes') :
    readUvarint (putUvarint n ++ rest) = .ok n (putUvarint n).length := readUvarint_put n hn rest

/-- a decoded byte string is never longer than its input (no allocation beyond the input) -/
theorem decoded_bytes_bounded (bz b rest : Bytes) (h : takeBytes bz = some (b, rest)) : b.length ≤ bz.length := by
  unfold takeBytes at h
  split at h
  · cases h
  · rename_i n r hu
    have hr : r.length < bz.length := takeUvarintGo_length bz 0 0 0 n r (by simpa [takeUvarint] using hu)
    split at h
    · cases h
    · split at h
      · cases h
      · simp only [Option.some.injEq, Prod.mk.injEq] at h
        rw [← h.1, List.length_take]
        omega

theorem format_constants :
    Facts.nodeKeyPrefix = 115 ∧ Facts.hashSize = 32 ∧
    Facts.modeLegacyLeftNode = 1 ∧ Facts.modeLegacyRightNode = 2 :=
  ⟨Facts.keyspace_ok.1, Facts.codec_ok.1, Facts.codec_ok.2.1, Facts.codec_ok.2.2⟩

end Iavl.Props.C13
