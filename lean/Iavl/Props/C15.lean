import Iavl.Lemmas.ChangeSetCorrect
import Iavl.Lemmas.VersionSharing
/-
  C15 — extracted change sets equal the net writes of each version. `changeSet` is the executable
  specification the implementation's `TraverseStateChanges` is compared with on every history: the
  new leaves of the version (node version greater than the predecessor's) merged in ascending key
  order with the leaves of the predecessor that are gone, a key in both giving one `set`.
-/
namespace Iavl.Props.C15
open Iavl Std
set_option linter.unusedSectionVars false
variable {K V : Type} [Ord K] [TransOrd K] [LawfulEqOrd K] [DecidableEq K] [DecidableEq V]

/-- **Applying the change set of a version to the contents of its predecessor gives the contents of
    the version** — for all ordered trees under the sharing invariant of path-copying writes (every
    leaf of the version persisted at or before the predecessor is a leaf of the predecessor;
    `set_shares` / `remove_shares` in Lemmas/Sharing establish it for each write). Covers repeated
    writes of a key inside a version, set-then-remove, remove-then-set, rewrites of identical values
    (the rewritten leaf is new, so it is listed), no-op and empty versions. -/
theorem apply_changeset (prevVersion : Nat) (prev cur : OTree K V)
    (hp : match prev with | none => True | some t => Ordered t)
    (hc : match cur with | none => True | some t => Ordered t)
    (hshare : ∀ x ∈ leavesO cur, (∃ u, x.2.2 = some u ∧ u ≤ prevVersion) → x ∈ leavesO prev) :
    applyChanges (contents prev) (changeSet prevVersion prev cur) = contents cur :=
  apply_changeSet prevVersion prev cur hp hc hshare

/-- the effect of a change set on any sorted map, key by key: a listed `set` wins, a listed deletion
    removes, every other key is untouched — and the result is sorted (each key once, ascending) -/
theorem changeset_effect (ns : List (K × V)) (ds : List K) (m : List (K × V))
    (hm : SortedKV m) (hn : SortedKV ns) (hd : SortedKeys ds) (k : K) :
    SortedKV (applyChanges m (mergeChanges ns ds)) ∧
    lookup k (applyChanges m (mergeChanges ns ds)) =
      if (lookup k ns).isSome then lookup k ns else if k ∈ ds then none else lookup k m :=
  lookup_applyChanges_merge ns ds m hm hn hd k

/-- **for every history**: in every state the version machine reaches from an empty store, the change
    set extracted for a retained version `u+1` whose predecessor `u` is retained, applied to the contents
    of `u`, gives the contents of `u+1`. The sharing hypothesis of `apply_changeset` is an invariant of
    the machine (`step_sinv`: every write shares saved subtrees with the tree it started from, a commit
    stamps only new nodes, deletions and rollbacks only drop versions). -/
theorem changeset_of_every_history [BEq K] (iv : Option Nat) (ops : List (Op K V)) (u : Nat) (p c : OTree K V)
    (h1 : (u, p) ∈ (stateAfter (initT iv) ops).versions)
    (h2 : (u + 1, c) ∈ (stateAfter (initT iv) ops).versions) :
    applyChanges (contents p) (changeSet u p c) = contents c := by
  have hs := stateAfter_sinv (initT iv : VState (OTree K V)) (sinv_init iv) ops
  have hi := stateAfter_inv (initT iv : VState (OTree K V))
    ⟨trivial, trivial, by intro q hq; simp [initT] at hq⟩ ops
  have gp := hi.gv _ h1
  have gc := hi.gv _ h2
  refine apply_changeSet u p c ?_ ?_ (hs.pairs u p c h1 h2)
  · cases p with | none => trivial | some t => exact gp.1
  · cases c with | none => trivial | some t => exact gc.1

/-- non-vacuity of the history theorem: a concrete history reaches a state with two consecutive retained
    versions whose contents differ by a set and a removal -/
example : let ops : List (Op Nat Nat) := [.set 1 10, .save false, .set 2 20, .remove 1, .save false]
    (stateAfter (initT none : VState (OTree Nat Nat)) ops).versions.map (fun p => (p.1, contents p.2)) =
      [(1, [(1, 10)]), (2, [(2, 20)])] := by decide

/-- non-vacuity: version 2 adds key 2 next to the shared leaf of key 1 — the sharing hypothesis of
    `apply_changeset` holds for these trees -/
example : ∀ x ∈ leavesO (some (.inner 2 1 2 (some 2) (.leaf 1 10 (some 1)) (.leaf 2 20 (some 2))) : OTree Nat Nat),
    (∃ u, x.2.2 = some u ∧ u ≤ 1) → x ∈ leavesO (some (.leaf 1 10 (some 1)) : OTree Nat Nat) := by
  intro x hx hu
  simp only [leavesO, Node.leaves, List.cons_append, List.nil_append, List.mem_cons, List.not_mem_nil, or_false] at hx ⊢
  rcases hx with rfl | rfl
  · rfl
  · obtain ⟨u, h1, h2⟩ := hu
    simp at h1; omega

end Iavl.Props.C15
