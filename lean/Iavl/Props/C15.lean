import Iavl.Lemmas.ChangeSetCorrect
/-
  C15 — extracted change sets equal the net writes of each version. `changeSet` is the executable
  specification the implementation's `TraverseStateChanges` is compared with on every history: the
  new leaves of the version (node version greater than the predecessor's) merged in ascending key
  order with the leaves of the predecessor that are gone, a key in both giving one `set`.
-/
namespace Iavl.Props.C15
open Iavl Std
set_option linter.unusedSectionVars false
variable {K V : Type} [Ord K] [TransOrd K] [LawfulEqOrd K] [DecidableEq K] [DecidableEq V]

/-- **Applying the change set of a version to the contents of its predecessor gives the contents of
    the version** — for all ordered trees under the sharing invariant of path-copying writes (every
    leaf of the version persisted at or before the predecessor is a leaf of the predecessor;
    `set_shares` / `remove_shares` in Lemmas/Sharing establish it for each write). Covers repeated
    writes of a key inside a version, set-then-remove, remove-then-set, rewrites of identical values
    (the rewritten leaf is new, so it is listed), no-op and empty versions. -/
theorem apply_changeset (prevVersion : Nat) (prev cur : OTree K V)
    (hp : match prev with | none => True | some t => Ordered t)
    (hc : match cur with | none => True | some t => Ordered t)
    (hshare : ∀ x ∈ leavesO cur, (∃ u, x.2.2 = some u ∧ u ≤ prevVersion) → x ∈ leavesO prev) :
    applyChanges (contents prev) (changeSet prevVersion prev cur) = contents cur :=
  apply_changeSet prevVersion prev cur hp hc hshare

/-- the effect of a change set on any sorted map, key by key: a listed `set` wins, a listed deletion
    removes, every other key is untouched — and the result is sorted (each key once, ascending) -/
theorem changeset_effect (ns : List (K × V)) (ds : List K) (m : List (K × V))
    (hm : SortedKV m) (hn : SortedKV ns) (hd : SortedKeys ds) (k : K) :
    SortedKV (applyChanges m (mergeChanges ns ds)) ∧
    lookup k (applyChanges m (mergeChanges ns ds)) =
      if (lookup k ns).isSome then lookup k ns else if k ∈ ds then none else lookup k m :=
  lookup_applyChanges_merge ns ds m hm hn hd k

/-- non-vacuity: version 2 adds key 2 next to the shared leaf of key 1 — the sharing hypothesis of
    `apply_changeset` holds for these trees -/
example : ∀ x ∈ leavesO (some (.inner 2 1 2 (some 2) (.leaf 1 10 (some 1)) (.leaf 2 20 (some 2))) : OTree Nat Nat),
    (∃ u, x.2.2 = some u ∧ u ≤ 1) → x ∈ leavesO (some (.leaf 1 10 (some 1)) : OTree Nat Nat) := by
  intro x hx hu
  simp only [leavesO, Node.leaves, List.cons_append, List.nil_append, List.mem_cons, List.not_mem_nil, or_false] at hx ⊢
  rcases hx with rfl | rfl
  · rfl
  · obtain ⟨u, h1, h2⟩ := hu
    simp at h1; omega

end Iavl.Props.C15
