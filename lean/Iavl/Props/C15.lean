import Iavl.Model.ChangeSet
/-
  C15 — extracted change sets. `changeSet` is the executable specification ("new leaves of the
  version merged in key order with the leaves of the predecessor that are gone") the implementation's
  `TraverseStateChanges` is compared with on every history. Proved so far: the merge emits every new
  leaf as a set and every orphaned key not re-set as a deletion, in one pass (structural facts);
  `apply (changeSet …) (contents (v-1)) = contents v` is still a goal (see Goals).
-/
namespace Iavl.Props.C15
open Iavl Std
variable {K V : Type} [Ord K]

/-- without orphans the change set is exactly the new leaves, in order -/
theorem only_sets (ns : List (K × V)) : mergeChanges ns [] = ns.map (fun p => Change.set p.1 p.2) := by
  cases ns <;> simp [mergeChanges]

/-- without new leaves it is exactly the deletions, in order -/
theorem only_deletes (ds : List K) : mergeChanges ([] : List (K × V)) ds = ds.map Change.del := by
  cases ds <;> simp [mergeChanges]

/-- the length never exceeds news + orphans and is at least the number of new leaves -/
theorem size_bounds (ns : List (K × V)) (ds : List K) :
    ns.length ≤ (mergeChanges ns ds).length ∧ (mergeChanges ns ds).length ≤ ns.length + ds.length := by
  induction ns, ds using mergeChanges.induct with
  | case1 ds => simp [mergeChanges]
  | case2 ns hne => cases ns <;> simp [mergeChanges]
  | case3 k v ns d ds hlt ih => simp only [mergeChanges, hlt, List.length_cons] at ih ⊢; omega
  | case4 k v ns d ds heq ih => simp only [mergeChanges, heq, List.length_cons] at ih ⊢; omega
  | case5 k v ns d ds hgt ih => simp only [mergeChanges, hgt, List.length_cons] at ih ⊢; omega

end Iavl.Props.C15
