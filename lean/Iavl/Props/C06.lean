import Iavl.Lemmas.Versions
import Iavl.Lemmas.Refine
import Iavl.Lemmas.PinsInv
import Iavl.Generated.SrcC06Ok
/-
  C06 — committed versions can be read concurrently with the writer (partial).
  What the model can carry: in the version machine a committed version's contents are a *value*
  fixed at commit — no later step of the writer (writes, commits, deletions of other versions,
  rollbacks above it) changes what a read of that version returns. Absence of data races is a
  statement about the Go memory model and is only searched (race detector on stress schedules and
  on the yield-point schedules), never claimed proved.
-/
namespace Iavl.Props.C06
open Iavl Std
variable {K V C : Type} (ct : Content K V C)

/-- writes and reads never change a committed version -/
theorem committed_versions_stable_under_writes (s : VState C) (k : K) (v : V) (w : Nat) :
    findVer (s.step ct (.set k v)).1.versions w = findVer s.versions w ∧
    findVer (s.step ct (.remove k)).1.versions w = findVer s.versions w := by
  refine ⟨rfl, ?_⟩
  simp only [VState.step]
  split <;> rfl

/-- a commit of a new version leaves every other committed version as it was -/
theorem committed_versions_stable_under_commit (s : VState C) (same : Bool) (w : Nat)
    (h : findVer s.versions s.workingVersion = none) (hl : latestVer s.versions < s.workingVersion)
    (hw : w ≠ s.workingVersion) :
    findVer (s.step ct (.save same)).1.versions w = findVer s.versions w := by
  have := (save_new ct s same h hl).1
  rw [this]
  unfold findVer
  rw [List.find?_append]
  cases hf : List.find? (fun p => p.1 == w) s.versions with
  | some p => simp
  | none =>
    have : ((s.workingVersion == w) = false) := by
      simp only [beq_eq_false_iff_ne, ne_eq]; exact fun e => hw e.symm
    simp [this]

/-- a deletion up to `n` leaves every version above `n` as it was (readers of versions that are not
    being deleted are unaffected) -/
theorem committed_versions_stable_under_prune (s : VState C) (n w : Nat) (hw : n < w) :
    findVer (s.step ct (.prune n)).1.versions w = findVer s.versions w := by
  by_cases h : latestVer s.versions ≤ n
  · rw [prune_rejected ct s n h]
  · rw [prune_effect ct s n h w]; simp [hw]

/-- **a version pinned by an open export is never deleted** (Model/Pins.lean: `versionReaders`, `newExporter`,
    `Exporter.Close` with its forget-the-tree guard, the reader checks of `DeleteVersionsTo` and
    `DeleteVersionsFrom`): after any sequence of exports, closes - also repeated closes of one exporter -,
    deletions, rollbacks and commits, every exporter that has not been closed still finds its version, and the
    reader counter of every version is exactly the number of its open exporters. The steps are atomic in the
    model; that the library's check and deletion are two steps is the known finding K9t. -/
theorem pinned_version_survives (ops : List Pins.Op) :
    let s := Pins.run Pins.init ops
    (∀ e ∈ s.exporters, e.open_ = true → e.version ∈ s.versions) ∧
    (∀ v, s.readers v = s.exporters.countP (Pins.openOn v)) :=
  have h := Pins.run_inv Pins.init Pins.inv_init ops
  ⟨h.alive, h.count⟩

/-- non-vacuity: two exports of version 2, one of them closed twice, then a deletion up to 2 is refused; after
    the second one is closed it goes through -/
example :
    let ops1 : List Pins.Op := [.commit 1, .commit 2, .commit 3, .export 2, .export 2, .close 0, .close 0, .prune 2]
    (Pins.run Pins.init ops1).versions = [1, 2, 3] ∧ (Pins.run Pins.init (ops1 ++ [.close 1, .prune 2])).versions = [3] := by
  decide

end Iavl.Props.C06
