import Iavl.Model.KV
import Iavl.Model.PrefixBound
import Iavl.Lemmas.PrefixView
import Iavl.Generated.SrcC18Ok
/-
  C18 — the bundled storage backends implement one ordered-KV contract. `kvStep` is that contract
  (a sorted association list); the four backends are compared with it on generated programs. What
  is proved: the namespace bound of the prefixed view — for every non-empty prefix, 0xFF runs
  included, a key has the prefix iff it lies in [prefix, bound(prefix)) for the *cut* bound
  (the K20 repair), while the same-length bound of the original code admits a foreign key.
-/
namespace Iavl.Props.C18
open Iavl

/-- the namespace of a prefix is exactly the half-open key range up to the cut incremented prefix -/
theorem namespace_is_range (p k : Bz) (hp : p ≠ []) : p <+: k ↔ InRange p k :=
  prefix_iff_range p k hp

/-- K20: with Go's former same-length bound the range of `p\xff` admits the outside key `q` -/
theorem same_length_bound_leaks :
    inPrefixRange cpIncrGo [0x70, 0xff] [0x71] = true ∧ ¬ (([0x70, 0xff] : Bz) <+: ([0x71] : Bz)) :=
  prefix_range_counterexample

/-- **a prefix-namespaced view is the contract on its namespace**: the view's iterator - `prefixDB.Iterator` /
    `ReverseIterator` hand the parent store `prefix ++ start` and `prefix ++ end`, or the incremented prefix when
    the end is open - yields, stripped, exactly the pairs the contract's range yields on the sub-map of the keys
    that carry the prefix: every such pair in range, in order, and nothing of any other namespace - for every
    non-empty prefix and all keys and bounds, 0xFF runs and bytes that are not UTF-8 included -/
theorem prefix_view_is_the_contract_on_its_namespace (p : Bz) (hp : p ≠ []) (M : SMapB) (s e : Option Bytes) (rev : Bool) :
    viewRange p M s e rev = kvRange (subMap p M) s e rev :=
  viewRange_eq p hp M s e rev

/-- ... and a point read through the view (`prefixDB.Get` reads `prefix ++ k` of the parent) is the lookup in that
    sub-map: keys of other namespaces are never seen -/
theorem prefix_view_point_read (p : Bz) (M : SMapB) (k : Bytes) : lookup (p ++ k) M = lookup k (subMap p M) :=
  viewGet_eq p M k

/-- non-vacuity: the namespace `p\xff` next to `q`: the open-ended reverse iteration shows the namespace only -/
example :
    viewRange [0x70, 0xff] [([0x70, 0xfe, 1], [9]), ([0x70, 0xff], [1]), ([0x70, 0xff, 0], [2]), ([0x70, 0xff, 0xff], [3]), ([0x71], [4])]
      none none true = [([0xff], [3]), ([0], [2]), ([], [1])] := by decide

/-- an empty key or a nil value is never stored -/
theorem no_empty_key_nil_value (s : KVState) (k v : Option Bytes)
    (h : emptyKey k = true ∨ v = none) : kvStep s (.set k v) = (s, .err) :=
  set_rejects_empty_key_nil_value s k v h

/-- reads do not change the store -/
theorem reads_do_not_write (s : KVState) (k st en : Option Bytes) (rev : Bool) :
    (kvStep s (.get k)).1 = s ∧ (kvStep s (.has k)).1 = s ∧ (kvStep s (.iter st en rev)).1 = s :=
  reads_pure s k st en rev

end Iavl.Props.C18
