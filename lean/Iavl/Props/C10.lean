import Iavl.Model.Importer
import Iavl.Model.Compress
import Iavl.Model.Delta
import Iavl.Generated.FactsOk
/-
  C10 — export/import fidelity, and an importer that is total on hostile input.
-/
namespace Iavl.Props.C10
open Iavl Std
variable {K V : Type}

/-- importing the post-order export of a persisted AVL tree into an empty importer rebuilds exactly
    that tree (keys, values, versions, heights, sizes) — hence the same root hash, contents, proofs
    and, `set`/`remove` being functions of the tree, the same future hashes -/
theorem import_of_export (t : Node K V) (dfltV : V) (dflt : Nat) (ha : AVL t) (hs : AllSaved t) :
    importAll [] (exportNodes dflt t) dfltV = [t] :=
  import_export_root t dfltV dflt ha hs

/-- the byte-level delta codec of the compressed stream is lossless -/
theorem delta_codec (key last : Bytes) (hlen : last.length < 2 ^ 64) :
    deltaDecode (deltaEncode key last) last = .ok key :=
  delta_roundtrip key last hlen

/-- the compressed stream is lossless: whatever (lossless) key codec is used, decompressing the compressed
    export of a tree whose routing keys are the leftmost keys of the right subtrees (what `Set` / `Remove`
    maintain, C01) yields the plain export again - so `import_of_export` applies to it as well -/
theorem compressed_stream_roundtrip {K' : Type} (enc : K → Option K → K') (dec : K' → Option K → K)
    (hcodec : ∀ k last, dec (enc k last) last = k)
    (d : Nat) (t : Node K V) (hr : RoutingFirst t) (hp : PosHeight t) :
    ∃ cs, (cexpAll enc ⟨none, []⟩ (exportNodes d t)).map (·.2) = some cs ∧
          (cimpAll dec ⟨none, [], []⟩ cs).map (·.2) = some (exportNodes d t) := by
  obtain ⟨cs, h1, h2⟩ := compress_roundtrip enc dec hcodec d t hr hp ⟨none, []⟩ ⟨none, [], []⟩ rfl
  exact ⟨cs, by rw [h1]; rfl, by rw [h2]; rfl⟩

/-- the whole compressed pipeline: compress the export of a persisted AVL tree, decompress it, import it
    into an empty importer - the result is exactly that tree -/
theorem import_of_compressed_export {K' : Type} (enc : K → Option K → K') (dec : K' → Option K → K)
    (hcodec : ∀ k last, dec (enc k last) last = k)
    (t : Node K V) (dfltV : V) (d : Nat) (ha : AVL t) (hs : AllSaved t) (hr : RoutingFirst t) (hp : PosHeight t) :
    ∃ cs, (cexpAll enc ⟨none, []⟩ (exportNodes d t)).map (·.2) = some cs ∧
      ∃ ens, (cimpAll dec ⟨none, [], []⟩ cs).map (·.2) = some ens ∧ importAll [] ens dfltV = [t] := by
  obtain ⟨cs, h1, h2⟩ := compressed_stream_roundtrip enc dec hcodec d t hr hp
  exact ⟨cs, h1, exportNodes d t, h2, import_of_export t dfltV d ha hs⟩

/-- for **every** node (any height, version, nil key/value) on **every** stack, `Importer.Add`
    returns or errors; it never reaches a Go panic -/
theorem importer_add_total (importVer : Int) (stack : List ImpEntry) (en : Option RawNode) :
    impAdd importVer stack en ≠ .panic :=
  impAdd_never_panics importVer stack en

/-- the same for the decompressor in front of it -/
theorem decompressor_total (s : ZState) (en : Option RawNode) : zAdd s en ≠ .panic :=
  zAdd_never_panics s en

theorem delta_decode_total (enc last : Bytes) : deltaDecode enc last ≠ .panic :=
  deltaDecode_never_panics enc last

theorem batch_size : Facts.maxBatchSize = 10000 := Facts.numbering_ok.2.1

/-- non-vacuity / regression witnesses for K4: the inputs that used to panic are rejected -/
example : (match impAdd 3 [] (some ⟨some [97], some [1], -1, 0⟩) with | .err => true | _ => false) = true := by decide
example : (match zAdd ⟨[], [], []⟩ (some ⟨none, none, 2, 1⟩) with | .err => true | _ => false) = true := by decide

end Iavl.Props.C10
