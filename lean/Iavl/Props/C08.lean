import Iavl.Model.Walk
import Iavl.Model.Merge
import Iavl.Lemmas.VersionSharing
/-
  C08 — iterator contract. `Node.walk` is the leaf sequence produced by `traversal.next` with its
  three pruning tests; `rangeSpec` is "the stored keys k with start ≤ k < end (≤ end if inclusive),
  ascending or descending". `mergeNext` is `UnsavedFastIterator.Next`.
-/
namespace Iavl.Props.C08
open Iavl Std
set_option linter.unusedSectionVars false
variable {K V : Type} [Ord K] [BEq K] [TransOrd K] [LawfulEqOrd K]

/-- for every ordered tree and every pair of bounds (absent, equal, inverted, outside the key
    range), both directions, inclusive or not: exactly the keys in range, each once, in order -/
theorem tree_walk_exact (t : Node K V) (s e : Option K) (asc incl : Bool) (ho : Ordered t) :
    t.walk s e asc incl = rangeSpec t.toList s e asc incl :=
  walk_eq_spec t s e asc incl ho

/-- **every iteration over every retained version of every history**: in every state the version machine
    reaches from an empty store, walking a retained version with any bounds, in either direction, with
    the end inclusive or not, yields exactly the pairs of that version in the range, in order -/
theorem iteration_exact_in_every_history (iv : Option Nat) (ops : List (Op K V)) (u : Nat) (T : Node K V)
    (h : (u, some T) ∈ (stateAfter (initT iv) ops).versions) (s e : Option K) (asc incl : Bool) :
    T.walk s e asc incl = rangeSpec T.toList s e asc incl := by
  have hi := stateAfter_inv (initT iv : VState (OTree K V))
    ⟨trivial, trivial, by intro q hq; simp [initT] at hq⟩ ops
  have g : Good T := hi.gv _ h
  exact walk_eq_spec T s e asc incl g.1

variable (cmp : K → K → Ordering) [TransCmp cmp] [LawfulEqCmp cmp]

/-- the index-plus-uncommitted-changes iterator yields an entry iff it is an uncommitted addition,
    or a persisted entry neither removed nor shadowed by an addition -/
theorem overlay_iterator_members (rem : K → Bool) (disk adds : List (K × V))
    (hd : SortedBy cmp disk) (ha : SortedBy cmp adds) (p : K × V) :
    p ∈ mergeNext cmp rem disk adds ↔
      p ∈ adds ∨ (p ∈ disk ∧ rem p.1 = false ∧ ∀ a ∈ adds, cmp p.1 a.1 ≠ .eq) :=
  mem_mergeNext cmp rem disk adds hd ha p

/-- … strictly in iteration order, hence each key once -/
theorem overlay_iterator_sorted (rem : K → Bool) (disk adds : List (K × V))
    (hd : SortedBy cmp disk) (ha : SortedBy cmp adds) : SortedBy cmp (mergeNext cmp rem disk adds) :=
  sorted_mergeNext cmp rem disk adds hd ha

end Iavl.Props.C08
