import Iavl.Lemmas.AvlRemove
import Iavl.Lemmas.GetRank
import Iavl.Lemmas.SortedMap
import Iavl.Model.ReadCost
import Iavl.Lemmas.VersionSharing
/-
  C11 — every version is a balanced ordered tree; lookup by key and by rank agree with sorted order.
  The real-valued bound h ≤ 1.4405·log2(n+2) follows from `fib (h+2) ≤ n` by the classical estimate
  fib(k) ≥ φ^(k-2); the integer form is what is proved here, the implementation side is checked
  against the real-valued form on every reported (height, size) pair. Storage reads with nothing cached
  are modelled as child fetches (ReadCost.lean): at most h for a lookup by key, 2h by rank; the
  implementation's measured counts are compared with the model's exact counts (proof queries only
  with the bound 10h+10).
-/
namespace Iavl.Props.C11
open Iavl Std
variable {K V : Type} [Ord K] [BEq K] [TransOrd K] [LawfulEqOrd K]

/-- `Set` keeps every stored height and size exact and every node balanced -/
theorem set_keeps_avl (t : Node K V) (key : K) (val : V) (h : AVL t) :
    SetShape t (t.set key val).1 (t.set key val).2 := avl_set t key val h

/-- `Remove` likewise; the height drops by at most one and the size by exactly one -/
theorem remove_keeps_avl (t : Node K V) (key : K) (h : AVL t) : RemShape t (t.remove key) :=
  avl_remove t key h

/-- the AVL bound in integer form -/
theorem fib_bound (t : Node K V) (h : AVL t) : fib (t.height + 2) ≤ t.size := fib_le_size t h

/-- lookup by key returns (number of smaller keys, value) — also for absent keys -/
theorem lookup_by_key (t : Node K V) (key : K) (ho : Ordered t) (hs : SizeOK t) :
    t.get key = (rank key t.toList, lookup key t.toList) := get_eq t key ho hs

/-- lookup by rank returns the i-th pair of the sorted contents; out of range is `none` -/
theorem lookup_by_rank (t : Node K V) (i : Nat) (hs : SizeOK t) : t.getByIndex i = t.toList[i]? :=
  getByIndex_eq t i hs

/-- lookup by rank inverts lookup by key: a present key is found at its own rank -/
theorem rank_then_index (t : Node K V) (key : K) (v : V) (ho : Ordered t) (hs : SizeOK t)
    (h : lookup key t.toList = some v) : t.getByIndex (t.get key).1 = some (key, v) := by
  rw [get_eq t key ho hs, getByIndex_eq t _ hs]
  exact getElem_rank_of_lookup t.toList (sortedKV_toList t ho) key v h

/-- lookup by key inverts lookup by rank: the pair at rank i has index i and its own value -/
theorem index_then_rank (t : Node K V) (i : Nat) (p : K × V) (ho : Ordered t) (hs : SizeOK t)
    (h : t.getByIndex i = some p) : t.get p.1 = (i, some p.2) := by
  rw [getByIndex_eq t i hs] at h
  rw [get_eq t p.1 ho hs, rank_getElem t.toList (sortedKV_toList t ho) i p h]
  congr 1
  have hm : p ∈ t.toList := List.mem_of_getElem? h
  -- the key of a member is found with its value (keys are unique in a sorted map)
  have := getElem_rank_of_lookup t.toList (sortedKV_toList t ho) p.1
  cases hl : lookup p.1 t.toList with
  | none =>
    exfalso
    have := (lookup_none_iff' p.1 t.toList).mp hl
    exact this p hm (cmp_eq_iff.mpr rfl)
  | some v =>
    have h2 := this v hl
    rw [rank_getElem t.toList (sortedKV_toList t ho) i p h, h] at h2
    simp only [Option.some.injEq] at h2
    rw [h2]

/-- a lookup by key on a tree of which only the root is in memory fetches at most `height` nodes,
    and the height is logarithmic in the size (`fib_bound`) -/
theorem lookup_reads_le_height (t : Node K V) (key : K) (h : AVL t) :
    t.getReads key ≤ t.height ∧ t.hasReads key ≤ t.height ∧ fib (t.height + 2) ≤ t.size :=
  ⟨getReads_le_height t key (AVL.heightOK t h), hasReads_le_height t key (AVL.heightOK t h), fib_le_size t h⟩

/-- a lookup by rank fetches at most two nodes per level -/
theorem rank_lookup_reads_le (t : Node K V) (i : Nat) (h : AVL t) : t.getByIndexReads i ≤ 2 * t.height :=
  getByIndexReads_le t i (AVL.heightOK t h)

/-- a proof query (membership or non-membership, neighbours included) fetches at most ten nodes per level -/
theorem proof_reads_le (t : Node K V) (key : K) (h : AVL t) : t.proofReads key ≤ 10 * t.height :=
  proofReads_le t key (AVL.heightOK t h)

/-- **every retained version of every history is a balanced ordered tree**: in every state the version
    machine reaches from an empty store, each retained version (and the working tree) is ordered, has the
    routing keys in place and satisfies the AVL invariant with exact heights and sizes - hence the bound
    `fib (h+2) ≤ n` and the read bounds above hold for all of them -/
theorem every_version_balanced_in_every_history (iv : Option Nat) (ops : List (Op K V)) (u : Nat) (T : Node K V)
    (h : (u, some T) ∈ (stateAfter (initT iv) ops).versions) :
    Ordered T ∧ RoutingMin T ∧ AVL T ∧ fib (T.height + 2) ≤ T.size := by
  have hi := stateAfter_inv (initT iv : VState (OTree K V))
    ⟨trivial, trivial, by intro q hq; simp [initT] at hq⟩ ops
  have g : Good T := hi.gv _ h
  exact ⟨g.1, g.2.1, g.2.2, fib_le_size T g.2.2⟩

theorem size_is_count (t : Node K V) (h : SizeOK t) : t.size = t.toList.length := size_eq_length t h

end Iavl.Props.C11
