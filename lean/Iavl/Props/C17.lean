import Iavl.Model.KV
import Iavl.Lemmas.FetchFaults
import Iavl.Lemmas.V2EvictCorrect
/-
  C17 — storage failures surface as errors. Decided on the implementation by single-fault
  enumeration (harness mode `fault`): every storage call of every operation fails in turn. The
  model contributes the reference answers (fault-free result of every operation, C01/C02/C03) and
  the contract fact used to judge the store left behind: reads never write.
  Proved in addition (third session) on the model of a lazily loaded tree (`Model/V2Evict.lean`: child pointers that
  are nil are fetched by node key, as `getLeftNode` / `getRightNode` do in v1 and v2): when any set of fetches fails,
  every walk that propagates the error of a fetch - which is how the model's walks are written - reports the failure
  or gives exactly the fault-free answer; a shorter iteration or an absence is impossible. This is the verdict rule
  of the enumeration as a theorem; that the Go walks do propagate every fetch error is what the enumeration decides.
-/
namespace Iavl.Props.C17
open Iavl

/-- a failed or successful read leaves the store as it was: only operations that write can leave a
    mixture behind, which is what the harness re-opens and checks -/
theorem reads_leave_store (s : KVState) (k st en : Option Bytes) (rev : Bool) :
    (kvStep s (.get k)).1 = s ∧ (kvStep s (.has k)).1 = s ∧ (kvStep s (.iter st en rev)).1 = s :=
  reads_pure s k st en rev

variable {K V : Type}

/-- **a failed fetch is an error or the fault-free answer** (any tree shape with any children unloaded, any set of
    failing fetches): whatever a lookup, an existence test, a size query, a full or a ranged iteration (forward,
    reverse, inclusive or not) returns as a value under the failing store is what the intact store returns -/
theorem failed_fetch_is_an_error_or_the_fault_free_answer [Ord K] (st' st : Nat → Option (Node K V))
    (hf : Faulty st' st) (e : ENode K V) :
    (∀ key a, e.get st' key = some a → e.get st key = some a) ∧
    (∀ key a, e.has st' key = some a → e.has st key = some a) ∧
    (∀ n, e.size st' = some n → e.size st = some n) ∧
    (∀ xs, e.toList st' = some xs → e.toList st = some xs) ∧
    (∀ s en asc incl xs, e.range st' s en asc incl = some xs → e.range st s en asc incl = some xs) :=
  ⟨fun key _ h => get_faulty hf key e h, fun key _ h => has_faulty hf key e h, fun _ h => size_faulty hf e h,
   fun _ h => toList_faulty hf e h, fun s en asc incl _ h => range_faulty hf s en asc incl e h⟩

/-- ... in particular for a tree whose nodes were all written and any part of which is unloaded: an iteration under
    failing fetches is the complete iteration of the tree or an error, never a prefix of it -/
theorem iteration_is_complete_or_fails [Ord K] (st' st : Nat → Option (Node K V)) (hf : Faulty st' st)
    (ref : Node K V → Nat) (policy : Nat → Node K V → Bool) (d : Nat) (t : Node K V) (hs : Saved st ref t)
    (s en : Option K) (asc incl : Bool) :
    (evict policy ref d t).range st' s en asc incl = none ∨
    (evict policy ref d t).range st' s en asc incl = some (t.range s en asc incl) := by
  cases h : (evict policy ref d t).range st' s en asc incl with
  | none => exact Or.inl rfl
  | some xs =>
    right
    have := range_faulty hf s en asc incl _ h
    rw [range_evict st ref policy s en asc incl t d hs] at this
    exact this.symm ▸ rfl

/-- non-vacuity, both outcomes: the right leaf unloaded; the fetch of it failing gives an error for a full iteration
    and the complete answer for an iteration that never needs it -/
example :
    let l : Node Bytes Bytes := .leaf [97] [1] (some 1)
    let r : Node Bytes Bytes := .leaf [98] [2] (some 1)
    let e : ENode Bytes Bytes := .inner [98] 1 2 (some 1) (.leaf [97] [1] (some 1)) (.stub 7)
    let st : Nat → Option (Node Bytes Bytes) := fun n => if n = 7 then some r else none
    let st' : Nat → Option (Node Bytes Bytes) := fun _ => none
    e.range st none none true false = some [([97], [1]), ([98], [2])] ∧
    e.range st' none none true false = none ∧
    e.range st' none (some [98]) true false = some [([97], [1])] ∧
    l.toList = [([97], [1])] := by
  decide

end Iavl.Props.C17
