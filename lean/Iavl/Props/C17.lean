import Iavl.Model.KV
/-
  C17 — storage failures surface as errors. Decided on the implementation by single-fault
  enumeration (harness mode `fault`): every storage call of every operation fails in turn. The
  model contributes the reference answers (fault-free result of every operation, C01/C02/C03) and
  the contract fact used to judge the store left behind: reads never write.
-/
namespace Iavl.Props.C17
open Iavl

/-- a failed or successful read leaves the store as it was: only operations that write can leave a
    mixture behind, which is what the harness re-opens and checks -/
theorem reads_leave_store (s : KVState) (k st en : Option Bytes) (rev : Bool) :
    (kvStep s (.get k)).1 = s ∧ (kvStep s (.has k)).1 = s ∧ (kvStep s (.iter st en rev)).1 = s :=
  reads_pure s k st en rev

end Iavl.Props.C17
