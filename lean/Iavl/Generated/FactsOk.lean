import Iavl.Generated.Facts
/-
  The values of the constants of /repo the model is parametrised by (Facts.lean is regenerated from
  the source on every run). A changed constant breaks one of these `decide` proofs, and with it the
  build of every property module that imports this file.
-/
namespace Iavl.Facts

/-- key layout of the node store (C12, C13, C14, C16) -/
theorem keyspace_ok :
    nodeKeyPrefix = 115 ∧ fastKeyPrefix = 102 ∧ metadataKeyPrefix = 109 ∧
    legacyNodeKeyPrefix = 110 ∧ legacyOrphanKeyPrefix = 111 ∧ legacyRootKeyPrefix = 114 ∧
    int64Size = 8 ∧ int32Size = 4 ∧ nodeKeyLength = 13 ∧ nodeKeyPrefixLength = 9 := by decide

/-- hashing and node codec (C02, C03, C13) -/
theorem codec_ok : hashSize = 32 ∧ modeLegacyLeftNode = 1 ∧ modeLegacyRightNode = 2 := by decide

/-- fast-index label (C07) -/
theorem label_ok :
    storageVersionKey = "storage_version" ∧ fastStorageVersionDelimiter = "-" ∧
    defaultStorageVersionValue = "1.0.0" ∧ fastStorageVersionValue = "1.1.0" := by decide

/-- version numbering and batching (C14, C10, C05) -/
theorem numbering_ok : genesisVersion = 1 ∧ maxBatchSize = 10000 ∧ defaultFlushThreshold = 100000 := by decide

/-- the IAVL proof specification of the linked ics23 module (C03: Model/Ics23.lean uses 4, 12, 33, two
    children, no empty-child placeholder, leaf prefix 0x00, no depth override (default 128), keys
    compared as they are) -/
theorem ics23_ok :
    ics23MinPrefixLength = 4 ∧ ics23MaxPrefixLength = 12 ∧ ics23ChildSize = 33 ∧ ics23ChildOrderLen = 2 ∧
    ics23EmptyChildLen = 0 ∧ ics23LeafPrefixLen = 1 ∧ ics23LeafPrefixByte = 0 ∧ ics23MaxDepth = 0 ∧
    ics23MinDepth = 0 ∧ ics23PrehashKeyBeforeComparison = 0 := by decide

end Iavl.Facts
