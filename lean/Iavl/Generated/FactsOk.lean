import Iavl.Generated.Facts
/-
  The values of the constants of /repo the model is parametrised by (Facts.lean is regenerated from
  the source on every run). A changed constant breaks one of these `decide` proofs, and with it the
  build of every property module that imports this file.
-/
namespace Iavl.Facts

/-- key layout of the node store (C12, C13, C14, C16) -/
theorem keyspace_ok :
    nodeKeyPrefix = 115 ∧ fastKeyPrefix = 102 ∧ metadataKeyPrefix = 109 ∧
    legacyNodeKeyPrefix = 110 ∧ legacyOrphanKeyPrefix = 111 ∧ legacyRootKeyPrefix = 114 ∧
    int64Size = 8 ∧ int32Size = 4 ∧ nodeKeyLength = 13 ∧ nodeKeyPrefixLength = 9 := by decide

/-- hashing and node codec (C02, C03, C13) -/
theorem codec_ok : hashSize = 32 ∧ modeLegacyLeftNode = 1 ∧ modeLegacyRightNode = 2 := by decide

/-- fast-index label (C07) -/
theorem label_ok :
    storageVersionKey = "storage_version" ∧ fastStorageVersionDelimiter = "-" ∧
    defaultStorageVersionValue = "1.0.0" ∧ fastStorageVersionValue = "1.1.0" := by decide

/-- version numbering and batching (C14, C10, C05) -/
theorem numbering_ok : genesisVersion = 1 ∧ maxBatchSize = 10000 ∧ defaultFlushThreshold = 100000 := by decide

end Iavl.Facts
