import Iavl.Generated.Facts
/- C06: the guard of Exporter.Close that Model/Pins.lean transcribes (regenerated from export.go on every run) -/
namespace Iavl.Facts
theorem src_c06_ok :
    srcExporterCloseGuard = "if e.tree != nil { e.tree.ndb.decrVersionReaders(e.tree.version) } e.tree = nil" := by
  decide
end Iavl.Facts
