import Iavl.Generated.Facts
/- C20: the statements of v2 that Model/V2Log.lean transcribes (regenerated from v2/*.go on every run): which rows a
   load replays and from where, which rows the two pruners delete and how the requested version is rounded -/
namespace Iavl.Facts
theorem src_c20_ok :
    srcV2LeafOrphanQuery = "SELECT version, sequence, ROWID FROM leaf_orphan WHERE at <= ?" ∧
    srcV2LeafDeletePrune = "DELETE FROM leaf_delete WHERE version < ?" ∧
    srcV2RootPrune = "DELETE FROM root WHERE version < ?" ∧
    srcV2PruneTo = "pruneTo := checkpoints.FindPrevious(startPruningVersion)" ∧
    srcV2ReplayLeaf = "FROM leaf WHERE version > ? AND version <= ?" ∧
    srcV2ReplayDelete = "FROM leaf_delete WHERE version > ? AND version <= ?" ∧
    srcV2ReplayOrder = "ORDER BY version, sequence" ∧
    srcV2LoadFrom = "tree.version = tree.checkpoints.FindPrevious(version)" ∧
    srcV2CheckpointRule = "tree.shouldCheckpoint = tree.version == 1 || (tree.checkpointInterval > 0 && tree.version-tree.checkpoints.Last() >= tree.checkpointInterval) || (tree.checkpointMemory > 0 && tree.workingBytes >= tree.checkpointMemory)" :=
  ⟨rfl, rfl, rfl, rfl, rfl, rfl, rfl, rfl, rfl⟩
end Iavl.Facts
