import Iavl.Generated.Facts
/- C18: the lines of db/prefixdb.go that Model/PrefixBound.lean (`cpIncrCut`) and Lemmas/PrefixView.lean (`viewStart`,
   `viewEnd`) transcribe (regenerated on every run) -/
namespace Iavl.Facts
theorem src_c18_ok :
    srcCpIncrBody = "if len(bz) == 0 { panic(\"cpIncr expects non-zero bz length\") } ret = cp(bz) for i := len(bz) - 1; i >= 0; i-- { if ret[i] < byte(0xFF) { ret[i]++ return ret[:i+1] } ret[i] = byte(0x00) if i == 0 { // Overflow return nil } } return nil" ∧
    srcPrefixIterBounds = "pstart = append(cp(pdb.prefix), start...) if end == nil { pend = cpIncr(pdb.prefix) } else { pend = append(cp(pdb.prefix), end...) }" ∧
    srcPrefixRevIterBounds = "pstart = append(cp(pdb.prefix), start...) if end == nil { pend = cpIncr(pdb.prefix) } else { pend = append(cp(pdb.prefix), end...) }" :=
  ⟨rfl, rfl, rfl⟩
end Iavl.Facts
