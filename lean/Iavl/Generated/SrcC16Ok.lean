import Iavl.Generated.Facts
/- C16: the source line `legacy_bulk_prune_deletes_exactly_dead_nodes` transcribes (regenerated from nodedb.go on every run) -/
namespace Iavl.Facts
theorem src_c16_ok :
    srcLegacyScanCond = "(fromVersion <= legacyLatestVersion && toVersion < legacyLatestVersion) || fromVersion > legacyLatestVersion" := by
  decide
end Iavl.Facts
