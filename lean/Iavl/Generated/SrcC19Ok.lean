import Iavl.Generated.Facts
/- C19: the lines of v2/tree.go (`deepHash`: which child pointers are dropped) and v2/node.go (`evictChildren`,
   `getLeftNode` / `getRightNode`: fetch on a nil pointer, `get`) that Model/V2Evict.lean (`v2Policy`, `evict`,
   `ENode.get`) transcribes (regenerated on every run) -/
namespace Iavl.Facts
theorem src_c19_ok :
    srcV2EvictLeaves = "if tree.heightFilter > 0 { if node.leftNode != nil && node.leftNode.isLeaf() { if !node.leftNode.dirty { tree.returnNode(node.leftNode) } node.leftNode = nil } if node.rightNode != nil && node.rightNode.isLeaf() { if !node.rightNode.dirty { tree.returnNode(node.rightNode) } node.rightNode = nil } }" ∧
    srcV2EvictDepth = "if tree.shouldCheckpoint { if depth >= tree.evictionDepth { node.evictChildren() } }" ∧
    srcV2EvictChildren = "if node.leftNode != nil { node.leftNode.evict = true node.leftNode = nil } if node.rightNode != nil { node.rightNode.evict = true node.rightNode = nil }" ∧
    srcV2GetLeftNode = "if node.isLeaf() { return nil, errors.New(\"leaf node has no left node\") } if node.leftNode != nil { return node.leftNode, nil } var err error node.leftNode, err = t.sql.getLeftNode(node) if err != nil { return nil, err } return node.leftNode, nil" ∧
    srcV2GetRightNode = "if node.isLeaf() { return nil, errors.New(\"leaf node has no right node\") } if node.rightNode != nil { return node.rightNode, nil } var err error node.rightNode, err = t.sql.getRightNode(node) if err != nil { return nil, err } return node.rightNode, nil" ∧
    srcV2NodeGet = "if node.isLeaf() { switch bytes.Compare(node.key, key) { case -1: return 1, nil, nil case 1: return 0, nil, nil default: return 0, node.value, nil } } if bytes.Compare(key, node.key) < 0 { leftNode, err := node.getLeftNode(t) if err != nil { return 0, nil, err } return leftNode.get(t, key) } rightNode, err := node.getRightNode(t) if err != nil { return 0, nil, err } index, value, err = rightNode.get(t, key) if err != nil { return 0, nil, err } index += node.size - rightNode.size return index, value, nil" :=
  ⟨rfl, rfl, rfl, rfl, rfl, rfl⟩
end Iavl.Facts
