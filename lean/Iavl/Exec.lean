import Iavl.Lemmas.Refine
import Iavl.Model.Sha256
import Iavl.Model.Proof
import Iavl.Model.Compress
import Iavl.Model.Delta
import Iavl.Model.Importer
import Iavl.Model.ChangeSet
import Iavl.Model.Store
import Iavl.Model.KV
import Iavl.Model.ReadCost
import Iavl.Model.Ics23
import Iavl.Model.ProofGen
import Iavl.Model.Flusher
import Iavl.Model.IndexMachine
import Iavl.Model.V2Log
import Iavl.Model.Pins
/-
  The executable face of the model: a line-protocol interpreter that answers every operation of a
  history with exactly the definitions the theorems are about (`VTree.step`, `hashNode`, `mkProof`,
  `Node.walk`, `exportNodes`, `cexpAll`, …). Used by `Driver/Main.lean`.
-/
namespace Iavl.Exec
open Iavl

abbrev T := Node Bytes Bytes
abbrev OT := OTree Bytes Bytes

/-! ### text encoding (must match harness/v1/main.go) -/

def hexDigit (n : Nat) : Char := if n < 10 then Char.ofNat (48 + n) else Char.ofNat (87 + n)
def hexOf (b : Bytes) : String :=
  String.mk (b.foldr (fun x acc => hexDigit (x.toNat / 16) :: hexDigit (x.toNat % 16) :: acc) [])
def enc (b : Option Bytes) : String := match b with | none => "-" | some b => "x" ++ hexOf b

def hexVal (c : Char) : Option Nat :=
  if '0' ≤ c ∧ c ≤ '9' then some (c.toNat - 48)
  else if 'a' ≤ c ∧ c ≤ 'f' then some (c.toNat - 87)
  else if 'A' ≤ c ∧ c ≤ 'F' then some (c.toNat - 55) else none
def unhexGo : List Char → Option Bytes
  | [] => some []
  | a :: b :: rest => do
    let x ← hexVal a; let y ← hexVal b; let r ← unhexGo rest
    pure (UInt8.ofNat (16 * x + y) :: r)
  | _ => none
/-- `-` = nil, `x<hex>` = bytes -/
def dec (s : String) : Option (Option Bytes) :=
  match s.toList with
  | ['-'] => some none
  | 'x' :: rest => (unhexGo rest).map some
  | _ => none

def b2s (b : Bool) : String := if b then "1" else "0"

def fmtPairs (ps : List (Bytes × Bytes)) : String :=
  "[" ++ " ".intercalate (ps.map fun p => enc (some p.1) ++ "=" ++ enc (some p.2)) ++ "]"

/-! ### hashing -/
def H : Bytes → Bytes := Sha256.sha256
def emptyHash : Bytes := H []
def hashO (working : Nat) : OT → Bytes
  | none => emptyHash
  | some t => hashNode H working t

/-! ### proofs (C03) -/
def fmtExist (p : ExistProof) : String :=
  "E(" ++ enc (some p.key) ++ " " ++ enc (some p.value) ++ " " ++ enc (some p.leafPfx) ++ " [" ++
    " ".intercalate (p.path.map fun op => enc (some op.pfx) ++ ":" ++ enc (some op.sfx)) ++ "])"

def memProof (working : Nat) (t : T) (key : Bytes) : ProofRes := memProofG H working t key
def nonMemProof (working : Nat) (t : T) (key : Bytes) : ProofRes := nonMemProofG H working t key
def getProof (working : Nat) (t : T) (key : Bytes) : ProofRes := getProofG H working t key

def fmtOptExist : Option ExistProof → String
  | none => "nil"
  | some p => fmtExist p
def fmtProofRes : ProofRes → String
  | .err => "err"
  | .exist p => "exist " ++ fmtExist p
  | .nonexist k l r => "nonexist " ++ enc (some k) ++ " L=" ++ fmtOptExist l ++ " R=" ++ fmtOptExist r

/-! ### export (C10) -/
def fmtExportNode (n : ExportNode Bytes Bytes) : String :=
  enc (some n.key) ++ "/" ++ enc n.value ++ "/" ++ toString n.version ++ "/" ++ toString n.height
def fmtCNode (n : CNode Bytes Bytes) : String :=
  enc n.key ++ "/" ++ enc n.value ++ "/" ++ toString n.version ++ "/" ++ toString n.height

def deltaEnc (k : Bytes) (last : Option Bytes) : Bytes := deltaEncode k (last.getD [])

/-! ### state -/
structure XState where
  vs : VState OT
  opened : Bool
  cfgIv : Option Nat
  streams : List (String × List (Option RawNode)) := []
  cfgFast : Bool := true
  fastOpen : Bool := true
  legacyLatest : Option Nat := none   -- set by `adopt` while legacy-format versions are still stored
  adoptedUpTo : Nat := 0              -- the latest legacy version at `adopt` (0 = no legacy database)
  converted : List (Nat × Bytes) := [] -- legacy roots re-stored in the new format by commits without new nodes: (node version, hash)
  kv : KVState := KVState.empty
  kvPfx : Bytes := []
  holds : List (String × Nat) := []   -- open exports: (handle, pinned version)
  pins : Pins.St := Pins.init          -- C06: the reader counters of Model/Pins.lean (`pinned_version_survives`)
  pinIds : List String := []           -- the handle of each exporter of `pins`, same order
  prunedEver : Bool := false           -- a deletion of old versions may re-key a root to (v,0): fetching it then costs a second read
  cfgCache : Nat := 0                  -- node cache size of the configuration (read counts are predicted for 0 only)
  ix : IxSt Bytes Bytes := IxSt.init none true   -- C07: the index machine, stepped beside the tree machine
  ixValid : Bool := true               -- false once an operation outside the index machine's alphabet has run

def init : XState := { vs := initT none, opened := false, cfgIv := none }

/-! ### change sets (C15) -/
def fmtChange : Change Bytes Bytes → String
  | .set k v => enc (some k) ++ "=" ++ enc (some v)
  | .del k => "del:" ++ enc (some k)

def changesOut (vs : VState OT) (a b : Nat) : String :=
  let first := firstVer vs.versions
  let latest := latestVer vs.versions
  let start := max a first
  let stop := min b latest
  let rec go (v : Nat) (fuel : Nat) (prevV : Nat) (prev : OT) (acc : String) : String :=
    match fuel with
    | 0 => "ok " ++ acc
    | fuel + 1 =>
      if v > stop then "ok " ++ acc else
      match findVer vs.versions v with
      | none => "err " ++ acc
      | some cur =>
        let cs := changeSet prevV prev cur
        go (v + 1) fuel v cur (acc ++ "v" ++ toString v ++ "{" ++ " ".intercalate (cs.map fmtChange) ++ "}")
  go start (stop + 2 - start) (start - 1) ((findVer vs.versions (start - 1)).getD none) ""

def parseChanges (s : String) : List (Change Bytes Bytes) :=
  if s == "-" || s == "" then [] else
  (s.splitOn ",").filterMap fun tok =>
    if tok.startsWith "del:" then
      match dec (tok.drop 4).toString with | some (some k) => some (.del k) | _ => none
    else match tok.splitOn "=" with
      | [k, v] => (match dec k, dec v with | some (some k), some (some v) => some (.set k v) | _, _ => none)
      | _ => none

/-! ### import (C10) -/
def rawOfExport (n : ExportNode Bytes Bytes) : RawNode := ⟨some n.key, n.value, n.version, n.height⟩
def rawOfC (n : CNode Bytes Bytes) : RawNode := ⟨n.key, n.value, n.version, n.height⟩

def parseInt (s : String) : Int :=
  if s.startsWith "-" then - ((s.drop 1).toString.toNat!) else s.toNat!

def parseRaw (tok : String) : Option (Option RawNode) :=
  if tok == "nil" then some none else
  match tok.splitOn "/" with
  | [k, v, ver, h] =>
    match dec k, dec v with
    | some k, some v => some (some ⟨k, v, parseInt ver, parseInt h⟩)
    | _, _ => none
  | _ => none

def parseNodes (s : String) : List (Option RawNode) :=
  if s == "" || s == "-" then [] else (s.splitOn ",").filterMap parseRaw

/-- fold a (possibly compressed) stream through the importer; result text as the harness prints it -/
def runImport (importVer : Int) (zip : Bool) (nodes : List (Option RawNode)) (commit : Bool) :
    String × Option (Option (Node Bytes Bytes)) :=
  let rec go (st : List ImpEntry) (z : ZState) (ns : List (Option RawNode)) (i : Nat) : String × Option (List ImpEntry) :=
    match ns with
    | [] => ("ok", some st)
    | n :: rest =>
      let dn : ImpOut (ZState × Option RawNode) :=
        if zip then
          match zAdd z n with
          | .ok (z', r) => .ok (z', some r)
          | .err => .err
          | .panic => .panic
        else .ok (z, n)
      match dn with
      | .err => ("err:add@" ++ toString i, none)
      | .panic => ("panic", none)
      | .ok (z', n') =>
        match impAdd importVer st n' with
        | .ok st' => go st' z' rest (i + 1)
        | .err => ("err:add@" ++ toString i, none)
        | .panic => ("panic", none)
  match go [] ⟨[], [], []⟩ nodes 0 with
  | (msg, none) => (msg, none)
  | (_, some st) =>
    if !commit then ("ok", none) else
    match impCommit st with
    | .ok t => ("ok", some t)
    | _ => ("err:commit", none)


def optKey (s : String) : Option (Option Bytes) := dec s

/-- leaf version of a key (for `IterateRangeInclusive`) -/
def leafVer : T → Bytes → Option Nat
  | .leaf k _ ver, key => if k = key then ver else none
  | .inner k _ _ _ l r, key => if compare key k = .lt then leafVer l key else leafVer r key

def stopOf (args : List String) : Nat :=
  match args.find? (fun a => a.startsWith "stop=") with
  | some a => (a.drop 5).toString.toNat!
  | none => 0

def cutAt (stop : Nat) (l : List (Bytes × Bytes)) : List (Bytes × Bytes) × Bool :=
  if stop > 0 ∧ l.length ≥ stop then (l.take stop, true) else (l, false)

def fmtRes : Res Bytes Bytes → String
  | .unit => "ok"
  | .err => "err"
  | .bool b => b2s b
  | .nat n => toString n
  | .version n => "ver=" ++ toString n
  | .optVal v => enc v
  | .removed v b => if b then "rm=1 " ++ enc v else "rm=0"
  | .idxVal i v => toString i ++ " " ++ enc v
  | .kv none => "- -"
  | .kv (some (k, v)) => enc (some k) ++ " " ++ enc (some v)
  | .list l => fmtPairs l
  | .versions l => "[" ++ ",".intercalate (l.map toString) ++ "]"

/-- reads on one tree; `working` = the version an unsaved node is hashed with (`t.version+1`) -/
def immOp (working : Nat) (c : OT) (args : List String) : String :=
  let rd (r : ReadOp Bytes) : String := fmtRes (readTree c r)
  match args with
  | ["get", k] => match dec k with | some (some k) => rd (.get k) | _ => "bad"
  | ["has", k] => match dec k with | some (some k) => rd (.has k) | _ => "bad"
  | ["gwi", k] => match dec k with | some (some k) => rd (.getWithIndex k) | _ => "bad"
  | ["gbi", i] =>
    -- a negative rank names nothing (Go: the descent ends at the leftmost leaf with index != 0)
    if i.startsWith "-" then "- -" else rd (.getByIndex i.toNat!)
  | ["size"] => rd .size
  | ["height"] => toString (match c with | none => 0 | some t => t.height)
  | ["hash"] => enc (some (hashO working c))
  | "iter" :: s :: e :: dir :: _ =>
    match dec s, dec e with
    | some s, some e => fmtRes (readTree c (.range s e (dir == "asc") false)) ++ " valid=0"
    | _, _ => "bad"
  | "iterinc" :: s :: e :: _ =>
    match dec s, dec e with
    | some s, some e => fmtRes (readTree c (.range s e true true)) ++ " valid=0"
    | _, _ => "bad"
  | "iterate" :: rest =>
    match readTree c (.range none none true false) with
    | .list l => let (l', st) := cutAt (stopOf rest) l; fmtPairs l' ++ " stopped=" ++ b2s st
    | _ => "bad"
  | "irange" :: s :: e :: dir :: rest =>
    match dec s, dec e with
    | some s, some e =>
      match readTree c (.range s e (dir == "asc") false) with
      | .list l => let (l', st) := cutAt (stopOf rest) l; fmtPairs l' ++ " stopped=" ++ b2s st
      | _ => "bad"
    | _, _ => "bad"
  | "irangeinc" :: s :: e :: dir :: rest =>
    match dec s, dec e with
    | some s, some e =>
      match readTree c (.range s e (dir == "asc") true) with
      | .list l =>
        let (l', st) := cutAt (stopOf rest) l
        let vers := l'.map fun p => match c with
          | some t => toString ((leafVer t p.1).getD working)   -- an uncommitted leaf belongs to the version being built
          | none => "0"
        fmtPairs l' ++ " stopped=" ++ b2s st ++ " vers=" ++ ",".intercalate vers
      | _ => "bad"
    | _, _ => "bad"
  | "export" :: mode :: _ =>
    match c with
    | none => "[]"
    | some t =>
      let ns := exportNodes working t
      if mode == "zip" then
        match cexpAll (K' := Bytes) deltaEnc ⟨none, []⟩ ns with
        | some (_, cs) => "[" ++ " ".intercalate (cs.map fmtCNode) ++ "]"
        | none => "panic"
      else "[" ++ " ".intercalate (ns.map fmtExportNode) ++ "]"
  | [kind, k] =>
    match dec k, c with
    | some (some k), some t =>
      if kind == "proof" then fmtProofRes (getProof working t k)
      else if kind == "memproof" then fmtProofRes (memProof working t k)
      else if kind == "nonmemproof" then fmtProofRes (nonMemProof working t k)
      else "?"
    | some (some _), none => if kind == "proof" then "err" else "?"
    | _, _ => "bad"
  | _ => "?"

/-! ### decoders (C13) -/
def be8 (v : Int) : Bytes :=
  let u : Nat := (v % (2 ^ 64 : Int)).toNat
  (List.range 8).map (fun i => UInt8.ofNat (u / 256 ^ (7 - i) % 256))
def be4 (n : Nat) : Bytes := (List.range 4).map (fun i => UInt8.ofNat (n / 256 ^ (3 - i) % 256))
def fmtChild : ChildRef → String
  | .new v n => hexOf (be8 v ++ be4 n)
  | .legacy h => hexOf h

def codecExec (args : List String) : Option String :=
  match args with
  | [op, buf] =>
    match dec buf with
    | some (some bz) =>
      if op == "makenode" then
        some (match decNode bz with
          | none => "err"
          | some (.leaf sz k v) => s!"leaf sz={sz} k={enc (some k)} v={enc (some v)}"
          | some (.inner h sz k hash l r) =>
            s!"inner h={h} sz={sz} k={enc (some k)} hash={enc (some hash)} l={fmtChild l} r={fmtChild r}")
      else if op == "makelegacy" then
        some (match decLegacyNode bz with
          | none => "err"
          | some (.leaf h sz ver k v) => s!"leaf h={h} sz={sz} ver={ver} k={enc (some k)} v={enc (some v)}"
          | some (.inner h sz ver k l r) => s!"inner h={h} sz={sz} ver={ver} k={enc (some k)} l={hexOf l} r={hexOf r}")
      else if op == "fastnode" then
        some (match decFastNode bz with | none => "err" | some (ver, v) => s!"ver={ver} v={enc (some v)}")
      else if op == "decbytes" then
        some (match takeBytes bz with | none => "err" | some (b, rest) => s!"{enc (some b)} n={bz.length - rest.length}")
      else if op == "decvarint" then
        some (match takeVarint bz with | none => "err" | some (i, rest) => s!"{i} n={bz.length - rest.length}")
      else if op == "decuvarint" then
        some (match takeUvarint bz with | none => "err" | some (u, rest) => s!"{u} n={bz.length - rest.length}")
      else if op == "rootval" then some "nopanic"
      else none
    | _ => none
  | _ => none

/-! ### ordered key-value contract (C18) -/
def fmtK : KRes → String
  | .ok => "ok"
  | .err => "err"
  | .val v => enc v
  | .bool b => b2s b
  | .list l => fmtPairs l

def kvExec (x : XState) (args : List String) : Option (XState × String) :=
  let run (op : KOp) : Option (XState × String) :=
    let (kv', r) := kvStep x.kv op
    some ({ x with kv := kv' }, fmtK r)
  match args with
  | "knew" :: _ :: rest =>
    let pfx := rest.foldl (fun acc a => if a.startsWith "pfx=" then ((dec (a.drop 4).toString).getD none).getD [] else acc) []
    some ({ x with kv := KVState.empty, kvPfx := pfx }, "ok")
  | ["kget", k] => (dec k).bind fun k => run (.get k)
  | ["khas", k] => (dec k).bind fun k => run (.has k)
  | ["kset", k, v] => (dec k).bind fun k => (dec v).bind fun v => run (.set k v)
  | ["kdel", k] => (dec k).bind fun k => run (.del k)
  | ["kiter", s, e] => (dec s).bind fun s => (dec e).bind fun e => run (.iter s e false)
  | ["kriter", s, e] => (dec s).bind fun s => (dec e).bind fun e => run (.iter s e true)
  | ["kbnew", b] => run (.bnew b)
  | ["kbset", b, k, v] => (dec k).bind fun k => (dec v).bind fun v => run (.bset b k v)
  | ["kbdel", b, k] => (dec k).bind fun k => run (.bdel b k)
  | ["kbwrite", b] => run (.bwrite b)
  | ["kbclose", b] => run (.bclose b)
  | ["krawset", k, v] =>
    match dec k, dec v with
    | some (some k), some (some v) =>
      let p := x.kvPfx
      if p.isPrefixOf k && k.length > p.length then
        some ({ x with kv := { x.kv with m := insertSorted (k.drop p.length) v x.kv.m } }, "ok")
      else some ({ x with kv := { x.kv with outside := insertSorted k v x.kv.outside } }, "ok")
    | _, _ => none
  | ["krawdump"] => some (x, fmtPairs x.kv.outside)
  | _ => none

def sameRoot (vs : VState OT) : Bool :=
  let ver := vs.workingVersion
  match findVer vs.versions ver with
  | none => false
  | some none => vs.working.isNone
  | some (some t) => hashNode H ver t == hashO ver vs.working   -- a persisted tree hashes the same under any version

def stepOp (x : XState) (op : Op Bytes Bytes) : XState × String :=
  let (vs', r) := VTree.step x.vs op
  ({ x with vs := vs', ix := x.ix.step x.cfgFast op }, fmtRes r)

def parseIv (s : String) : Option Nat := if s == "-" then none else s.toNat?

/-! ### the ics23 verifier on externally supplied proofs (C03) -/
def parseOps : Nat → List String → Option (List InnerOp × List String)
  | 0, toks => some ([], toks)
  | n + 1, p :: s :: toks =>
    match dec p, dec s, parseOps n toks with
    | some (some pb), some (some sb), some (ops, rest) => some (⟨pb, sb⟩ :: ops, rest)
    | _, _, _ => none
  | _, _ => none

/-- `<key> <value> <leafprefix> <n> <pfx sfx>*` or `-` -/
def parseExist : List String → Option (Option ExistProof × List String)
  | "-" :: rest => some (none, rest)
  | k :: v :: lp :: n :: rest =>
    match dec k, dec v, dec lp, parseOps n.toNat! rest with
    | some (some kb), some (some vb), some (some lb), some (ops, rest') => some (some ⟨kb, vb, lb, ops⟩, rest')
    | _, _, _, _ => none
  | _ => none

def icsVerify : List String → String
  | "vex" :: root :: key :: value :: rest =>
    (match dec root, dec key, dec value, parseExist rest with
     | some (some r), some (some k), some (some v), some (some p, _) => b2s (verifyExist H r p k v)
     | _, _, _, _ => "bad")
  | "vnon" :: root :: key :: "L" :: rest =>
    (match dec root, dec key, parseExist rest with
     | some (some r), some (some k), some (l, "R" :: rest') =>
       (match parseExist rest' with
        | some (rr, _) => b2s (verifyNonExist H r ⟨k, l, rr⟩ k)
        | none => "bad")
     | _, _, _ => "bad")
  | _ => "bad"

partial def exec (x : XState) (args : List String) : XState × String :=
  match args with
  | "new" :: _ :: "legacy" :: _ => ({ init with opened := true, ixValid := false }, "ok")   -- the legacy library starts on an empty store
  | "new" :: _ => (init, "ok")
  | ["flushcheck", thr, sizes] =>
    -- the physical writes `BatchWithFlusher` makes of a sequence of operations given by their sizes
    -- (`s<key length>+<value length>` / `d<key length>`), as chunk lengths (empty writes are not recorded)
    let ops : List BOp := (sizes.splitOn ",").filterMap fun tok =>
      if tok.startsWith "s" then
        match (tok.drop 1).toString.splitOn "+" with
        | [a, b] => some (.set (List.replicate a.toNat! 0) (List.replicate b.toNat! 0))
        | _ => none
      else if tok.startsWith "d" then some (.del (List.replicate (tok.drop 1).toString.toNat! 0))
      else none
    let chunks := (flushSplit thr.toNat! ops).filter (fun c => !c.isEmpty)
    (x, "chunks=" ++ ",".intercalate (chunks.map fun c => toString c.length))
  | ["lrootval", _] => (x, "ok ver=1 val=x76")   -- a legacy store loads whatever the bytes of its root hash are
  | ["wlog"] => (x, "?")   -- answered only when the harness supplied the write log (then the line reads `flushcheck …`)
  | ["vrange", lst, v] =>
    -- v2 `VersionRange`: `Add` of each number (refused unless strictly ascending), then `FindPrevious`
    let adds : List Nat := if lst == "-" then [] else (lst.splitOn ",").map String.toNat!
    match adds.foldl (fun acc a => acc.bind (fun vs => V2.rangeAdd vs a)) (some []) with
    | none => (x, "err-add")
    | some vs =>
      (x, (match V2.findPrevious vs v.toNat! with | none => "-1" | some c => toString c) ++ " " ++
          (match V2.find vs v.toNat! with | none => "-1" | some c => toString c))
  | "vex" :: _ => (x, icsVerify args)
  | "vnon" :: _ => (x, icsVerify args)
  | ["adopt"] =>
    -- the current library opens the database the legacy library wrote: a fresh tree object, Load()
    let (x', r) := stepOp x (.reopen x.cfgIv 0)
    ({ x' with opened := true, fastOpen := x.cfgFast, legacyLatest := some (latestVer x.vs.versions),
               adoptedUpTo := latestVer x.vs.versions, ixValid := false }, r)
  | ["ldel", v] =>
    -- legacy DeleteVersion: any version but the latest
    let n := v.toNat!
    if n == latestVer x.vs.versions || (findVer x.vs.versions n).isNone then (x, "err")
    else ({ x with vs := { x.vs with versions := x.vs.versions.filter (fun p => p.1 != n) }, ixValid := false }, "ok")
  | ["ldelrange", a, b] =>
    let lo := a.toNat!
    let hi := b.toNat!
    if latestVer x.vs.versions < hi then (x, "err")
    else ({ x with vs := { x.vs with versions := x.vs.versions.filter (fun p => p.1 < lo || p.1 ≥ hi) }, ixValid := false }, "ok")
  | "fresh" :: _ => ({ init with streams := x.streams, ixValid := false }, "ok")
  | "makenode" :: _ | "makelegacy" :: _ | "fastnode" :: _ | "decbytes" :: _ | "decvarint" :: _ | "decuvarint" :: _
  | "rootval" :: _ => (x, (codecExec args).getD "bad")
  | "knew" :: _ | "kget" :: _ | "khas" :: _ | "kset" :: _ | "kdel" :: _ | "kiter" :: _ | "kriter" :: _
  | "kbnew" :: _ | "kbset" :: _ | "kbdel" :: _ | "kbwrite" :: _ | "kbclose" :: _ | "krawset" :: _ | "krawdump" :: _ =>
    (kvExec x args).getD (x, "bad")
  | "cfg" :: rest =>
    let iv := rest.foldl (fun acc a => if a.startsWith "iv=" then parseIv (a.drop 3).toString else acc) x.cfgIv
    let fast := rest.foldl (fun acc a => if a.startsWith "fast=" then a == "fast=1" else acc) x.cfgFast
    let cache := rest.foldl (fun acc a => if a.startsWith "cache=" then (a.drop 6).toString.toNat! else acc) x.cfgCache
    ({ x with cfgIv := iv, cfgFast := fast, cfgCache := cache }, "ok")
  | "open" :: rest =>
    let target := match rest with | t :: _ => t.toNat! | [] => 0
    let (x', r) := stepOp x (.reopen x.cfgIv target)
    ({ x' with opened := true, fastOpen := x.cfgFast, holds := [], pins := Pins.init, pinIds := [] }, r)
  | ["opennl"] =>
    -- a new `MutableTree` on the same store, not loaded: the state a failed load leaves as well
    ({ x with vs := x.vs.fresh treeContent x.cfgIv, opened := true, fastOpen := x.cfgFast, holds := [], pins := Pins.init, pinIds := [],
              ix := { x.ix with vs := x.ix.vs.fresh mapContent x.cfgIv, fast := x.cfgFast, adds := [], rems := [] } }, "ok")
  | ["close"] => ({ x with opened := false, holds := [], pins := Pins.init, pinIds := [] }, "ok")
  | ["dump"] => (x, "?")
  | ["ixdump"] =>
    -- the persisted fast index as the index machine predicts it: label and entries with their stamps
    if !x.ixValid then (x, "?") else
    let lab := match x.ix.label with | none => "none" | some v => toString v
    let ents := x.ix.index.map fun p => enc (some p.1) ++ "=" ++ enc (some p.2.1) ++ "@" ++ toString p.2.2
    (x, "label=" ++ lab ++ " idx=[" ++ ",".intercalate ents ++ "]")
  | ["encodedb", n, "short"] =>
    -- versions n-1 and n, the second one a short-form reference to the first (when version n inherited its root)
    match findVer x.vs.versions n.toNat! with
    | none => (x, "err")
    | some c =>
      match encodeVersionShort H n.toNat! c with
      | none => exec x ["encodedb", n]
      | some img =>
        let txt := "{" ++ " ".intercalate (img.map fun p => hexOf p.1 ++ ":" ++ hexOf p.2) ++ "}"
        ({ x with vs := { x.vs with versions := [(n.toNat! - 1, c), (n.toNat!, c)], working := c, lastSaved := c, base := n.toNat! },
                  opened := true, fastOpen := x.cfgFast, legacyLatest := none, ixValid := false }, "img=" ++ txt)
  | ["encodedb", n] =>
    -- the model writes a database image of version n with its own encoder; from here on the store
    -- holds exactly that version
    match findVer x.vs.versions n.toNat! with
    | none => (x, "err")
    | some c =>
      let img := encodeVersion H n.toNat! c
      let txt := "{" ++ " ".intercalate (img.map fun p => hexOf p.1 ++ ":" ++ hexOf p.2) ++ "}"
      ({ x with vs := { x.vs with versions := [(n.toNat!, c)], working := c, lastSaved := c, base := n.toNat! },
                opened := true, fastOpen := x.cfgFast, legacyLatest := none, ixValid := false }, "img=" ++ txt)
  | "checkdump" :: toks =>
    let data := " ".intercalate toks
    let body := ((data.drop 1).dropRight 1).toString
    let pairs : Option KVPairs := if body == "" then some [] else
      (body.splitOn " ").mapM fun tok =>
        match tok.splitOn ":" with
        | [k, v] => (match unhexGo k.toList, unhexGo v.toList with | some k, some v => some (k, v) | _, _ => none)
        | _ => none
    match pairs with
    | none => (x, "bad dump")
    | some d => (x, auditDump H x.vs.versions (x.fastOpen && x.opened) d)
  | ["writes"] => (x, "?")
  | _ =>
  if !x.opened then (x, "notree") else
  match args with
  | ["set", k, v] =>
    match dec k, dec v with
    | some (some k), some (some v) => let (x', r) := stepOp x (.set k v); (x', "upd=" ++ r)
    | some (some _), some none => (x, "err")
    | _, _ => (x, "bad")
  | ["rm", k] => match dec k with | some (some k) => stepOp x (.remove k) | _ => (x, "bad")
  | ["setiv", n] => ({ x with vs := { x.vs with ivOpt := n.toNat!, ivSet := true },
                              ix := { x.ix with vs := { x.ix.vs with ivOpt := n.toNat!, ivSet := true } } }, "ok")   -- SetInitialVersion
  | ["getrace", k, v] =>
    -- conc mode: a reader of the latest version looks `k` up while the writer removes / rewrites it and commits;
    -- the reader sees its version's value, the writer's commit is an ordinary one
    match dec k with
    | some (some kb) =>
      let old : Option Bytes := (findVer x.vs.versions x.vs.base).bind (fun c => c.bind (fun t => (t.get kb).2))
      let x1 := if v == "-" then (stepOp x (.remove kb)).1
                else match dec v with | some (some vb) => (stepOp x (.set kb vb)).1 | _ => x
      let (x2, r) := exec x1 ["save"]
      (x2, r ++ " reader=" ++ enc old)
    | _ => (x, "bad")
  | ["iterrace"] => exec x ["save"]   -- conc mode: a commit raced by a parked reader; for the model it is a commit
  | ["save"] =>
    let same := sameRoot x.vs
    -- hazard K24: a commit whose root is a persisted *legacy* node re-stores that node under
    -- (node version, 0); two different such roots with the same node version collide
    let rootVer : Option Nat := match x.vs.working with
      | some (.leaf _ _ (some u)) => some u
      | some (.inner _ _ _ (some u) _ _) => some u
      | _ => none
    let (x', r) := stepOp x (.save same)
    if r == "err" then (x', r) else
    let h := hashO 0 x'.vs.working
    let out := r ++ " hash=" ++ enc (some h)
    match rootVer with
    | some u =>
      if x.adoptedUpTo > 0 && u ≤ x.adoptedUpTo then
        let clash := x.converted.any (fun p => p.1 == u && p.2 != h)
        ({ x' with converted := (u, h) :: x.converted }, if clash then out ++ " !K24" else out)
      else (x', out)
    | none => (x', out)
  | ["rollback"] => stepOp x .rollback
  | ["load", n] => stepOp x (.load n.toNat!)
  | ["loadow", n] =>
    let (x', r) := stepOp x (.loadow n.toNat!)
    -- a rollback into the legacy range shortens it
    (if r == "ok" then { x' with legacyLatest := x.legacyLatest.map (fun ll => min ll n.toNat!) } else x', r)
  | ["prune", n] =>
    -- a request that would delete a version pinned by an open export is refused and changes nothing
    -- (decided by the reader check of Model/Pins.lean on the counters kept since the exports were opened)
    if Pins.pruneRefused { x.pins with versions := x.vs.versions.map (·.1) } n.toNat! then (x, "err") else
    -- legacy versions are deleted in bulk: a target below the latest legacy version deletes nothing yet
    match x.legacyLatest with
    | some ll =>
      if n.toNat! < ll then
        (if latestVer x.vs.versions ≤ n.toNat! then (x, "err") else (x, "ok"))
      else
        let (x', r) := stepOp x (.prune n.toNat!)
        (if r == "ok" then { x' with legacyLatest := none } else x', r)
    | none =>
      let (x', r) := stepOp x (.prune n.toNat!)
      ({ x' with prunedEver := x.prunedEver || r == "ok" }, r)
  | ["delfrom", n] => stepOp x (.delfrom n.toNat!)
  | ["whash"] => (x, enc (some (hashO x.vs.workingVersion x.vs.working)))
  | ["lhash"] => (x, enc (some (hashO 0 x.vs.lastSaved)))
  | ["chash"] =>
    -- the hash of the last saved version, asked only while the working tree is clean (v2's Hash()
    -- is undefined on a dirty tree)
    let dirty := match x.vs.working with
      | some (.leaf _ _ none) => true
      | some (.inner _ _ _ none _ _) => true
      | _ => false
    if dirty || (x.vs.working.isNone && x.vs.lastSaved.isSome) then (x, "?") else (x, enc (some (hashO 0 x.vs.working)))
  | ["wver"] => (x, toString x.vs.workingVersion)
  | ["isempty"] => (x, b2s x.vs.working.isNone)
  | ["latest"] => stepOp x .latest
  | ["avail"] => stepOp x .available
  | ["vexists", n] => stepOp x (.versionExists n.toNat!)
  | ["getv", k, n] => match dec k with | some (some k) => stepOp x (.getVersioned k n.toNat!) | _ => (x, "bad")
  | "miter" :: rest => (x, immOp (x.vs.base + 1) x.vs.working ("iter" :: rest))
  | "miterate" :: rest => (x, immOp (x.vs.base + 1) x.vs.working ("iterate" :: rest))
  | "imm" :: n :: "export" :: mode :: rest =>
    match findVer x.vs.versions n.toNat! with
    | none => (x, "err")
    | some c =>
      let out := immOp (n.toNat! + 1) c ("export" :: mode :: rest)
      let raws : List (Option RawNode) := match c with
        | none => []
        | some t =>
          let ns := exportNodes (n.toNat! + 1) t
          if mode == "zip" then
            match cexpAll (K' := Bytes) deltaEnc ⟨none, []⟩ ns with
            | some (_, cs) => cs.map (fun c => some (rawOfC c))
            | none => []
          else ns.map (fun e => some (rawOfExport e))
      let x' := rest.foldl (fun (acc : XState) a =>
        if a.startsWith "store=" then { acc with streams := ((a.drop 6).toString, raws) :: acc.streams } else acc) x
      (x', out)
  | "imm" :: n :: rest =>
    match findVer x.vs.versions n.toNat! with
    | none => (x, "err")
    | some c => (x, immOp (n.toNat! + 1) c rest)
  | "import" :: ver :: mode :: rest =>
    let nodes : List (Option RawNode) := rest.foldl (fun acc a =>
      if a.startsWith "stream=" then ((x.streams.find? (fun p => p.1 == (a.drop 7).toString)).map (·.2)).getD []
      else if a.startsWith "nodes=" then parseNodes (a.drop 6).toString else acc) []
    let commit := !rest.contains "nocommit"
    let iver := parseInt ver
    if iver < 0 || !x.vs.versions.isEmpty || x.vs.working.isSome then (x, "err:new") else
    match runImport iver (mode == "zip") nodes commit with
    | (msg, some t) =>
      ({ x with vs := { x.vs with versions := [(iver.toNat, t)], working := t, lastSaved := t, base := iver.toNat },
                ixValid := false }, msg)
    | (msg, none) => (x, msg)
  | ["vproof", k, n] =>
    match findVer x.vs.versions n.toNat!, dec k with
    | some (some t), some (some k) => (x, fmtProofRes (getProof (n.toNat! + 1) t k))
    | _, _ => (x, "err")
  | "version" :: _ => (x, toString x.vs.base)
  | "ifempty" :: rest => if x.vs.working.isSome then (x, "skipped") else exec x rest
  | "savecs" :: rest =>
    let cs := parseChanges (rest.headD "-")
    let dirty := match x.vs.working with
      | some (.leaf _ _ none) => true
      | some (.inner _ _ _ none _ _) => true
      | _ => false
    if dirty then (x, "err") else
    let rec apply (x : XState) : List (Change Bytes Bytes) → Option XState
      | [] => some x
      | .set k v :: cs => apply (stepOp x (.set k v)).1 cs
      | .del k :: cs =>
        let (x', r) := stepOp x (.remove k)
        if r == "rm=0" then none else apply x' cs
    -- a rejected removal leaves the changes applied so far in the working tree
    let rec applyP (x : XState) : List (Change Bytes Bytes) → XState × Bool
      | [] => (x, true)
      | .set k v :: cs => applyP (stepOp x (.set k v)).1 cs
      | .del k :: cs =>
        let (x', r) := stepOp x (.remove k)
        if r == "rm=0" then (x', false) else applyP x' cs
    let (x1, ok) := applyP x cs
    if !ok then (x1, "err") else
    let same := sameRoot x1.vs
    let (x2, r) := stepOp x1 (.save same)
    (x2, r)
  | ["hold", id, v] =>
    (match findVer x.vs.versions v.toNat! with
     | some (some _) =>
       ({ x with holds := (id, v.toNat!) :: x.holds,
                 pins := Pins.step { x.pins with versions := x.vs.versions.map (·.1) } (.export v.toNat!),
                 pinIds := id :: x.pinIds }, "ok")
     | some none => (x, "?")
     | none => (x, "err"))
  | ["dclose", id] =>   -- closed twice: still one release
    let idxs := (List.range x.pinIds.length).filter (fun i => x.pinIds[i]? == some id)
    ({ x with holds := x.holds.filter (fun h => h.1 != id),
              pins := idxs.foldl (fun p i => Pins.step (Pins.step p (.close i)) (.close i)) x.pins }, "ok")
  | ["release", id] =>
    let idxs := (List.range x.pinIds.length).filter (fun i => x.pinIds[i]? == some id)
    ({ x with holds := x.holds.filter (fun h => h.1 != id),
              pins := idxs.foldl (fun p i => Pins.step p (.close i)) x.pins }, "ok")
  | "reads" :: "imm" :: n :: op :: arg :: _ =>
    -- storage reads of one lookup on a freshly obtained tree of version n, nothing cached: exactly the
    -- child fetches counted by `getReads` / `hasReads` / `getByIndexReads` (ReadCost.lean)
    if x.cfgCache != 0 || x.prunedEver then (x, "?") else
    match findVer x.vs.versions n.toNat! with
    | some (some t) =>
      let out (c : Nat) := toString c ++ " h=" ++ toString t.height
      (match op, dec arg with
       | "gwi", some (some k) => (x, out (t.getReads k))
       | "has", some (some k) => (x, out (t.hasReads k))
       | "gbi", _ => (x, out (t.getByIndexReads arg.toNat!))
       | "proof", some (some k) => (x, out (t.proofReads k))
       | _, _ => (x, "?"))
    | _ => (x, "?")
  | "reads" :: _ => (x, "?")
  | ["changes", a, b] => (x, changesOut x.vs a.toNat! b.toNat!)
  | _ => (x, immOp (x.vs.base + 1) x.vs.working args)

end Iavl.Exec
