/- Spike for C18: the key range of a prefix namespace. -/
namespace Iavl
open Std
abbrev Bz := List UInt8

/-- Go `cpIncr` (db/prefixdb.go): same length, incremented by one, `none` on overflow -/
def cpIncrGo : Bz → Option Bz
  | [] => none
  | a :: rest =>
    match cpIncrGo rest with
    | some r => some (a :: r)
    | none =>        -- rest is empty or all 0xFF: carry into `a`
      if a.toNat < 255 then some ((a + 1) :: rest.map (fun _ => 0)) else none

/-- the repaired bound: increment and drop the (all-zero) tail -/
def cpIncrCut : Bz → Option Bz
  | [] => none
  | a :: rest =>
    match cpIncrCut rest with
    | some r => some (a :: r)
    | none => if a.toNat < 255 then some [a + 1] else none

#eval cpIncrGo [0x70, 0xff]
#eval cpIncrCut [0x70, 0xff]
#eval cpIncrGo [0xff, 0xff]

/-- lexicographic `<` on byte strings as a Bool, via `compare` -/
def blt (a b : Bz) : Bool := compare a b == .lt
def ble (a b : Bz) : Bool := compare a b != .gt

def inPrefixRange (bound : Bz → Option Bz) (p k : Bz) : Bool :=
  ble p k && (match bound p with | none => true | some q => blt k q)

/-- K20: with Go's bound the range of prefix "p\xff" admits the outside key "q" -/
theorem prefix_range_counterexample :
    inPrefixRange cpIncrGo [0x70, 0xff] [0x71] = true ∧ ¬ (([0x70, 0xff] : Bz) <+: ([0x71] : Bz)) := by
  constructor
  · decide
  · intro h; have := List.IsPrefix.length_le h; simp at this

theorem compare_cons (a b : UInt8) (as bs : Bz) :
    compare (a :: as) (b :: bs) = (compare a b).then (compare as bs) := by
  show List.compareLex compare (a :: as) (b :: bs) = _
  simp only [List.compareLex]
  cases compare a b <;> rfl

theorem compare_nil_cons (b : UInt8) (bs : Bz) : compare ([] : Bz) (b :: bs) = .lt := rfl
theorem compare_cons_nil (a : UInt8) (as : Bz) : compare (a :: as) ([] : Bz) = .gt := rfl
theorem compare_nil_nil : compare ([] : Bz) [] = .eq := rfl
theorem compare_self8 (a : UInt8) : compare a a = .eq := Std.ReflCmp.compare_self

theorem succ_toNat (a : UInt8) (h : a.toNat < 255) : (a + 1).toNat = a.toNat + 1 := by
  rw [UInt8.toNat_add]; simp; omega

theorem lt_succ8 (a : UInt8) (h : a.toNat < 255) : compare a (a + 1) = .lt := by
  rw [Std.compare_eq_lt, UInt8.lt_iff_toNat_lt, succ_toNat a h]; omega

/-- `b < a+1 → ¬ a < b` -/
theorem not_between8 (a b : UInt8) (h : a.toNat < 255) (h1 : compare a b = .lt) (h2 : compare b (a + 1) = .lt) : False := by
  rw [Std.compare_eq_lt, UInt8.lt_iff_toNat_lt] at h1 h2
  rw [succ_toNat a h] at h2; omega

theorem max8 (a b : UInt8) (h : ¬ a.toNat < 255) : compare a b ≠ .lt := by
  intro h1
  rw [Std.compare_eq_lt, UInt8.lt_iff_toNat_lt] at h1
  have := b.toNat_lt; omega

theorem compare_vs_nil_not_lt (k : Bz) : compare k ([] : Bz) ≠ .lt := by
  cases k <;> simp [compare_nil_nil, compare_cons_nil]

def InRange (p k : Bz) : Prop :=
  compare p k ≠ .gt ∧ ∀ q, cpIncrCut p = some q → compare k q = .lt

/-- first component of the analysis: what `compare (a::x) (b::y) ≠ .gt` means -/
theorem cons_not_gt (a b : UInt8) (x y : Bz) :
    compare (a :: x) (b :: y) ≠ .gt ↔ compare a b = .lt ∨ (a = b ∧ compare x y ≠ .gt) := by
  rw [compare_cons]
  cases hc : compare a b with
  | lt => simp
  | eq =>
    have : a = b := Std.LawfulEqCmp.eq_of_compare hc
    simp [this]
  | gt =>
    have hne : a ≠ b := by
      intro h; subst h; rw [compare_self8] at hc; cases hc
    simp [hne]

theorem cons_lt_single (b c : UInt8) (y : Bz) : compare (b :: y) [c] = .lt ↔ compare b c = .lt := by
  rw [compare_cons]
  cases hc : compare b c with
  | lt => simp
  | eq => simp [compare_vs_nil_not_lt y]
  | gt => simp

/-- **prefix ⇔ range** for the repaired bound -/
theorem prefix_iff_range (p k : Bz) (hp : p ≠ []) : p <+: k ↔ InRange p k := by
  induction p generalizing k with
  | nil => exact absurd rfl hp
  | cons a p ih =>
    cases k with
    | nil =>
      constructor
      · intro h; have := List.IsPrefix.length_le h; simp at this
      · intro ⟨h, _⟩; exact absurd (compare_cons_nil a p) h
    | cons b k =>
      rw [List.cons_prefix_cons]
      unfold InRange
      rw [cons_not_gt]
      cases p with
      | nil =>
        simp only [List.nil_prefix, and_true, cpIncrCut]
        by_cases hlt : a.toNat < 255
        · simp only [hlt, if_true, Option.some.injEq, forall_eq', cons_lt_single]
          constructor
          · intro h; subst h
            refine ⟨Or.inr ⟨rfl, ?_⟩, lt_succ8 a hlt⟩
            cases k <;> simp [compare_nil_nil, compare_nil_cons]
          · intro ⟨h1, h2⟩
            rcases h1 with h1 | ⟨h1, _⟩
            · exact absurd h2 (fun h2 => not_between8 a b hlt h1 h2)
            · exact h1
        · simp only [hlt, if_false, reduceCtorEq, false_implies, implies_true, and_true]
          constructor
          · intro h; subst h
            right; refine ⟨rfl, ?_⟩
            cases k <;> simp [compare_nil_nil, compare_nil_cons]
          · intro h1
            rcases h1 with h1 | ⟨h1, _⟩
            · exact absurd h1 (max8 a b hlt)
            · exact h1
      | cons c p' =>
        have ih' := ih k (by simp)
        rw [ih']
        unfold InRange
        simp only [cpIncrCut]
        constructor
        · intro ⟨hab, h1, h2⟩
          subst hab
          refine ⟨Or.inr ⟨rfl, h1⟩, ?_⟩
          intro q hq
          cases hr : cpIncrCut (c :: p') with
          | some r =>
            simp only [cpIncrCut] at hr
            rw [hr] at hq
            simp only [Option.some.injEq] at hq
            subst hq
            rw [compare_cons, compare_self8]
            exact h2 r hr
          | none =>
            simp only [cpIncrCut] at hr
            rw [hr] at hq
            by_cases hlt : a.toNat < 255
            · simp only [hlt, if_true, Option.some.injEq] at hq
              subst hq
              rw [cons_lt_single]; exact lt_succ8 a hlt
            · simp [hlt] at hq
        · intro ⟨h1, h2⟩
          rcases h1 with h1 | ⟨hab, h1⟩
          · -- a < b contradicts the upper bound
            exfalso
            cases hr : cpIncrCut (c :: p') with
            | some r =>
              simp only [cpIncrCut] at hr
              have := h2 (a :: r) (by rw [hr])
              rw [compare_cons, Std.OrientedCmp.gt_of_lt h1] at this
              cases this
            | none =>
              simp only [cpIncrCut] at hr
              by_cases hlt : a.toNat < 255
              · have := h2 [a + 1] (by rw [hr]; simp [hlt])
                rw [cons_lt_single] at this
                exact not_between8 a b hlt h1 this
              · exact max8 a b hlt h1
          · subst hab
            refine ⟨rfl, h1, ?_⟩
            intro r hr
            have := h2 (a :: r) (by rw [hr])
            rw [compare_cons, compare_self8] at this
            exact this
end Iavl
