import Iavl.Model.KV
/-
  C05 / C17: `BatchWithFlusher` (batch.go). Before an operation is added, the batch is written out when
  `currentSize + len(key) + len(value) + 100` exceeds the flush threshold (`estimateSizeAfterSetting`);
  the operation then goes into the fresh batch. `Commit` writes what is left. The physical writes of a
  logical sequence of operations are therefore the chunks computed here.
-/
namespace Iavl

def BOp.size : BOp → Nat
  | .set k v => k.length + v.length
  | .del k => k.length

/-- the chunks written so far (oldest first), the open batch and its size -/
structure FlushSt where
  written : List (List BOp)
  cur : List BOp
  curSize : Nat

def FlushSt.add (thr : Nat) (s : FlushSt) (op : BOp) : FlushSt :=
  if s.curSize + op.size + 100 > thr then
    -- Write(): the open batch goes out (also when it is empty: an empty physical write), then the op is added
    { written := s.written ++ [s.cur], cur := [op], curSize := op.size }
  else { s with cur := s.cur ++ [op], curSize := s.curSize + op.size }

/-- all physical writes of `ops` followed by `Commit` -/
def flushSplit (thr : Nat) (ops : List BOp) : List (List BOp) :=
  let s := ops.foldl (FlushSt.add thr) ⟨[], [], 0⟩
  s.written ++ [s.cur]

def sizeOf (ops : List BOp) : Nat := (ops.map BOp.size).sum

theorem flush_inv (thr : Nat) (s : FlushSt) (ops : List BOp) :
    let s' := ops.foldl (FlushSt.add thr) s
    s'.written.flatten ++ s'.cur = s.written.flatten ++ s.cur ++ ops := by
  induction ops generalizing s with
  | nil => simp
  | cons op ops ih =>
    simp only [List.foldl_cons]
    rw [ih]
    unfold FlushSt.add
    split <;> simp [List.flatten_append, List.append_assoc]

/-- nothing is lost, duplicated or reordered by the flusher -/
theorem flushSplit_flatten (thr : Nat) (ops : List BOp) : (flushSplit thr ops).flatten = ops := by
  have := flush_inv thr ⟨[], [], 0⟩ ops
  simp only [flushSplit, List.flatten_append, List.flatten_cons, List.flatten_nil, List.append_nil]
  simpa using this

theorem flush_small (thr : Nat) (s : FlushSt) (ops : List BOp) (hs : s.curSize = sizeOf s.cur)
    (h : sizeOf s.cur + sizeOf ops + 100 ≤ thr) :
    ops.foldl (FlushSt.add thr) s = { s with cur := s.cur ++ ops, curSize := s.curSize + sizeOf ops } := by
  induction ops generalizing s with
  | nil => simp [sizeOf]
  | cons op ops ih =>
    simp only [List.foldl_cons]
    have hsz : sizeOf (op :: ops) = op.size + sizeOf ops := by simp [sizeOf]
    have hno : ¬ (s.curSize + op.size + 100 > thr) := by rw [hs]; omega
    have hadd : FlushSt.add thr s op = { s with cur := s.cur ++ [op], curSize := s.curSize + op.size } := by
      unfold FlushSt.add; rw [if_neg hno]
    rw [hadd, ih]
    · simp [hsz, List.append_assoc, Nat.add_assoc]
    · simp [sizeOf, hs, List.map_append]
    · simp only [sizeOf, List.map_append, List.sum_append, List.map_cons, List.map_nil, List.sum_cons, List.sum_nil] at h ⊢
      omega

/-- an operation sequence whose estimated size stays within the threshold is one physical write -/
theorem single_write_when_small (thr : Nat) (ops : List BOp) (h : sizeOf ops + 100 ≤ thr) :
    flushSplit thr ops = [ops] := by
  have := flush_small thr ⟨[], [], 0⟩ ops (by simp [sizeOf]) (by simpa [sizeOf] using h)
  simp [flushSplit, this]

end Iavl
