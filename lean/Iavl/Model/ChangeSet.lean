import Iavl.Lemmas.Refine
/-
  C15: change-set extraction (`extractStateChanges` of diff.go) at the level of its specification:
  new leaves of the current version (node version greater than the previous version) merged, in
  ascending key order, with the leaves of the previous version that do not occur in the current one.
-/
namespace Iavl
open Std
variable {K V : Type} [Ord K]

/-- leaves with their node versions, in key order -/
def Node.leaves : Node K V → List (K × V × Option Nat)
  | .leaf k v ver => [(k, v, ver)]
  | .inner _ _ _ _ l r => l.leaves ++ r.leaves

def leavesO : OTree K V → List (K × V × Option Nat)
  | none => []
  | some t => t.leaves

inductive Change (K V : Type) where
  | set (k : K) (v : V)
  | del (k : K)
  deriving Repr, DecidableEq

/-- merge of the new leaves (as sets) and the orphaned leaves (as deletions unless the key is set) -/
def mergeChanges : List (K × V) → List K → List (Change K V)
  | [], ds => ds.map .del
  | ns, [] => ns.map (fun p => .set p.1 p.2)
  | (k, v) :: ns, d :: ds =>
    match compare d k with
    | .lt => .del d :: mergeChanges ((k, v) :: ns) ds
    | .eq => .set k v :: mergeChanges ns ds
    | .gt => .set k v :: mergeChanges ns (d :: ds)

variable [DecidableEq K] [DecidableEq V]

/-- the change set of the tree `cur` (version `prevVersion + 1`) against `prev` -/
def changeSet (prevVersion : Nat) (prev cur : OTree K V) : List (Change K V) :=
  let curL := leavesO cur
  let news := (curL.filter (fun x => match x.2.2 with | some ver => prevVersion < ver | none => true)).map (fun x => (x.1, x.2.1))
  let orphans := ((leavesO prev).filter (fun x => !curL.contains x)).map (·.1)
  mergeChanges news orphans

/-- applying a change set to a sorted map -/
def applyChanges (m : List (K × V)) : List (Change K V) → List (K × V)
  | [] => m
  | .set k v :: cs => applyChanges (insertSorted k v m) cs
  | .del k :: cs => applyChanges (eraseSorted k m) cs
end Iavl
