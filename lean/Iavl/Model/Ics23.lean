import Iavl.Model.TakeVarint
/-
  The ics23 verifier for `IavlSpec` (github.com/cosmos/ics23/go v0.11.0: proof.go, ops.go), as an
  executable function: `ExistenceProof.Verify`, `NonExistenceProof.Verify`, `CheckAgainstSpec`,
  `validateIavlOps`, `IsLeftMost` / `IsRightMost` / `IsLeftNeighbor`.

  The leaf op's hash / prehash / length operations are not fields of `ExistProof`: iavl always emits the
  IAVL ones and the harness prints only the prefix. The spec constants (prefix length window 4..12, child
  size 33, child order [0,1], no empty child, leaf prefix 0x00, depth limit 128) are read from the linked
  ics23 module by the `verif` hook and pinned in `FactsOk.ics23_ok`.
-/
namespace Iavl
variable (H : Bytes → Bytes)

def icsMinPrefix : Nat := 4
def icsMaxPrefix : Nat := 12
def icsChildSize : Nat := 33
def icsMaxDepth : Nat := 128

/-- `validateIavlOps(op, b)`: three varints (`binary.ReadVarint`: zig-zag, so a negative value is an odd
    unsigned one), none negative, the first at least `b`; nothing may follow for a leaf op (b = 0), one
    byte or 34 bytes for an inner op -/
def validateIavlOp (pfx : Bytes) (b : Nat) : Bool :=
  match take3 pfx with
  | none => false
  | some ((x, y, z), rem) =>
    x % 2 == 0 && y % 2 == 0 && z % 2 == 0 && decide (b ≤ x / 2) &&
    (if b == 0 then rem.length == 0 else (rem.length == 1 || rem.length == 34))

/-- `LeafOp.CheckAgainstSpec` -/
def checkLeaf (pfx : Bytes) : Bool := validateIavlOp pfx 0 && pfx.head? == some 0

/-- `InnerOp.CheckAgainstSpec(spec, layer)` -/
def checkInner (op : InnerOp) (layer : Nat) : Bool :=
  validateIavlOp op.pfx layer && op.pfx.head? != some 0 &&
  decide (icsMinPrefix ≤ op.pfx.length) && decide (op.pfx.length ≤ icsMaxPrefix + icsChildSize) &&
  op.sfx.length % icsChildSize == 0

def checkPath : List InnerOp → Nat → Bool
  | [], _ => true
  | op :: ops, layer => checkInner op layer && checkPath ops (layer + 1)

/-- `ExistenceProof.Verify(IavlSpec, root, key, value)` -/
def verifyExist (root : Bytes) (p : ExistProof) (key value : Bytes) : Bool :=
  checkLeaf p.leafPfx && decide (p.path.length ≤ icsMaxDepth) && checkPath p.path 1 &&
  key == p.key && value == p.value &&
  !p.key.isEmpty && !p.value.isEmpty &&        -- `LeafOp.Apply`: "leaf op needs key / value"
  calcRoot H p == root

/-- `hasPadding` with `getPadding(spec, branch)` for the two branches of the IAVL spec -/
def padLeft (op : InnerOp) : Bool :=
  decide (icsMinPrefix ≤ op.pfx.length) && decide (op.pfx.length ≤ icsMaxPrefix) && op.sfx.length == icsChildSize
def padRight (op : InnerOp) : Bool :=
  decide (icsMinPrefix + icsChildSize ≤ op.pfx.length) && decide (op.pfx.length ≤ icsMaxPrefix + icsChildSize) &&
    op.sfx.length == 0

/-- `IsLeftMost` / `IsRightMost` (the placeholder alternatives never hold: `EmptyChild` is nil) -/
def isLeftMost (path : List InnerOp) : Bool := path.all padLeft
def isRightMost (path : List InnerOp) : Bool := path.all padRight

/-- `IsLeftNeighbor` on root-first lists: equal ops are popped from the root end; the first differing
    pair must be a left step next to a right step, below it the left path runs right-most and the right
    path left-most. Go indexes `path[len-1]` without a length check: where it would panic nothing is
    accepted. -/
def isLeftNeighborRF : List InnerOp → List InnerOp → Bool
  | l :: ls, r :: rs =>
    if l.pfx == r.pfx && l.sfx == r.sfx then isLeftNeighborRF ls rs
    else padLeft l && padRight r && isRightMost ls && isLeftMost rs
  | _, _ => false

def isLeftNeighbor (left right : List InnerOp) : Bool := isLeftNeighborRF left.reverse right.reverse

structure NonExistProof where
  key : Bytes
  left : Option ExistProof
  right : Option ExistProof

/-- `NonExistenceProof.Verify(IavlSpec, root, key)` (keys are compared as they are: no prehash) -/
def verifyNonExist (root : Bytes) (p : NonExistProof) (key : Bytes) : Bool :=
  (match p.left with | some l => verifyExist H root l l.key l.value | none => true) &&
  (match p.right with | some r => verifyExist H root r r.key r.value | none => true) &&
  (match p.right with | some r => compare key r.key == .lt | none => true) &&
  (match p.left with | some l => compare l.key key == .lt | none => true) &&
  (match p.left, p.right with
   | none, none => false
   | none, some r => isLeftMost r.path
   | some l, none => isRightMost l.path
   | some l, some r => isLeftNeighbor l.path r.path)

end Iavl
