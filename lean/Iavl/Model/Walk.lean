import Iavl.Lemmas.Remove
/- Spike for C08: the pruned tree walk yields exactly the keys in range, in order. -/
namespace Iavl
open Std
set_option linter.unusedSectionVars false
variable {K V : Type} [Ord K] [BEq K] [TransOrd K] [LawfulEqOrd K]

theorem filter_none_of_lt_start (A : List (K × V)) (s k : K) (e : Option K) (incl : Bool)
    (hA : AllLt A k) (hs : compare s k ≠ .lt) :
    A.filter (fun p => inRange (some s) e incl p.1) = [] := by
  rw [List.filter_eq_nil_iff]
  intro p hp
  have h1 : compare p.1 k = .lt := hA p hp
  have hks : (compare k s).isLE := by
    rw [← OrientedCmp.isGE_iff_isLE]; cases hc : compare s k <;> simp_all [Ordering.isGE]
  have h2 : compare p.1 s = .lt := TransCmp.lt_of_lt_of_isLE h1 hks
  have h3 : compare s p.1 = .gt := OrientedCmp.gt_of_lt h2
  simp [inRange, h3]

theorem filter_none_of_ge_end (B : List (K × V)) (s : Option K) (e k : K) (incl : Bool)
    (hB : AllGe B k)
    (he : ¬ (compare k e = .lt ∨ (incl = true ∧ compare k e = .eq))) :
    B.filter (fun p => inRange s (some e) incl p.1) = [] := by
  rw [List.filter_eq_nil_iff]
  intro p hp
  have h1 : (compare k p.1).isLE := hB p hp
  -- p.1 ≥ k, and k is not before the end
  have hnlt : compare p.1 e ≠ .lt := by
    intro h
    have : compare k e = .lt := TransCmp.lt_of_isLE_of_lt h1 h
    exact he (Or.inl this)
  have hneq : ¬ (incl = true ∧ compare p.1 e = .eq) := by
    intro ⟨hi, h⟩
    -- k ≤ p.1 = e, so k < e or k = e
    have hke : (compare k e).isLE := by
      have := TransCmp.isLE_trans h1 (show (compare p.1 e).isLE by simp [h])
      exact this
    cases hc : compare k e with
    | lt => exact he (Or.inl hc)
    | eq => exact he (Or.inr ⟨hi, hc⟩)
    | gt => simp [hc] at hke
  cases s <;> simp [inRange, hnlt] <;> (intro _; cases incl <;> simp_all)

end Iavl

namespace Iavl
open Std
set_option linter.unusedSectionVars false
variable {K V : Type} [Ord K] [BEq K] [TransOrd K] [LawfulEqOrd K]

/-- the three tests of `traversal.next`, named (lesson: never inline `match` under `let`) -/
def afterStart (s : Option K) (k : K) : Bool := match s with | none => true | some s => compare s k == .lt
def startOrAfter (s : Option K) (k : K) : Bool :=
  afterStart s k || (match s with | none => false | some s => compare s k == .eq)
def beforeEnd (e : Option K) (incl : Bool) (k : K) : Bool :=
  (match e with | none => true | some e => compare k e == .lt) ||
  (incl && (match e with | none => false | some e => compare k e == .eq))

def Node.walk (s e : Option K) (asc incl : Bool) : Node K V → List (K × V)
  | .leaf k v _ => if startOrAfter s k && beforeEnd e incl k then [(k, v)] else []
  | .inner k _ _ _ l r =>
    let ls := if afterStart s k then l.walk s e asc incl else []
    let rs := if beforeEnd e incl k then r.walk s e asc incl else []
    if asc then ls ++ rs else rs ++ ls

theorem leaf_test_eq (s e : Option K) (incl : Bool) (k : K) :
    (startOrAfter s k && beforeEnd e incl k) = inRange s e incl k := by
  unfold startOrAfter afterStart beforeEnd inRange
  cases s with
  | none => cases e <;> simp
  | some s =>
    have : (compare s k == .lt || compare s k == .eq) = (compare s k != .gt) := by
      cases compare s k <;> rfl
    cases e with
    | none => simp [this]
    | some e => simp only [this]

theorem walk_eq_spec (t : Node K V) (s e : Option K) (asc incl : Bool) (ho : Ordered t) :
    t.walk s e asc incl = rangeSpec t.toList s e asc incl := by
  induction t with
  | leaf k v ver =>
    simp only [Node.walk, rangeSpec, toList_leaf, List.filter_cons, List.filter_nil]
    rw [leaf_test_eq]
    cases inRange s e incl k <;> cases asc <;> simp
  | inner k h sz ver l r ihl ihr =>
    obtain ⟨hol, hor, hl, hr⟩ := ho
    have ihl := ihl hol
    have ihr := ihr hor
    simp only [Node.walk]
    have hL : (if afterStart s k = true then l.walk s e asc incl else []) = rangeSpec l.toList s e asc incl := by
      split
      · exact ihl
      · rename_i hc
        cases s with
        | none => simp [afterStart] at hc
        | some s =>
          have hs : compare s k ≠ .lt := by simpa [afterStart] using hc
          simp [rangeSpec, filter_none_of_lt_start l.toList s k e incl hl hs]
    have hR : (if beforeEnd e incl k = true then r.walk s e asc incl else []) = rangeSpec r.toList s e asc incl := by
      split
      · exact ihr
      · rename_i hc
        cases e with
        | none => simp [beforeEnd] at hc
        | some e =>
          have he : ¬ (compare k e = .lt ∨ (incl = true ∧ compare k e = .eq)) := by
            simpa [beforeEnd, not_or] using hc
          simp [rangeSpec, filter_none_of_ge_end r.toList s e k incl hr he]
    rw [hL, hR]
    cases asc <;> simp [rangeSpec, List.filter_append, List.reverse_append]
end Iavl
