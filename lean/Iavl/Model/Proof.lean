import Iavl.Lemmas.Remove
/-
  Spike for C02/C03: node hashing, ICS-23 existence proof construction (`PathToLeaf` +
  `convertLeafOp/convertInnerOps`) and the verifier's root computation (`LeafOp.Apply`,
  `InnerOp.Apply`); completeness: the computed root is the tree's root hash.
-/
namespace Iavl
open Std

variable (H : Bytes → Bytes)

/-- unsigned LEB128 (`binary.PutUvarint`) -/
def uvarint (n : Nat) : Bytes :=
  if h : n < 128 then [n.toUInt8] else (n % 128 + 128).toUInt8 :: uvarint (n / 128)
termination_by n
decreasing_by omega

/-- zig-zag signed varint (`binary.PutVarint`) for non-negative and negative ints -/
def varint (i : Int) : Bytes :=
  uvarint (if i ≥ 0 then (2 * i).toNat else (-2 * i - 1).toNat)

def encBytes (b : Bytes) : Bytes := uvarint b.length ++ b

/-- version used in a node's hash pre-image: its own if persisted, else the caller-supplied one -/
def verOf (ver : Option Nat) (working : Nat) : Nat := ver.getD working

/-- `writeHashBytes` -/
def leafPrefix (ver : Nat) : Bytes := varint 0 ++ varint 1 ++ varint ver
def innerPrefix (h sz ver : Nat) : Bytes := varint h ++ varint sz ++ varint ver

def hashNode (working : Nat) : Node Bytes Bytes → Bytes
  | .leaf k v ver => H (leafPrefix (verOf ver working) ++ encBytes k ++ encBytes (H v))
  | .inner _ h sz ver l r =>
      H (innerPrefix h sz (verOf ver working) ++ encBytes (hashNode working l) ++ encBytes (hashNode working r))

/-- an ICS-23 inner op; the leaf op is determined by its prefix -/
structure InnerOp where
  pfx : Bytes
  sfx : Bytes
structure ExistProof where
  key : Bytes
  value : Bytes
  leafPfx : Bytes
  path : List InnerOp      -- leaf-to-root order, as in ics23

/-- `InnerOp.Apply` / `LeafOp.Apply` with the IAVL spec's ops (SHA256, prehash value, VAR_PROTO) -/
def applyInner (op : InnerOp) (child : Bytes) : Bytes := H (op.pfx ++ child ++ op.sfx)
def applyLeaf (p : ExistProof) : Bytes := H (p.leafPfx ++ encBytes p.key ++ encBytes (H p.value))
def calcRoot (p : ExistProof) : Bytes := p.path.foldl (fun acc op => applyInner H op acc) (applyLeaf H p)

/-- `pathToLeaf` + `convertInnerOps`: returns the proof for the leaf the search for `key` ends at
    (the leaf itself need not carry `key`; `createExistenceProof` reports the mismatch separately).
    The path is accumulated root-first in Go and reversed by `convertInnerOps`; here it is built
    directly in leaf-to-root order. 0x20 is the length byte of a 32-byte hash; it is `encBytes`'s
    prefix whenever `H` yields 32 bytes — kept symbolic here as `uvarint (hash).length`. -/
def mkProof (working : Nat) : Node Bytes Bytes → Bytes → ExistProof
  | .leaf k v ver, _ => ⟨k, v, leafPrefix (verOf ver working), []⟩
  | .inner k h sz ver l r, key =>
    if compare key k = .lt then
      let p := mkProof working l key
      let rh := hashNode H working r
      { p with path := p.path ++ [⟨innerPrefix h sz (verOf ver working) ++ uvarint (hashNode H working l).length,
                                   encBytes rh⟩] }
    else
      let p := mkProof working r key
      let lh := hashNode H working l
      { p with path := p.path ++ [⟨innerPrefix h sz (verOf ver working) ++ encBytes lh ++ uvarint (hashNode H working r).length, []⟩] }

theorem calcRoot_mkProof (working : Nat) (t : Node Bytes Bytes) (key : Bytes) :
    calcRoot H (mkProof H working t key) = hashNode H working t := by
  induction t with
  | leaf k v ver => simp [mkProof, calcRoot, applyLeaf, hashNode]
  | inner k h sz ver l r ihl ihr =>
    simp only [mkProof]
    split
    · simp only [calcRoot, List.foldl_append, List.foldl_cons, List.foldl_nil, applyInner] at ihl ⊢
      have : applyLeaf H { (mkProof H working l key) with path := (mkProof H working l key).path ++ [⟨innerPrefix h sz (verOf ver working) ++ uvarint (hashNode H working l).length, encBytes (hashNode H working r)⟩] }
          = applyLeaf H (mkProof H working l key) := rfl
      rw [this, ihl]
      simp [hashNode, encBytes, List.append_assoc]
    · simp only [calcRoot, List.foldl_append, List.foldl_cons, List.foldl_nil, applyInner] at ihr ⊢
      have : applyLeaf H { (mkProof H working r key) with path := (mkProof H working r key).path ++ [⟨innerPrefix h sz (verOf ver working) ++ encBytes (hashNode H working l) ++ uvarint (hashNode H working r).length, []⟩] }
          = applyLeaf H (mkProof H working r key) := rfl
      rw [this, ihr]
      simp [hashNode, encBytes, List.append_assoc]

theorem lookup_none_iff (key : Bytes) (m : List (Bytes × Bytes)) :
    lookup key m = none ↔ ∀ p ∈ m, compare key p.1 ≠ .eq := by
  induction m with
  | nil => simp [lookup]
  | cons a m ih =>
    obtain ⟨ak, av⟩ := a
    simp only [lookup]
    split
    · rename_i hc
      constructor
      · intro h; cases h
      · intro h; exact absurd hc (h (ak, av) (by simp))
    · rename_i hc
      rw [ih]
      constructor
      · intro h p hp
        rcases List.mem_cons.mp hp with h' | h'
        · subst h'; exact hc
        · exact h p h'
      · intro h p hp; exact h p (List.mem_cons_of_mem _ hp)

/-- the proof is about the right leaf: for an ordered tree containing `key`, the proof's key and
    value are `key` and the stored value -/
theorem mkProof_key_value (working : Nat) (t : Node Bytes Bytes) (key : Bytes) (ho : Ordered t)
    {v : Bytes} (hv : lookup key t.toList = some v) :
    (mkProof H working t key).key = key ∧ (mkProof H working t key).value = v := by
  induction t with
  | leaf k v' ver =>
    simp only [toList_leaf, lookup] at hv
    split at hv
    · rename_i hc
      have := LawfulEqOrd.eq_of_compare hc
      simp at hv
      simp [mkProof, this, hv]
    · simp [lookup] at hv
  | inner k h sz ver l r ihl ihr =>
    obtain ⟨hol, hor, hl, hr⟩ := ho
    simp only [mkProof]
    split
    · rename_i hlt
      have hnr : ∀ p ∈ r.toList, compare key p.1 ≠ .eq := by
        intro p hp hc
        have := TransCmp.lt_of_lt_of_isLE hlt (hr p hp); rw [hc] at this; cases this
      have hl' : lookup key l.toList = some v := by
        rw [toList_inner] at hv
        cases hll : lookup key l.toList with
        | some v' => rw [lookup_append_left key _ _ hll] at hv; exact hv
        | none =>
          exfalso
          rw [lookup_append_right key _ _ ((lookup_none_iff key _).mp hll),
              (lookup_none_iff key _).mpr hnr] at hv
          cases hv
      exact ihl hol hl'
    · rename_i hnlt
      have hge : (compare k key).isLE := by
        rw [← OrientedCmp.isGE_iff_isLE]
        cases hc : compare key k <;> simp_all [Ordering.isGE]
      have hnl : ∀ p ∈ l.toList, compare key p.1 ≠ .eq := by
        intro p hp hc
        have h1 : compare p.1 key = .lt := TransCmp.lt_of_lt_of_isLE (hl p hp) hge
        rw [OrientedCmp.eq_comm] at hc; rw [hc] at h1; cases h1
      rw [toList_inner, lookup_append_right key _ _ hnl] at hv
      exact ihr hor hv
end Iavl
