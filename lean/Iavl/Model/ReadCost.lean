import Iavl.Model.Tree
/-
  Storage reads of a lookup with nothing cached (C11, "lookups cost O(height)").
  Go: `Node.get` / `Node.has` / `Node.getByIndex` (node.go) fetch a child with `getLeftNode` /
  `getRightNode`, which read the store when the child is not held in memory and do not memoise it.
  On a tree obtained with `GetImmutable` only the root is in memory, so with a node cache of size 0
  every child that is visited is one storage read. The functions below count exactly those fetches.
-/
namespace Iavl
variable {K V : Type} [Ord K]

/-- child fetches of `Node.get` (also `GetWithIndex`): one per inner node on the search path -/
def Node.getReads : Node K V → K → Nat
  | .leaf .., _ => 0
  | .inner k _ _ _ l r, key =>
    1 + (if compare key k = .lt then l.getReads key else r.getReads key)

/-- child fetches of `Node.has`: the descent stops early at an inner node whose routing key is the key -/
def Node.hasReads : Node K V → K → Nat
  | .leaf .., _ => 0
  | .inner k _ _ _ l r, key =>
    if compare k key = .eq then 0
    else 1 + (if compare key k = .lt then l.hasReads key else r.hasReads key)

/-- child fetches of `Node.getByIndex`: the left child is fetched to learn its size; going right
    costs a second fetch on that level -/
def Node.getByIndexReads : Node K V → Nat → Nat
  | .leaf .., _ => 0
  | .inner _ _ _ _ l r, i =>
    if i < l.size then 1 + l.getByIndexReads i else 2 + r.getByIndexReads (i - l.size)

/-- stored heights are exact (part of `AVL`, stated alone because the bounds need nothing else) -/
def HeightOK : Node K V → Prop
  | .leaf .. => True
  | .inner _ h _ _ l r => HeightOK l ∧ HeightOK r ∧ h = max l.height r.height + 1

theorem AVL.heightOK : ∀ (t : Node K V), AVL t → HeightOK t
  | .leaf .., _ => trivial
  | .inner _ _ _ _ l r, h => ⟨AVL.heightOK l h.1, AVL.heightOK r h.2.1, h.2.2.1⟩

theorem getReads_le_height (t : Node K V) (key : K) (h : HeightOK t) : t.getReads key ≤ t.height := by
  induction t with
  | leaf => simp [Node.getReads]
  | inner k ht sz ver l r ihl ihr =>
    obtain ⟨hl, hr, hh⟩ := h
    have := ihl hl; have := ihr hr
    simp only [Node.getReads, Node.height]
    split <;> omega

theorem hasReads_le_height (t : Node K V) (key : K) (h : HeightOK t) : t.hasReads key ≤ t.height := by
  induction t with
  | leaf => simp [Node.hasReads]
  | inner k ht sz ver l r ihl ihr =>
    obtain ⟨hl, hr, hh⟩ := h
    have := ihl hl; have := ihr hr
    simp only [Node.hasReads, Node.height]
    split
    · omega
    · split <;> omega

theorem getByIndexReads_le (t : Node K V) (i : Nat) (h : HeightOK t) : t.getByIndexReads i ≤ 2 * t.height := by
  induction t generalizing i with
  | leaf => simp [Node.getByIndexReads]
  | inner k ht sz ver l r ihl ihr =>
    obtain ⟨hl, hr, hh⟩ := h
    have := ihl i hl; have := ihr (i - l.size) hr
    simp only [Node.getByIndexReads, Node.height]
    split <;> omega

end Iavl

namespace Iavl
variable {K V : Type} [Ord K]

/-- child fetches of `ImmutableTree.GetProof` (proof_ics23.go) on a persisted tree of which only the
    root is in memory: `Has`, then either `PathToLeaf` (which fetches *both* children of every inner
    node on the path) or `GetWithIndex`, `GetByIndex` of the two neighbours and one `PathToLeaf` each.
    Hashing costs nothing: every persisted node carries its hash. -/
def Node.proofReads (t : Node K V) (key : K) : Nat :=
  t.hasReads key +
  (if t.has key then 2 * t.getReads key
   else
     let idx := (t.get key).1
     t.getReads key
     + (if 1 ≤ idx then
          t.getByIndexReads (idx - 1) +
            (match t.getByIndex (idx - 1) with | some (lk, _) => 2 * t.getReads lk | none => 0)
        else 0)
     + t.getByIndexReads idx
     + (match t.getByIndex idx with | some (rk, _) => 2 * t.getReads rk | none => 0))

theorem pathReads_opt_le (t : Node K V) (h : HeightOK t) (o : Option (K × V)) :
    (match o with | some (lk, _) => 2 * t.getReads lk | none => 0) ≤ 2 * t.height := by
  cases o with
  | none => simp
  | some p => obtain ⟨lk, v⟩ := p; have := getReads_le_height t lk h; simp only []; omega

theorem proofReads_le (t : Node K V) (key : K) (h : HeightOK t) : t.proofReads key ≤ 10 * t.height := by
  unfold Node.proofReads
  have h1 := hasReads_le_height t key h
  have h2 := getReads_le_height t key h
  split
  · omega
  · have h3 := getByIndexReads_le t ((t.get key).1 - 1) h
    have h4 := getByIndexReads_le t (t.get key).1 h
    have h5 := pathReads_opt_le t h (t.getByIndex ((t.get key).1 - 1))
    have h6 := pathReads_opt_le t h (t.getByIndex (t.get key).1)
    simp only []
    split <;> omega

end Iavl
