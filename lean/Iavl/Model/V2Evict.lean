import Iavl.Model.Tree
/-
  v2's eviction protocol (v2/tree.go deepHash, v2/node.go evictChildren / getLeftNode / getRightNode).

  After hashing, v2 drops child pointers: with a height filter every leaf child is dropped
  (`node.leftNode = nil`), and on a checkpoint every child below the eviction depth is dropped
  (`evictChildren`). The parent keeps the child's node key; a later walk that meets a nil pointer
  fetches the child by that key from SQLite (`getLeftNode` → `sql.getLeftNode`). This file models
  exactly that: a tree some of whose subtrees are stubs carrying a reference, a store answering
  references, and the walks that fetch on a stub. What is NOT modelled: the node pool (recycling of
  node structs), the SQL tables and shards behind the store, the leaf cache.
-/
namespace Iavl
open Std

variable {K V : Type}

/-- a v2 in-memory tree: `stub ref` is a child pointer that was set to nil, the node key `ref`
    stays in the parent -/
inductive ENode (K V : Type) where
  | stub  (ref : Nat)
  | leaf  (k : K) (v : V) (ver : Option Nat)
  | inner (k : K) (h : Nat) (sz : Nat) (ver : Option Nat) (l r : ENode K V)

def Node.isLeaf : Node K V → Bool | .leaf .. => true | .inner .. => false

/-- every subtree of `t` (the nodes a checkpoint writes) -/
def Node.subtrees : Node K V → List (Node K V)
  | .leaf k v ver => [.leaf k v ver]
  | .inner k h sz ver l r => .inner k h sz ver l r :: (l.subtrees ++ r.subtrees)

/-- the store answers the node key of every node of `t` with that node: what `SaveRoot` /
    `saveTree` establish before `deepHash` evicts (leaves are written every version, branches on
    checkpoints) -/
def Saved (st : Nat → Option (Node K V)) (ref : Node K V → Nat) (t : Node K V) : Prop :=
  ∀ c ∈ t.subtrees, st (ref c) = some c

/-- `deepHash`'s eviction with an arbitrary rule `policy depth child` (true = drop the pointer).
    The child of a node at `depth` is asked with that `depth`, as in the Go code. -/
def evict (policy : Nat → Node K V → Bool) (ref : Node K V → Nat) : Nat → Node K V → ENode K V
  | _, .leaf k v ver => .leaf k v ver
  | d, .inner k h sz ver l r =>
    .inner k h sz ver
      (if policy d l then .stub (ref l) else evict policy ref (d + 1) l)
      (if policy d r then .stub (ref r) else evict policy ref (d + 1) r)

/-- the rule of `deepHash` as written: leaves go when `heightFilter > 0`; on a checkpoint every
    child of a node at `depth ≥ evictionDepth` goes -/
def v2Policy (heightFilter : Nat) (shouldCheckpoint : Bool) (evictionDepth : Nat) :
    Nat → Node K V → Bool :=
  fun depth c => (decide (heightFilter > 0) && c.isLeaf) || (shouldCheckpoint && decide (depth ≥ evictionDepth))

/-- re-hydration: follow every stub into the store (`none` = a reference the store cannot answer,
    Go: "node not found" error) -/
def ENode.resolve (st : Nat → Option (Node K V)) : ENode K V → Option (Node K V)
  | .stub ref => st ref
  | .leaf k v ver => some (.leaf k v ver)
  | .inner k h sz ver l r =>
    match l.resolve st, r.resolve st with
    | some l', some r' => some (.inner k h sz ver l' r')
    | _, _ => none

def ENode.size (st : Nat → Option (Node K V)) : ENode K V → Option Nat
  | .stub ref => (st ref).map Node.size
  | .leaf .. => some 1
  | .inner _ _ s .. => some s

/-- both halves of a range walk, or the failure of either -/
def optAppend {α : Type} (asc : Bool) : Option (List α) → Option (List α) → Option (List α)
  | some ls, some rs => some (if asc then ls ++ rs else rs ++ ls)
  | _, _ => none

section ordered
variable [Ord K]

/-- `Node.get` of v2 (v2/node.go `get`): as v1's, fetching the child when the pointer is nil.
    `none` = the fetch failed. -/
def ENode.get (st : Nat → Option (Node K V)) : ENode K V → K → Option (Nat × Option V)
  | .stub ref, key => (st ref).map (·.get key)
  | .leaf k v _, key =>
    some (match compare k key with
    | .lt => (1, none) | .gt => (0, none) | .eq => (0, some v))
  | .inner k _ sz _ l r, key =>
    if compare key k = .lt then l.get st key
    else
      match r.get st key, r.size st with
      | some (i, v), some rs => some (i + (sz - rs), v)
      | _, _ => none

/-- `has` with fetches -/
def ENode.has (st : Nat → Option (Node K V)) : ENode K V → K → Option Bool
  | .stub ref, key => (st ref).map (·.has key)
  | .leaf k _ _, key => some (compare k key = .eq)
  | .inner k _ _ _ l r, key =>
    if compare k key = .eq then some true
    else if compare key k = .lt then l.has st key else r.has st key

/-- the range walk of v2's iterator with fetches -/
def ENode.range (st : Nat → Option (Node K V)) (start end_ : Option K) (asc incl : Bool) :
    ENode K V → Option (List (K × V))
  | .stub ref => (st ref).map (Node.range start end_ asc incl)
  | .leaf k v ver => some (Node.range start end_ asc incl (.leaf k v ver))
  | .inner k _ _ _ l r =>
    let afterStart : Bool := match start with | none => true | some s => compare s k == .lt
    let beforeEnd : Bool := (match end_ with | none => true | some e => compare k e == .lt) ||
                      (incl && (match end_ with | none => false | some e => compare k e == .eq))
    optAppend asc (if afterStart then l.range st start end_ asc incl else some [])
                  (if beforeEnd  then r.range st start end_ asc incl else some [])

end ordered

/-- in-order contents with fetches -/
def ENode.toList (st : Nat → Option (Node K V)) : ENode K V → Option (List (K × V))
  | .stub ref => (st ref).map Node.toList
  | .leaf k v _ => some [(k, v)]
  | .inner _ _ _ _ l r =>
    match l.toList st, r.toList st with
    | some a, some b => some (a ++ b)
    | _, _ => none

end Iavl
