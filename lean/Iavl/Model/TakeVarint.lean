import Iavl.Model.Proof
/- Spike for C03 soundness / C13: parsing varints off the front of a buffer (binary.ReadUvarint /
   ReadVarint as used by ics23 `validateIavlOps` and by the node decoders). -/
namespace Iavl

/-- `binary.ReadUvarint` on a byte reader: value and the unread remainder -/
def takeUvarintGo : Bytes → Nat → Nat → Nat → Option (Nat × Bytes)
  | [], _, _, _ => none
  | b :: rest, i, x, s =>
    if i = 10 then none
    else if b.toNat < 128 then
      if i = 9 ∧ b.toNat > 1 then none else some (x + b.toNat * 2 ^ s, rest)
    else takeUvarintGo rest (i + 1) (x + (b.toNat % 128) * 2 ^ s) (s + 7)

def takeUvarint (bz : Bytes) : Option (Nat × Bytes) := takeUvarintGo bz 0 0 0

/-- parsing ignores what follows -/
theorem takeUvarintGo_append (a b : Bytes) (i x s n : Nat) (r : Bytes)
    (h : takeUvarintGo a i x s = some (n, r)) : takeUvarintGo (a ++ b) i x s = some (n, r ++ b) := by
  induction a generalizing i x s with
  | nil => simp [takeUvarintGo] at h
  | cons c a ih =>
    simp only [List.cons_append, takeUvarintGo] at h ⊢
    split
    · rename_i h10; simp [h10] at h
    · rename_i h10
      simp only [h10, if_false] at h
      split
      · rename_i hlt
        simp only [hlt, if_true] at h
        split
        · rename_i h9; simp [h9] at h
        · rename_i h9
          simp only [h9, if_false, Option.some.injEq, Prod.mk.injEq] at h
          simp [h.1, h.2]
      · rename_i hlt
        simp only [hlt, if_false] at h
        exact ih _ _ _ h

theorem uvarint_length_le (n : Nat) (k : Nat) (h : n < 2 ^ (7 * (k + 1))) : (uvarint n).length ≤ k + 1 := by
  induction k generalizing n with
  | zero =>
    unfold uvarint
    have : n < 128 := by simpa using h
    simp [this]
  | succ k ih =>
    unfold uvarint
    split
    · simp
    · simp only [List.length_cons]
      have : n / 128 < 2 ^ (7 * (k + 1)) := by
        rw [Nat.div_lt_iff_lt_mul (by decide)]
        calc n < 2 ^ (7 * (k + 1 + 1)) := h
          _ = 2 ^ (7 * (k + 1)) * 128 := by rw [show 7 * (k + 1 + 1) = 7 * (k + 1) + 7 by omega, Nat.pow_add]
      have := ih (n / 128) this
      omega

theorem takeUvarintGo_put (n : Nat) (rest : Bytes) (i x s : Nat)
    (hlen : i + (uvarint n).length ≤ 10)
    (hlast : i + (uvarint n).length = 10 → n < 2 ^ (7 * ((uvarint n).length - 1) + 1)) :
    takeUvarintGo (uvarint n ++ rest) i x s = some (x + n * 2 ^ s, rest) := by
  induction n using Nat.strongRecOn generalizing i x s with
  | _ n ih =>
    unfold uvarint
    split
    · rename_i hn
      simp only [List.cons_append, List.nil_append, takeUvarintGo]
      have hi : i ≠ 10 := by
        intro h; rw [uvarint] at hlen; simp [hn] at hlen; omega
      have htn : (n.toUInt8).toNat = n := by
        simp [Nat.toUInt8, UInt8.toNat_ofNat, Nat.mod_eq_of_lt (show n < 256 by omega)]
      simp only [hi, if_false, htn, hn, if_true]
      split
      · rename_i h9
        exfalso
        have h10 : i + (uvarint n).length = 10 := by rw [uvarint]; simp [hn]; omega
        have := hlast h10
        rw [uvarint] at this; simp [hn] at this
        omega
      · rfl
    · rename_i hn
      have hn' : ¬ n < 128 := hn
      simp only [List.cons_append, takeUvarintGo]
      have hlen' : i + ((uvarint (n / 128)).length + 1) ≤ 10 := by
        rw [uvarint] at hlen; simpa [hn'] using hlen
      have hi : i ≠ 10 := by omega
      have hb : ((n % 128 + 128).toUInt8).toNat = n % 128 + 128 := by
        simp [Nat.toUInt8, UInt8.toNat_ofNat, Nat.mod_eq_of_lt (show n % 128 + 128 < 256 by omega)]
      simp only [hi, if_false, hb, show ¬ (n % 128 + 128 < 128) by omega]
      have hlt : n / 128 < n := Nat.div_lt_self (by omega) (by decide)
      rw [ih (n / 128) hlt (i + 1) _ (s + 7) (by omega) ?_]
      · congr 2
        have : (n % 128 + 128) % 128 = n % 128 := by omega
        rw [this, Nat.pow_add]
        have hdm := Nat.div_add_mod n 128
        calc x + n % 128 * 2 ^ s + n / 128 * (2 ^ s * 2 ^ 7)
            = x + (n % 128 + 128 * (n / 128)) * 2 ^ s := by
              rw [Nat.add_mul]; simp [Nat.mul_comm, Nat.mul_left_comm, Nat.add_assoc]
          _ = x + n * 2 ^ s := by rw [Nat.add_comm (n % 128), hdm]
      · intro h10
        have h10' : i + (uvarint n).length = 10 := by rw [uvarint]; simp [hn']; omega
        have := hlast h10'
        rw [uvarint] at this; simp [hn'] at this
        have hpos : 0 < (uvarint (n / 128)).length := by
          rw [uvarint]; split <;> simp
        rw [Nat.div_lt_iff_lt_mul (by decide)]
        calc n < 2 ^ (7 * (uvarint (n / 128)).length + 1) := this
          _ = 2 ^ (7 * ((uvarint (n / 128)).length - 1) + 1) * 128 := by
            rw [show 7 * (uvarint (n / 128)).length + 1 = (7 * ((uvarint (n / 128)).length - 1) + 1) + 7 by omega, Nat.pow_add]

theorem takeUvarint_put (n : Nat) (hn : n < 2 ^ 64) (rest : Bytes) :
    takeUvarint (uvarint n ++ rest) = some (n, rest) := by
  have hl : (uvarint n).length ≤ 10 := uvarint_length_le n 9 (by
    calc n < 2 ^ 64 := hn
      _ ≤ 2 ^ (7 * (9 + 1)) := Nat.pow_le_pow_right (by decide) (by decide))
  have := takeUvarintGo_put n rest 0 0 0 (by omega) (by
    intro h10
    have : (uvarint n).length = 10 := by omega
    rw [this]; simpa using hn)
  simpa [takeUvarint] using this

theorem takeUvarint_append (a b : Bytes) (n : Nat) (r : Bytes) (h : takeUvarint a = some (n, r)) :
    takeUvarint (a ++ b) = some (n, r ++ b) := takeUvarintGo_append a b 0 0 0 n r h

/-- three consecutive uvarints (the zig-zag decoding is irrelevant for the structure) -/
def take3 (bz : Bytes) : Option ((Nat × Nat × Nat) × Bytes) :=
  match takeUvarint bz with
  | none => none
  | some (a, r1) =>
    match takeUvarint r1 with
    | none => none
    | some (b, r2) =>
      match takeUvarint r2 with
      | none => none
      | some (c, r3) => some ((a, b, c), r3)

theorem take3_append (x y : Bytes) (v : Nat × Nat × Nat) (r : Bytes) (h : take3 x = some (v, r)) :
    take3 (x ++ y) = some (v, r ++ y) := by
  unfold take3 at h ⊢
  cases h1 : takeUvarint x with
  | none => simp [h1] at h
  | some p1 =>
    obtain ⟨a, r1⟩ := p1
    rw [h1] at h; simp only at h
    rw [takeUvarint_append x y a r1 h1]; simp only
    cases h2 : takeUvarint r1 with
    | none => simp [h2] at h
    | some p2 =>
      obtain ⟨b, r2⟩ := p2
      rw [h2] at h; simp only at h
      rw [takeUvarint_append r1 y b r2 h2]; simp only
      cases h3 : takeUvarint r2 with
      | none => simp [h3] at h
      | some p3 =>
        obtain ⟨c, r3⟩ := p3
        rw [h3] at h; simp only [Option.some.injEq, Prod.mk.injEq] at h
        rw [takeUvarint_append r2 y c r3 h3]
        simp [h.1, h.2]

theorem take3_put (a b c : Nat) (ha : a < 2 ^ 64) (hb : b < 2 ^ 64) (hc : c < 2 ^ 64) (rest : Bytes) :
    take3 (uvarint a ++ uvarint b ++ uvarint c ++ rest) = some ((a, b, c), rest) := by
  unfold take3
  rw [List.append_assoc, List.append_assoc, takeUvarint_put a ha]; simp only
  rw [takeUvarint_put b hb]; simp only
  rw [takeUvarint_put c hc]

/-- the key parsing fact: a buffer that parses as three varints with remainder `rem`, extended by
    `x`, equals an honest three-varint header followed by `y` ⇒ same numbers and `rem ++ x = y` -/
theorem take3_unique (pfx x y rem : Bytes) (v : Nat × Nat × Nat) (a b c : Nat)
    (ha : a < 2 ^ 64) (hb : b < 2 ^ 64) (hc : c < 2 ^ 64)
    (hp : take3 pfx = some (v, rem))
    (heq : pfx ++ x = uvarint a ++ uvarint b ++ uvarint c ++ y) :
    v = (a, b, c) ∧ rem ++ x = y := by
  have h1 := take3_append pfx x v rem hp
  rw [heq, take3_put a b c ha hb hc] at h1
  simp only [Option.some.injEq, Prod.mk.injEq] at h1
  exact ⟨h1.1.symm, h1.2.symm⟩
end Iavl

namespace Iavl
/-- parsing consumes at least one byte and never invents bytes -/
theorem takeUvarintGo_length (bz : Bytes) (i x s n : Nat) (r : Bytes)
    (h : takeUvarintGo bz i x s = some (n, r)) : r.length < bz.length := by
  induction bz generalizing i x s with
  | nil => simp [takeUvarintGo] at h
  | cons b rest ih =>
    simp only [takeUvarintGo] at h
    split at h
    · cases h
    · split at h
      · split at h
        · cases h
        · simp only [Option.some.injEq, Prod.mk.injEq] at h
          rw [← h.2]; simp
      · have := ih _ _ _ h
        simp only [List.length_cons]; omega
end Iavl
