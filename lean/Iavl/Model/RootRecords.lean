/-
  C04 / C12 / C14, the byte store at the level of node keys: where the root of a version is found.

  nodedb.go keys every node by (version, nonce); nonce 1 is the root created by that version. Under the key
  (v, 1) the store holds either that root node, or - when version v did not create its root - a *reference*
  to the key of an older node, or an empty value (empty tree). `DeleteVersionsTo` removes the lowest version
  v: the nodes of v that v+1 does not use are deleted; a root node (v, 1) that is still used is *re-keyed* to
  (v, 0) so that the version no longer "exists" (`hasVersion` = the key (v, 1) exists) while the node stays
  reachable: `GetRoot` and `GetNode` fall back from (u, 1) to (u, 0).

  `GetRoot`, `GetNode`, `hasVersion`, `SaveVersion`'s root record and `deleteVersion` are modelled on an
  abstract store (key -> cell); which nodes are orphans is an input of the deletion (it is what
  `traverseOrphans` computes, proved exact in C04).
-/
namespace Iavl.Roots

abbrev NKey := Nat × Nat        -- (version, nonce)

inductive Cell where
  | node (id : NKey)            -- a node record; `id` is the key the node was created under
  | ref (k : NKey)              -- root record of a version that did not create its root
  | empty                       -- root record of an empty tree
  deriving DecidableEq

abbrev Store := NKey → Option Cell

def Store.set (s : Store) (k : NKey) (c : Cell) : Store := fun k' => if k' = k then some c else s k'
def Store.del (s : Store) (k : NKey) : Store := fun k' => if k' = k then none else s k'
def Store.delAll (s : Store) (ks : List NKey) : Store := ks.foldl Store.del s

/-- `hasVersion` -/
def hasVersion (s : Store) (v : Nat) : Bool := (s (v, 1)).isSome

inductive RootRes where
  | notExist                    -- ErrVersionDoesNotExist
  | emptyTree
  | at (k : NKey)               -- the key the root node is read from
  deriving DecidableEq

/-- `GetRoot(version)` (new-format branch) -/
def getRoot (s : Store) (v : Nat) : RootRes :=
  match s (v, 1) with
  | none => .notExist
  | some .empty => .emptyTree
  | some (.ref k) =>
    if (s k).isSome then .at k
    else if (s (k.1, 0)).isSome then .at (k.1, 0)      -- the referenced root was re-keyed by pruning
    else .notExist
  | some (.node _) => .at (v, 1)

/-- `GetNode(nk)`: the key itself, else the re-keyed place of a root -/
def getNode (s : Store) (k : NKey) : Option Cell :=
  match s k with
  | some c => some c
  | none => if k.2 = 1 then s (k.1, 0) else none

/-- what `SaveVersion(v)` stores for the root: `news` are the nonces (≥ 2) of the other nodes it creates -/
inductive RootKind where
  | created                     -- the root is a new node: (v, 1)
  | inherited (id : NKey)       -- the root is an older node (commit without writes, or a promoted subtree)
  | emptyTree

def save (s : Store) (v : Nat) (news : List Nat) (rk : RootKind) : Store :=
  let s1 := news.foldl (fun acc n => acc.set (v, n) (.node (v, n))) s
  match rk with
  | .created => s1.set (v, 1) (.node (v, 1))
  | .inherited id => s1.set (v, 1) (.ref id)
  | .emptyTree => s1.set (v, 1) .empty

/-- the key an orphan is deleted under (`deleteVersion`): a root of an older, already deleted version lives
    under nonce 0 -/
def orphanKey (v : Nat) (id : NKey) : NKey := if id.2 = 1 ∧ id.1 < v then (id.1, 0) else id

/-- `deleteVersion(v)`; `orphans` = the nodes of v that v+1 does not use (as `traverseOrphans` reports them) -/
def deleteVersion (s : Store) (v : Nat) (orphans : List NKey) : Store :=
  let rootOrphaned := orphans.any (fun id => id.2 == 1 && id.1 == v)
  let s1 := s.delAll (orphans.map (orphanKey v))
  match getRoot s v with
  | .at k =>
    if k = (v, 1) then
      if rootOrphaned then s1
      else (s1.set (v, 0) (.node (v, 1))).del (v, 1)     -- still used by v+1: re-key, copy first
    else s1.del (v, 1)
  | _ => s1.del (v, 1)

/-- `DeleteVersionsFrom(n)` on the node keys: every record of a version ≥ n goes (`deleteRange`); when no
    version survives (n at or below the first version) every record goes, also the re-keyed roots of pruned
    versions below n (K35) -/
def deleteFrom (s : Store) (first n : Nat) : Store :=
  if n ≤ first then fun _ => none else fun k => if n ≤ k.1 then none else s k

end Iavl.Roots
