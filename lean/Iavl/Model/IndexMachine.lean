import Iavl.Model.VMachine
import Iavl.Model.Merge
/-
  C07: the fast index as a machine over whole histories (mutable_tree.go, immutable_tree.go, nodedb.go).

  Persistent: the `f`-entries (key -> value, version last updated) and the label `m storage_version`
  ("1.0.0" = `none`: not built; "1.1.0-<v>" = `some v`: built, describes version v).
  Per tree object: whether it maintains the index (`!skipFastStorageUpgrade`, chosen at each (re)open) and
  the uncommitted overlay (`unsavedFastNodeAdditions` / `unsavedFastNodeRemovals`).

    rebuild-if-needed  = enableFastStorageAndCommitIfNotEnabled: IsUpgradeable = not built, or the label names
                         another version than the latest; then every entry is deleted, the index is written
                         from the **latest** version (entries stamped with it) and labelled with it
    Set / Remove       = addUnsavedAddition (stamped tree.version+1) / addUnsavedRemoval
    SaveVersion (new)  = saveFastNodeAdditions, saveFastNodeRemovals, SetFastStorageVersionToBatch(version);
                         overlay cleared.  Onto an existing version: nothing is written, the overlay stays
    Rollback           = overlay cleared
    LoadVersion        = overlay cleared, rebuild-if-needed (on an empty store: rebuild-if-needed only)
    DeleteVersionsFrom = nothing when nothing is deleted; else the label is reset to "not built" and (K33
                         repair) rebuild-if-needed
    LoadVersionForOverwriting = LoadVersion, that deletion, rebuild-if-needed
    DeleteVersionsTo   = the index is not touched

  The version bookkeeping is the versioned-map machine of C01 (`VState.step mapContent`); a tree object that
  does not maintain the index never touches entries, label or overlay.
-/
namespace Iavl
open Std
variable {K V : Type} [Ord K] [TransOrd K] [LawfulEqOrd K] [DecidableEq K]

/-- index entries and overlay additions: key -> (value, version last updated) -/
abbrev IMap (K V : Type) := List (K × (V × Nat))

def proj (m : IMap K V) : SMap K V := m.map (fun p => (p.1, p.2.1))
def stampAll (m : SMap K V) (ver : Nat) : IMap K V := m.map (fun p => (p.1, (p.2, ver)))

structure IxSt (K V : Type) where
  vs : VState (SMap K V)
  label : Option Nat
  index : IMap K V
  fast : Bool
  adds : IMap K V
  rems : List K

/-- contents of the latest version (empty when there is none) -/
def latestC (vs : VState (SMap K V)) : SMap K V := (findVer vs.versions (latestVer vs.versions)).getD []

def IxSt.rebuild (s : IxSt K V) : IxSt K V :=
  if s.label = some (latestVer s.vs.versions) then s
  else { s with index := stampAll (latestC s.vs) (latestVer s.vs.versions), label := some (latestVer s.vs.versions) }

/-- what a commit writes: every addition is set, every removal deleted -/
def applyOverlay (index adds : IMap K V) (rems : List K) : IMap K V :=
  rems.foldl (fun m k => eraseSorted k m) (adds.foldl (fun m p => insertSorted p.1 p.2 m) index)

/-- the index part of a successful `LoadVersion` (`s.vs` is the loaded state already) -/
def IxSt.afterLoad (s : IxSt K V) : IxSt K V :=
  if s.fast then
    (if s.vs.versions.isEmpty then s else { s with adds := [], rems := [] }).rebuild
  else s

/-- one step; `mode` = "this (re)open maintains the index", read by `reopen` only -/
def IxSt.step (s : IxSt K V) (mode : Bool) (op : Op K V) : IxSt K V :=
  let vs' := (s.vs.step mapContent op).1
  match op with
  | .set k v =>
    if s.fast then
      { s with vs := vs', adds := insertSorted k (v, s.vs.base + 1) s.adds, rems := s.rems.filter (· ≠ k) }
    else { s with vs := vs' }
  | .remove k =>
    match lookup k s.vs.working with
    | none => s
    | some _ =>
      if s.fast then { s with vs := vs', adds := eraseSorted k s.adds, rems := k :: s.rems.filter (· ≠ k) }
      else { s with vs := vs' }
  | .save _ =>
    match findVer s.vs.versions s.vs.workingVersion with
    | some _ => { s with vs := vs' }
    | none =>
      if latestVer s.vs.versions < s.vs.workingVersion ∧ s.fast = true then
        { s with vs := vs', index := applyOverlay s.index s.adds s.rems, label := some s.vs.workingVersion,
                 adds := [], rems := [] }
      else { s with vs := vs' }
  | .rollback => { s with vs := vs', adds := [], rems := [] }
  | .load target =>
    match s.vs.load target with
    | none => s
    | some (v', _) => ({ s with vs := v' } : IxSt K V).afterLoad
  | .loadow target =>
    match s.vs.load target with
    | none => s
    | some (v', _) =>
      let s1 := ({ s with vs := v' } : IxSt K V).afterLoad
      let s2 : IxSt K V :=
        { s1 with vs := vs', label := if v'.base < latestVer v'.versions then none else s1.label }
      if s.fast then s2.rebuild else s2
  | .delfrom n =>
    if latestVer s.vs.versions < n then { s with vs := vs' }
    else
      let s2 : IxSt K V := { s with vs := vs', label := none }
      if s.fast then s2.rebuild else s2
  | .reopen iv target =>
    let s0 : IxSt K V := { s with vs := s.vs.fresh mapContent iv, fast := mode, adds := [], rems := [] }
    match (s.vs.fresh mapContent iv).load target with
    | none => s0
    | some (v', _) => ({ s0 with vs := v' } : IxSt K V).afterLoad
  | _ => { s with vs := vs' }

/-! ### the answers served through the index -/

/-- `ImmutableTree.Get` on a tree with contents `c` and version `b` -/
def IxSt.immGet (s : IxSt K V) (b : Nat) (c : SMap K V) (k : K) : Option V :=
  if c.isEmpty then none
  else if s.fast then
    match lookup k s.index with
    | none => if b = latestVer s.vs.versions then none else lookup k c
    | some (v, st) => if st ≤ b then some v else lookup k c
  else lookup k c

/-- `MutableTree.Get` -/
def IxSt.get (s : IxSt K V) (k : K) : Option V :=
  if s.vs.working.isEmpty then none
  else if s.fast then
    match lookup k s.adds with
    | some (v, _) => some v
    | none => if k ∈ s.rems then none else s.immGet s.vs.base s.vs.working k
  else s.immGet s.vs.base s.vs.working k

/-- `IsFastCacheEnabled` -/
def IxSt.fastEnabled (s : IxSt K V) : Bool := s.vs.base == latestVer s.vs.versions && s.label.isSome

/-- `MutableTree.GetVersioned` -/
def IxSt.getVersioned (s : IxSt K V) (k : K) (ver : Nat) : Option V :=
  match findVer s.vs.versions ver with
  | none => none
  | some c =>
    if s.fast && s.fastEnabled then
      match lookup k s.index with
      | none => if ver = latestVer s.vs.versions then none else s.immGet ver c k
      | some (v, st) => if st ≤ ver then some v else s.immGet ver c k
    else s.immGet ver c k

/-- `MutableTree.Iterator(nil, nil, true)`, drained -/
def IxSt.iterate (s : IxSt K V) : SMap K V :=
  if s.fast && s.fastEnabled then
    mergeNext compare (fun k => decide (k ∈ s.rems)) (proj s.index) (proj s.adds)
  else s.vs.working

def IxSt.init (iv : Option Nat) (mode : Bool) : IxSt K V :=
  { vs := { versions := [], working := [], lastSaved := [], base := 0, ivOpt := iv.getD 0, ivSet := iv.isSome },
    label := none, index := [], fast := mode, adds := [], rems := [] }

def IxSt.run (s : IxSt K V) : List (Bool × Op K V) → IxSt K V
  | [] => s
  | (m, op) :: ops => IxSt.run (s.step m op) ops

end Iavl
