import Iavl.Model.TakeVarint
/- Spike for C13: the node codec (`writeBytes` / `MakeNode`), new-format and legacy child references. -/
namespace Iavl

/-- `binary.Varint` on top of `ReadUvarint`: zig-zag decoding -/
def takeVarint (bz : Bytes) : Option (Int × Bytes) :=
  match takeUvarint bz with
  | none => none
  | some (ux, rest) => some (if ux % 2 = 1 then -((ux / 2 : Nat) : Int) - 1 else ((ux / 2 : Nat) : Int), rest)

theorem takeVarint_put (i : Int) (hlo : -(2 ^ 63) ≤ i) (hhi : i < 2 ^ 63) (rest : Bytes) :
    takeVarint (varint i ++ rest) = some (i, rest) := by
  unfold takeVarint varint
  by_cases h : i ≥ 0
  · simp only [h, if_true]
    have hb : (2 * i).toNat < 2 ^ 64 := by omega
    rw [takeUvarint_put _ hb]
    simp only
    have : (2 * i).toNat % 2 = 0 := by omega
    simp only [this, show ¬ ((0 : Nat) = 1) by decide, if_false]
    congr 2
    omega
  · simp only [h, if_false]
    have hb : (-2 * i - 1).toNat < 2 ^ 64 := by omega
    rw [takeUvarint_put _ hb]
    simp only
    have : (-2 * i - 1).toNat % 2 = 1 := by omega
    simp only [this, if_true]
    congr 2
    omega

/-- `encoding.DecodeBytes` -/
def takeBytes (bz : Bytes) : Option (Bytes × Bytes) :=
  match takeUvarint bz with
  | none => none
  | some (n, rest) => if n ≥ 2 ^ 63 then none else if rest.length < n then none else some (rest.take n, rest.drop n)

theorem takeBytes_put (b rest : Bytes) (hb : b.length < 2 ^ 63) :
    takeBytes (encBytes b ++ rest) = some (b, rest) := by
  unfold takeBytes encBytes
  rw [List.append_assoc, takeUvarint_put _ (by omega)]
  simp only
  have h1 : ¬ (b.length ≥ 2 ^ 63) := by omega
  simp [h1]

/-- reference to a child: new format `(version, nonce)` or legacy hash -/
inductive ChildRef where
  | new (version : Int) (nonce : Nat)
  | legacy (hash : Bytes)
  deriving DecidableEq, Repr

inductive NodeRec where
  | leaf (size : Int) (key value : Bytes)
  | inner (height : Int) (size : Int) (key hash : Bytes) (left right : ChildRef)
  deriving DecidableEq, Repr

def ChildRef.isLegacy : ChildRef → Bool
  | .legacy _ => true
  | .new .. => false

def encChild : ChildRef → Bytes
  | .new v n => varint v ++ varint n
  | .legacy h => 32 :: h

def modeOf (l r : ChildRef) : Int :=
  (match l with | .legacy _ => 1 | _ => 0) + (match r with | .legacy _ => 2 | _ => 0)

/-- `Node.writeBytes` -/
def encNode : NodeRec → Bytes
  | .leaf sz k v => varint 0 ++ varint sz ++ encBytes k ++ encBytes v
  | .inner h sz k hash l r =>
    varint h ++ varint sz ++ encBytes k ++ (32 :: hash) ++ varint (modeOf l r) ++ encChild l ++ encChild r

def takeChild (legacy : Bool) (bz : Bytes) : Option (ChildRef × Bytes) :=
  if legacy then
    match takeBytes bz with
    | none => none
    | some (h, rest) => some (.legacy h, rest)
  else
    match takeVarint bz with
    | none => none
    | some (v, r1) =>
      match takeVarint r1 with
      | none => none
      | some (n, r2) =>
        if n < 0 ∨ n ≥ 2 ^ 32 then none         -- "out of int32 range" check on the nonce
        else some (.new v n.toNat, r2)

/-- `MakeNode` (node key handled by the caller); `none` = error -/
def decNode (bz : Bytes) : Option NodeRec :=
  match takeVarint bz with
  | none => none
  | some (h, r1) =>
    if h < -128 ∨ h > 127 then none else
    match takeVarint r1 with
    | none => none
    | some (sz, r2) =>
      match takeBytes r2 with
      | none => none
      | some (k, r3) =>
        if h = 0 then
          match takeBytes r3 with
          | none => none
          | some (v, _) => some (.leaf sz k v)
        else
          match takeBytes r3 with
          | none => none
          | some (hash, r4) =>
            match takeVarint r4 with
            | none => none
            | some (mode, r5) =>
              if mode < 0 ∨ mode > 3 then none else
              match takeChild (mode % 2 = 1) r5 with
              | none => none
              | some (l, r6) =>
                match takeChild (mode / 2 = 1) r6 with
                | none => none
                | some (r, _) => some (.inner h sz k hash l r)

def ChildWF : ChildRef → Prop
  | .new v n => -(2 ^ 63) ≤ v ∧ v < 2 ^ 63 ∧ n < 2 ^ 32
  | .legacy h => h.length = 32

def NodeWF : NodeRec → Prop
  | .leaf sz k v => -(2 ^ 63) ≤ sz ∧ sz < 2 ^ 63 ∧ k.length < 2 ^ 63 ∧ v.length < 2 ^ 63
  | .inner h sz k hash l r => h ≠ 0 ∧ -128 ≤ h ∧ h ≤ 127 ∧ -(2 ^ 63) ≤ sz ∧ sz < 2 ^ 63 ∧
      k.length < 2 ^ 63 ∧ hash.length = 32 ∧ ChildWF l ∧ ChildWF r

theorem takeChild_put (c : ChildRef) (hc : ChildWF c) (rest : Bytes) :
    takeChild c.isLegacy (encChild c ++ rest) = some (c, rest) := by
  cases c with
  | new v n =>
    obtain ⟨hv0, hv, hn⟩ := hc
    simp only [takeChild, encChild, ChildRef.isLegacy, Bool.false_eq_true, if_false, List.append_assoc]
    rw [takeVarint_put v hv0 hv]
    simp only
    rw [takeVarint_put (n : Int) (by omega) (by omega)]
    simp only
    have : ¬ ((n : Int) < 0 ∨ (n : Int) ≥ 2 ^ 32) := by omega
    simp only [this, if_false, Int.toNat_natCast]
  | legacy h =>
    have hl : h.length = 32 := hc
    simp only [takeChild, encChild, ChildRef.isLegacy, if_true]
    have : (32 : UInt8) :: h = encBytes h := by
      unfold encBytes; rw [hl]; unfold uvarint; simp
    rw [List.cons_append, ← List.cons_append, this, takeBytes_put h rest (by omega)]

/-- **decode ∘ encode = id** on well-formed node records -/
theorem decNode_encNode (n : NodeRec) (hwf : NodeWF n) : decNode (encNode n) = some n := by
  cases n with
  | leaf sz k v =>
    obtain ⟨h1, h2, h3, h4⟩ := hwf
    simp only [decNode, encNode, List.append_assoc]
    rw [takeVarint_put 0 (by decide) (by decide)]
    simp only [show ¬ ((0 : Int) < -128 ∨ (0 : Int) > 127) by decide, if_false]
    rw [takeVarint_put sz h1 h2]
    simp only
    rw [takeBytes_put k _ h3]
    simp only [if_true]
    have := takeBytes_put v [] h4
    simp only [List.append_nil] at this
    rw [this]
  | inner h sz k hash l r =>
    obtain ⟨h0, h1, h2, h3, h4, h5, h6, hl, hr⟩ := hwf
    simp only [decNode, encNode, List.append_assoc]
    rw [takeVarint_put h (by omega) (by omega)]
    have hh : ¬ (h < -128 ∨ h > 127) := by omega
    simp only [hh, if_false]
    rw [takeVarint_put sz h3 h4]
    simp only
    rw [takeBytes_put k _ h5]
    simp only [h0, if_false]
    have ehash : (32 : UInt8) :: hash = encBytes hash := by
      unfold encBytes; rw [h6]; unfold uvarint; simp
    rw [List.cons_append, ← List.cons_append, ehash, takeBytes_put hash _ (by omega)]
    simp only
    have hmode : -(2 ^ 63 : Int) ≤ modeOf l r ∧ modeOf l r < 2 ^ 63 ∧ 0 ≤ modeOf l r ∧ modeOf l r ≤ 3 := by
      cases l <;> cases r <;> simp [modeOf]
    rw [takeVarint_put (modeOf l r) hmode.1 hmode.2.1]
    have hm : ¬ (modeOf l r < 0 ∨ modeOf l r > 3) := by omega
    simp only [hm, if_false]
    have el : (decide (modeOf l r % 2 = 1)) = l.isLegacy := by
      cases l <;> cases r <;> simp [modeOf, ChildRef.isLegacy]
    have er : (decide (modeOf l r / 2 = 1)) = r.isLegacy := by
      cases l <;> cases r <;> simp [modeOf, ChildRef.isLegacy]
    rw [el, takeChild_put l hl]
    simp only
    rw [er]
    have := takeChild_put r hr []
    simp only [List.append_nil] at this
    rw [this]

/-! ### legacy nodes and fast nodes -/

inductive LegacyRec where
  | leaf (height size version : Int) (key value : Bytes)
  | inner (height size version : Int) (key left right : Bytes)
  deriving DecidableEq, Repr

/-- `MakeLegacyNode`; `none` = error -/
def decLegacyNode (bz : Bytes) : Option LegacyRec :=
  match takeVarint bz with
  | none => none
  | some (h, r1) =>
    if h < -128 ∨ h > 127 then none else
    match takeVarint r1 with
    | none => none
    | some (sz, r2) =>
      match takeVarint r2 with
      | none => none
      | some (ver, r3) =>
        match takeBytes r3 with
        | none => none
        | some (k, r4) =>
          if h = 0 then
            match takeBytes r4 with
            | none => none
            | some (v, _) => some (.leaf h sz ver k v)
          else
            match takeBytes r4 with
            | none => none
            | some (lh, r5) =>
              match takeBytes r5 with
              | none => none
              | some (rh, _) => some (.inner h sz ver k lh rh)

def encLegacyNode : LegacyRec → Bytes
  | .leaf h sz ver k v => varint h ++ varint sz ++ varint ver ++ encBytes k ++ encBytes v
  | .inner h sz ver k l r => varint h ++ varint sz ++ varint ver ++ encBytes k ++ encBytes l ++ encBytes r

/-- `fastnode.DeserializeNode` / `WriteBytes` -/
def decFastNode (bz : Bytes) : Option (Int × Bytes) :=
  match takeVarint bz with
  | none => none
  | some (ver, r) =>
    match takeBytes r with
    | none => none
    | some (v, _) => some (ver, v)

def encFastNode (ver : Int) (v : Bytes) : Bytes := varint ver ++ encBytes v

theorem decFastNode_encFastNode (ver : Int) (v : Bytes) (h1 : -(2 ^ 63) ≤ ver) (h2 : ver < 2 ^ 63)
    (hv : v.length < 2 ^ 63) : decFastNode (encFastNode ver v) = some (ver, v) := by
  unfold decFastNode encFastNode
  rw [takeVarint_put ver h1 h2]
  simp only
  have := takeBytes_put v [] hv
  simp only [List.append_nil] at this
  rw [this]

theorem decLegacyNode_encLegacyNode_leaf (sz ver : Int) (k v : Bytes)
    (h1 : -(2 ^ 63) ≤ sz) (h2 : sz < 2 ^ 63) (h3 : -(2 ^ 63) ≤ ver) (h4 : ver < 2 ^ 63)
    (hk : k.length < 2 ^ 63) (hv : v.length < 2 ^ 63) :
    decLegacyNode (encLegacyNode (.leaf 0 sz ver k v)) = some (.leaf 0 sz ver k v) := by
  simp only [decLegacyNode, encLegacyNode, List.append_assoc]
  rw [takeVarint_put 0 (by decide) (by decide)]
  simp only [show ¬ ((0 : Int) < -128 ∨ (0 : Int) > 127) by decide, if_false]
  rw [takeVarint_put sz h1 h2]
  simp only
  rw [takeVarint_put ver h3 h4]
  simp only
  rw [takeBytes_put k _ hk]
  simp only [if_true]
  have := takeBytes_put v [] hv
  simp only [List.append_nil] at this
  rw [this]

theorem decLegacyNode_encLegacyNode_inner (h sz ver : Int) (k l r : Bytes) (h0 : h ≠ 0) (hlo : -128 ≤ h) (hhi : h ≤ 127)
    (h1 : -(2 ^ 63) ≤ sz) (h2 : sz < 2 ^ 63) (h3 : -(2 ^ 63) ≤ ver) (h4 : ver < 2 ^ 63)
    (hk : k.length < 2 ^ 63) (hl : l.length < 2 ^ 63) (hr : r.length < 2 ^ 63) :
    decLegacyNode (encLegacyNode (.inner h sz ver k l r)) = some (.inner h sz ver k l r) := by
  simp only [decLegacyNode, encLegacyNode, List.append_assoc]
  rw [takeVarint_put h (by omega) (by omega)]
  have hh : ¬ (h < -128 ∨ h > 127) := by omega
  simp only [hh, if_false]
  rw [takeVarint_put sz h1 h2]
  simp only
  rw [takeVarint_put ver h3 h4]
  simp only
  rw [takeBytes_put k _ hk]
  simp only [h0, if_false]
  rw [takeBytes_put l _ hl]
  simp only
  have := takeBytes_put r [] hr
  simp only [List.append_nil] at this
  rw [this]
end Iavl
