/- Spike for C14: `getFirstVersion`'s binary search for the oldest version with a root key. -/
namespace Iavl

/-- the loop of `nodeDB.getFirstVersion`: `for first < latest { v := (latest+first)>>1; if has(v) {latest = v} else {first = v+1} }; return latest` -/
def searchFirst (has : Nat → Bool) (first latest : Nat) : Nat :=
  if h : first < latest then
    let v := (latest + first) / 2
    if has v then searchFirst has first v else searchFirst has (v + 1) latest
  else latest
termination_by latest - first
decreasing_by all_goals omega

/-- correct whenever the root-key predicate is monotone on the searched interval -/
theorem searchFirst_correct (has : Nat → Bool) (first latest f : Nat)
    (hf1 : first ≤ f) (hf2 : f ≤ latest)
    (hmono : ∀ v, first ≤ v → v ≤ latest → (has v = true ↔ f ≤ v)) :
    searchFirst has first latest = f := by
  induction hn : latest - first using Nat.strongRecOn generalizing first latest with
  | _ n ih =>
    unfold searchFirst
    split
    · rename_i hlt
      simp only
      have hv1 : first ≤ (latest + first) / 2 := by omega
      have hv2 : (latest + first) / 2 < latest := by omega
      cases hh : has ((latest + first) / 2) with
      | true =>
        simp only [if_true]
        have hfv : f ≤ (latest + first) / 2 := (hmono _ hv1 (by omega)).mp hh
        exact ih _ (by omega) first _ hf1 hfv (fun v h1 h2 => hmono v h1 (by omega)) rfl
      | false =>
        simp only [Bool.false_eq_true, if_false]
        have hfv : ¬ f ≤ (latest + first) / 2 := by
          intro h; have := (hmono _ hv1 (by omega)).mpr h; rw [hh] at this; cases this
        exact ih _ (by omega) _ latest (by omega) hf2 (fun v h1 h2 => hmono v (by omega) h2) rfl
    · omega

/-- K2: a deleted version that kept its root key breaks monotonicity and the search answers it -/
theorem searchFirst_counterexample :
    searchFirst (fun v => v == 1 || v == 2) 0 2 = 1 := by
  unfold searchFirst; simp
  unfold searchFirst; simp
  unfold searchFirst; simp
end Iavl
