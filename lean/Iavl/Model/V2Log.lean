/-
  C20 (v2 persistence), the logical core: checkpoints, the leaf change log and its pruning.

  v2 persists, per version, the leaves it created (`leaf` rows: version, sequence, key, value) and the keys
  it deleted (`leaf_delete` rows: version, sequence, key); the two share one sequence counter, so
  `ORDER BY version, sequence` is the order of the writes. A leaf that stops being part of the tree is
  recorded in `leaf_orphan` (its version and sequence, and the version `at` which it was replaced or
  removed). Whole trees are stored only at checkpoint versions. `LoadVersion(v)` (tree.go) takes
  `c = checkpoints.FindPrevious(v)`, loads the tree of `c` and replays the rows with `c < version ≤ v`
  (sqlite.go `replayChangelog`). `DeleteVersionsTo(n)`: the leaf pruner (sqlite_writer.go `leafLoop`) rounds
  `n` down to `P = checkpoints.FindPrevious(n)`, deletes every leaf whose orphan record has `at ≤ P` (and the
  record), and the `leaf_delete` rows with `version < P`; the tree pruner deletes the `root` rows with
  `version < P` (with them the checkpoints below `P`).
-/
namespace Iavl.V2

/-! ### `VersionRange.FindPrevious` (range.go), line by line -/

/-- the loop of the binary search; Go's `low`, `high` are kept as `low` and `hi = high + 1` so that both stay
    natural numbers (`high` reaches -1 only on inputs the guard before the loop excludes) -/
def findPrevLoop (vs : List Nat) (version : Nat) : Nat → Nat → Nat → Option Nat
  | 0, _, hi => vs[hi - 1]?
  | fuel + 1, low, hi =>
    if low < hi then
      let mid := (low + (hi - 1)) / 2
      match vs[mid]? with
      | none => none
      | some x =>
        if x = version then some version
        else if x < version then findPrevLoop vs version fuel (mid + 1) hi
        else findPrevLoop vs version fuel low mid
    else vs[hi - 1]?

/-- `FindPrevious`; `none` is Go's -1 -/
def findPrevious (vs : List Nat) (version : Nat) : Option Nat :=
  match vs with
  | [] => none
  | v0 :: _ => if version < v0 then none else findPrevLoop vs version vs.length 0 vs.length

/-- the loop of `VersionRange.Find` (same search, returns `vs[low]`) -/
def findLoop (vs : List Nat) (version : Nat) : Nat → Nat → Nat → Option Nat
  | 0, low, _ => vs[low]?
  | fuel + 1, low, hi =>
    if low < hi then
      let mid := (low + (hi - 1)) / 2
      match vs[mid]? with
      | none => none
      | some x =>
        if x = version then some version
        else if x < version then findLoop vs version fuel (mid + 1) hi
        else findLoop vs version fuel low mid
    else vs[low]?

/-- `Find`: the shard (checkpoint) that contains the version; `none` is Go's -1 -/
def find (vs : List Nat) (version : Nat) : Option Nat :=
  match vs.getLast? with
  | none => none
  | some last => if last < version then none else findLoop vs version vs.length 0 vs.length

/-- `VersionRange.Add`: appends only a version greater than the last one (`none` = the error return) -/
def rangeAdd (vs : List Nat) (v : Nat) : Option (List Nat) :=
  match vs.getLast? with
  | none => some [v]
  | some last => if v ≤ last then none else some (vs ++ [v])

/-- a range built by `Add` calls, failed ones leaving it unchanged -/
def rangeOf (adds : List Nat) : List Nat := adds.foldl (fun vs v => (rangeAdd vs v).getD vs) []

/-! ### the change log -/

inductive Ev (K V : Type) where
  | set (k : K) (v : V)
  | del (k : K)

structure Row (K V : Type) where
  ver : Nat
  seq : Nat
  ev : Ev K V            -- `set`: a `leaf` row; `del`: a `leaf_delete` row

structure Orphan where
  ver : Nat
  seq : Nat
  atv : Nat           -- `at`

structure Store (K V : Type) where
  rows : List (Row K V)
  orphans : List Orphan
  ckpts : List Nat       -- ascending
  roots : List Nat       -- versions that have a `root` row

def Row.isSet {K V : Type} (r : Row K V) : Bool := match r.ev with | .set _ _ => true | .del _ => false

/-- the rows `replayChangelog` reads for a load of `v` from checkpoint `c` -/
def replayRows {K V : Type} (s : Store K V) (c v : Nat) : List (Row K V) :=
  s.rows.filter (fun r => decide (c < r.ver) && decide (r.ver ≤ v))

/-- `LoadVersion(v)` finds a checkpoint to start from and a root row to check the hash against -/
def loadPoint {K V : Type} (s : Store K V) (v : Nat) : Option Nat :=
  if v ∈ s.roots then findPrevious s.ckpts v else none

/-- `DeleteVersionsTo(req)`: both pruners -/
def prune {K V : Type} (s : Store K V) (req : Nat) : Store K V :=
  match findPrevious s.ckpts req with
  | none => s
  | some P =>
    { rows := s.rows.filter (fun r =>
        if r.isSet then !(s.orphans.any (fun o => o.ver == r.ver && o.seq == r.seq && decide (o.atv ≤ P)))
        else !decide (r.ver < P)),
      orphans := s.orphans.filter (fun o => !decide (o.atv ≤ P)),
      ckpts := s.ckpts.filter (fun c => decide (P ≤ c)),
      roots := s.roots.filter (fun w => decide (P ≤ w)) }

/-- `SaveVersion` of version `ver` with the given writes in order; `orph` are the orphan records the
    commit adds (each names an older leaf and `at` = ver); `ck` = this version is a checkpoint -/
def commit {K V : Type} (s : Store K V) (ver : Nat) (evs : List (Ev K V)) (orph : List (Nat × Nat)) (ck : Bool) :
    Store K V :=
  { rows := s.rows ++ (evs.zipIdx.map fun p => ⟨ver, p.2 + 1, p.1⟩),
    orphans := s.orphans ++ orph.map (fun o => ⟨o.1, o.2, ver⟩),
    ckpts := if ck then s.ckpts ++ [ver] else s.ckpts,
    roots := s.roots ++ [ver] }

end Iavl.V2
