/-
  Appendix A of DESIGN.md, type-checked: the L1 model vocabulary and the statements of the
  T1 theorems as `Prop` definitions (nothing is asserted here).
-/
namespace Iavl
open Std

abbrev Bytes := List UInt8

/-- A node of the pure model. `ver = none` = created in the working tree, not yet committed
    (Go: `nodeKey == nil`); `some v` = persisted at version `v`. Nonces live in L2. -/
inductive Node (K V : Type) where
  | leaf  (k : K) (v : V) (ver : Option Nat)
  | inner (k : K) (h : Nat) (sz : Nat) (ver : Option Nat) (l r : Node K V)
  deriving Repr

variable {K V : Type}

namespace Node
def height : Node K V → Nat | .leaf .. => 0 | .inner _ h .. => h
def size   : Node K V → Nat | .leaf .. => 1 | .inner _ _ s .. => s
def key    : Node K V → K   | .leaf k .. => k | .inner k .. => k
def toList : Node K V → List (K × V)
  | .leaf k v _ => [(k, v)]
  | .inner _ _ _ _ l r => l.toList ++ r.toList
def keys (t : Node K V) : List K := t.toList.map (·.1)
end Node

/-- `newInner` = a freshly cloned/created inner node (nodeKey nil) with recomputed height/size
    (`calcHeightAndSize`). -/
def newInner (k : K) (l r : Node K V) : Node K V :=
  .inner k (max l.height r.height + 1) (l.size + r.size) none l r

def bal : Node K V → Int
  | .leaf .. => 0
  | .inner _ _ _ _ l r => (l.height : Int) - (r.height : Int)

/-- `rotateRight`: clones node and its left child (both become new). -/
def rotateRight : Node K V → Node K V
  | .inner k _ _ _ (.inner lk _ _ _ ll lr) r => newInner lk ll (newInner k lr r)
  | n => n
def rotateLeft : Node K V → Node K V
  | .inner k _ _ _ l (.inner rk _ _ _ rl rr) => newInner rk (newInner k l rl) rr
  | n => n

/-- `MutableTree.balance` (thresholds are literally those of the Go source). -/
def balance (n : Node K V) : Node K V :=
  match n with
  | .leaf .. => n
  | .inner k _ _ _ l r =>
    if bal n > 1 then
      if bal l ≥ 0 then rotateRight n else rotateRight (newInner k (rotateLeft l) r)
    else if bal n < -1 then
      if bal r ≤ 0 then rotateLeft n else rotateLeft (newInner k l (rotateRight r))
    else n

section ordered
variable [Ord K]

/-- `recursiveSet`: returns the new subtree and `updated`. On the update path ancestors are
    cloned (version reset) but height/size are kept and no rebalancing happens. -/
def Node.set : Node K V → K → V → Node K V × Bool
  | .leaf k v ver, key, val =>
    match compare key k with
    | .lt => (.inner k 1 2 none (.leaf key val none) (.leaf k v ver), false)
    | .gt => (.inner key 1 2 none (.leaf k v ver) (.leaf key val none), false)
    | .eq => (.leaf key val none, true)
  | .inner k h sz _ l r, key, val =>
    if compare key k = .lt then
      let (l', upd) := l.set key val
      if upd then (.inner k h sz none l' r, true) else (balance (newInner k l' r), false)
    else
      let (r', upd) := r.set key val
      if upd then (.inner k h sz none l r', true) else (balance (newInner k l r'), false)

/-- Result of `recursiveRemove`: new subtree (`none` = this subtree vanished), the new leftmost
    key to patch into the first ancestor reached from the right, the removed value. -/
structure RemoveRes (K V : Type) where
  node    : Option (Node K V)
  newKey  : Option K
  value   : V

/-- `recursiveRemove`; `none` = key not found (tree unchanged by the caller). -/
def Node.remove [BEq K] : Node K V → K → Option (RemoveRes K V)
  | .leaf k v _, key => if compare key k = .eq then some ⟨none, none, v⟩ else none
  | .inner k _ _ _ l r, key =>
    if compare key k = .lt then
      match l.remove key with
      | none => none
      | some ⟨none, _, v⟩ => some ⟨some r, some k, v⟩            -- left leaf removed: collapse to right
      | some ⟨some l', nk, v⟩ => some ⟨some (balance (newInner k l' r)), nk, v⟩
    else
      match r.remove key with
      | none => none
      | some ⟨none, _, v⟩ => some ⟨some l, none, v⟩               -- right leaf removed: collapse to left
      | some ⟨some r', nk, v⟩ =>
        let k' := match nk with | some x => x | none => k      -- routing-key patch
        some ⟨some (balance (newInner k' l r')), none, v⟩

def Node.get : Node K V → K → Nat × Option V
  | .leaf k v _, key =>
    match compare k key with
    | .lt => (1, none) | .gt => (0, none) | .eq => (0, some v)
  | .inner k _ sz _ l r, key =>
    if compare key k = .lt then l.get key
    else let (i, v) := r.get key; (i + (sz - r.size), v)

def Node.has : Node K V → K → Bool
  | .leaf k _ _, key => compare k key = .eq
  | .inner k _ _ _ l r, key =>
    compare k key = .eq || (if compare key k = .lt then l.has key else r.has key)

def Node.getByIndex : Node K V → Nat → Option (K × V)
  | .leaf k v _, i => if i = 0 then some (k, v) else none
  | .inner _ _ _ _ l r, i => if i < l.size then l.getByIndex i else r.getByIndex (i - l.size)

/-- `traverseInRange` restricted to leaves, pre-order, with the pruning tests of `traversal.next`. -/
def Node.range (start end_ : Option K) (asc incl : Bool) : Node K V → List (K × V)
  | .leaf k v _ =>
    let afterStart : Bool := match start with | none => true | some s => compare s k == .lt
    let startOrAfter := afterStart || (match start with | none => false | some s => compare s k == .eq)
    let beforeEnd : Bool := (match end_ with | none => true | some e => compare k e == .lt) ||
                        (incl && (match end_ with | none => false | some e => compare k e == .eq))
    if startOrAfter && beforeEnd then [(k, v)] else []
  | .inner k _ _ _ l r =>
    let afterStart : Bool := match start with | none => true | some s => compare s k == .lt
    let beforeEnd : Bool := (match end_ with | none => true | some e => compare k e == .lt) ||
                      (incl && (match end_ with | none => false | some e => compare k e == .eq))
    let ls := if afterStart then l.range start end_ asc incl else []
    let rs := if beforeEnd  then r.range start end_ asc incl else []
    if asc then ls ++ rs else rs ++ ls

/-! ### Specification side (L0) -/

def insertSorted (key : K) (val : V) : List (K × V) → List (K × V)
  | [] => [(key, val)]
  | (k, v) :: rest =>
    match compare key k with
    | .lt => (key, val) :: (k, v) :: rest
    | .eq => (key, val) :: rest
    | .gt => (k, v) :: insertSorted key val rest

def eraseSorted (key : K) : List (K × V) → List (K × V)
  | [] => []
  | (k, v) :: rest => if compare key k = .eq then rest else (k, v) :: eraseSorted key rest

def lookup (key : K) : List (K × V) → Option V
  | [] => none
  | (k, v) :: rest => if compare key k = .eq then some v else lookup key rest

def rank (key : K) (m : List (K × V)) : Nat := (m.filter (fun p => compare p.1 key = .lt)).length

def inRange (start end_ : Option K) (incl : Bool) (k : K) : Bool :=
  (match start with | none => true | some s => compare s k != .gt) &&
  (match end_ with | none => true | some e => compare k e == .lt || (incl && compare k e == .eq))

def rangeSpec (m : List (K × V)) (start end_ : Option K) (asc incl : Bool) : List (K × V) :=
  let xs := m.filter (fun p => inRange start end_ incl p.1)
  if asc then xs else xs.reverse

/-! ### Invariants -/

/-- search-tree + routing invariant: left keys `<` node key `≤` right keys; stronger form
    `RoutingMin`: node key *is* the least key of the right subtree (needed by CompressImporter). -/
def Ordered : Node K V → Prop
  | .leaf .. => True
  | .inner k _ _ _ l r => Ordered l ∧ Ordered r ∧
      (∀ p ∈ l.toList, compare p.1 k = .lt) ∧ (∀ p ∈ r.toList, (compare k p.1).isLE)

def RoutingMin : Node K V → Prop
  | .leaf .. => True
  | .inner k _ _ _ l r => RoutingMin l ∧ RoutingMin r ∧ r.keys.head? = some k

end ordered

/-- stored height/size exact and AVL-balanced -/
def AVL : Node K V → Prop
  | .leaf .. => True
  | .inner _ h sz _ l r => AVL l ∧ AVL r ∧ h = max l.height r.height + 1 ∧ sz = l.size + r.size ∧
      l.height ≤ r.height + 1 ∧ r.height ≤ l.height + 1

def fib : Nat → Nat | 0 => 0 | 1 => 1 | n + 2 => fib n + fib (n + 1)

/-! ### T1 statements (C01, C08, C11) as goals -/
section goals
variable (K V) [Ord K] [BEq K] [TransOrd K] [LawfulEqOrd K]

def set_toList_goal : Prop := ∀ (t : Node K V) k v, Ordered t → (t.set k v).1.toList = insertSorted k v t.toList
def set_updated_goal : Prop := ∀ (t : Node K V) k v, Ordered t → ((t.set k v).2 = true ↔ k ∈ t.keys)
def set_ordered_goal : Prop := ∀ (t : Node K V) k v, Ordered t → Ordered (t.set k v).1
def set_avl_goal : Prop := ∀ (t : Node K V) k v, AVL t → AVL (t.set k v).1
def remove_toList_goal : Prop := ∀ (t : Node K V) k, Ordered t → RoutingMin t →
  match t.remove k with
  | none => k ∉ t.keys
  | some ⟨none, _, v⟩ => t.toList = [(k, v)]
  | some ⟨some t', _, v⟩ => t'.toList = eraseSorted k t.toList ∧ lookup k t.toList = some v ∧
      Ordered t' ∧ RoutingMin t'
def remove_avl_goal : Prop := ∀ (t : Node K V) k, AVL t →
  match t.remove k with | some ⟨some t', _, _⟩ => AVL t' | _ => True
def get_goal : Prop := ∀ (t : Node K V) k, Ordered t → t.get k = (rank k t.toList, lookup k t.toList)
def has_goal : Prop := ∀ (t : Node K V) k, Ordered t → (t.has k = true ↔ k ∈ t.keys)
def getByIndex_goal : Prop := ∀ (t : Node K V) i, AVL t → t.getByIndex i = t.toList[i]?
def range_goal : Prop := ∀ (t : Node K V) s e asc incl, Ordered t →
  t.range s e asc incl = rangeSpec t.toList s e asc incl
def fib_goal : Prop := ∀ (t : Node K V), AVL t → fib (t.height + 2) ≤ t.size
end goals

/-! sanity: executable on byte strings -/
def demo : Node Bytes Bytes :=
  let t0 : Node Bytes Bytes := .leaf [97] [1] none
  let t1 := (t0.set [98] [2]).1
  let t2 := (t1.set [99] [3]).1
  let t3 := (t2.set [97, 98] [4]).1
  t3
#eval demo.toList
#eval (demo.get [98], demo.get [97, 97], demo.getByIndex 3, demo.has [99])
#eval (demo.remove [98]).map (fun r => (r.node.map Node.toList, r.newKey, r.value))
#eval demo.range (some [97, 98]) (some [99]) false true
end Iavl
