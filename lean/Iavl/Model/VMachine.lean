import Iavl.Lemmas.Set
/- Spike for C01/C09/C14: the versioned-map specification (L0), the version machine over pure trees
   (L1.5), and the refinement between them for every finite operation history. -/
namespace Iavl
open Std
set_option linter.unusedSectionVars false

inductive Op (K V : Type) where
  | set (k : K) (v : V) | remove (k : K) | save | rollback
  | load (target : Nat) | loadow (target : Nat) | prune (n : Nat)
  | get (k : K) | has (k : K) | size | getWithIndex (k : K) | getByIndex (i : Nat)
  | range (s e : Option K) (asc incl : Bool)
  | getVersioned (k : K) (ver : Nat) | versionExists (ver : Nat) | available | latest

inductive Res (K V : Type) where
  | unit | err | existing
  | bool (b : Bool) | nat (n : Nat) | version (n : Nat)
  | optVal (v : Option V) | removed (v : Option V) (b : Bool)
  | idxVal (i : Nat) (v : Option V) | kv (p : Option (K × V)) | list (l : List (K × V))
  | versions (l : List Nat)

variable {K V : Type} [Ord K] [BEq K] [TransOrd K] [LawfulEqOrd K]

/-! ### generic version bookkeeping, shared by both machines (parametrised by the content type) -/
section generic
variable {C : Type}

def findVer (vs : List (Nat × C)) (n : Nat) : Option C := (vs.find? (fun p => p.1 == n)).map (·.2)
def latestVer (vs : List (Nat × C)) : Nat := (vs.getLast?.map (·.1)).getD 0
def firstVer (vs : List (Nat × C)) : Nat := (vs.head?.map (·.1)).getD 0

structure VState (C : Type) where
  versions : List (Nat × C)     -- ascending
  working : C
  lastSaved : C
  base : Nat                    -- tree.version
  ivPending : Option Nat        -- InitialVersion, while initialVersionSet

/-- `WorkingVersion()` -/
def VState.workingVersion (s : VState C) : Nat :=
  if s.base + 1 = 1 then s.ivPending.getD 1 else s.base + 1

/-- `LoadVersion(target)`; `none` = error, `some (state, latest)` -/
def VState.load (empty : C) (s : VState C) (target : Nat) : Option (VState C × Nat) :=
  match s.versions with
  | [] => if target = 0 then some (s, 0) else none
  | _ =>
    let lat := latestVer s.versions
    if lat < target then none
    else
      let t := if target = 0 then lat else target
      match findVer s.versions t with
      | none => none
      | some c => some ({ s with working := c, lastSaved := c, base := t }, lat)
end generic

/-! ### L0: versioned map -/
abbrev SMap (K V : Type) := List (K × V)

def VMap.step (s : VState (SMap K V)) : Op K V → VState (SMap K V) × Res K V
  | .set k v => ({ s with working := insertSorted k v s.working }, .bool (lookup k s.working).isSome)
  | .remove k =>
    match lookup k s.working with
    | some v => ({ s with working := eraseSorted k s.working }, .removed (some v) true)
    | none => (s, .removed none false)
  | .save =>
    let ver := s.workingVersion
    let s' := { s with ivPending := none }
    match findVer s.versions ver with
    | some _ => (s', .existing)
    | none =>
      if latestVer s.versions < ver then
        ({ s' with versions := s.versions ++ [(ver, s.working)], lastSaved := s.working, base := ver }, .version ver)
      else (s', .err)
  | .rollback => ({ s with working := if s.base = 0 then [] else s.lastSaved }, .unit)
  | .load target =>
    match s.load [] target with
    | none => (s, .err)
    | some (s', lat) => (s', .version lat)
  | .loadow target =>
    match s.load [] target with
    | none => (s, .err)
    | some (s', _) => ({ s' with versions := s'.versions.filter (fun p => p.1 ≤ s'.base) }, .unit)
  | .prune n =>
    if latestVer s.versions ≤ n then (s, .err)
    else ({ s with versions := s.versions.filter (fun p => n < p.1) }, .unit)
  | .get k => (s, .optVal (lookup k s.working))
  | .has k => (s, .bool (lookup k s.working).isSome)
  | .size => (s, .nat s.working.length)
  | .getWithIndex k => (s, .idxVal (rank k s.working) (lookup k s.working))
  | .getByIndex i => (s, .kv s.working[i]?)
  | .range st en asc incl => (s, .list (rangeSpec s.working st en asc incl))
  | .getVersioned k ver => (s, .optVal ((findVer s.versions ver).bind (lookup k)))
  | .versionExists ver => (s, .bool (findVer s.versions ver).isSome)
  | .available => (s, .versions (s.versions.map (·.1)))
  | .latest => (s, .nat (latestVer s.versions))

/-! ### L1.5: the same machine over trees -/
abbrev OTree (K V : Type) := Option (Node K V)

def contents : OTree K V → SMap K V
  | none => []
  | some t => t.toList

/-- `saveNewNodes`: every unsaved node gets the committed version; saved subtrees are left alone -/
def commitVer (ver : Nat) : Node K V → Node K V
  | .leaf k v none => .leaf k v (some ver)
  | .leaf k v (some x) => .leaf k v (some x)
  | .inner k h sz none l r => .inner k h sz (some ver) (commitVer ver l) (commitVer ver r)
  | .inner k h sz (some x) l r => .inner k h sz (some x) l r

def VTree.step (s : VState (OTree K V)) : Op K V → VState (OTree K V) × Res K V
  | .set k v =>
    match s.working with
    | none => ({ s with working := some (.leaf k v none) }, .bool false)
    | some t => let (t', upd) := t.set k v; ({ s with working := some t' }, .bool upd)
  | .remove k =>
    match s.working with
    | none => (s, .removed none false)
    | some t =>
      match t.remove k with
      | none => (s, .removed none false)
      | some ⟨t', _, v⟩ => ({ s with working := t' }, .removed (some v) true)
  | .save =>
    let ver := s.workingVersion
    let s' := { s with ivPending := none }
    match findVer s.versions ver with
    | some _ => (s', .existing)
    | none =>
      if latestVer s.versions < ver then
        let c := s.working.map (commitVer ver)
        ({ s' with versions := s.versions ++ [(ver, c)], working := c, lastSaved := c, base := ver }, .version ver)
      else (s', .err)
  | .rollback => ({ s with working := if s.base = 0 then none else s.lastSaved }, .unit)
  | .load target =>
    match s.load none target with
    | none => (s, .err)
    | some (s', lat) => (s', .version lat)
  | .loadow target =>
    match s.load none target with
    | none => (s, .err)
    | some (s', _) => ({ s' with versions := s'.versions.filter (fun p => p.1 ≤ s'.base) }, .unit)
  | .prune n =>
    if latestVer s.versions ≤ n then (s, .err)
    else ({ s with versions := s.versions.filter (fun p => n < p.1) }, .unit)
  | .get k => (s, .optVal (s.working.bind (fun t => (t.get k).2)))
  | .has k => (s, .bool (match s.working with | none => false | some t => t.has k))
  | .size => (s, .nat (match s.working with | none => 0 | some t => t.size))
  | .getWithIndex k => (s, match s.working with | none => .idxVal 0 none | some t => .idxVal (t.get k).1 (t.get k).2)
  | .getByIndex i => (s, .kv (s.working.bind (fun t => t.getByIndex i)))
  | .range st en asc incl => (s, .list (match s.working with | none => [] | some t => t.walk st en asc incl))
  | .getVersioned k ver =>
    (s, .optVal ((findVer s.versions ver).bind (fun ot => ot.bind (fun t => (t.get k).2))))
  | .versionExists ver => (s, .bool (findVer s.versions ver).isSome)
  | .available => (s, .versions (s.versions.map (·.1)))
  | .latest => (s, .nat (latestVer s.versions))

def runMap (s : VState (SMap K V)) : List (Op K V) → List (Res K V)
  | [] => []
  | op :: ops => let (s', r) := VMap.step s op; r :: runMap s' ops
def runTree (s : VState (OTree K V)) : List (Op K V) → List (Res K V)
  | [] => []
  | op :: ops => let (s', r) := VTree.step s op; r :: runTree s' ops
end Iavl
