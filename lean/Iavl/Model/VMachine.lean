import Iavl.Lemmas.Set
/- Spike for C01/C09/C14: the versioned-map specification (L0), the version machine over pure trees
   (L1.5), and the refinement between them for every finite operation history. -/
namespace Iavl
open Std
set_option linter.unusedSectionVars false

/-- read operations, applicable to the working state and to every retained version -/
inductive ReadOp (K : Type) where
  | get (k : K) | has (k : K) | size | getWithIndex (k : K) | getByIndex (i : Nat)
  | range (s e : Option K) (asc incl : Bool)

inductive Op (K V : Type) where
  | set (k : K) (v : V) | remove (k : K)
  /-- `SaveVersion`; `same` is the outcome of the root-hash comparison made when the version
      number already exists (ignored otherwise) -/
  | save (same : Bool)
  | rollback
  | load (target : Nat) | loadow (target : Nat) | prune (n : Nat) | delfrom (n : Nat)
  /-- close, construct a new `MutableTree` on the same database with the given InitialVersion
      option (`none` = option not given) and `LoadVersion(target)` -/
  | reopen (iv : Option Nat) (target : Nat)
  | read (r : ReadOp K)                 -- on the working tree
  | immRead (ver : Nat) (r : ReadOp K)  -- on `GetImmutable(ver)`
  | getVersioned (k : K) (ver : Nat) | versionExists (ver : Nat) | available | latest

inductive Res (K V : Type) where
  | unit | err
  | bool (b : Bool) | nat (n : Nat) | version (n : Nat)
  | optVal (v : Option V) | removed (v : Option V) (b : Bool)
  | idxVal (i : Nat) (v : Option V) | kv (p : Option (K × V)) | list (l : List (K × V))
  | versions (l : List Nat)

variable {K V : Type} [Ord K] [BEq K] [TransOrd K] [LawfulEqOrd K]

/-! ### generic version bookkeeping, shared by both machines (parametrised by the content type) -/
section generic
variable {C : Type}

def findVer (vs : List (Nat × C)) (n : Nat) : Option C := (vs.find? (fun p => p.1 == n)).map (·.2)
def latestVer (vs : List (Nat × C)) : Nat := (vs.getLast?.map (·.1)).getD 0
def firstVer (vs : List (Nat × C)) : Nat := (vs.head?.map (·.1)).getD 0

structure VState (C : Type) where
  versions : List (Nat × C)     -- ascending
  working : C
  lastSaved : C
  base : Nat                    -- tree.version
  ivOpt : Nat                   -- opts.InitialVersion (0 when the option was not given)
  ivSet : Bool                  -- tree.initialVersionSet

/-- `WorkingVersion()` -/
def VState.workingVersion (s : VState C) : Nat :=
  if s.base + 1 = 1 ∧ s.ivSet then s.ivOpt else s.base + 1

/-- `LoadVersion(target)`; `none` = error, `some (state, latest)` -/
def VState.load (s : VState C) (target : Nat) : Option (VState C × Nat) :=
  match s.versions with
  | [] => if target = 0 then some (s, 0) else none
  | _ =>
    if 0 < firstVer s.versions ∧ firstVer s.versions < s.ivOpt then none else
    let lat := latestVer s.versions
    if lat < target then none
    else
      let t := if target = 0 then lat else target
      match findVer s.versions t with
      | none => none
      | some c => some ({ s with working := c, lastSaved := c, base := t }, lat)

/-- the version bookkeeping of every operation, given the three content-level functions -/
structure Content (K V C : Type) where
  empty : C
  set : C → K → V → C × Bool
  remove : C → K → Option (C × V)
  commit : Nat → C → C
  read : C → ReadOp K → Res K V
  getV : C → K → Option V

/-- the state of a freshly constructed `MutableTree` on the same database -/
def VState.fresh (ct : Content K V C) (s : VState C) (iv : Option Nat) : VState C :=
  { versions := s.versions, working := ct.empty, lastSaved := ct.empty, base := 0,
    ivOpt := iv.getD 0, ivSet := iv.isSome }

def VState.step (ct : Content K V C) (s : VState C) : Op K V → VState C × Res K V
  | .set k v => ({ s with working := (ct.set s.working k v).1 }, .bool (ct.set s.working k v).2)
  | .remove k =>
    match ct.remove s.working k with
    | none => (s, .removed none false)
    | some (c, v) => ({ s with working := c }, .removed (some v) true)
  | .save same =>
    let ver := s.workingVersion
    let s' := { s with ivSet := false }
    match findVer s.versions ver with
    | some c => if same then ({ s' with working := c, lastSaved := c, base := ver }, .version ver) else (s, .err)
    | none =>
      if latestVer s.versions < ver then
        let c := ct.commit ver s.working
        ({ s' with versions := s.versions ++ [(ver, c)], working := c, lastSaved := c, base := ver }, .version ver)
      else (s, .err)   -- a commit that does not take place leaves the pending initial version pending
  | .rollback => ({ s with working := if s.base = 0 then ct.empty else s.lastSaved }, .unit)
  | .load target =>
    match s.load target with
    | none => (s, .err)
    | some (s', lat) => (s', .version lat)
  | .loadow target =>
    match s.load target with
    | none => (s, .err)
    | some (s', _) => ({ s' with versions := s'.versions.filter (fun p => p.1 ≤ s'.base) }, .unit)
  | .prune n =>
    if latestVer s.versions ≤ n then (s, .err)
    else ({ s with versions := s.versions.filter (fun p => n < p.1) }, .unit)
  | .delfrom n => ({ s with versions := s.versions.filter (fun p => p.1 < n) }, .unit)
  | .reopen iv target =>
    match (s.fresh ct iv).load target with
    | none => (s.fresh ct iv, .err)
    | some (s', lat) => (s', .version lat)
  | .read r => (s, ct.read s.working r)
  | .immRead ver r =>
    match findVer s.versions ver with
    | none => (s, .err)
    | some c => (s, ct.read c r)
  | .getVersioned k ver => (s, .optVal ((findVer s.versions ver).bind (fun c => ct.getV c k)))
  | .versionExists ver => (s, .bool (findVer s.versions ver).isSome)
  | .available => (s, .versions (s.versions.map (·.1)))
  | .latest => (s, .nat (latestVer s.versions))
end generic

/-! ### L0: versioned map -/
abbrev SMap (K V : Type) := List (K × V)

def readMap (m : SMap K V) : ReadOp K → Res K V
  | .get k => .optVal (lookup k m)
  | .has k => .bool (lookup k m).isSome
  | .size => .nat m.length
  | .getWithIndex k => .idxVal (rank k m) (lookup k m)
  | .getByIndex i => .kv m[i]?
  | .range st en asc incl => .list (rangeSpec m st en asc incl)

def mapContent : Content K V (SMap K V) where
  empty := []
  set m k v := (insertSorted k v m, (lookup k m).isSome)
  remove m k := (lookup k m).map (fun v => (eraseSorted k m, v))
  commit _ m := m
  read := readMap
  getV m k := lookup k m

def VMap.step (s : VState (SMap K V)) (op : Op K V) : VState (SMap K V) × Res K V := s.step mapContent op

/-! ### L1.5: the same machine over trees -/
abbrev OTree (K V : Type) := Option (Node K V)

def contents : OTree K V → SMap K V
  | none => []
  | some t => t.toList

/-- `saveNewNodes`: every unsaved node gets the committed version; saved subtrees are left alone -/
def commitVer (ver : Nat) : Node K V → Node K V
  | .leaf k v none => .leaf k v (some ver)
  | .leaf k v (some x) => .leaf k v (some x)
  | .inner k h sz none l r => .inner k h sz (some ver) (commitVer ver l) (commitVer ver r)
  | .inner k h sz (some x) l r => .inner k h sz (some x) l r

def readTree (c : OTree K V) : ReadOp K → Res K V
  | .get k => .optVal (c.bind (fun t => (t.get k).2))
  | .has k => .bool (match c with | none => false | some t => t.has k)
  | .size => .nat (match c with | none => 0 | some t => t.size)
  | .getWithIndex k => (match c with | none => .idxVal 0 none | some t => .idxVal (t.get k).1 (t.get k).2)
  | .getByIndex i => .kv (c.bind (fun t => t.getByIndex i))
  | .range st en asc incl => .list (match c with | none => [] | some t => t.walk st en asc incl)

def treeContent : Content K V (OTree K V) where
  empty := none
  set c k v := match c with
    | none => (some (.leaf k v none), false)
    | some t => let (t', upd) := t.set k v; (some t', upd)
  remove c k := match c with
    | none => none
    | some t => (t.remove k).map (fun r => (r.node, r.value))
  commit ver c := c.map (commitVer ver)
  read := readTree
  getV c k := c.bind (fun t => (t.get k).2)

def VTree.step (s : VState (OTree K V)) (op : Op K V) : VState (OTree K V) × Res K V := s.step treeContent op

def runMap (s : VState (SMap K V)) : List (Op K V) → List (Res K V)
  | [] => []
  | op :: ops => let (s', r) := VMap.step s op; r :: runMap s' ops
def runTree (s : VState (OTree K V)) : List (Op K V) → List (Res K V)
  | [] => []
  | op :: ops => let (s', r) := VTree.step s op; r :: runTree s' ops
end Iavl
