import Iavl.Model.TakeVarint
/- Spike for C10: the byte-level delta codec of compress.go. -/
namespace Iavl

/-- `diffOffset`: length of the common prefix -/
def diffOffset : Bytes → Bytes → Nat
  | a :: as, b :: bs => if a = b then diffOffset as bs + 1 else 0
  | _, _ => 0

def deltaEncode (key : Bytes) (last : Bytes) : Bytes :=
  let shared := diffOffset last key
  uvarint shared ++ key.drop shared

inductive DecRes where
  | ok (key : Bytes)
  | err            -- "uvarint parse failed"
  | panic          -- slice bounds out of range (unreachable since the K4 repair added the bounds check)
  deriving DecidableEq, Repr

def deltaDecode (enc : Bytes) (last : Bytes) : DecRes :=
  match takeUvarint enc with
  | none => .err
  | some (shared, rest) =>
    if shared = 0 then .ok rest
    else if shared > last.length then .err     -- bounds check added by the K4 repair
    else .ok (last.take shared ++ rest)

theorem diffOffset_le_left (a b : Bytes) : diffOffset a b ≤ a.length := by
  induction a generalizing b with
  | nil => simp [diffOffset]
  | cons x xs ih =>
    cases b with
    | nil => simp [diffOffset]
    | cons y ys =>
      simp only [diffOffset]
      split
      · simp only [List.length_cons]; have := ih ys; omega
      · omega

theorem take_diffOffset (a b : Bytes) : a.take (diffOffset a b) = b.take (diffOffset a b) := by
  induction a generalizing b with
  | nil => simp [diffOffset]
  | cons x xs ih =>
    cases b with
    | nil => simp [diffOffset]
    | cons y ys =>
      simp only [diffOffset]
      split
      · rename_i h; subst h; simp [ih ys]
      · simp

theorem delta_roundtrip (key last : Bytes) (hlen : last.length < 2 ^ 64) :
    deltaDecode (deltaEncode key last) last = .ok key := by
  unfold deltaDecode deltaEncode
  have hs : diffOffset last key < 2 ^ 64 := Nat.lt_of_le_of_lt (diffOffset_le_left last key) hlen
  simp only [takeUvarint_put _ hs]
  split
  · rename_i h0; simp [h0]
  · rename_i h0
    have hle := diffOffset_le_left last key
    simp only [show ¬ (diffOffset last key > last.length) by omega, if_false]
    rw [take_diffOffset, List.take_append_drop]

/-- a hostile delta (prefix longer than the previous key) is rejected, not sliced (K4 repair) -/
theorem delta_hostile_rejected : deltaDecode [5, 1] [] = .err := by decide

/-- the decoder never reaches the out-of-range slice -/
theorem deltaDecode_never_panics (enc last : Bytes) : deltaDecode enc last ≠ .panic := by
  unfold deltaDecode
  split
  · simp
  · split
    · simp
    · split <;> simp
end Iavl
