import Iavl.Model.ExportImport
/- Spike for C10: CompressExporter / CompressImporter round trip on an exported stream. -/
namespace Iavl
open Std
set_option linter.unusedSectionVars false

variable {K V : Type}

/-- compressed node: leaf keys delta-encoded (type `K'`), inner keys dropped, inner versions as
    (possibly negative) delta against the max of the children's versions -/
structure CNode (K' V : Type) where
  key : Option K'
  value : Option V
  version : Int
  height : Nat

structure CExp (K : Type) where
  lastKey : Option K
  versionStack : List Int          -- top = head

structure CImp (K : Type) where
  lastKey : Option K
  minKeyStack : List K
  versionStack : List Int

variable {K' : Type} (enc : K → Option K → K') (dec : K' → Option K → K)

/-- `CompressExporter.Next` applied to one node (stack underflow = Go panic, modelled as `none`) -/
def cexpStep (s : CExp K) (n : ExportNode K V) : Option (CExp K × CNode K' V) :=
  if n.height = 0 then
    some ({ lastKey := some n.key, versionStack := (n.version : Int) :: s.versionStack },
          ⟨some (enc n.key s.lastKey), n.value, n.version, 0⟩)
  else
    match s.versionStack with
    | a :: b :: rest =>
      let m := max a b
      some ({ s with versionStack := (n.version : Int) :: rest }, ⟨none, n.value, (n.version : Int) - m, n.height⟩)
    | _ => none

/-- `CompressImporter.Add` applied to one node, yielding the plain node handed to the importer -/
def cimpStep (s : CImp K) (c : CNode K' V) : Option (CImp K × ExportNode K V) :=
  if c.height = 0 then
    match c.key with
    | none => none
    | some ek =>
      let k := dec ek s.lastKey
      some ({ lastKey := some k, minKeyStack := k :: s.minKeyStack, versionStack := c.version :: s.versionStack },
            ⟨k, c.value, c.version.toNat, 0⟩)
  else
    match s.minKeyStack, s.versionStack with
    | mk :: mrest, a :: b :: vrest =>
      let ver := c.version + max a b
      some ({ s with minKeyStack := mrest, versionStack := ver :: vrest }, ⟨mk, c.value, ver.toNat, c.height⟩)
    | _, _ => none

def cexpAll (s : CExp K) : List (ExportNode K V) → Option (CExp K × List (CNode K' V))
  | [] => some (s, [])
  | n :: ns =>
    match cexpStep enc s n with
    | none => none
    | some (s', c) =>
      match cexpAll s' ns with
      | none => none
      | some (s'', cs) => some (s'', c :: cs)

def cimpAll (s : CImp K) : List (CNode K' V) → Option (CImp K × List (ExportNode K V))
  | [] => some (s, [])
  | c :: cs =>
    match cimpStep dec s c with
    | none => none
    | some (s', n) =>
      match cimpAll s' cs with
      | none => none
      | some (s'', ns) => some (s'', n :: ns)

theorem cexpAll_append (s : CExp K) (xs ys : List (ExportNode K V)) :
    cexpAll enc s (xs ++ ys) =
      match cexpAll enc s xs with
      | none => none
      | some (s', cs) =>
        match cexpAll enc s' ys with
        | none => none
        | some (s'', cs') => some (s'', cs ++ cs') := by
  induction xs generalizing s with
  | nil => simp only [List.nil_append, cexpAll]; cases cexpAll enc s ys <;> simp
  | cons x xs ih =>
    simp only [List.cons_append, cexpAll]
    cases hx : cexpStep enc s x with
    | none => simp
    | some p =>
      obtain ⟨s', c⟩ := p
      simp only [ih s']
      cases cexpAll enc s' xs with
      | none => simp
      | some q =>
        obtain ⟨s'', cs⟩ := q
        simp only
        cases cexpAll enc s'' ys with
        | none => simp
        | some r => simp

theorem cimpAll_append (s : CImp K) (xs ys : List (CNode K' V)) :
    cimpAll dec s (xs ++ ys) =
      match cimpAll dec s xs with
      | none => none
      | some (s', ns) =>
        match cimpAll dec s' ys with
        | none => none
        | some (s'', ns') => some (s'', ns ++ ns') := by
  induction xs generalizing s with
  | nil => simp only [List.nil_append, cimpAll]; cases cimpAll dec s ys <;> simp
  | cons x xs ih =>
    simp only [List.cons_append, cimpAll]
    cases hx : cimpStep dec s x with
    | none => simp
    | some p =>
      obtain ⟨s', c⟩ := p
      simp only [ih s']
      cases cimpAll dec s' xs with
      | none => simp
      | some q =>
        obtain ⟨s'', cs⟩ := q
        simp only
        cases cimpAll dec s'' ys with
        | none => simp
        | some r => simp
end Iavl

namespace Iavl
open Std
set_option linter.unusedSectionVars false
variable {K V K' : Type} (enc : K → Option K → K') (dec : K' → Option K → K)

def Node.firstKey : Node K V → K
  | .leaf k _ _ => k
  | .inner _ _ _ _ l _ => l.firstKey
def Node.lastLeafKey : Node K V → K
  | .leaf k _ _ => k
  | .inner _ _ _ _ _ r => r.lastLeafKey
def Node.rootVer (d : Nat) : Node K V → Nat
  | .leaf _ _ ver => ver.getD d
  | .inner _ _ _ ver _ _ => ver.getD d

/-- routing key = leftmost key of the right subtree (the form the importer relies on) -/
def RoutingFirst : Node K V → Prop
  | .leaf .. => True
  | .inner k _ _ _ l r => RoutingFirst l ∧ RoutingFirst r ∧ k = r.firstKey

/-- inner nodes have positive height (any AVL tree) -/
def PosHeight : Node K V → Prop
  | .leaf .. => True
  | .inner _ h _ _ l r => h ≠ 0 ∧ PosHeight l ∧ PosHeight r

theorem compress_roundtrip (hcodec : ∀ k last, dec (enc k last) last = k)
    (d : Nat) (t : Node K V) (hr : RoutingFirst t) (hp : PosHeight t)
    (se : CExp K) (si : CImp K) (hlast : si.lastKey = se.lastKey) :
    ∃ cs, cexpAll enc se (exportNodes d t) =
            some ({ lastKey := some t.lastLeafKey, versionStack := (t.rootVer d : Int) :: se.versionStack }, cs) ∧
          cimpAll dec si cs =
            some ({ lastKey := some t.lastLeafKey, minKeyStack := t.firstKey :: si.minKeyStack,
                    versionStack := (t.rootVer d : Int) :: si.versionStack }, exportNodes d t) := by
  induction t generalizing se si with
  | leaf k v ver =>
    refine ⟨[⟨some (enc k se.lastKey), some v, (ver.getD d : Int), 0⟩], ?_, ?_⟩
    · simp [exportNodes, cexpAll, cexpStep, Node.lastLeafKey, Node.rootVer]
    · simp [exportNodes, cimpAll, cimpStep, Node.lastLeafKey, Node.rootVer, Node.firstKey, hlast, hcodec]
  | inner k h sz ver l r ihl ihr =>
    obtain ⟨hrl, hrr, hk⟩ := hr
    obtain ⟨hh, hpl, hpr⟩ := hp
    obtain ⟨cl, hel, hil⟩ := ihl hrl hpl se si hlast
    obtain ⟨cr, her, hir⟩ := ihr hrr hpr
      { lastKey := some l.lastLeafKey, versionStack := (l.rootVer d : Int) :: se.versionStack }
      { lastKey := some l.lastLeafKey, minKeyStack := l.firstKey :: si.minKeyStack,
        versionStack := (l.rootVer d : Int) :: si.versionStack } rfl
    let m : Int := max (r.rootVer d : Int) (l.rootVer d : Int)
    refine ⟨cl ++ cr ++ [⟨none, none, ((ver.getD d : Nat) : Int) - m, h⟩], ?_, ?_⟩
    · simp only [exportNodes]
      rw [cexpAll_append, cexpAll_append, hel]
      simp only [her]
      simp [cexpAll, cexpStep, hh, Node.lastLeafKey, Node.rootVer, m]
    · rw [cimpAll_append, cimpAll_append, hil]
      simp only [hir]
      simp only [cimpAll, cimpStep, hh, if_false]
      simp only [exportNodes, Node.lastLeafKey, Node.rootVer, Node.firstKey, m]
      have hv : ((ver.getD d : Nat) : Int) - max (r.rootVer d : Int) (l.rootVer d : Int) +
          max (r.rootVer d : Int) (l.rootVer d : Int) = (ver.getD d : Nat) := by omega
      simp [hv, hk]
end Iavl
