import Iavl.Lemmas.SortedMap
/-
  C07: the fast index with its uncommitted overlay, as `MutableTree` keeps it (mutable_tree.go):
  `unsavedFastNodeAdditions`, `unsavedFastNodeRemovals` and the persisted `f`-entries.
    Set    -> addUnsavedAddition : delete(removals, key); additions[key] = node
    Remove -> addUnsavedRemoval  : delete(additions, key); removals[key] = true   (only when the key existed)
    Get    -> additions, then removals (nil), then the persisted entry
    SaveVersion -> saveFastNodeAdditions (sorted), saveFastNodeRemovals, then both maps are cleared
    Rollback / LoadVersion -> both maps are cleared
-/
namespace Iavl
open Std
variable {K V : Type} [Ord K] [TransOrd K] [LawfulEqOrd K] [DecidableEq K]

structure FastSt (K V : Type) where
  index : List (K × V)      -- persisted entries, ascending
  adds  : List (K × V)      -- uncommitted additions, ascending
  rems  : List K            -- uncommitted removals

namespace FastSt
def set (fs : FastSt K V) (k : K) (v : V) : FastSt K V :=
  { fs with adds := insertSorted k v fs.adds, rems := fs.rems.filter (· ≠ k) }
def remove (fs : FastSt K V) (k : K) : FastSt K V :=
  { fs with adds := eraseSorted k fs.adds, rems := k :: fs.rems.filter (· ≠ k) }
/-- `MutableTree.Get` through the index -/
def get (fs : FastSt K V) (k : K) : Option V :=
  match lookup k fs.adds with
  | some v => some v
  | none => if k ∈ fs.rems then none else lookup k fs.index
/-- what the commit writes: every addition is set, every removal deleted -/
def save (fs : FastSt K V) : FastSt K V :=
  { index := fs.rems.foldl (fun m k => eraseSorted k m) (fs.adds.foldl (fun m p => insertSorted p.1 p.2 m) fs.index),
    adds := [], rems := [] }
def discard (fs : FastSt K V) : FastSt K V := { fs with adds := [], rems := [] }
end FastSt

end Iavl
