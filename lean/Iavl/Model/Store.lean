import Iavl.Model.Codec
import Iavl.Model.RootRecords
import Iavl.Model.VMachine
import Iavl.Model.Proof
import Iavl.Generated.Facts
/-
  C12 / C13 (direction "library writes, independent decoder reads"): an audit of a raw database
  image against the model state. The image is decoded with the model's own decoders (`decNode`,
  proved inverse to the encoder in `decNode_encNode`), every retained version's tree is rebuilt by
  following root markers and child links (with the `(v,1) → (v,0)` fall-back of `GetNode`/`GetRoot`),
  compared with the reference tree, and every stored node must have been reached.
-/
namespace Iavl
open Std

deriving instance BEq for Node

abbrev KVPairs := List (Bytes × Bytes)

def be (bs : Bytes) : Nat := bs.foldl (fun acc b => acc * 256 + b.toNat) 0

def nodePfx : UInt8 := UInt8.ofNat Facts.nodeKeyPrefix
def fastPfx : UInt8 := UInt8.ofNat Facts.fastKeyPrefix
def metaPfx : UInt8 := UInt8.ofNat Facts.metadataKeyPrefix

/-- physical node key `s<version:8><nonce:4>` -/
def physKey (ver nonce : Nat) : Bytes :=
  let b8 := (List.range 8).map (fun i => UInt8.ofNat (ver / 256 ^ (7 - i) % 256))
  let b4 := (List.range 4).map (fun i => UInt8.ofNat (nonce / 256 ^ (3 - i) % 256))
  nodePfx :: (b8 ++ b4)

def lookupKV (d : KVPairs) (k : Bytes) : Option Bytes := (d.find? (fun p => p.1 == k)).map (·.2)

/-- `GetNode` on the image: the key itself, else the re-keyed `(version, 0)` for nonce 1.
    Returns the physical key found and the raw value. -/
def fetchNode (d : KVPairs) (ver nonce : Nat) : Option (Bytes × Bytes) :=
  match lookupKV d (physKey ver nonce) with
  | some v => some (physKey ver nonce, v)
  | none =>
    if nonce = 1 then (lookupKV d (physKey ver 0)).map (fun v => (physKey ver 0, v)) else none

inductive Rebuilt where
  | ok (t : Node Bytes Bytes) (visited : List Bytes)
  | bad (why : String)

/-- rebuild the subtree stored at `(ver, nonce)`; `fuel` bounds the depth (an AVL tree of height h
    needs h+1) -/
def rebuild (H : Bytes → Bytes) (d : KVPairs) : Nat → Nat → Nat → Rebuilt
  | 0, _, _ => .bad "tree deeper than the fuel (cycle?)"
  | fuel + 1, ver, nonce =>
    match fetchNode d ver nonce with
    | none => .bad s!"node ({ver},{nonce}) is missing"
    | some (pk, raw) =>
      match decNode raw with
      | none => .bad s!"node ({ver},{nonce}) does not decode"
      | some (.leaf sz k v) =>
        if sz ≠ 1 then .bad s!"leaf ({ver},{nonce}) has size {sz}" else .ok (.leaf k v (some ver)) [pk]
      | some (.inner h sz k hash l r) =>
        match l, r with
        | .new lv ln, .new rv rn =>
          match rebuild H d fuel lv.toNat ln, rebuild H d fuel rv.toNat rn with
          | .ok lt lvis, .ok rt rvis =>
            let t : Node Bytes Bytes := .inner k h.toNat sz.toNat (some ver) lt rt
            if h < 1 then .bad s!"inner ({ver},{nonce}) has height {h}"
            else if hashNode H 0 t != hash then .bad s!"stored hash of ({ver},{nonce}) is not the hash of its subtree"
            else .ok t (pk :: (lvis ++ rvis))
          | .bad w, _ => .bad w
          | _, .bad w => .bad w
        | _, _ => .bad s!"inner ({ver},{nonce}) has a legacy child reference"

inductive RootRes where
  | missing
  | empty
  | node (ver nonce : Nat)
  | bad (why : String)

/-- `GetRoot(version)` on the image -/
def resolveRoot (d : KVPairs) (version : Nat) : RootRes :=
  match lookupKV d (physKey version 1) with
  | none => .missing
  | some [] => .empty
  | some val =>
    if val.head? == some nodePfx then
      if val.length == Facts.nodeKeyLength then
        let ver := be ((val.drop 1).take 8)
        let nonce := be (val.drop 9)
        match lookupKV d val with
        | some _ => .node ver nonce
        | none =>
          match lookupKV d (physKey ver 0) with
          | some _ => .node ver 0
          | none => .bad s!"reference root of version {version} points to a missing node"
      else if val.length == Facts.nodeKeyPrefixLength then .node (be (val.drop 1)) 1
      else .bad s!"invalid reference root of version {version}"
    else .node version 1

/-- the image read as a store of the root-record machine (Model/RootRecords.lean) -/
def rootsStore (d : KVPairs) : Roots.Store := fun k =>
  match lookupKV d (physKey k.1 k.2) with
  | none => none
  | some val =>
    if k.2 = 1 ∧ val = [] then some .empty
    else if val.head? == some nodePfx && val.length == Facts.nodeKeyLength then
      some (.ref (be ((val.drop 1).take 8), be (val.drop 9)))
    else if val.head? == some nodePfx && val.length == Facts.nodeKeyPrefixLength then some (.ref (be (val.drop 1), 1))
    else some (.node (k.1, if k.2 = 0 then 1 else k.2))

/-- the abstract `GetRoot` of the root-record machine and the byte-level one agree on this image -/
def rootsAgree (d : KVPairs) (v : Nat) : Bool :=
  match Roots.getRoot (rootsStore d) v, resolveRoot d v with
  | .notExist, .missing => true
  | .notExist, .bad _ => true
  | .emptyTree, .empty => true
  | .at k, .node ver nonce => k == (ver, nonce)
  | _, _ => false

def fastEntries (d : KVPairs) : Option (List (Bytes × Nat × Bytes)) :=
  (d.filter (fun p => p.1.head? == some fastPfx)).mapM fun p =>
    match takeVarint p.2 with
    | none => none
    | some (ver, rest) =>
      match takeBytes rest with
      | none => none
      | some (v, _) => some (p.1.drop 1, ver.toNat, v)

def labelOf (d : KVPairs) : Option String :=
  (lookupKV d (metaPfx :: Facts.storageVersionKey.toUTF8.toList)).map
    (fun b => String.fromUTF8! (ByteArray.mk b.toArray))

/-- the audit. `fastOpen` = the tree was opened with the fast index enabled in this session. -/
def auditDump (H : Bytes → Bytes) (vs : List (Nat × OTree Bytes Bytes)) (fastOpen : Bool) (d : KVPairs) : String :=
  let latest := latestVer vs
  -- 0. the root-record machine (C12 `root_records_right_in_every_history`) read on this image: its `GetRoot` agrees with
  --    the byte-level resolution below, and its `hasVersion` holds exactly for the retained versions
  match (List.range (latest + 2)).find? (fun v =>
      !rootsAgree d v || (Roots.hasVersion (rootsStore d) v != (findVer vs v).isSome)) with
  | some v => s!"the root-record machine disagrees with the store at version {v}"
  | none =>
  -- 1. every retained version decodes to the reference tree
  let step (acc : Except String (List Bytes)) (p : Nat × OTree Bytes Bytes) : Except String (List Bytes) :=
    match acc with
    | .error e => .error e
    | .ok visited =>
      let (v, ref) := p
      match resolveRoot d v, ref with
      | .missing, _ => .error s!"retained version {v} has no root marker"
      | .bad w, _ => .error w
      | .empty, none => .ok (physKey v 1 :: visited)
      | .empty, some _ => .error s!"version {v} is stored as empty but is not"
      | .node _ _, none => .error s!"version {v} is empty but a root node is stored"
      | .node rv rn, some t =>
        match rebuild H d 200 rv rn with
        | .bad w => .error s!"version {v}: {w}"
        | .ok t' vis =>
          if t' == t then .ok (physKey v 1 :: (vis ++ visited))
          else .error s!"version {v} decodes to a different tree than the reference"
  match vs.foldl step (.ok []) with
  | .error e => e
  | .ok visited =>
    -- 2. nothing else is stored under the node prefix
    let stray := d.filter (fun p => p.1.head? == some nodePfx && !visited.contains p.1)
    match stray.head? with
    | some p =>
      let ver := be ((p.1.drop 1).take 8)
      let nonce := be (p.1.drop 9)
      s!"stored node ({ver},{nonce}) is not reachable from any retained version"
    | none =>
      -- 3. unknown key spaces
      let other := d.filter (fun p => p.1.head? != some nodePfx && p.1.head? != some fastPfx && p.1.head? != some metaPfx)
      if !other.isEmpty then "unexpected key outside the node / index / metadata key spaces" else
      -- 4. the fast index describes exactly the latest version
      if !fastOpen then "ok" else
      match fastEntries d with
      | none => "a fast-index entry does not decode"
      | some fes =>
        let want : List (Bytes × Bytes) := contents ((findVer vs latest).getD none)
        let got := fes.map (fun e => (e.1, e.2.2))
        if got != want then "the persisted fast index differs from the latest version's pairs"
        else if fes.any (fun e => e.2.1 > latest) then "a fast-index entry is newer than the latest version"
        else
          let expect := Facts.fastStorageVersionValue ++ Facts.fastStorageVersionDelimiter ++ toString latest
          if labelOf d != some expect then s!"fast-index label is not {expect}" else "ok"
end Iavl

namespace Iavl
open Std
/-! ### the independent encoder (C13, direction "model writes, library reads") -/

/-- assign node keys in pre-order: the root gets `(v,1)` if it was written at `v`, else `(u,0)` (the
    place of a re-keyed root); every other node of version `u` gets the next nonce ≥ 2 of `u`.
    Returns the records and the counters. -/
def encodeNodes (H : Bytes → Bytes) (isRoot : Bool) (v : Nat) :
    Node Bytes Bytes → List (Nat × Nat) → (Nat × Nat) × KVPairs × List (Nat × Nat)
  | .leaf k val ver, ctr =>
    let u := ver.getD v
    let (nonce, ctr') : Nat × List (Nat × Nat) :=
      if isRoot then ((if u = v then 1 else 0), ctr)
      else
        let n := ((ctr.find? (·.1 == u)).map (·.2)).getD 2
        (n, (u, n + 1) :: ctr.filter (·.1 != u))
    ((u, nonce), [(physKey u nonce, encNode (.leaf 1 k val))], ctr')
  | .inner k h sz ver l r, ctr =>
    let u := ver.getD v
    let (nonce, ctr1) : Nat × List (Nat × Nat) :=
      if isRoot then ((if u = v then 1 else 0), ctr)
      else
        let n := ((ctr.find? (·.1 == u)).map (·.2)).getD 2
        (n, (u, n + 1) :: ctr.filter (·.1 != u))
    let ((lv, ln), lrecs, ctr2) := encodeNodes H false v l ctr1
    let ((rv, rn), rrecs, ctr3) := encodeNodes H false v r ctr2
    let hash := hashNode H v (.inner k h sz ver l r)
    ((u, nonce), (physKey u nonce, encNode (.inner h sz k hash (.new lv ln) (.new rv rn))) :: (lrecs ++ rrecs), ctr3)

/-- a database image holding exactly version `v` with tree `t` -/
def encodeVersion (H : Bytes → Bytes) (v : Nat) : OTree Bytes Bytes → KVPairs
  | none => [(physKey v 1, [])]
  | some t =>
    let ((u, nonce), recs, _) := encodeNodes H true v t []
    if u = v then recs else (physKey v 1, physKey u nonce) :: recs

/-- the version the root of a tree was written at -/
def rootVersion (v : Nat) : Node Bytes Bytes → Nat
  | .leaf _ _ ver => ver.getD v
  | .inner _ _ _ ver _ _ => ver.getD v

/-- an image holding versions `v-1` and `v`, where `v` is a commit without changes recorded in the short
    form `s<version>` of the reference root (the record written before lazy pruning, still accepted by the
    format: it names the root `(version, 1)`). `none` when the tree of `v` was not inherited from `v-1`. -/
def encodeVersionShort (H : Bytes → Bytes) (v : Nat) : OTree Bytes Bytes → Option KVPairs
  | none => none
  | some t =>
    let u := rootVersion v t
    if u + 1 = v then
      let (_, recs, _) := encodeNodes H true u t []
      some ((physKey v 1, (physKey u 1).take 9) :: recs)
    else none
end Iavl
