import Iavl.Model.Compress
import Iavl.Model.Delta
/-
  C10: the importer as a total state machine over arbitrary (hostile) node streams, with every
  outcome of the Go code explicit: `ok`, `err` (an error is returned) and `panic` (the Go code would
  index out of range). `Importer.Add` / `writeNode` / `validate` / `Commit` of import.go and
  `CompressImporter.Add` / `deltaDecode` of compress.go.
-/
namespace Iavl
open Std

/-- an `ExportNode` as the wire gives it: everything optional / signed -/
structure RawNode where
  key : Option Bytes
  value : Option Bytes
  version : Int
  height : Int
  deriving Repr, DecidableEq

/-- an entry of the importer's stack: the subtree built so far, its claimed height, and whether
    `validate` will reject it when it is written -/
structure ImpEntry where
  tree : Node Bytes Bytes
  height : Int
  size : Nat
  bad : Bool

inductive ImpOut (σ : Type) where
  | ok (s : σ)
  | err
  | panic
  deriving Repr

def dummyLeaf : Node Bytes Bytes := .leaf [] [] none

/-- `Importer.Add` (with the negative-version check of the K4 repair) -/
def impAdd (importVer : Int) (stack : List ImpEntry) (en : Option RawNode) : ImpOut (List ImpEntry) :=
  match en with
  | none => .err
  | some en =>
    if en.version > importVer then .err
    else if en.version < 0 then .err
    else
      let ver := en.version.toNat
      if en.height = 0 then
        let bad := en.key.isNone || en.value.isNone || ver == 0
        .ok (⟨.leaf (en.key.getD []) (en.value.getD []) (some ver), 0, 1, bad⟩ :: stack)
      else
        match stack with
        | r :: l :: rest =>
          if r.height < en.height ∧ l.height < en.height then
            if l.bad then .err
            else if r.bad then .err
            else
              let sz := l.size + r.size
              let bad := en.key.isNone || ver == 0 || en.height < 0 || sz < 1 || en.value.isSome
              .ok (⟨.inner (en.key.getD []) en.height.toNat sz (some ver) l.tree r.tree, en.height, sz, bad⟩ :: rest)
          else .ok (⟨dummyLeaf, en.height, 0, true⟩ :: stack)
        | _ => .ok (⟨dummyLeaf, en.height, 0, true⟩ :: stack)

/-- `Importer.Commit`: the committed tree (`none` = empty tree) -/
def impCommit (stack : List ImpEntry) : ImpOut (Option (Node Bytes Bytes)) :=
  match stack with
  | [] => .ok none
  | [e] => if e.bad then .err else .ok (some e.tree)
  | _ => .err

def impAll (importVer : Int) : List ImpEntry → List (Option RawNode) → Nat → ImpOut (List ImpEntry) × Nat
  | st, [], i => (.ok st, i)
  | st, n :: ns, i =>
    match impAdd importVer st n with
    | .ok st' => impAll importVer st' ns (i + 1)
    | .err => (.err, i)
    | .panic => (.panic, i)

/-- totality on hostile input: no stream makes `Add` panic (C10; true of the repaired code) -/
theorem impAdd_never_panics (importVer : Int) (stack : List ImpEntry) (en : Option RawNode) :
    impAdd importVer stack en ≠ .panic := by
  intro h
  unfold impAdd at h
  repeat' (split at h)
  all_goals cases h

/-! ### the compressed stream -/

structure ZState where
  lastKey : Bytes
  minKeyStack : List Bytes
  versionStack : List Int

/-- `CompressImporter.Add`: decode one node (with the nil / stack-size / prefix-length checks of the
    K4 repair) -/
def zAdd (s : ZState) (en : Option RawNode) : ImpOut (ZState × RawNode) :=
  match en with
  | none => .err
  | some en =>
    if en.height = 0 then
      match en.key with
      | none => .err       -- Uvarint of an empty buffer: n <= 0
      | some ek =>
        match deltaDecode ek s.lastKey with
        | .err => .err
        | .panic => .panic
        | .ok k =>
          .ok ({ lastKey := k, minKeyStack := k :: s.minKeyStack, versionStack := en.version :: s.versionStack },
               { en with key := some k })
    else
      match s.minKeyStack, s.versionStack with
      | mk :: mrest, a :: b :: vrest =>
        let ver := en.version + max a b
        .ok ({ s with minKeyStack := mrest, versionStack := ver :: vrest }, { en with key := some mk, version := ver })
      | _, _ => .err       -- stack-size check added by the K4 repair

/-- the decompressor is total as well -/
theorem zAdd_never_panics (s : ZState) (en : Option RawNode) : zAdd s en ≠ .panic := by
  intro h
  unfold zAdd at h
  cases en with
  | none => cases h
  | some en =>
    simp only at h
    split at h
    · split at h
      · cases h
      · split at h
        · cases h
        · rename_i hp; exact deltaDecode_never_panics _ _ hp
        · cases h
    · split at h <;> cases h
end Iavl
