import Iavl.Model.Ics23
/-
  Proof generation as the library does it (proof_ics23.go): `GetMembershipProof`,
  `GetNonMembershipProof` (`GetWithIndex`, then `GetByIndex` of the two neighbours and one existence
  proof each), `GetProof`. Parametrised by the hash function; `Exec.lean` instantiates SHA-256.
-/
namespace Iavl
variable (H : Bytes → Bytes)

inductive ProofRes where
  | err
  | exist (p : ExistProof)
  | nonexist (key : Bytes) (l r : Option ExistProof)

def memProofG (working : Nat) (t : Node Bytes Bytes) (key : Bytes) : ProofRes :=
  let p := mkProof H working t key
  if p.key = key then .exist p else .err

def nonMemProofG (working : Nat) (t : Node Bytes Bytes) (key : Bytes) : ProofRes :=
  let (idx, val) := t.get key
  match val with
  | some _ => .err
  | none =>
    let l := if idx ≥ 1 then (t.getByIndex (idx - 1)).map (fun kv => mkProof H working t kv.1) else none
    let r := (t.getByIndex idx).map (fun kv => mkProof H working t kv.1)
    .nonexist key l r

def getProofG (working : Nat) (t : Node Bytes Bytes) (key : Bytes) : ProofRes :=
  if t.has key then memProofG H working t key else nonMemProofG H working t key

end Iavl
