import Iavl.Model.Tree
import Iavl.Model.PrefixBound
/-
  C18: the ordered key-value contract the bundled backends (MemDB, GoLevelDB, PrefixDB over either)
  must implement — a sorted association list with point operations, half-open range iteration in
  both directions, and write batches that apply atomically, in order, once.
-/
namespace Iavl
open Std

abbrev SMapB := List (Bytes × Bytes)

inductive KRes where
  | ok | err
  | val (v : Option Bytes)
  | bool (b : Bool)
  | list (l : List (Bytes × Bytes))
  deriving Repr, DecidableEq

inductive BOp where
  | set (k v : Bytes)
  | del (k : Bytes)
  deriving Repr, DecidableEq

structure KVState where
  m : SMapB                                  -- the visible map (inside the namespace for a prefixed view)
  outside : SMapB                            -- keys of the underlying store outside the namespace
  batches : List (String × Option (List BOp)) -- `none` = written or closed
  deriving Repr

def KVState.empty : KVState := ⟨[], [], []⟩

def applyOps (m : SMapB) : List BOp → SMapB
  | [] => m
  | .set k v :: ops => applyOps (insertSorted k v m) ops
  | .del k :: ops => applyOps (eraseSorted k m) ops

/-- keys `k` with `start ≤ k < end`, `none` = unbounded -/
def kvRange (m : SMapB) (s e : Option Bytes) (rev : Bool) : List (Bytes × Bytes) :=
  rangeSpec m s e (!rev) false

def emptyKey (k : Option Bytes) : Bool := match k with | none => true | some k => k.isEmpty
def emptyBound (k : Option Bytes) : Bool := match k with | none => false | some k => k.isEmpty

def findBatch (s : KVState) (id : String) : Option (Option (List BOp)) := (s.batches.find? (·.1 == id)).map (·.2)
def setBatch (s : KVState) (id : String) (b : Option (List BOp)) : KVState :=
  { s with batches := (id, b) :: s.batches.filter (·.1 != id) }

inductive KOp where
  | get (k : Option Bytes) | has (k : Option Bytes) | set (k v : Option Bytes) | del (k : Option Bytes)
  | iter (s e : Option Bytes) (rev : Bool)
  | bnew (id : String) | bset (id : String) (k v : Option Bytes) | bdel (id : String) (k : Option Bytes)
  | bwrite (id : String) | bclose (id : String)

def kvStep (s : KVState) : KOp → KVState × KRes
  | .get k => if emptyKey k then (s, .err) else (s, .val (lookup (k.getD []) s.m))
  | .has k => if emptyKey k then (s, .err) else (s, .bool (lookup (k.getD []) s.m).isSome)
  | .set k v =>
    if emptyKey k then (s, .err) else
    match v with
    | none => (s, .err)
    | some v => ({ s with m := insertSorted (k.getD []) v s.m }, .ok)
  | .del k => if emptyKey k then (s, .err) else ({ s with m := eraseSorted (k.getD []) s.m }, .ok)
  | .iter st en rev => if emptyBound st || emptyBound en then (s, .err) else (s, .list (kvRange s.m st en rev))
  | .bnew id => (setBatch s id (some []), .ok)
  | .bset id k v =>
    if emptyKey k then (s, .err) else
    match v, findBatch s id with
    | some v, some (some ops) => (setBatch s id (some (ops ++ [.set (k.getD []) v])), .ok)
    | _, _ => (s, .err)
  | .bdel id k =>
    if emptyKey k then (s, .err) else
    match findBatch s id with
    | some (some ops) => (setBatch s id (some (ops ++ [.del (k.getD [])])), .ok)
    | _ => (s, .err)
  | .bwrite id =>
    match findBatch s id with
    | some (some ops) => ({ (setBatch s id none) with m := applyOps s.m ops }, .ok)
    | _ => (s, .err)
  | .bclose id =>
    match findBatch s id with
    | some _ => (setBatch s id none, .ok)
    | none => (s, .err)

/-! ### contract lemmas -/

/-- an empty key or a nil value is never stored -/
theorem set_rejects_empty_key_nil_value (s : KVState) (k v : Option Bytes)
    (h : emptyKey k = true ∨ v = none) : kvStep s (.set k v) = (s, .err) := by
  unfold kvStep
  rcases h with h | h
  · simp [h]
  · subst h
    by_cases hk : emptyKey k = true <;> simp [hk]

/-- reads do not change the store -/
theorem reads_pure (s : KVState) (k st en : Option Bytes) (rev : Bool) :
    (kvStep s (.get k)).1 = s ∧ (kvStep s (.has k)).1 = s ∧ (kvStep s (.iter st en rev)).1 = s := by
  refine ⟨?_, ?_, ?_⟩
  · simp only [kvStep]; split <;> rfl
  · simp only [kvStep]; split <;> rfl
  · simp only [kvStep]; split <;> rfl
end Iavl
