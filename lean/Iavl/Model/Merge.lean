/- Spike for C07/C08: the two-cursor merge of `UnsavedFastIterator.Next` (persisted index entries
   vs sorted uncommitted additions, with uncommitted removals filtered out). -/
namespace Iavl
open Std

variable {K V : Type} (cmp : K → K → Ordering) [TransCmp cmp] [LawfulEqCmp cmp]

/-- `cmp` is `compare` for ascending iteration and the flipped comparison for descending; the
    disk cursor and the sorted additions are both ordered by it. `rem k` = key is in the
    uncommitted-removals map. -/
def mergeNext (rem : K → Bool) : List (K × V) → List (K × V) → List (K × V)
  | [], adds => adds
  | d :: disk, [] => if rem d.1 then mergeNext rem disk [] else d :: mergeNext rem disk []
  | d :: disk, a :: adds =>
    if rem d.1 then mergeNext rem disk (a :: adds)
    else
      match cmp d.1 a.1 with
      | .lt => d :: mergeNext rem disk (a :: adds)           -- disk entry is next
      | .eq => a :: mergeNext rem disk adds                   -- unsaved update prevails, skip the disk copy
      | .gt => a :: mergeNext rem (d :: disk) adds            -- unsaved entry is next
termination_by disk adds => disk.length + adds.length

def SortedBy (l : List (K × V)) : Prop := l.Pairwise (fun a b => cmp a.1 b.1 = .lt)

/-- membership characterisation of the merge -/
theorem mem_mergeNext (rem : K → Bool) (disk adds : List (K × V))
    (hd : SortedBy cmp disk) (ha : SortedBy cmp adds) (p : K × V) :
    p ∈ mergeNext cmp rem disk adds ↔
      p ∈ adds ∨ (p ∈ disk ∧ rem p.1 = false ∧ ∀ a ∈ adds, cmp p.1 a.1 ≠ .eq) := by
  induction disk, adds using mergeNext.induct cmp rem with
  | case1 adds => simp [mergeNext]
  | case2 d disk hr ih =>
    simp only [mergeNext, hr, if_true]
    rw [ih (List.Pairwise.of_cons hd) ha]
    constructor
    · rintro (h | ⟨h1, h2, h3⟩)
      · cases h
      · exact Or.inr ⟨List.mem_cons_of_mem _ h1, h2, h3⟩
    · rintro (h | ⟨h1, h2, h3⟩)
      · cases h
      · rcases List.mem_cons.mp h1 with h1 | h1
        · subst h1; rw [hr] at h2; cases h2
        · exact Or.inr ⟨h1, h2, h3⟩
  | case3 d disk hr ih =>
    simp only [mergeNext, hr, if_false, Bool.false_eq_true]
    simp only [List.mem_cons]
    rw [ih (List.Pairwise.of_cons hd) ha]
    constructor
    · rintro (h | h | ⟨h1, h2, h3⟩)
      · subst h; exact Or.inr ⟨Or.inl rfl, by simpa using hr, fun a ha => by cases ha⟩
      · cases h
      · exact Or.inr ⟨Or.inr h1, h2, h3⟩
    · rintro (h | ⟨h1 | h1, h2, h3⟩)
      · cases h
      · exact Or.inl h1
      · exact Or.inr (Or.inr ⟨h1, h2, h3⟩)
  | case4 d disk a adds hr ih =>
    simp only [mergeNext, hr, if_true]
    rw [ih (List.Pairwise.of_cons hd) ha]
    constructor
    · rintro (h | ⟨h1, h2, h3⟩)
      · exact Or.inl h
      · exact Or.inr ⟨List.mem_cons_of_mem _ h1, h2, h3⟩
    · rintro (h | ⟨h1, h2, h3⟩)
      · exact Or.inl h
      · rcases List.mem_cons.mp h1 with h1 | h1
        · subst h1; rw [hr] at h2; cases h2
        · exact Or.inr ⟨h1, h2, h3⟩
  | case5 d disk a adds hr hc ih =>
    -- disk key < add key: emit the disk entry
    have hr' : rem d.1 = false := by simpa using hr
    simp only [mergeNext, hr', Bool.false_eq_true, if_false, hc, List.mem_cons]
    rw [ih (List.Pairwise.of_cons hd) ha]
    have hdlt : ∀ x ∈ a :: adds, cmp d.1 x.1 = .lt := by
      intro x hx
      rcases List.mem_cons.mp hx with hx | hx
      · subst hx; exact hc
      · exact TransCmp.lt_trans hc ((List.pairwise_cons.mp ha).1 x hx)
    constructor
    · rintro (h | h | ⟨h1, h2, h3⟩)
      · subst h
        refine Or.inr ⟨Or.inl rfl, hr', ?_⟩
        intro x hx hcx; rw [hdlt x (by simpa using hx)] at hcx; cases hcx
      · exact Or.inl (by simpa using h)
      · exact Or.inr ⟨Or.inr h1, h2, fun x hx => h3 x (by simpa using hx)⟩
    · rintro (h | ⟨h1 | h1, h2, h3⟩)
      · exact Or.inr (Or.inl (by simpa using h))
      · exact Or.inl h1
      · exact Or.inr (Or.inr ⟨h1, h2, fun x hx => h3 x (by simpa using hx)⟩)
  | case6 d disk a adds hr hc ih =>
    -- equal keys: the addition replaces the disk entry
    have hr' : rem d.1 = false := by simpa using hr
    simp only [mergeNext, hr', Bool.false_eq_true, if_false, hc, List.mem_cons]
    rw [ih (List.Pairwise.of_cons hd) (List.Pairwise.of_cons ha)]
    have hda : d.1 = a.1 := LawfulEqCmp.eq_of_compare hc
    constructor
    · rintro (h | h | ⟨h1, h2, h3⟩)
      · exact Or.inl (Or.inl h)
      · exact Or.inl (Or.inr h)
      · refine Or.inr ⟨Or.inr h1, h2, ?_⟩
        intro x hx
        rcases hx with hx | hx
        · subst hx
          -- p ∈ disk, d < p, and d.1 = a.1
          have : cmp d.1 p.1 = .lt := (List.pairwise_cons.mp hd).1 p h1
          intro hcx
          rw [hda] at this
          have h4 : cmp x.1 p.1 = .eq := OrientedCmp.eq_symm hcx
          rw [h4] at this; cases this
        · exact h3 x hx
    · rintro (h | ⟨h1 | h1, h2, h3⟩)
      · rcases h with h | h
        · exact Or.inl h
        · exact Or.inr (Or.inl h)
      · subst h1
        exact absurd hc (h3 _ (Or.inl rfl))
      · exact Or.inr (Or.inr ⟨h1, h2, fun x hx => h3 x (Or.inr hx)⟩)
  | case7 d disk a adds hr hc ih =>
    -- disk key > add key: emit the addition, keep the disk cursor
    have hr' : rem d.1 = false := by simpa using hr
    simp only [mergeNext, hr', Bool.false_eq_true, if_false, hc, List.mem_cons]
    rw [ih hd (List.Pairwise.of_cons ha)]
    have hagt : ∀ x ∈ d :: disk, cmp a.1 x.1 = .lt := by
      intro x hx
      rcases List.mem_cons.mp hx with hx | hx
      · subst hx; exact OrientedCmp.lt_of_gt hc
      · exact TransCmp.lt_trans (OrientedCmp.lt_of_gt hc) ((List.pairwise_cons.mp hd).1 x hx)
    constructor
    · rintro (h | h | ⟨h1, h2, h3⟩)
      · exact Or.inl (Or.inl h)
      · exact Or.inl (Or.inr h)
      · refine Or.inr ⟨by simpa using h1, h2, ?_⟩
        intro x hx
        rcases hx with hx | hx
        · subst hx
          intro hcx
          have := hagt p (by simpa using h1)
          rw [OrientedCmp.eq_symm hcx] at this; cases this
        · exact h3 x hx
    · rintro (h | ⟨h1, h2, h3⟩)
      · rcases h with h | h
        · exact Or.inl h
        · exact Or.inr (Or.inl h)
      · exact Or.inr (Or.inr ⟨by simpa using h1, h2, fun x hx => h3 x (Or.inr hx)⟩)
end Iavl

namespace Iavl
open Std
variable {K V : Type} (cmp : K → K → Ordering) [TransCmp cmp] [LawfulEqCmp cmp]

/-- the merge yields strictly increasing keys (w.r.t. the iteration order): each key once -/
theorem sorted_mergeNext (rem : K → Bool) (disk adds : List (K × V))
    (hd : SortedBy cmp disk) (ha : SortedBy cmp adds) : SortedBy cmp (mergeNext cmp rem disk adds) := by
  induction disk, adds using mergeNext.induct cmp rem with
  | case1 adds => simpa [mergeNext] using ha
  | case2 d disk hr ih => simp only [mergeNext, hr, if_true]; exact ih (List.Pairwise.of_cons hd) ha
  | case3 d disk hr ih =>
    simp only [mergeNext, hr, if_false, Bool.false_eq_true]
    unfold SortedBy
    rw [List.pairwise_cons]
    refine ⟨?_, ih (List.Pairwise.of_cons hd) ha⟩
    intro q hq
    rw [mem_mergeNext cmp rem disk [] (List.Pairwise.of_cons hd) ha] at hq
    rcases hq with hq | ⟨hq, _⟩
    · cases hq
    · exact (List.pairwise_cons.mp hd).1 q hq
  | case4 d disk a adds hr ih => simp only [mergeNext, hr, if_true]; exact ih (List.Pairwise.of_cons hd) ha
  | case5 d disk a adds hr hc ih =>
    have hr' : rem d.1 = false := by simpa using hr
    simp only [mergeNext, hr', Bool.false_eq_true, if_false, hc]
    unfold SortedBy
    rw [List.pairwise_cons]
    refine ⟨?_, ih (List.Pairwise.of_cons hd) ha⟩
    intro q hq
    rw [mem_mergeNext cmp rem disk (a :: adds) (List.Pairwise.of_cons hd) ha] at hq
    rcases hq with hq | ⟨hq, _⟩
    · rcases List.mem_cons.mp hq with hq | hq
      · subst hq; exact hc
      · exact TransCmp.lt_trans hc ((List.pairwise_cons.mp ha).1 q hq)
    · exact (List.pairwise_cons.mp hd).1 q hq
  | case6 d disk a adds hr hc ih =>
    have hr' : rem d.1 = false := by simpa using hr
    simp only [mergeNext, hr', Bool.false_eq_true, if_false, hc]
    unfold SortedBy
    rw [List.pairwise_cons]
    refine ⟨?_, ih (List.Pairwise.of_cons hd) (List.Pairwise.of_cons ha)⟩
    intro q hq
    rw [mem_mergeNext cmp rem disk adds (List.Pairwise.of_cons hd) (List.Pairwise.of_cons ha)] at hq
    have hda : d.1 = a.1 := LawfulEqCmp.eq_of_compare hc
    rcases hq with hq | ⟨hq, _⟩
    · exact (List.pairwise_cons.mp ha).1 q hq
    · rw [← hda]; exact (List.pairwise_cons.mp hd).1 q hq
  | case7 d disk a adds hr hc ih =>
    have hr' : rem d.1 = false := by simpa using hr
    simp only [mergeNext, hr', Bool.false_eq_true, if_false, hc]
    unfold SortedBy
    rw [List.pairwise_cons]
    refine ⟨?_, ih hd (List.Pairwise.of_cons ha)⟩
    intro q hq
    rw [mem_mergeNext cmp rem (d :: disk) adds hd (List.Pairwise.of_cons ha)] at hq
    rcases hq with hq | ⟨hq, _⟩
    · exact (List.pairwise_cons.mp ha).1 q hq
    · rcases List.mem_cons.mp hq with hq | hq
      · subst hq; exact OrientedCmp.lt_of_gt hc
      · exact TransCmp.lt_trans (OrientedCmp.lt_of_gt hc) ((List.pairwise_cons.mp hd).1 q hq)
end Iavl
