/-
  C06 / C04, the export pin: `nodeDB.versionReaders` (a counter per version), `newExporter`
  (`incrVersionReaders`), `Exporter.Close` (decrement once: the exporter forgets its tree, so a second `Close`
  does nothing; `decrVersionReaders` never goes below zero) and the check of `deleteVersionsTo` / `DeleteVersionsFrom`
  (refused while a version in the range to delete has a reader).

  The steps are atomic here; that the check and the deletion of `deleteVersionsTo` are *not* one atomic step
  in the library is the known finding K9t.
-/
namespace Iavl.Pins

structure Exporter where
  version : Nat
  open_ : Bool          -- `e.tree != nil`

structure St where
  versions : List Nat                 -- retained versions
  readers : Nat → Nat                 -- `versionReaders`
  exporters : List Exporter           -- every exporter ever created, newest first

inductive Op where
  | export (v : Nat)                  -- `GetImmutable(v).Export()`
  | close (i : Nat)                   -- `Close()` of the i-th exporter (any number of times)
  | prune (n : Nat)                   -- `DeleteVersionsTo(n)`
  | rollback (n : Nat)                -- `DeleteVersionsFrom(n)`
  | commit (v : Nat)                  -- a new version

def decr (r : Nat → Nat) (v : Nat) : Nat → Nat := fun x => if x = v then r v - 1 else r x
def incr (r : Nat → Nat) (v : Nat) : Nat → Nat := fun x => if x = v then r v + 1 else r x

/-- the reader check of `deleteVersionsTo` -/
def pruneRefused (s : St) (n : Nat) : Bool := s.versions.any (fun v => decide (v ≤ n) && decide (s.readers v ≠ 0))
/-- the reader check of `DeleteVersionsFrom` -/
def rollbackRefused (s : St) (n : Nat) : Bool := s.versions.any (fun v => decide (n ≤ v) && decide (s.readers v ≠ 0))

def step (s : St) : Op → St
  | .export v =>
    if v ∈ s.versions then { s with readers := incr s.readers v, exporters := ⟨v, true⟩ :: s.exporters }
    else s
  | .close i =>
    match s.exporters[i]? with
    | none => s
    | some e =>
      if e.open_ then
        { s with readers := decr s.readers e.version, exporters := s.exporters.set i { e with open_ := false } }
      else s                            -- `e.tree == nil`: nothing happens
  | .prune n =>
    if pruneRefused s n then s
    else { s with versions := s.versions.filter (fun v => decide (n < v)) }
  | .rollback n =>
    if rollbackRefused s n then s
    else { s with versions := s.versions.filter (fun v => decide (v < n)) }
  | .commit v => if v ∈ s.versions then s else { s with versions := s.versions ++ [v] }

def init : St := { versions := [], readers := fun _ => 0, exporters := [] }

def run (s : St) : List Op → St
  | [] => s
  | op :: ops => run (step s op) ops

end Iavl.Pins
