/- Spike for C13: Go's binary.Uvarint / PutUvarint, total decoder, round trip. -/
namespace Iavl
abbrev Bytes' := List UInt8

/-- `binary.PutUvarint` -/
def putUvarint (n : Nat) : Bytes' :=
  if h : n < 128 then [n.toUInt8] else (n % 128 + 128).toUInt8 :: putUvarint (n / 128)
termination_by n
decreasing_by omega

inductive VarRes where
  | ok (val : Nat) (read : Nat)      -- value, bytes consumed (n > 0)
  | tooSmall                          -- Go returns (0, 0)
  | overflow (read : Nat)             -- Go returns (0, -(i+1))
  deriving Repr, DecidableEq

/-- `binary.Uvarint`: loop state `i` (index), `x` (accumulated value), `s` (shift) -/
def uvarintGo : Bytes' → Nat → Nat → Nat → VarRes
  | [], _, _, _ => .tooSmall
  | b :: rest, i, x, s =>
    if i = 10 then .overflow (i + 1)
    else if b.toNat < 128 then
      if i = 9 ∧ b.toNat > 1 then .overflow (i + 1) else .ok (x + b.toNat * 2 ^ s) (i + 1)
    else uvarintGo rest (i + 1) (x + (b.toNat % 128) * 2 ^ s) (s + 7)

def readUvarint (bz : Bytes') : VarRes := uvarintGo bz 0 0 0

theorem putUvarint_length_le (n : Nat) (k : Nat) (h : n < 2 ^ (7 * (k + 1))) : (putUvarint n).length ≤ k + 1 := by
  induction k generalizing n with
  | zero =>
    unfold putUvarint
    have : n < 128 := by simpa using h
    simp [this]
  | succ k ih =>
    unfold putUvarint
    split
    · simp
    · simp only [List.length_cons]
      have : n / 128 < 2 ^ (7 * (k + 1)) := by
        rw [Nat.div_lt_iff_lt_mul (by decide)]
        calc n < 2 ^ (7 * (k + 1 + 1)) := h
          _ = 2 ^ (7 * (k + 1)) * 128 := by rw [show 7 * (k + 1 + 1) = 7 * (k + 1) + 7 by omega, Nat.pow_add]
      have := ih (n / 128) this
      omega

/-- generalized round trip: decoding the encoding of `n` from loop state `(i, x, s)` -/
theorem uvarintGo_put (n : Nat) (rest : Bytes') (i x s : Nat)
    (hlen : i + (putUvarint n).length ≤ 10)
    (hlast : i + (putUvarint n).length = 10 → n < 2 ^ (7 * ((putUvarint n).length - 1) + 1)) :
    uvarintGo (putUvarint n ++ rest) i x s = .ok (x + n * 2 ^ s) (i + (putUvarint n).length) := by
  induction n using Nat.strongRecOn generalizing i x s with
  | _ n ih =>
    unfold putUvarint
    split
    · rename_i hn
      simp only [List.cons_append, List.nil_append, uvarintGo, List.length_cons, List.length_nil]
      have hi : i ≠ 10 := by
        intro h; rw [putUvarint] at hlen; simp [hn] at hlen; omega
      have htn : (n.toUInt8).toNat = n := by
        simp [Nat.toUInt8, UInt8.toNat_ofNat, Nat.mod_eq_of_lt (show n < 256 by omega)]
      simp only [hi, if_false, htn, hn, if_true]
      split
      · rename_i h9
        exfalso
        have h10 : i + (putUvarint n).length = 10 := by rw [putUvarint]; simp [hn]; omega
        have := hlast h10
        rw [putUvarint] at this; simp [hn] at this
        omega
      · rfl
    · rename_i hn
      have hn' : ¬ n < 128 := hn
      simp only [List.cons_append, uvarintGo, List.length_cons]
      have hlen' : i + ((putUvarint (n / 128)).length + 1) ≤ 10 := by
        rw [putUvarint] at hlen; simpa [hn'] using hlen
      have hi : i ≠ 10 := by omega
      have hb : ((n % 128 + 128).toUInt8).toNat = n % 128 + 128 := by
        simp [Nat.toUInt8, UInt8.toNat_ofNat, Nat.mod_eq_of_lt (show n % 128 + 128 < 256 by omega)]
      simp only [hi, if_false, hb, show ¬ (n % 128 + 128 < 128) by omega]
      have hlt : n / 128 < n := Nat.div_lt_self (by omega) (by decide)
      rw [ih (n / 128) hlt (i + 1) _ (s + 7) (by omega) ?_]
      · congr 1
        · have : (n % 128 + 128) % 128 = n % 128 := by omega
          rw [this, Nat.pow_add]
          have hdm := Nat.div_add_mod n 128
          calc x + n % 128 * 2 ^ s + n / 128 * (2 ^ s * 2 ^ 7)
              = x + (n % 128 + 128 * (n / 128)) * 2 ^ s := by
                rw [Nat.add_mul]; simp [Nat.mul_comm, Nat.mul_left_comm, Nat.add_assoc]
            _ = x + n * 2 ^ s := by rw [Nat.add_comm (n % 128), hdm]
        · omega
      · intro h10
        have h10' : i + (putUvarint n).length = 10 := by rw [putUvarint]; simp [hn']; omega
        have := hlast h10'
        rw [putUvarint] at this; simp [hn'] at this
        -- n < 2^(7*len(n/128)+1)  ⇒  n/128 < 2^(7*(len(n/128)-1)+1)
        have hpos : 0 < (putUvarint (n / 128)).length := by
          rw [putUvarint]; split <;> simp
        rw [Nat.div_lt_iff_lt_mul (by decide)]
        calc n < 2 ^ (7 * (putUvarint (n / 128)).length + 1) := this
          _ = 2 ^ (7 * ((putUvarint (n / 128)).length - 1) + 1) * 128 := by
            rw [show 7 * (putUvarint (n / 128)).length + 1 = (7 * ((putUvarint (n / 128)).length - 1) + 1) + 7 by omega, Nat.pow_add]

/-- round trip for every 64-bit value -/
theorem readUvarint_put (n : Nat) (hn : n < 2 ^ 64) (rest : Bytes') :
    readUvarint (putUvarint n ++ rest) = .ok n (putUvarint n).length := by
  have hl : (putUvarint n).length ≤ 10 := putUvarint_length_le n 9 (by
    calc n < 2 ^ 64 := hn
      _ ≤ 2 ^ (7 * (9 + 1)) := Nat.pow_le_pow_right (by decide) (by decide))
  have := uvarintGo_put n rest 0 0 0 (by omega) (by
    intro h10
    have : (putUvarint n).length = 10 := by omega
    rw [this]; simpa using hn)
  simpa [readUvarint] using this

#eval readUvarint (putUvarint 300 ++ [7])
#eval readUvarint [0x80, 0x80, 0x80, 0x80, 0x80, 0x80, 0x80, 0x80, 0x80, 0x02]
#eval readUvarint [0x80, 0x80]
end Iavl
