import Iavl.Lemmas.AvlSet
/- Spike for C10: export (post-order stream) and the importer's stack machine; round trip. -/
namespace Iavl
open Std
set_option linter.unusedSectionVars false
variable {K V : Type}

structure ExportNode (K V : Type) where
  key : K
  value : Option V        -- nil for inner nodes
  version : Nat
  height : Nat
  deriving Repr

/-- `Exporter.export`: `traversePost`, ascending -/
def exportNodes (dflt : Nat) : Node K V → List (ExportNode K V)
  | .leaf k v ver => [⟨k, some v, ver.getD dflt, 0⟩]
  | .inner k h _ ver l r => exportNodes dflt l ++ exportNodes dflt r ++ [⟨k, none, ver.getD dflt, h⟩]

/-- `Importer.Add` on the stack of partially built subtrees (top of stack = head).
    An inner node whose two predecessors are not both lower is pushed childless with size 0,
    exactly as the Go code does (it fails validation later). Leaves with a nil value likewise are
    represented with `none` and rejected at write time; here we only build the shape. -/
def importAdd (stack : List (Node K V)) (en : ExportNode K V) (dfltV : V) : List (Node K V) :=
  if en.height = 0 then
    .leaf en.key (en.value.getD dfltV) (some en.version) :: stack
  else
    match stack with
    | r :: l :: rest =>
      if r.height < en.height ∧ l.height < en.height then
        .inner en.key en.height (l.size + r.size) (some en.version) l r :: rest
      else
        .inner en.key en.height 0 (some en.version) l r :: stack   -- placeholder: childless in Go
    | _ => .inner en.key en.height 0 (some en.version) (.leaf en.key dfltV none) (.leaf en.key dfltV none) :: stack

def importAll (stack : List (Node K V)) (ens : List (ExportNode K V)) (dfltV : V) : List (Node K V) :=
  ens.foldl (fun st en => importAdd st en dfltV) stack

/-- every node persisted -/
def AllSaved : Node K V → Prop
  | .leaf _ _ ver => ver.isSome
  | .inner _ _ _ ver l r => ver.isSome ∧ AllSaved l ∧ AllSaved r

theorem import_export (t : Node K V) (dfltV : V) (dflt : Nat) (ha : AVL t) (hs : AllSaved t)
    (stack : List (Node K V)) (rest : List (ExportNode K V)) :
    importAll stack (exportNodes dflt t ++ rest) dfltV = importAll (t :: stack) rest dfltV := by
  induction t generalizing stack rest with
  | leaf k v ver =>
    simp only [AllSaved] at hs
    cases ver with
    | none => simp at hs
    | some vv =>
      simp [exportNodes, importAll, importAdd]
  | inner k h sz ver l r ihl ihr =>
    obtain ⟨hl, hr, hh, hsz, _, _⟩ := ha
    obtain ⟨hv, hsl, hsr⟩ := hs
    cases ver with
    | none => simp at hv
    | some vv =>
      simp only [exportNodes, List.append_assoc]
      rw [ihl hl hsl, ihr hr hsr]
      simp only [List.cons_append, List.nil_append, importAll, List.foldl_cons, importAdd, Option.getD_some]
      have hpos : h ≠ 0 := by omega
      simp only [hpos, if_false]
      have hlt : r.height < h ∧ l.height < h := by omega
      simp only [hlt, and_self, if_true, hsz]

/-- corollary: importing the export of a saved AVL tree into an empty importer leaves exactly that tree -/
theorem import_export_root (t : Node K V) (dfltV : V) (dflt : Nat) (ha : AVL t) (hs : AllSaved t) :
    importAll [] (exportNodes dflt t) dfltV = [t] := by
  have := import_export t dfltV dflt ha hs [] []
  simpa [importAll] using this
end Iavl
