import Iavl.Lemmas.Remove
/- Spike for C01/C11: lookup by key returns (rank, value); rank and lookup-by-rank are inverse;
   Fibonacci size bound. -/
namespace Iavl
open Std
set_option linter.unusedSectionVars false
variable {K V : Type} [Ord K] [BEq K] [TransOrd K] [LawfulEqOrd K]

@[simp] theorem size_leaf (k : K) (v : V) (ver) : (Node.leaf k v ver).size = 1 := rfl
@[simp] theorem size_inner (k : K) (h s ver) (l r : Node K V) : (Node.inner k h s ver l r).size = s := rfl
@[simp] theorem height_leaf (k : K) (v : V) (ver) : (Node.leaf k v ver).height = 0 := rfl
@[simp] theorem height_inner (k : K) (h s ver) (l r : Node K V) : (Node.inner k h s ver l r).height = h := rfl

/-- stored sizes are exact -/
def SizeOK : Node K V → Prop
  | .leaf .. => True
  | .inner _ _ sz _ l r => SizeOK l ∧ SizeOK r ∧ sz = l.size + r.size

theorem size_eq_length (t : Node K V) (h : SizeOK t) : t.size = t.toList.length := by
  induction t with
  | leaf => simp
  | inner k ht sz ver l r ihl ihr =>
    obtain ⟨hl, hr, hs⟩ := h
    simp [hs, ihl hl, ihr hr]

theorem rank_append (key : K) (A B : List (K × V)) : rank key (A ++ B) = rank key A + rank key B := by
  simp [rank, List.filter_append]

theorem rank_all_lt (key : K) (A : List (K × V)) (h : ∀ p ∈ A, compare p.1 key = .lt) : rank key A = A.length := by
  simp only [rank]
  rw [List.filter_eq_self.mpr]
  intro p hp; simp [h p hp]

theorem rank_all_ge (key : K) (B : List (K × V)) (h : ∀ p ∈ B, compare p.1 key ≠ .lt) : rank key B = 0 := by
  simp only [rank, List.length_eq_zero_iff, List.filter_eq_nil_iff]
  intro p hp; simp [h p hp]

theorem lookup_none_iff' (key : K) (m : List (K × V)) :
    lookup key m = none ↔ ∀ p ∈ m, compare key p.1 ≠ .eq := by
  induction m with
  | nil => simp [lookup]
  | cons a m ih =>
    obtain ⟨ak, av⟩ := a
    simp only [lookup]
    split
    · rename_i hc
      constructor
      · intro h; cases h
      · intro h; exact absurd hc (h (ak, av) (by simp))
    · rename_i hc
      rw [ih]
      constructor
      · intro h p hp
        rcases List.mem_cons.mp hp with h' | h'
        · subst h'; exact hc
        · exact h p h'
      · intro h p hp; exact h p (List.mem_cons_of_mem _ hp)

theorem get_eq (t : Node K V) (key : K) (ho : Ordered t) (hs : SizeOK t) :
    t.get key = (rank key t.toList, lookup key t.toList) := by
  induction t with
  | leaf k v ver =>
    simp only [Node.get, toList_leaf, rank, lookup, List.filter_cons, List.filter_nil]
    cases hc : compare k key with
    | lt =>
      have : compare key k ≠ .eq := by
        intro h; rw [OrientedCmp.eq_comm] at h; rw [h] at hc; cases hc
      simp [this]
    | gt =>
      have : compare key k ≠ .eq := by
        intro h; rw [OrientedCmp.eq_comm] at h; rw [h] at hc; cases hc
      simp [this]
    | eq =>
      have : compare key k = .eq := OrientedCmp.eq_symm hc
      simp [this]
  | inner k h sz ver l r ihl ihr =>
    obtain ⟨hol, hor, hl, hr⟩ := ho
    obtain ⟨hsl, hsr, hsz⟩ := hs
    simp only [Node.get, toList_inner]
    split
    · rename_i hlt
      rw [ihl hol hsl, rank_append]
      have hnr : ∀ p ∈ r.toList, compare key p.1 ≠ .eq := by
        intro p hp hc
        have := TransCmp.lt_of_lt_of_isLE hlt (hr p hp); rw [hc] at this; cases this
      have hr0 : rank key r.toList = 0 := by
        apply rank_all_ge
        intro p hp hc
        have h1 := TransCmp.lt_of_lt_of_isLE hlt (hr p hp)
        have h2 := OrientedCmp.gt_of_lt hc
        rw [h1] at h2; cases h2
      congr 1
      · omega
      · cases hll : lookup key l.toList with
        | some v => rw [lookup_append_left key _ _ hll]
        | none =>
          rw [lookup_append_right key _ _ ((lookup_none_iff' key _).mp hll),
              (lookup_none_iff' key _).mpr hnr]
    · rename_i hnlt
      have hge : (compare k key).isLE := by
        rw [← OrientedCmp.isGE_iff_isLE]
        cases hc : compare key k <;> simp_all [Ordering.isGE]
      have hlall : ∀ p ∈ l.toList, compare p.1 key = .lt := fun p hp => TransCmp.lt_of_lt_of_isLE (hl p hp) hge
      have hnl : ∀ p ∈ l.toList, compare key p.1 ≠ .eq := by
        intro p hp hc
        have h1 := hlall p hp
        rw [OrientedCmp.eq_comm] at hc; rw [hc] at h1; cases h1
      rw [ihr hor hsr, rank_append, rank_all_lt key _ hlall, lookup_append_right key _ _ hnl]
      congr 1
      rw [hsz, size_eq_length l hsl]
      omega

theorem getByIndex_eq (t : Node K V) (i : Nat) (hs : SizeOK t) : t.getByIndex i = t.toList[i]? := by
  induction t generalizing i with
  | leaf k v ver =>
    simp only [Node.getByIndex, toList_leaf]
    cases i <;> simp
  | inner k h sz ver l r ihl ihr =>
    obtain ⟨hsl, hsr, hsz⟩ := hs
    simp only [Node.getByIndex, toList_inner]
    have hlen := size_eq_length l hsl
    split
    · rename_i hlt
      rw [ihl i hsl, List.getElem?_append_left (by omega)]
    · rename_i hge
      rw [ihr _ hsr, List.getElem?_append_right (by omega), hlen]

/-- AVL ⇒ at least fib(h+2) leaves -/
theorem fib_le_size (t : Node K V) (h : AVL t) : fib (t.height + 2) ≤ t.size := by
  induction t with
  | leaf => simp [fib]
  | inner k ht sz ver l r ihl ihr =>
    obtain ⟨hl, hr, hh, hsz, h1, h2⟩ := h
    have il := ihl hl
    have ir := ihr hr
    simp only [height_inner, size_inner]
    subst hh hsz
    have fibmono : ∀ a b, a ≤ b → fib a ≤ fib b := by
      intro a b hab
      induction b with
      | zero => simp_all
      | succ b ih =>
        rcases Nat.lt_or_ge a (b + 1) with h | h
        · have := ih (by omega)
          cases b with
          | zero => simp_all [fib]
          | succ b => simp only [fib] at *; omega
        · have : a = b + 1 := by omega
          subst this; exact Nat.le_refl _
    -- fib (max hl hr + 3) = fib (max+1) + fib (max+2); one child has height max, the other ≥ max-1
    rcases Nat.le_total l.height r.height with hle | hle
    · rw [Nat.max_eq_right hle]
      have : fib (r.height + 1 + 2) = fib (r.height + 1) + fib (r.height + 2) := by simp [fib]
      rw [this]
      have : fib (r.height + 1) ≤ fib (l.height + 2) := fibmono _ _ (by omega)
      omega
    · rw [Nat.max_eq_left hle]
      have : fib (l.height + 1 + 2) = fib (l.height + 1) + fib (l.height + 2) := by simp [fib]
      rw [this]
      have : fib (l.height + 1) ≤ fib (r.height + 2) := fibmono _ _ (by omega)
      omega
end Iavl
