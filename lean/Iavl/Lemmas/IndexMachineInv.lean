import Iavl.Lemmas.IndexMachineV
/-
  C07, index machine: the invariant that makes every answer served through the index equal to the
  tree-walk answer, and its preservation by every step.
-/
namespace Iavl
open Std
set_option linter.unusedSectionVars false
variable {K V : Type} [Ord K] [TransOrd K] [LawfulEqOrd K] [DecidableEq K]

abbrev Vers (K V : Type) := List (Nat × SMap K V)

def latestCV (vers : Vers K V) : SMap K V := (findVer vers (latestVer vers)).getD []

/-- the persisted entries describe the latest version: an entry (v, st) says "the key has value v in every
    retained version from st on"; a missing entry says "the key is absent from the latest version" -/
def IdxOkP (vers : Vers K V) (index : IMap K V) : Prop :=
  ∀ k, match lookup k index with
    | some (v, st) => st ≤ latestVer vers ∧ ∀ w c, (w, c) ∈ vers → st ≤ w → lookup k c = some v
    | none => lookup k (latestCV vers) = none

structure XInv (vers : Vers K V) (label : Option Nat) (index : IMap K V) : Prop where
  si : SortedKV index
  ipos : ∀ k v st, lookup k index = some (v, st) → 1 ≤ st
  labelLe : ∀ v, label = some v → v ≤ latestVer vers
  idx : label = some (latestVer vers) → IdxOkP vers index

/-- facts about the version list used throughout -/
structure VersOk (vers : Vers K V) : Prop where
  asc : AscV vers
  pos : ∀ w c, (w, c) ∈ vers → 1 ≤ w
  sv : ∀ p ∈ vers, SortedKV p.2

theorem VInv.versOk {s : VState (SMap K V)} (h : VInv s) : VersOk s.versions :=
  ⟨h.asc, h.vpos, h.sv⟩

theorem asc_uniq {C : Type} (vs : List (Nat × C)) (ha : AscV vs) (n : Nat) (c c' : C)
    (h : (n, c) ∈ vs) (h' : (n, c') ∈ vs) : c = c' := by
  have a := asc_mem_findVer vs ha n c h
  have b := asc_mem_findVer vs ha n c' h'
  rw [a] at b; exact Option.some.inj b

theorem latestCV_mem (vers : Vers K V) (ho : VersOk vers) (hne : vers ≠ []) :
    (latestVer vers, latestCV vers) ∈ vers := by
  obtain ⟨p, hp, e⟩ := List.mem_map.mp (latest_mem vers hne)
  have hf := asc_mem_findVer vers ho.asc p.1 p.2 hp
  unfold latestCV
  rw [← e, hf]
  exact hp

theorem latestCV_sorted (vers : Vers K V) (ho : VersOk vers) : SortedKV (latestCV vers) := by
  by_cases hne : vers = []
  · subst hne; simp [latestCV, findVer, SortedKV]
  · exact ho.sv _ (latestCV_mem vers ho hne)

/-- the rebuilt index describes the latest version -/
theorem idxOk_stampAll (vers : Vers K V) (ho : VersOk vers) :
    IdxOkP vers (stampAll (latestCV vers) (latestVer vers)) := by
  intro k
  rw [lookup_stampAll]
  cases hl : lookup k (latestCV vers) with
  | none => simpa using hl
  | some v =>
    simp only [Option.map_some]
    refine ⟨Nat.le_refl _, ?_⟩
    intro w c hm hw
    have hne : vers ≠ [] := by intro e; subst e; cases hm
    have hle := asc_le_latest vers ho.asc (w, c) hm
    have hw' : w = latestVer vers := by simp only at hle; omega
    subst hw'
    have := asc_uniq vers ho.asc _ c (latestCV vers) hm (latestCV_mem vers ho hne)
    rw [this]; exact hl

theorem xinv_rebuilt (vers : Vers K V) (ho : VersOk vers) :
    XInv vers (some (latestVer vers)) (stampAll (latestCV vers) (latestVer vers)) where
  si := sorted_stampAll _ _ (latestCV_sorted vers ho)
  ipos := by
    intro k v st hl
    rw [lookup_stampAll] at hl
    cases hl' : lookup k (latestCV vers) with
    | none => simp [hl'] at hl
    | some v' =>
      simp only [hl', Option.map_some, Option.some.injEq, Prod.mk.injEq] at hl
      have hne : vers ≠ [] := by
        intro e; subst e; simp [latestCV, findVer, lookup] at hl'
      have := ho.pos _ _ (latestCV_mem vers ho hne)
      omega
  labelLe := by intro v hv; cases hv; exact Nat.le_refl _
  idx := fun _ => idxOk_stampAll vers ho

theorem xinv_unlabelled (vers : Vers K V) (index : IMap K V) (si : SortedKV index)
    (ipos : ∀ k v st, lookup k index = some (v, st) → 1 ≤ st) : XInv vers none index :=
  ⟨si, ipos, (fun v hv => by cases hv), (fun hv => by cases hv)⟩

theorem findVer_none_of_gt {C : Type} (vers : List (Nat × C)) (ha : AscV vers) (ver : Nat) (h : latestVer vers < ver) :
    findVer vers ver = none := by
  cases hf : findVer vers ver with
  | none => rfl
  | some c =>
    have := asc_le_latest vers ha (ver, c) (findVer_some_mem _ _ _ hf)
    simp only at this; omega

theorem latestVer_append {C : Type} (vers : List (Nat × C)) (ver : Nat) (c : C) :
    latestVer (vers ++ [(ver, c)]) = ver := by simp [latestVer]

theorem latestVer_prune (vers : Vers K V) (ho : VersOk vers) (n : Nat) (h : ¬ latestVer vers ≤ n) :
    latestVer (vers.filter (fun p => decide (n < p.1))) = latestVer vers := by
  have hne : vers ≠ [] := by intro e; subst e; simp [latestVer] at h
  have hm := latestCV_mem vers ho hne
  have hm' : (latestVer vers, latestCV vers) ∈ vers.filter (fun p => decide (n < p.1)) :=
    List.mem_filter.mpr ⟨hm, by simp; omega⟩
  have hasc' : AscV (vers.filter (fun p => decide (n < p.1))) := List.Pairwise.filter _ ho.asc
  have h1 := asc_le_latest _ hasc' _ hm'
  have hne' : vers.filter (fun p => decide (n < p.1)) ≠ [] := by intro e; rw [e] at hm'; cases hm'
  obtain ⟨p, hp, e⟩ := List.mem_map.mp (latest_mem _ hne')
  have h2 := asc_le_latest vers ho.asc p (List.mem_filter.mp hp).1
  simp only at h1
  omega

theorem xinv_prune (vers : Vers K V) (ho : VersOk vers) (label : Option Nat) (index : IMap K V)
    (h : XInv vers label index) (n : Nat) (hn : ¬ latestVer vers ≤ n) :
    XInv (vers.filter (fun p => decide (n < p.1))) label index := by
  have hl := latestVer_prune vers ho n hn
  refine ⟨h.si, h.ipos, by rw [hl]; exact h.labelLe, ?_⟩
  rw [hl]
  intro hlab k
  have hk := h.idx hlab k
  have hc : latestCV (vers.filter (fun p => decide (n < p.1))) = latestCV vers := by
    unfold latestCV
    rw [hl, findVer_filter vers (fun w => decide (n < w))]
    have : decide (n < latestVer vers) = true := by simp; omega
    simp [this]
  cases hi : lookup k index with
  | none => rw [hi] at hk; simp only at hk ⊢; rw [hc]; exact hk
  | some x =>
    obtain ⟨v, st⟩ := x
    rw [hi] at hk
    simp only at hk ⊢
    rw [hl]
    exact ⟨hk.1, fun w c hm hw => hk.2 w c (List.mem_filter.mp hm).1 hw⟩

theorem xinv_save_skip (vers : Vers K V) (label : Option Nat) (index : IMap K V)
    (h : XInv vers label index) (ver : Nat) (c : SMap K V) (hv : latestVer vers < ver) :
    XInv (vers ++ [(ver, c)]) label index := by
  refine ⟨h.si, h.ipos, ?_, ?_⟩
  · intro v hl; rw [latestVer_append]; have := h.labelLe v hl; omega
  · intro hl; rw [latestVer_append] at hl; have := h.labelLe _ hl; omega

/-- the commit of a tree object that maintains the index -/
theorem xinv_save_fast (vers : Vers K V) (ho : VersOk vers) (index adds : IMap K V) (rems : List K)
    (L W : SMap K V) (ver : Nat) (hv : latestVer vers < ver)
    (si : SortedKV index) (ipos : ∀ k v st, lookup k index = some (v, st) → 1 ≤ st)
    (sa : SortedKV adds) (hf : FInv ⟨L, proj adds, rems⟩ W)
    (hst : ∀ k v st, lookup k adds = some (v, st) → 1 ≤ st ∧ st ≤ ver ∧
        ∀ w c, (w, c) ∈ vers → st ≤ w → lookup k c = some v)
    (hold : ∀ k, match lookup k index with
        | some (v, st) => st ≤ latestVer vers ∧ (∀ w c, (w, c) ∈ vers → st ≤ w → lookup k c = some v) ∧ lookup k L = some v
        | none => lookup k L = none) :
    XInv (vers ++ [(ver, W)]) (some ver) (applyOverlay index adds rems) := by
  have hs1 := sorted_foldl_insert adds index si
  have hlk : ∀ k, lookup k (applyOverlay index adds rems) =
      if k ∈ rems then none else (match lookup k adds with | some x => some x | none => lookup k index) := by
    intro k
    unfold applyOverlay
    rw [lookup_foldl_erase rems _ hs1 k, lookup_foldl_insert adds index sa si k]
    by_cases hr : k ∈ rems
    · simp only [hr, if_true]
    · simp only [hr, if_false]; cases lookup k adds <;> rfl
  have hlatC : latestCV (vers ++ [(ver, W)]) = W := by
    unfold latestCV
    rw [latestVer_append, findVer_append_new vers ver W (findVer_none_of_gt vers ho.asc ver hv)]
    rfl
  have hget : ∀ k, (match lookup k (proj adds) with
      | some v => some v
      | none => if k ∈ rems then none else lookup k L) = lookup k W := fun k => hf.agree k
  refine ⟨sorted_foldl_erase rems _ hs1, ?_, ?_, ?_⟩
  · intro k v st hl
    rw [hlk] at hl
    split at hl
    · cases hl
    · cases ha : lookup k adds with
      | some x => rw [ha] at hl; simp only at hl; cases hl; exact (hst k v st ha).1
      | none => rw [ha] at hl; exact ipos k v st hl
  · intro v hl; cases hl; rw [latestVer_append]; exact Nat.le_refl _
  · intro _ k
    rw [hlk, hlatC, latestVer_append]
    have hg := hget k
    rw [lookup_proj] at hg
    by_cases hr : k ∈ rems
    · simp only [hr, if_true]
      have hd := hf.disj k hr
      simp only at hd
      rw [lookup_proj] at hd
      cases ha : lookup k adds with
      | some x => simp [ha] at hd
      | none => simpa [ha, hr] using hg.symm
    · simp only [hr, if_false]
      cases ha : lookup k adds with
      | some x =>
        obtain ⟨v, st⟩ := x
        simp only [ha, Option.map_some] at hg ⊢
        have h3 := hst k v st ha
        refine ⟨h3.2.1, ?_⟩
        intro w c hm hw
        rcases List.mem_append.mp hm with hm | hm
        · exact h3.2.2 w c hm hw
        · simp only [List.mem_singleton, Prod.mk.injEq] at hm
          rw [hm.2]; exact hg.symm
      | none =>
        simp only [ha, Option.map_none, hr, if_false] at hg ⊢
        have ho' := hold k
        cases hi : lookup k index with
        | none => rw [hi] at ho'; simp only at ho' ⊢; rw [← hg]; exact ho'
        | some x =>
          obtain ⟨v, st⟩ := x
          rw [hi] at ho'
          simp only at ho' ⊢
          refine ⟨by omega, ?_⟩
          intro w c hm hw
          rcases List.mem_append.mp hm with hm | hm
          · exact ho'.2.1 w c hm hw
          · simp only [List.mem_singleton, Prod.mk.injEq] at hm
            rw [hm.2, ← hg]; exact ho'.2.2

end Iavl
