import Iavl.Lemmas.VMachineInv
namespace Iavl
open Std
set_option linter.unusedSectionVars false
variable {K V : Type} [Ord K] [BEq K] [TransOrd K] [LawfulEqOrd K]

theorem inv_filter (vt : VState (OTree K V)) (h : Inv vt) (p : Nat × OTree K V → Bool) :
    Inv { vt with versions := vt.versions.filter p } :=
  ⟨h.gw, h.gl, fun q hq => h.gv q (List.mem_filter.mp hq).1⟩

/-- one step: same result, abstraction commutes, invariant kept -/
theorem step_refines (vt : VState (OTree K V)) (h : Inv vt) (op : Op K V) :
    VMap.step (absS vt) op = (absS (VTree.step vt op).1, (VTree.step vt op).2) ∧ Inv (VTree.step vt op).1 := by
  cases op with
  | set k v =>
    cases hw : vt.working with
    | none =>
      simp only [VTree.step, VMap.step, absS, hw, contents]
      refine ⟨by simp [insertSorted, lookup, contents], ⟨?_, h.gl, h.gv⟩⟩
      exact ⟨trivial, trivial, trivial⟩
    | some t =>
      have hg : Good t := by have := h.gw; rw [hw] at this; exact this
      have hs := set_ok t k v hg.1 hg.2.1
      have ha := avl_set t k v hg.2.2
      simp only [VTree.step, VMap.step, absS, hw, contents]
      cases hset : t.set k v with
      | mk t' upd =>
        rw [hset] at hs ha
        refine ⟨?_, ⟨⟨hs.ord, hs.rmin, ha.1⟩, h.gl, h.gv⟩⟩
        simp only [contents, hs.list]
        congr 1
        have := hs.upd
        simp only at this
        cases upd <;> cases hl : lookup k t.toList <;> simp_all
  | remove k =>
    cases hw : vt.working with
    | none => simp [VTree.step, VMap.step, absS, hw, contents, lookup]; exact h
    | some t =>
      have hg : Good t := by have := h.gw; rw [hw] at this; exact this
      have hr := remove_ok t k hg.1 hg.2.1
      have ha := avl_remove t k hg.2.2
      simp only [VTree.step, VMap.step, absS, hw, contents]
      cases hrem : t.remove k with
      | none =>
        rw [hrem] at hr
        have : lookup k t.toList = none := (lookup_none_iff' k _).mpr hr
        simp [this, hw, contents]; exact h
      | some res =>
        obtain ⟨node, nk, v⟩ := res
        rw [hrem] at hr ha
        cases node with
        | none =>
          obtain ⟨k', ver, ht, hc⟩ := hr
          subst ht
          simp [lookup, hc, eraseSorted, contents]
          exact ⟨trivial, h.gl, h.gv⟩
        | some t' =>
          obtain ⟨hlist, hord, hrm, hlook, _⟩ := hr
          simp only [RemShape] at ha
          simp only [hlook, contents, hlist]
          exact ⟨trivial, ⟨⟨hord, hrm, ha.1⟩, h.gl, h.gv⟩⟩
  | save =>
    simp only [VTree.step, VMap.step, workingVersion_abs]
    have hf : findVer (absS vt).versions vt.workingVersion = (findVer vt.versions vt.workingVersion).map contents :=
      findVer_map contents _ _
    rw [hf]
    cases hfv : findVer vt.versions vt.workingVersion with
    | some c => exact ⟨by simp [absS], ⟨h.gw, h.gl, h.gv⟩⟩
    | none =>
      simp only [Option.map_none]
      have hl : latestVer (absS vt).versions = latestVer vt.versions := latestVer_map contents _
      rw [hl]
      by_cases hlt : latestVer vt.versions < vt.workingVersion
      · simp only [hlt, if_true]
        have hc : contents (vt.working.map (commitVer vt.workingVersion)) = contents vt.working := by
          cases vt.working with
          | none => rfl
          | some t => simp [contents, toList_commitVer]
        have hgc : GoodO (vt.working.map (commitVer vt.workingVersion)) := by
          have := h.gw
          cases hw : vt.working with
          | none => trivial
          | some t => rw [hw] at this; exact good_commitVer _ t this
        refine ⟨?_, ⟨hgc, hgc, ?_⟩⟩
        · simp [absS, mapVers, hc]
        · intro p hp
          rcases List.mem_append.mp hp with hp | hp
          · exact h.gv p hp
          · simp at hp; subst hp; exact hgc
      · simp only [hlt, if_false]
        exact ⟨by simp [absS], ⟨h.gw, h.gl, h.gv⟩⟩
  | rollback =>
    simp only [VTree.step, VMap.step, absS]
    refine ⟨?_, ⟨?_, h.gl, h.gv⟩⟩
    · by_cases hb : vt.base = 0 <;> simp [hb, contents]
    · by_cases hb : vt.base = 0
      · simp only [hb, if_true]; trivial
      · simp only [hb, if_false]; exact h.gl
  | load target =>
    simp only [VTree.step, VMap.step]
    rw [load_abs]
    cases hl : vt.load none target with
    | none => simp; exact h
    | some p => obtain ⟨vt', n⟩ := p; simp; exact load_inv vt h target vt' n hl
  | loadow target =>
    simp only [VTree.step, VMap.step]
    rw [load_abs]
    cases hl : vt.load none target with
    | none => simp; exact h
    | some p =>
      obtain ⟨vt', n⟩ := p
      have hi := load_inv vt h target vt' n hl
      simp only [Option.map_some]
      refine ⟨?_, inv_filter vt' hi _⟩
      simp only [absS, Prod.mk.injEq, and_true]
      congr 1
      exact filter_map_vers contents vt'.versions (fun a => decide (a ≤ vt'.base))
  | prune n =>
    simp only [VTree.step, VMap.step]
    have hl : latestVer (absS vt).versions = latestVer vt.versions := latestVer_map contents _
    rw [hl]
    split
    · exact ⟨rfl, h⟩
    · refine ⟨?_, inv_filter vt h _⟩
      simp only [absS, Prod.mk.injEq, and_true]
      congr 1
      exact filter_map_vers contents vt.versions (fun a => decide (n < a))
  | get k =>
    simp only [VTree.step, VMap.step, absS]
    refine ⟨?_, h⟩
    cases hw : vt.working with
    | none => simp [contents, lookup]
    | some t =>
      have hg : Good t := by have := h.gw; rw [hw] at this; exact this
      simp [contents, get_eq t k hg.1 (avl_sizeOK t hg.2.2)]
  | has k =>
    simp only [VTree.step, VMap.step, absS]
    refine ⟨?_, h⟩
    cases hw : vt.working with
    | none => simp [contents, lookup]
    | some t =>
      have hg : Good t := by have := h.gw; rw [hw] at this; exact this
      simp [contents, has_eq t k hg.1 hg.2.1]
  | size =>
    simp only [VTree.step, VMap.step, absS]
    refine ⟨?_, h⟩
    cases hw : vt.working with
    | none => simp [contents]
    | some t =>
      have hg : Good t := by have := h.gw; rw [hw] at this; exact this
      simp [contents, size_eq_length t (avl_sizeOK t hg.2.2)]
  | getWithIndex k =>
    simp only [VTree.step, VMap.step, absS]
    refine ⟨?_, h⟩
    cases hw : vt.working with
    | none => simp [contents, lookup, rank]
    | some t =>
      have hg : Good t := by have := h.gw; rw [hw] at this; exact this
      simp [contents, get_eq t k hg.1 (avl_sizeOK t hg.2.2)]
  | getByIndex i =>
    simp only [VTree.step, VMap.step, absS]
    refine ⟨?_, h⟩
    cases hw : vt.working with
    | none => simp [contents]
    | some t =>
      have hg : Good t := by have := h.gw; rw [hw] at this; exact this
      simp [contents, getByIndex_eq t i (avl_sizeOK t hg.2.2)]
  | range st en asc incl =>
    simp only [VTree.step, VMap.step, absS]
    refine ⟨?_, h⟩
    cases hw : vt.working with
    | none => simp [contents, rangeSpec]
    | some t =>
      have hg : Good t := by have := h.gw; rw [hw] at this; exact this
      simp [contents, walk_eq_spec t st en asc incl hg.1]
  | getVersioned k ver =>
    simp only [VTree.step, VMap.step]
    refine ⟨?_, h⟩
    have hf : findVer (absS vt).versions ver = (findVer vt.versions ver).map contents := findVer_map contents _ _
    rw [hf]
    cases hfv : findVer vt.versions ver with
    | none => simp
    | some c =>
      have hg := goodO_find h.gv hfv
      cases c with
      | none => simp [contents, lookup]
      | some t => simp [contents, get_eq t k hg.1 (avl_sizeOK t hg.2.2)]
  | versionExists ver =>
    simp only [VTree.step, VMap.step]
    refine ⟨?_, h⟩
    have hf : findVer (absS vt).versions ver = (findVer vt.versions ver).map contents := findVer_map contents _ _
    rw [hf]; cases findVer vt.versions ver <;> simp
  | available =>
    simp only [VTree.step, VMap.step]
    exact ⟨by simp [absS, map_fst_vers], h⟩
  | latest =>
    simp only [VTree.step, VMap.step]
    exact ⟨by simp [absS, latestVer_map], h⟩

/-- **C01 at history level**: for every finite operation history, every answer of the tree machine
    equals the answer of the versioned map. -/
theorem runTree_eq_runMap (vt : VState (OTree K V)) (h : Inv vt) (ops : List (Op K V)) :
    runTree vt ops = runMap (absS vt) ops := by
  induction ops generalizing vt with
  | nil => rfl
  | cons op ops ih =>
    obtain ⟨hstep, hinv⟩ := step_refines vt h op
    simp only [runTree, runMap, hstep]
    rw [ih _ hinv]

def initT : VState (OTree K V) := { versions := [], working := none, lastSaved := none, base := 0, ivPending := none }

theorem fresh_history_refines (iv : Option Nat) (ops : List (Op K V)) :
    runTree ({ (initT : VState (OTree K V)) with ivPending := iv }) ops =
    runMap ({ versions := [], working := [], lastSaved := [], base := 0, ivPending := iv }) ops := by
  have := runTree_eq_runMap ({ (initT : VState (OTree K V)) with ivPending := iv })
    ⟨trivial, trivial, by intro p hp; simp [initT] at hp⟩ ops
  simpa [absS, initT, mapVers, contents] using this
end Iavl
