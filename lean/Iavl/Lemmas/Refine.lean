import Iavl.Lemmas.VMachineInv
namespace Iavl
open Std
set_option linter.unusedSectionVars false
set_option linter.unusedSimpArgs false
variable {K V : Type} [Ord K] [BEq K] [TransOrd K] [LawfulEqOrd K]

theorem inv_filter (vt : VState (OTree K V)) (h : Inv vt) (p : Nat × OTree K V → Bool) :
    Inv { vt with versions := vt.versions.filter p } :=
  ⟨h.gw, h.gl, fun q hq => h.gv q (List.mem_filter.mp hq).1⟩

/-! ### content-level refinement: reads, set, remove -/

/-- every read of a well-formed tree answers as the sorted map of its contents -/
theorem read_refines (c : OTree K V) (hg : GoodO c) (r : ReadOp K) :
    readMap (contents c) r = readTree c r := by
  cases c with
  | none => cases r <;> simp [readMap, readTree, contents, lookup, rank, rangeSpec]
  | some t =>
    have hg' : Good t := hg
    cases r with
    | get k => simp [readMap, readTree, contents, get_eq t k hg'.1 (avl_sizeOK t hg'.2.2)]
    | has k => simp [readMap, readTree, contents, has_eq t k hg'.1 hg'.2.1]
    | size => simp [readMap, readTree, contents, size_eq_length t (avl_sizeOK t hg'.2.2)]
    | getWithIndex k => simp [readMap, readTree, contents, get_eq t k hg'.1 (avl_sizeOK t hg'.2.2)]
    | getByIndex i => simp [readMap, readTree, contents, getByIndex_eq t i (avl_sizeOK t hg'.2.2)]
    | range st en asc incl => simp [readMap, readTree, contents, walk_eq_spec t st en asc incl hg'.1]

theorem getV_refines (c : OTree K V) (hg : GoodO c) (k : K) :
    (mapContent (V := V)).getV (contents c) k = (treeContent (K := K) (V := V)).getV c k := by
  cases c with
  | none => simp [mapContent, treeContent, contents, lookup]
  | some t =>
    have hg' : Good t := hg
    simp [mapContent, treeContent, contents, get_eq t k hg'.1 (avl_sizeOK t hg'.2.2)]

theorem set_refines (c : OTree K V) (hg : GoodO c) (k : K) (v : V) :
    (mapContent (K := K) (V := V)).set (contents c) k v =
      (contents ((treeContent (K := K) (V := V)).set c k v).1, ((treeContent (K := K) (V := V)).set c k v).2) ∧
    GoodO ((treeContent (K := K) (V := V)).set c k v).1 := by
  cases c with
  | none =>
    refine ⟨by simp [mapContent, treeContent, contents, insertSorted, lookup], ?_⟩
    exact ⟨trivial, trivial, trivial⟩
  | some t =>
    have hg' : Good t := hg
    have hs := set_ok t k v hg'.1 hg'.2.1
    have ha := avl_set t k v hg'.2.2
    simp only [mapContent, treeContent, contents]
    cases hset : t.set k v with
    | mk t' upd =>
      rw [hset] at hs ha
      refine ⟨?_, ⟨hs.ord, hs.rmin, ha.1⟩⟩
      simp only [contents, hs.list]
      congr 1
      have := hs.upd
      simp only at this
      cases upd <;> cases hl : lookup k t.toList <;> simp_all

theorem remove_refines (c : OTree K V) (hg : GoodO c) (k : K) :
    (mapContent (K := K) (V := V)).remove (contents c) k =
      (((treeContent (K := K) (V := V)).remove c k).map (fun p => (contents p.1, p.2))) ∧
    (∀ p, (treeContent (K := K) (V := V)).remove c k = some p → GoodO p.1) := by
  cases c with
  | none => simp [mapContent, treeContent, contents, lookup]
  | some t =>
    have hg' : Good t := hg
    have hr := remove_ok t k hg'.1 hg'.2.1
    have ha := avl_remove t k hg'.2.2
    simp only [mapContent, treeContent, contents]
    cases hrem : t.remove k with
    | none =>
      rw [hrem] at hr
      have : lookup k t.toList = none := (lookup_none_iff' k _).mpr hr
      simp [this]
    | some res =>
      obtain ⟨node, nk, v⟩ := res
      rw [hrem] at hr ha
      cases node with
      | none =>
        obtain ⟨k', ver, ht, hc⟩ := hr
        subst ht
        refine ⟨by simp [lookup, hc, eraseSorted, contents], ?_⟩
        intro p hp; simp at hp; subst hp; trivial
      | some t' =>
        obtain ⟨hlist, hord, hrm, hlook, _⟩ := hr
        simp only [RemShape] at ha
        refine ⟨by simp [hlook, contents, hlist], ?_⟩
        intro p hp; simp at hp; subst hp; exact ⟨hord, hrm, ha.1⟩

/-- one step: same result, abstraction commutes, invariant kept -/
theorem step_refines (vt : VState (OTree K V)) (h : Inv vt) (op : Op K V) :
    VMap.step (absS vt) op = (absS (VTree.step vt op).1, (VTree.step vt op).2) ∧ Inv (VTree.step vt op).1 := by
  unfold VMap.step VTree.step
  cases op with
  | set k v =>
    obtain ⟨h1, h2⟩ := set_refines vt.working h.gw k v
    simp only [VState.step]
    have e : (absS vt).working = contents vt.working := rfl
    rw [e, h1]
    exact ⟨rfl, ⟨h2, h.gl, h.gv⟩⟩
  | remove k =>
    obtain ⟨h1, h2⟩ := remove_refines vt.working h.gw k
    simp only [VState.step]
    have e : (absS vt).working = contents vt.working := rfl
    rw [e, h1]
    cases hr : treeContent.remove vt.working k with
    | none => exact ⟨rfl, h⟩
    | some p => exact ⟨rfl, ⟨h2 p hr, h.gl, h.gv⟩⟩
  | save same =>
    simp only [VState.step, workingVersion_abs]
    have hf : findVer (absS vt).versions vt.workingVersion = (findVer vt.versions vt.workingVersion).map contents :=
      findVer_map contents _ _
    rw [hf]
    cases hfv : findVer vt.versions vt.workingVersion with
    | some c =>
      have hgc := goodO_find h.gv hfv
      cases same
      · exact ⟨by simp [absS], ⟨h.gw, h.gl, h.gv⟩⟩
      · exact ⟨by simp [absS], ⟨hgc, hgc, h.gv⟩⟩
    | none =>
      simp only [Option.map_none]
      have hl : latestVer (absS vt).versions = latestVer vt.versions := latestVer_map contents _
      rw [hl]
      by_cases hlt : latestVer vt.versions < vt.workingVersion
      · simp only [hlt, if_true]
        have hc : contents (vt.working.map (commitVer vt.workingVersion)) = contents vt.working := by
          cases vt.working with
          | none => rfl
          | some t => simp [contents, toList_commitVer]
        have hgc : GoodO (vt.working.map (commitVer vt.workingVersion)) := by
          have := h.gw
          cases hw : vt.working with
          | none => trivial
          | some t => rw [hw] at this; exact good_commitVer _ t this
        refine ⟨?_, ⟨hgc, hgc, ?_⟩⟩
        · simp [absS, mapVers, hc, mapContent, treeContent]
        · intro p hp
          rcases List.mem_append.mp hp with hp | hp
          · exact h.gv p hp
          · simp at hp; subst hp; exact hgc
      · simp only [hlt, if_false]
        exact ⟨by simp [absS], ⟨h.gw, h.gl, h.gv⟩⟩
  | rollback =>
    simp only [VState.step, absS]
    refine ⟨?_, ⟨?_, h.gl, h.gv⟩⟩
    · by_cases hb : vt.base = 0 <;> simp [hb, contents, mapContent, treeContent]
    · by_cases hb : vt.base = 0
      · simp only [hb, if_true]; trivial
      · simp only [hb, if_false]; exact h.gl
  | load target =>
    simp only [VState.step]
    rw [load_abs]
    cases hl : vt.load target with
    | none => simp; exact h
    | some p => obtain ⟨vt', n⟩ := p; simp; exact load_inv vt h target vt' n hl
  | loadow target =>
    simp only [VState.step]
    rw [load_abs]
    cases hl : vt.load target with
    | none => simp; exact h
    | some p =>
      obtain ⟨vt', n⟩ := p
      have hi := load_inv vt h target vt' n hl
      simp only [Option.map_some]
      refine ⟨?_, inv_filter vt' hi _⟩
      simp only [absS, Prod.mk.injEq, and_true]
      congr 1
      exact filter_map_vers contents vt'.versions (fun a => decide (a ≤ vt'.base))
  | prune n =>
    simp only [VState.step]
    have hl : latestVer (absS vt).versions = latestVer vt.versions := latestVer_map contents _
    rw [hl]
    split
    · exact ⟨rfl, h⟩
    · refine ⟨?_, inv_filter vt h _⟩
      simp only [absS, Prod.mk.injEq, and_true]
      congr 1
      exact filter_map_vers contents vt.versions (fun a => decide (n < a))
  | delfrom n =>
    simp only [VState.step]
    refine ⟨?_, inv_filter vt h _⟩
    simp only [absS, Prod.mk.injEq, and_true]
    congr 1
    exact filter_map_vers contents vt.versions (fun a => decide (a < n))
  | reopen iv target =>
    simp only [VState.step]
    have hfresh : Inv (vt.fresh treeContent iv) := ⟨trivial, trivial, h.gv⟩
    have habs : (absS vt).fresh mapContent iv = absS (vt.fresh treeContent iv) := by
      simp [absS, VState.fresh, mapContent, treeContent, contents]
    rw [habs, load_abs]
    cases hl : (vt.fresh treeContent iv).load target with
    | none => simp; exact hfresh
    | some p => obtain ⟨vt', n⟩ := p; simp; exact load_inv _ hfresh target vt' n hl
  | read r =>
    simp only [VState.step]
    refine ⟨?_, h⟩
    have := read_refines vt.working h.gw r
    simp [absS, mapContent, treeContent, this]
  | immRead ver r =>
    simp only [VState.step]
    have hf : findVer (absS vt).versions ver = (findVer vt.versions ver).map contents := findVer_map contents _ _
    rw [hf]
    cases hfv : findVer vt.versions ver with
    | none => exact ⟨rfl, h⟩
    | some c =>
      have hg := goodO_find h.gv hfv
      have := read_refines c hg r
      refine ⟨?_, h⟩
      simp [mapContent, treeContent, this]
  | getVersioned k ver =>
    simp only [VState.step]
    refine ⟨?_, h⟩
    have hf : findVer (absS vt).versions ver = (findVer vt.versions ver).map contents := findVer_map contents _ _
    rw [hf]
    cases hfv : findVer vt.versions ver with
    | none => simp
    | some c =>
      have hg := goodO_find h.gv hfv
      have := getV_refines c hg k
      simp [this]
  | versionExists ver =>
    simp only [VState.step]
    refine ⟨?_, h⟩
    have hf : findVer (absS vt).versions ver = (findVer vt.versions ver).map contents := findVer_map contents _ _
    rw [hf]; cases findVer vt.versions ver <;> simp
  | available =>
    simp only [VState.step]
    exact ⟨by simp [absS, map_fst_vers], h⟩
  | latest =>
    simp only [VState.step]
    exact ⟨by simp [absS, latestVer_map], h⟩

/-- **C01 at history level**: for every finite operation history, every answer of the tree machine
    equals the answer of the versioned map. -/
theorem runTree_eq_runMap (vt : VState (OTree K V)) (h : Inv vt) (ops : List (Op K V)) :
    runTree vt ops = runMap (absS vt) ops := by
  induction ops generalizing vt with
  | nil => rfl
  | cons op ops ih =>
    obtain ⟨hstep, hinv⟩ := step_refines vt h op
    simp only [runTree, runMap, hstep]
    rw [ih _ hinv]

def initT (iv : Option Nat) : VState (OTree K V) :=
  { versions := [], working := none, lastSaved := none, base := 0, ivOpt := iv.getD 0, ivSet := iv.isSome }
def initM (iv : Option Nat) : VState (SMap K V) :=
  { versions := [], working := [], lastSaved := [], base := 0, ivOpt := iv.getD 0, ivSet := iv.isSome }

theorem fresh_history_refines (iv : Option Nat) (ops : List (Op K V)) :
    runTree (initT iv : VState (OTree K V)) ops = runMap (initM iv) ops := by
  have := runTree_eq_runMap (initT iv : VState (OTree K V))
    ⟨trivial, trivial, by intro p hp; simp [initT] at hp⟩ ops
  simpa [absS, initT, initM, mapVers, contents] using this
end Iavl
