import Iavl.Lemmas.NonMembershipSound
import Iavl.Lemmas.MembershipComplete
import Iavl.Lemmas.GetRank
import Iavl.Model.ReadCost
import Iavl.Model.ProofGen
/-
  C03: completeness of the generated non-membership proof. For an ordered tree whose heights, sizes and
  versions fit the ics23 prefix window, and whose keys and values are non-empty (K6 / K28 are exactly the
  excluded cases), the proof `GetNonMembershipProof` builds for an absent key is accepted by the model of
  the ics23 verifier (`verifyNonExist`).
-/
namespace Iavl
open Std
variable (H : Bytes → Bytes)

/-- the magnitudes for which an inner op's prefix (three varints and a length byte) is at most 12 bytes:
    height below 64 (one byte), size and version below 2^34 (five bytes each) -/
def BoundedS (working : Nat) : Node Bytes Bytes → Prop
  | .leaf _ _ ver => verOf ver working < 2 ^ 34
  | .inner _ h sz ver l r => 1 ≤ h ∧ h < 64 ∧ sz < 2 ^ 34 ∧ verOf ver working < 2 ^ 34 ∧
      BoundedS working l ∧ BoundedS working r

theorem BoundedS.bounded {working : Nat} : ∀ {t : Node Bytes Bytes}, BoundedS working t → Bounded working t
  | .leaf .., h => by
    have h' : verOf _ working < 2 ^ 34 := h
    show verOf _ working < 2 ^ 62
    omega
  | .inner .., ⟨h1, h2, h3, h4, hl, hr⟩ => ⟨h1, by omega, by omega, by omega, hl.bounded, hr.bounded⟩

theorem uvarint_length_small (n : Nat) : (n < 128 → (uvarint n).length = 1) ∧ (n < 2 ^ 35 → (uvarint n).length ≤ 5) := by
  constructor
  · intro h; unfold uvarint; simp [h]
  · intro h; exact uvarint_length_le n 4 (by omega)

theorem uvarint_length_pos (n : Nat) : 1 ≤ (uvarint n).length := by
  unfold uvarint; split <;> simp

/-- length of the three-varint header of an inner node within the small bounds: 3..11 -/
theorem innerPrefix_length (h sz ver : Nat) (hh : h < 64) (hs : sz < 2 ^ 34) (hv : ver < 2 ^ 34) :
    3 ≤ (innerPrefix h sz ver).length ∧ (innerPrefix h sz ver).length ≤ 11 := by
  simp only [innerPrefix, varint_nat, List.length_append]
  have a1 := (uvarint_length_small (2 * h)).1 (by omega)
  have a2 := (uvarint_length_small (2 * sz)).2 (by omega)
  have a3 := (uvarint_length_small (2 * ver)).2 (by omega)
  have b2 := uvarint_length_pos (2 * sz)
  have b3 := uvarint_length_pos (2 * ver)
  omega

end Iavl

namespace Iavl
open Std
variable (H : Bytes → Bytes) (hH : ∀ x, (H x).length = 32)

/-- the two ops `mkProof` emits for an inner node -/
def opLeft (working : Nat) (h sz : Nat) (ver : Option Nat) (l r : Node Bytes Bytes) : InnerOp :=
  ⟨innerPrefix h sz (verOf ver working) ++ uvarint (hashNode H working l).length, encBytes (hashNode H working r)⟩
def opRight (working : Nat) (h sz : Nat) (ver : Option Nat) (l r : Node Bytes Bytes) : InnerOp :=
  ⟨innerPrefix h sz (verOf ver working) ++ encBytes (hashNode H working l) ++ uvarint (hashNode H working r).length, []⟩

theorem uvarint_32 : uvarint 32 = [32] := by unfold uvarint; simp

include hH

theorem opLeft_shape (working h sz : Nat) (ver : Option Nat) (l r : Node Bytes Bytes) :
    (opLeft H working h sz ver l r).pfx = innerPrefix h sz (verOf ver working) ++ [32] ∧
    (opLeft H working h sz ver l r).sfx = 32 :: hashNode H working r := by
  simp only [opLeft, hashNode_length H hH, uvarint_32, encBytes, true_and]
  rfl

theorem opRight_shape (working h sz : Nat) (ver : Option Nat) (l r : Node Bytes Bytes) :
    (opRight H working h sz ver l r).pfx = innerPrefix h sz (verOf ver working) ++ (32 :: hashNode H working l ++ [32]) ∧
    (opRight H working h sz ver l r).sfx = [] := by
  simp only [opRight, hashNode_length H hH, uvarint_32, encBytes, and_true, List.append_assoc]
  rfl

theorem padLeft_opLeft (working h sz : Nat) (ver : Option Nat) (l r : Node Bytes Bytes)
    (hh : h < 64) (hs : sz < 2 ^ 34) (hv : verOf ver working < 2 ^ 34) :
    padLeft (opLeft H working h sz ver l r) = true := by
  obtain ⟨hp, hsx⟩ := opLeft_shape H hH working h sz ver l r
  have hl := innerPrefix_length h sz (verOf ver working) hh hs hv
  simp only [padLeft, hp, hsx, icsMinPrefix, icsMaxPrefix, icsChildSize, List.length_append, List.length_cons,
    List.length_nil, hashNode_length H hH, Bool.and_eq_true, decide_eq_true_eq, beq_iff_eq]
  exact ⟨⟨by omega, by omega⟩, by simp⟩

theorem padRight_opRight (working h sz : Nat) (ver : Option Nat) (l r : Node Bytes Bytes)
    (hh : h < 64) (hs : sz < 2 ^ 34) (hv : verOf ver working < 2 ^ 34) :
    padRight (opRight H working h sz ver l r) = true := by
  obtain ⟨hp, hsx⟩ := opRight_shape H hH working h sz ver l r
  have hl := innerPrefix_length h sz (verOf ver working) hh hs hv
  simp only [padRight, hp, hsx, icsMinPrefix, icsMaxPrefix, icsChildSize, List.length_append, List.length_cons,
    List.length_nil, hashNode_length H hH, Bool.and_eq_true, decide_eq_true_eq, beq_iff_eq]
  exact ⟨⟨by omega, by omega⟩, by simp⟩

omit hH in
theorem innerPrefix_take3 (h sz ver : Nat) (hh : h < 64) (hs : sz < 2 ^ 34) (hv : ver < 2 ^ 34) (rest : Bytes) :
    take3 (innerPrefix h sz ver ++ rest) = some ((2 * h, 2 * sz, 2 * ver), rest) := by
  simp only [innerPrefix, varint_nat]
  exact take3_put _ _ _ (by omega) (by omega) (by omega) rest

omit hH in
theorem innerPrefix_head (h sz ver : Nat) (h1 : 1 ≤ h) (rest : Bytes) :
    (innerPrefix h sz ver ++ rest).head? ≠ some 0 := by
  simp only [innerPrefix, varint_nat, List.append_assoc]
  cases hu : uvarint (2 * h) with
  | nil => exact absurd hu (uvarint_ne_nil _)
  | cons a as =>
    intro hc
    have : (uvarint (2 * h)).head? = some 0 := by rw [hu]; simpa using hc
    rw [uvarint_head_zero_iff] at this; omega

theorem checkInner_opLeft (working h sz : Nat) (ver : Option Nat) (l r : Node Bytes Bytes) (layer : Nat)
    (h1 : 1 ≤ layer) (hl : layer ≤ h) (hh : h < 64) (hs : sz < 2 ^ 34) (hv : verOf ver working < 2 ^ 34) :
    checkInner (opLeft H working h sz ver l r) layer = true := by
  obtain ⟨hp, hsx⟩ := opLeft_shape H hH working h sz ver l r
  have hlen := innerPrefix_length h sz (verOf ver working) hh hs hv
  have ht := innerPrefix_take3 h sz (verOf ver working) hh hs hv [32]
  have hhead := innerPrefix_head h sz (verOf ver working) (by omega) [32]
  have hb : (layer == 0) = false := by simp; omega
  simp only [checkInner, validateIavlOp, hp, hsx, ht, hb, icsMinPrefix, icsMaxPrefix, icsChildSize,
    List.length_append, List.length_cons, List.length_nil, hashNode_length H hH, Bool.and_eq_true,
    decide_eq_true_eq, beq_iff_eq, bne_iff_ne, ne_eq, Bool.false_eq_true, if_false, Bool.or_eq_true]
  refine ⟨⟨⟨⟨⟨⟨⟨⟨?_, ?_⟩, ?_⟩, ?_⟩, ?_⟩, hhead⟩, ?_⟩, ?_⟩, trivial⟩ <;> first | omega | simp

theorem checkInner_opRight (working h sz : Nat) (ver : Option Nat) (l r : Node Bytes Bytes) (layer : Nat)
    (h1 : 1 ≤ layer) (hl : layer ≤ h) (hh : h < 64) (hs : sz < 2 ^ 34) (hv : verOf ver working < 2 ^ 34) :
    checkInner (opRight H working h sz ver l r) layer = true := by
  obtain ⟨hp, hsx⟩ := opRight_shape H hH working h sz ver l r
  have hlen := innerPrefix_length h sz (verOf ver working) hh hs hv
  have ht := innerPrefix_take3 h sz (verOf ver working) hh hs hv (32 :: hashNode H working l ++ [32])
  have hhead := innerPrefix_head h sz (verOf ver working) (by omega) (32 :: hashNode H working l ++ [32])
  have hb : (layer == 0) = false := by simp; omega
  simp only [checkInner, validateIavlOp, hp, hsx, ht, hb, icsMinPrefix, icsMaxPrefix, icsChildSize,
    List.length_append, List.length_cons, List.length_nil, hashNode_length H hH, Bool.and_eq_true,
    decide_eq_true_eq, beq_iff_eq, bne_iff_ne, ne_eq, Bool.false_eq_true, if_false, Bool.or_eq_true]
  refine ⟨⟨⟨⟨⟨⟨⟨⟨?_, ?_⟩, ?_⟩, ?_⟩, ?_⟩, hhead⟩, ?_⟩, ?_⟩, trivial⟩ <;> first | omega | simp

omit hH in
theorem checkPath_append (xs : List InnerOp) (op : InnerOp) (n : Nat) :
    checkPath (xs ++ [op]) n = (checkPath xs n && checkInner op (n + xs.length)) := by
  induction xs generalizing n with
  | nil => simp [checkPath]
  | cons x xs ih =>
    simp only [List.cons_append, checkPath, ih, List.length_cons, Bool.and_assoc]
    have : n + 1 + xs.length = n + (xs.length + 1) := by omega
    rw [this]

omit hH in
theorem mkProof_path_left (working : Nat) (k : Bytes) (h sz : Nat) (ver : Option Nat) (l r : Node Bytes Bytes)
    (key : Bytes) (hlt : compare key k = .lt) :
    (mkProof H working (.inner k h sz ver l r) key).path = (mkProof H working l key).path ++ [opLeft H working h sz ver l r] ∧
    (mkProof H working (.inner k h sz ver l r) key).key = (mkProof H working l key).key ∧
    (mkProof H working (.inner k h sz ver l r) key).value = (mkProof H working l key).value ∧
    (mkProof H working (.inner k h sz ver l r) key).leafPfx = (mkProof H working l key).leafPfx := by
  simp [mkProof, hlt, opLeft]

omit hH in
theorem mkProof_path_right (working : Nat) (k : Bytes) (h sz : Nat) (ver : Option Nat) (l r : Node Bytes Bytes)
    (key : Bytes) (hlt : compare key k ≠ .lt) :
    (mkProof H working (.inner k h sz ver l r) key).path = (mkProof H working r key).path ++ [opRight H working h sz ver l r] ∧
    (mkProof H working (.inner k h sz ver l r) key).key = (mkProof H working r key).key ∧
    (mkProof H working (.inner k h sz ver l r) key).value = (mkProof H working r key).value ∧
    (mkProof H working (.inner k h sz ver l r) key).leafPfx = (mkProof H working r key).leafPfx := by
  simp [mkProof, hlt, opRight]

omit hH in
theorem mkProof_path_length (working : Nat) (t : Node Bytes Bytes) (key : Bytes) (hh : HeightOK t) :
    (mkProof H working t key).path.length ≤ t.height := by
  induction t with
  | leaf => simp [mkProof]
  | inner k h sz ver l r ihl ihr =>
    obtain ⟨hl, hr, hht⟩ := hh
    have := ihl hl; have := ihr hr
    by_cases hlt : compare key k = .lt
    · rw [(mkProof_path_left H working k h sz ver l r key hlt).1]
      simp only [List.length_append, List.length_cons, List.length_nil, Node.height]; omega
    · rw [(mkProof_path_right H working k h sz ver l r key hlt).1]
      simp only [List.length_append, List.length_cons, List.length_nil, Node.height]; omega

/-- every op of a generated path passes `InnerOp.CheckAgainstSpec` at its layer -/
theorem mkProof_checkPath (working : Nat) (t : Node Bytes Bytes) (key : Bytes) (hh : HeightOK t)
    (hb : BoundedS working t) : checkPath (mkProof H working t key).path 1 = true := by
  induction t with
  | leaf => simp [mkProof, checkPath]
  | inner k h sz ver l r ihl ihr =>
    obtain ⟨hl, hr, hht⟩ := hh
    obtain ⟨h1, h64, hsz, hver, hbl, hbr⟩ := hb
    by_cases hlt : compare key k = .lt
    · rw [(mkProof_path_left H working k h sz ver l r key hlt).1, checkPath_append, ihl hl hbl]
      have := mkProof_path_length H working l key hl
      simp only [Bool.true_and]
      exact checkInner_opLeft H hH working h sz ver l r _ (by omega) (by omega) h64 hsz hver
    · rw [(mkProof_path_right H working k h sz ver l r key hlt).1, checkPath_append, ihr hr hbr]
      have := mkProof_path_length H working r key hr
      simp only [Bool.true_and]
      exact checkInner_opRight H hH working h sz ver l r _ (by omega) (by omega) h64 hsz hver

omit hH in
theorem checkLeaf_leafPrefix (v : Nat) (hv : v < 2 ^ 34) : checkLeaf (leafPrefix v) = true := by
  have e0 : varint 0 = uvarint 0 := by simpa using varint_nat 0
  have e1 : varint 1 = uvarint 2 := by simpa using varint_nat 1
  have ht : take3 (leafPrefix v) = some ((0, 2, 2 * v), []) := by
    simp only [leafPrefix, e0, e1, varint_nat]
    have := take3_put 0 2 (2 * v) (by decide) (by decide) (by omega) []
    simpa using this
  have hz : varint 0 = [0] := by unfold varint; simp; unfold uvarint; simp
  have hhead : (leafPrefix v).head? = some 0 := by simp [leafPrefix, hz]
  simp [checkLeaf, validateIavlOp, ht, hhead]

omit hH in
theorem mkProof_checkLeaf (working : Nat) (t : Node Bytes Bytes) (key : Bytes) (hb : BoundedS working t) :
    checkLeaf (mkProof H working t key).leafPfx = true := by
  induction t with
  | leaf k v ver => exact checkLeaf_leafPrefix _ hb
  | inner k h sz ver l r ihl ihr =>
    obtain ⟨_, _, _, _, hbl, hbr⟩ := hb
    by_cases hlt : compare key k = .lt
    · rw [(mkProof_path_left H working k h sz ver l r key hlt).2.2.2]; exact ihl hbl
    · rw [(mkProof_path_right H working k h sz ver l r key hlt).2.2.2]; exact ihr hbr

omit hH in
theorem boundedS_height (working : Nat) (t : Node Bytes Bytes) (hb : BoundedS working t) : t.height < 64 := by
  cases t with
  | leaf => simp [Node.height]
  | inner k h sz ver l r => exact hb.2.1

/-- **the generated existence proof of a present pair is accepted by the verifier model** -/
theorem verifyExist_generated (working : Nat) (t : Node Bytes Bytes) (key v : Bytes) (ho : Ordered t)
    (hh : HeightOK t) (hb : BoundedS working t) (hv : lookup key t.toList = some v)
    (hk0 : key ≠ []) (hv0 : v ≠ []) :
    verifyExist H (hashNode H working t) (mkProof H working t key) key v = true := by
  obtain ⟨hk, hvv⟩ := mkProof_key_value H working t key ho hv
  have h1 := mkProof_checkLeaf H working t key hb
  have h2 := mkProof_checkPath H hH working t key hh hb
  have h3 := mkProof_path_length H working t key hh
  have h4 := boundedS_height working t hb
  have h5 := calcRoot_mkProof H working t key
  simp only [verifyExist, h1, h2, hk, hvv, h5, icsMaxDepth, Bool.and_eq_true, beq_self_eq_true,
    Bool.true_and, Bool.not_eq_true', and_true]
  refine ⟨⟨decide_eq_true (by omega), ?_⟩, ?_⟩
  · cases key with | nil => exact absurd rfl hk0 | cons => rfl
  · cases v with | nil => exact absurd rfl hv0 | cons => rfl

omit hH in
theorem ordered_right_not_lt {k : Bytes} {h sz : Nat} {ver : Option Nat} {l r : Node Bytes Bytes}
    (ho : Ordered (.inner k h sz ver l r)) {p : Bytes × Bytes} (hp : p ∈ r.toList) : compare p.1 k ≠ .lt := by
  intro hc
  have := ho.2.2.2 p hp
  rw [OrientedCmp.gt_of_lt hc] at this
  cases this

/-- the proof of the last pair runs right-most -/
theorem rightmost_generated (working : Nat) (t : Node Bytes Bytes) (a : Bytes × Bytes) (ho : Ordered t)
    (hb : BoundedS working t) (ha : t.toList.getLast? = some a) :
    isRightMost (mkProof H working t a.1).path = true := by
  induction t with
  | leaf => simp [mkProof, isRightMost]
  | inner k h sz ver l r ihl ihr =>
    obtain ⟨h1, h64, hsz, hver, hbl, hbr⟩ := hb
    have hne := toList_ne_nil r
    have hlast : r.toList.getLast? = some a := by
      rw [toList_inner, List.getLast?_append] at ha
      cases hr : r.toList.getLast? with
      | none => exact absurd (List.getLast?_eq_none_iff.mp hr) hne
      | some x => rw [hr] at ha; simpa using ha
    have har : a ∈ r.toList := List.mem_of_getLast? hlast
    have hdir := ordered_right_not_lt ho har
    rw [(mkProof_path_right H working k h sz ver l r a.1 hdir).1]
    simp only [isRightMost, List.all_append, List.all_cons, List.all_nil, Bool.and_true, Bool.and_eq_true]
    exact ⟨by simpa [isRightMost] using ihr ho.2.1 hbr hlast, padRight_opRight H hH working h sz ver l r h64 hsz hver⟩

/-- the proof of the first pair runs left-most -/
theorem leftmost_generated (working : Nat) (t : Node Bytes Bytes) (b : Bytes × Bytes) (ho : Ordered t)
    (hb : BoundedS working t) (hbd : t.toList.head? = some b) :
    isLeftMost (mkProof H working t b.1).path = true := by
  induction t with
  | leaf => simp [mkProof, isLeftMost]
  | inner k h sz ver l r ihl ihr =>
    obtain ⟨h1, h64, hsz, hver, hbl, hbr⟩ := hb
    have hne := toList_ne_nil l
    have hhead : l.toList.head? = some b := by
      rw [toList_inner, List.head?_append] at hbd
      cases hl : l.toList.head? with
      | none => exact absurd (List.head?_eq_none_iff.mp hl) hne
      | some x => rw [hl] at hbd; simpa using hbd
    have hbl' : b ∈ l.toList := List.mem_of_head? hhead
    have hdir := ho.2.2.1 b hbl'
    rw [(mkProof_path_left H working k h sz ver l r b.1 hdir).1]
    simp only [isLeftMost, List.all_append, List.all_cons, List.all_nil, Bool.and_true, Bool.and_eq_true]
    exact ⟨by simpa [isLeftMost] using ihl ho.1 hbl hhead, padLeft_opLeft H hH working h sz ver l r h64 hsz hver⟩

omit hH in
theorem isLeftNeighborRF_same (op : InnerOp) (xs ys : List InnerOp) :
    isLeftNeighborRF (op :: xs) (op :: ys) = isLeftNeighborRF xs ys := by
  simp [isLeftNeighborRF]

/-- the proofs of two consecutive pairs are accepted as neighbours -/
theorem neighbor_generated (working : Nat) (t : Node Bytes Bytes) (i : Nat) (a b : Bytes × Bytes)
    (ho : Ordered t) (hb : BoundedS working t)
    (ha : t.toList[i]? = some a) (hbn : t.toList[i + 1]? = some b) :
    isLeftNeighborRF (mkProof H working t a.1).path.reverse (mkProof H working t b.1).path.reverse = true := by
  induction t generalizing i with
  | leaf k v ver => simp at hbn
  | inner k h sz ver l r ihl ihr =>
    obtain ⟨h1, h64, hsz, hver, hbl, hbr⟩ := hb
    simp only [toList_inner] at ha hbn
    by_cases hcase : i + 1 < l.toList.length
    · -- both in the left subtree
      rw [List.getElem?_append_left (by omega)] at ha
      rw [List.getElem?_append_left hcase] at hbn
      have hda := ho.2.2.1 a (List.mem_of_getElem? ha)
      have hdb := ho.2.2.1 b (List.mem_of_getElem? hbn)
      rw [(mkProof_path_left H working k h sz ver l r a.1 hda).1, (mkProof_path_left H working k h sz ver l r b.1 hdb).1]
      simp only [List.reverse_append, List.reverse_cons, List.reverse_nil, List.nil_append, List.cons_append]
      rw [isLeftNeighborRF_same]
      exact ihl i ho.1 hbl ha hbn
    · by_cases hcase2 : l.toList.length ≤ i
      · -- both in the right subtree
        rw [List.getElem?_append_right hcase2] at ha
        rw [List.getElem?_append_right (by omega)] at hbn
        have hbn' : r.toList[i - l.toList.length + 1]? = some b := by
          rw [show i - l.toList.length + 1 = i + 1 - l.toList.length by omega]; exact hbn
        have hda := ordered_right_not_lt ho (List.mem_of_getElem? ha)
        have hdb := ordered_right_not_lt ho (List.mem_of_getElem? hbn)
        rw [(mkProof_path_right H working k h sz ver l r a.1 hda).1, (mkProof_path_right H working k h sz ver l r b.1 hdb).1]
        simp only [List.reverse_append, List.reverse_cons, List.reverse_nil, List.nil_append, List.cons_append]
        rw [isLeftNeighborRF_same]
        exact ihr (i - l.toList.length) ho.2.1 hbr ha hbn'
      · -- a is the last pair of the left subtree, b the first of the right one
        have hi : i + 1 = l.toList.length := by omega
        rw [List.getElem?_append_left (by omega)] at ha
        rw [List.getElem?_append_right (by omega)] at hbn
        have hlast : l.toList.getLast? = some a := by
          rw [List.getLast?_eq_getElem?, show l.toList.length - 1 = i by omega]; exact ha
        have hhead : r.toList.head? = some b := by
          rw [List.head?_eq_getElem?, ← hbn]; congr 1; omega
        have hda := ho.2.2.1 a (List.mem_of_getElem? ha)
        have hdb := ordered_right_not_lt ho (List.mem_of_getElem? hbn)
        rw [(mkProof_path_left H working k h sz ver l r a.1 hda).1, (mkProof_path_right H working k h sz ver l r b.1 hdb).1]
        simp only [List.reverse_append, List.reverse_cons, List.reverse_nil, List.nil_append, List.cons_append]
        have hdiff : ((opLeft H working h sz ver l r).pfx == (opRight H working h sz ver l r).pfx &&
            (opLeft H working h sz ver l r).sfx == (opRight H working h sz ver l r).sfx) = false := by
          rw [(opLeft_shape H hH working h sz ver l r).2, (opRight_shape H hH working h sz ver l r).2]
          simp
        simp only [isLeftNeighborRF, hdiff, Bool.false_eq_true, if_false, Bool.and_eq_true]
        refine ⟨⟨⟨padLeft_opLeft H hH working h sz ver l r h64 hsz hver,
          padRight_opRight H hH working h sz ver l r h64 hsz hver⟩, ?_⟩, ?_⟩
        · have := rightmost_generated H hH working l a ho.1 hbl hlast
          simpa [isRightMost] using this
        · have := leftmost_generated H hH working r b ho.2.1 hbr hhead
          simpa [isLeftMost] using this

omit hH in
/-- in a sorted list the entries below `key` are exactly the first `rank key` ones -/
theorem sorted_rank_split (m : List (Bytes × Bytes)) (hs : SortedKV m) (key : Bytes) (i : Nat) (p : Bytes × Bytes)
    (hp : m[i]? = some p) : i < rank key m ↔ compare p.1 key = .lt := by
  induction m generalizing i with
  | nil => simp at hp
  | cons a m ih =>
    have hs' := sortedKV_tail hs
    unfold SortedKV at hs
    rw [List.pairwise_cons] at hs
    by_cases hc : compare a.1 key = .lt
    · have hr : rank key (a :: m) = rank key m + 1 := by simp [rank, List.filter_cons, hc]
      cases i with
      | zero => simp only [List.getElem?_cons_zero, Option.some.injEq] at hp; subst hp; simp [hr, hc]
      | succ j =>
        simp only [List.getElem?_cons_succ] at hp
        rw [hr, ← ih hs' j hp]; omega
    · have hall : ∀ q ∈ m, compare q.1 key ≠ .lt := by
        intro q hq hq'
        exact hc (TransCmp.lt_trans (hs.1 q hq) hq')
      have hr : rank key (a :: m) = 0 := by
        have := rank_all_ge key m hall
        simp [rank, hc] at this ⊢
        exact this
      rw [hr]
      cases i with
      | zero => simp only [List.getElem?_cons_zero, Option.some.injEq] at hp; subst hp; simp [hc]
      | succ j =>
        simp only [List.getElem?_cons_succ] at hp
        have := hall p (List.mem_of_getElem? hp)
        simp [this]

omit hH in
theorem rank_le_length (m : List (Bytes × Bytes)) (key : Bytes) : rank key m ≤ m.length := by
  unfold rank; exact List.length_filter_le _ _

omit hH in
theorem lookup_of_mem_sorted (m : List (Bytes × Bytes)) (hs : SortedKV m) (p : Bytes × Bytes) (hp : p ∈ m) :
    lookup p.1 m = some p.2 := by
  induction m with
  | nil => simp at hp
  | cons a m ih =>
    obtain ⟨ak, av⟩ := a
    rcases List.mem_cons.mp hp with h | h
    · subst h; simp [lookup, Std.ReflCmp.compare_self]
    · have hlt : compare ak p.1 = .lt := by
        unfold SortedKV at hs; rw [List.pairwise_cons] at hs; exact hs.1 p h
      have hne : compare p.1 ak ≠ .eq := by
        intro hc; rw [OrientedCmp.eq_comm] at hc; rw [hc] at hlt; cases hlt
      simp only [lookup, hne, if_false]
      exact ih (sortedKV_tail hs) h

/-- **Completeness of the generated non-membership proof.** For an absent key of an ordered tree
    whose heights are exact, whose magnitudes fit the prefix window and whose keys and values are
    non-empty, `GetNonMembershipProof` yields a proof that the verifier model accepts. -/
theorem nonmembership_complete (working : Nat) (t : Node Bytes Bytes) (key : Bytes)
    (ho : Ordered t) (hsz : SizeOK t) (hh : HeightOK t) (hb : BoundedS working t)
    (hne : ∀ p ∈ t.toList, p.1 ≠ [] ∧ p.2 ≠ [])
    (habs : lookup key t.toList = none) :
    ∃ l r, nonMemProofG H working t key = .nonexist key l r ∧
      verifyNonExist H (hashNode H working t) ⟨key, l, r⟩ key = true := by
  have hs := sortedKV_toList t ho
  have hget := get_eq t key ho hsz
  rw [habs] at hget
  -- acceptance of the existence proof of any pair of the tree
  have hex : ∀ p ∈ t.toList, verifyExist H (hashNode H working t) (mkProof H working t p.1) p.1 p.2 = true ∧
      (mkProof H working t p.1).key = p.1 ∧ (mkProof H working t p.1).value = p.2 := by
    intro p hp
    have hl := lookup_of_mem_sorted t.toList hs p hp
    exact ⟨verifyExist_generated H hH working t p.1 p.2 ho hh hb hl (hne p hp).1 (hne p hp).2,
      mkProof_key_value H working t p.1 ho hl⟩
  have hgt : ∀ i p, t.toList[i]? = some p → rank key t.toList ≤ i → compare key p.1 = .lt := by
    intro i p hp hi
    have h1 := (not_congr (sorted_rank_split t.toList hs key i p hp)).mp (by omega)
    have h2 := (lookup_none_iff key t.toList).mp habs p (List.mem_of_getElem? hp)
    cases hc : compare key p.1 with
    | lt => rfl
    | eq => exact absurd hc h2
    | gt => exact absurd (OrientedCmp.lt_of_gt hc) h1
  have hlen := rank_le_length t.toList key
  have hnn := toList_ne_nil t
  simp only [nonMemProofG, hget, getByIndex_eq t _ hsz]
  refine ⟨_, _, rfl, ?_⟩
  generalize hidx : rank key t.toList = idx at *
  by_cases h0 : idx = 0
  · -- nothing below the key: the right neighbour is the first pair
    subst h0
    cases hL : t.toList with
    | nil => exact absurd hL hnn
    | cons b rest =>
      have hb0 : t.toList[0]? = some b := by rw [hL]; rfl
      have hbm : b ∈ t.toList := List.mem_of_getElem? hb0
      obtain ⟨hvb, hkb, hvalb⟩ := hex b hbm
      have hcb := hgt 0 b hb0 (by omega)
      have hlm := leftmost_generated H hH working t b ho hb (by rw [hL]; rfl)
      rw [← hL]
      simp [verifyNonExist, hb0, hkb, hvalb, hvb, hcb, hlm]
  · have hi1 : 1 ≤ idx := by omega
    have hai : idx - 1 < t.toList.length := by omega
    have ha0 : t.toList[idx - 1]? = some (t.toList[idx - 1]'hai) := List.getElem?_eq_getElem hai
    generalize t.toList[idx - 1]'hai = a at ha0
    have ham : a ∈ t.toList := List.mem_of_getElem? ha0
    obtain ⟨hva, hka, hvala⟩ := hex a ham
    have hca : compare a.1 key = .lt := (sorted_rank_split t.toList hs key (idx - 1) a ha0).mp (by omega)
    cases hR : t.toList[idx]? with
    | none =>
      -- nothing above the key: the left neighbour is the last pair
      have hlast : t.toList.getLast? = some a := by
        have : t.toList.length ≤ idx := List.getElem?_eq_none_iff.mp hR
        rw [List.getLast?_eq_getElem?, show t.toList.length - 1 = idx - 1 by omega]; exact ha0
      have hrm := rightmost_generated H hH working t a ho hb hlast
      simp [verifyNonExist, hi1, ha0, hka, hvala, hva, hca, hrm]
    | some b =>
      have hbm : b ∈ t.toList := List.mem_of_getElem? hR
      obtain ⟨hvb, hkb, hvalb⟩ := hex b hbm
      have hcb := hgt idx b hR (by omega)
      have hR' : t.toList[idx - 1 + 1]? = some b := by rw [show idx - 1 + 1 = idx by omega]; exact hR
      have hnb := neighbor_generated H hH working t (idx - 1) a b ho hb ha0 hR'
      simp [verifyNonExist, hi1, ha0, hka, hkb, hvala, hvalb, hva, hvb, hca, hcb, isLeftNeighbor, hnb]

end Iavl
