import Iavl.Lemmas.MembershipSound
import Iavl.Lemmas.SortedMap
import Iavl.Model.Ics23
/-
  C03: non-membership soundness. A non-existence proof that the ics23 verifier (Model/Ics23.lean)
  accepts against the root hash of an ordered tree `t` shows a key that is absent from `t` — or an
  explicit collision of `H` is exhibited.

  Route: (1) every accepted existence proof *locates* its leaf: following the directions read off the
  inner ops (remainder of one byte after the three varints = the child hash is the left one, 34 bytes =
  the right one) from the root ends at the leaf `(key, value)`; (2) the verifier's padding tests force
  exactly those directions; (3) left-most / right-most / neighbouring direction lists end at the first /
  last / adjacent leaves of `toList`; (4) in a strictly sorted list no key lies strictly between
  neighbours, before the first or after the last.
-/
namespace Iavl
open Std

/-- the direction an inner op takes: `true` = the proved child is the right one -/
def dirOf (op : InnerOp) : Bool :=
  match take3 op.pfx with
  | some (_, rem) => rem.length == 34
  | none => false

variable {K V : Type}

/-- follow directions from the root (`true` = right) -/
def Node.follow : Node K V → List Bool → Option (Node K V)
  | t, [] => some t
  | .inner _ _ _ _ l r, d :: ds => (if d then r else l).follow ds
  | .leaf .., _ :: _ => none

theorem follow_append (t : Node K V) (a b : List Bool) :
    t.follow (a ++ b) = (t.follow a).bind (fun m => m.follow b) := by
  induction a generalizing t with
  | nil => simp [Node.follow]
  | cons d ds ih =>
    cases t with
    | leaf k v ver => simp [Node.follow]
    | inner k h sz ver l r => simp only [List.cons_append, Node.follow]; exact ih _

theorem follow_sub {t m : Node Bytes Bytes} {ds : List Bool} (h : t.follow ds = some m) : Sub m t := by
  induction ds generalizing t with
  | nil => simp only [Node.follow, Option.some.injEq] at h; subst h; exact sub_refl _
  | cons d ds ih =>
    cases t with
    | leaf k v ver => simp [Node.follow] at h
    | inner k hh sz ver l r =>
      simp only [Node.follow] at h
      have := ih h
      simp only [Sub]
      cases d
      · exact Or.inr (Or.inl (by simpa using this))
      · exact Or.inr (Or.inr (by simpa using this))

/-- all-left directions end at the first pair -/
theorem follow_allLeft (t : Node K V) (ds : List Bool) (k : K) (v : V) (ver : Option Nat)
    (h : t.follow ds = some (.leaf k v ver)) (hd : ∀ d ∈ ds, d = false) :
    ∃ B, t.toList = (k, v) :: B := by
  induction ds generalizing t with
  | nil => simp only [Node.follow, Option.some.injEq] at h; subst h; exact ⟨[], rfl⟩
  | cons d ds ih =>
    cases t with
    | leaf => simp [Node.follow] at h
    | inner k' hh sz ver' l r =>
      have hd0 : d = false := hd d (by simp)
      subst hd0
      simp only [Node.follow, Bool.false_eq_true, if_false] at h
      obtain ⟨B, hB⟩ := ih l h (fun d hd' => hd d (by simp [hd']))
      exact ⟨B ++ r.toList, by simp [Node.toList, hB]⟩

/-- all-right directions end at the last pair -/
theorem follow_allRight (t : Node K V) (ds : List Bool) (k : K) (v : V) (ver : Option Nat)
    (h : t.follow ds = some (.leaf k v ver)) (hd : ∀ d ∈ ds, d = true) :
    ∃ A, t.toList = A ++ [(k, v)] := by
  induction ds generalizing t with
  | nil => simp only [Node.follow, Option.some.injEq] at h; subst h; exact ⟨[], rfl⟩
  | cons d ds ih =>
    cases t with
    | leaf => simp [Node.follow] at h
    | inner k' hh sz ver' l r =>
      have hd0 : d = true := hd d (by simp)
      subst hd0
      simp only [Node.follow, if_true] at h
      obtain ⟨A, hA⟩ := ih r h (fun d hd' => hd d (by simp [hd']))
      exact ⟨l.toList ++ A, by simp [Node.toList, hA]⟩

end Iavl

namespace Iavl
open Std
variable (H : Bytes → Bytes) (hH : ∀ x, (H x).length = 32)
include hH

/-- `step_down` with the direction: the child whose hash `x` is, is the one `dirOf op` names -/
theorem step_down_dir (working : Nat) (m : Node Bytes Bytes) (hb : Bounded working m) (op : InnerOp)
    (hc : InnerChecked op) (x : Bytes) (hx : x.length = 32)
    (heq : applyInner H op x = hashNode H working m) :
    Collision H ∨ ∃ c, m.follow [dirOf op] = some c ∧ x = hashNode H working c := by
  cases m with
  | leaf k v ver =>
    by_cases hpre : op.pfx ++ x ++ op.sfx = preLeaf H working k v ver
    · exfalso
      obtain ⟨v3, rem, hp, _⟩ := hc.parses
      have hne : op.pfx ≠ [] := by
        intro h; rw [h] at hp; simp [take3, takeUvarint, takeUvarintGo] at hp
      have hhead : (op.pfx ++ x ++ op.sfx).head? = op.pfx.head? := by
        cases hpf : op.pfx with
        | nil => exact absurd hpf hne
        | cons a as => simp
      have : (preLeaf H working k v ver).head? = some 0 := by
        have hz : varint 0 = [0] := by
          unfold varint; simp; unfold uvarint; simp
        simp only [preLeaf, leafPrefix, hz, List.cons_append, List.nil_append, List.append_assoc, List.head?_cons]
      rw [hpre] at hhead
      exact hc.notLeaf (by rw [← hhead, this])
    · left
      exact ⟨_, _, hpre, by simpa [applyInner, hashNode, preLeaf] using heq⟩
  | inner k h sz ver l r =>
    obtain ⟨h1, hh, hsz, hver, hbl, hbr⟩ := hb
    by_cases hpre : op.pfx ++ x ++ op.sfx = preInner H working h sz ver l r
    · right
      obtain ⟨v3, rem, hp, hrem⟩ := hc.parses
      have hL := hashNode_length H hH working l
      have hR := hashNode_length H hH working r
      have hform : preInner H working h sz ver l r =
          uvarint (2 * h) ++ uvarint (2 * sz) ++ uvarint (2 * verOf ver working) ++
            (32 :: hashNode H working l ++ 32 :: hashNode H working r) := by
        have e1 : encBytes (hashNode H working l) = 32 :: hashNode H working l := by
          unfold encBytes; rw [hL]; unfold uvarint; simp
        have e2 : encBytes (hashNode H working r) = 32 :: hashNode H working r := by
          unfold encBytes; rw [hR]; unfold uvarint; simp
        simp only [preInner, innerPrefix, varint_nat, e1, e2, List.append_assoc]
      rw [hform, List.append_assoc] at hpre
      have hu := take3_unique op.pfx (x ++ op.sfx) _ rem v3 (2 * h) (2 * sz) (2 * verOf ver working)
        (by omega) (by omega) (by omega) hp hpre
      obtain ⟨_, hrest⟩ := hu
      rcases hrem with hrem | hrem
      · -- rem = [0x20]: x is the left child hash
        have hdir : dirOf op = false := by simp [dirOf, hp, hrem]
        refine ⟨l, by simp [Node.follow, hdir], ?_⟩
        cases rem with
        | nil => simp at hrem
        | cons b rem' =>
          have : rem' = [] := List.eq_nil_of_length_eq_zero (by simpa using hrem)
          subst this
          simp only [List.cons_append, List.nil_append, List.cons.injEq] at hrest
          have := List.append_inj hrest.2 (by rw [hx, hL])
          exact this.1
      · -- rem = 0x20‖L‖0x20: x is the right child hash
        have hdir : dirOf op = true := by simp [dirOf, hp, hrem]
        refine ⟨r, by simp [Node.follow, hdir], ?_⟩
        have hsplit : rem ++ (x ++ op.sfx) = (32 :: hashNode H working l ++ [32]) ++ hashNode H working r := by
          rw [hrest]; simp
        have h1 := List.append_inj hsplit (by simp [hrem, hL])
        have h2 : x ++ op.sfx = hashNode H working r ++ [] := by simpa using h1.2
        exact (List.append_inj h2 (by rw [hx, hR])).1
    · left
      exact ⟨_, _, hpre, by simpa [applyInner, hashNode, preInner] using heq⟩

/-- the whole path, root-first directions -/
theorem path_down_follow (working : Nat) (t : Node Bytes Bytes) (hb : Bounded working t)
    (ops : List InnerOp) (hops : ∀ op ∈ ops, InnerChecked op) (x : Bytes) (hx : x.length = 32)
    (heq : calcUp H x ops = hashNode H working t) :
    Collision H ∨ ∃ m, t.follow (ops.reverse.map dirOf) = some m ∧ x = hashNode H working m := by
  induction ops generalizing x with
  | nil => exact Or.inr ⟨t, by simp [Node.follow], heq⟩
  | cons op ops ih =>
    simp only [calcUp] at heq
    have hx' : (applyInner H op x).length = 32 := by simp [applyInner, hH]
    rcases ih (fun o ho => hops o (by simp [ho])) _ hx' heq with hc | ⟨m, hm, hxm⟩
    · exact Or.inl hc
    · rcases step_down_dir H hH working m (bounded_sub (follow_sub hm) hb) op (hops op (by simp)) x hx hxm with hc | ⟨c, hcm, hxc⟩
      · exact Or.inl hc
      · refine Or.inr ⟨c, ?_, hxc⟩
        simp only [List.reverse_cons, List.map_append, List.map_cons, List.map_nil]
        rw [follow_append, hm]
        simpa using hcm

end Iavl

namespace Iavl
open Std
variable (H : Bytes → Bytes) (hH : ∀ x, (H x).length = 32)
include hH

/-- a node whose hash is the leaf hash of the proof is that leaf -/
theorem leaf_identified (working : Nat) (m : Node Bytes Bytes) (hbm : Bounded working m) (hkm : KeysBounded m)
    (p : ExistProof) (hkey : p.key.length < 2 ^ 64) (hleaf : LeafChecked p.leafPfx)
    (hxm : applyLeaf H p = hashNode H working m) :
    Collision H ∨ ∃ ver, m = .leaf p.key p.value ver := by
  obtain ⟨v3, hp⟩ := hleaf.parses
  cases m with
  | inner k h sz ver l r =>
    left
    obtain ⟨h1, hh, _⟩ := hbm
    by_cases hpre : p.leafPfx ++ encBytes p.key ++ encBytes (H p.value) = preInner H working h sz ver l r
    · exfalso
      have hne : p.leafPfx ≠ [] := by
        intro h0; rw [h0] at hp; simp [take3, takeUvarint, takeUvarintGo] at hp
      have hhead : (p.leafPfx ++ encBytes p.key ++ encBytes (H p.value)).head? = some 0 := by
        cases hpf : p.leafPfx with
        | nil => exact absurd hpf hne
        | cons a as =>
          have := hleaf.isLeaf; rw [hpf] at this; simpa using this
      rw [hpre] at hhead
      have : (preInner H working h sz ver l r).head? = (uvarint (2 * h)).head? := by
        simp only [preInner, innerPrefix, varint_nat, List.append_assoc]
        cases hu : uvarint (2 * h) with
        | nil => exact absurd hu (uvarint_ne_nil _)
        | cons a as => simp
      rw [this, uvarint_head_zero_iff] at hhead
      omega
    · exact ⟨_, _, hpre, by simpa [applyLeaf, hashNode, preInner] using hxm⟩
  | leaf k v ver =>
    by_cases hpre : p.leafPfx ++ encBytes p.key ++ encBytes (H p.value) = preLeaf H working k v ver
    · have hform : preLeaf H working k v ver =
          uvarint 0 ++ uvarint 2 ++ uvarint (2 * verOf ver working) ++ (encBytes k ++ encBytes (H v)) := by
        have e0 : varint 0 = uvarint 0 := by simpa using varint_nat 0
        have e1 : varint 1 = uvarint 2 := by simpa using varint_nat 1
        simp only [preLeaf, leafPrefix, e0, e1, varint_nat, List.append_assoc]
      rw [hform, List.append_assoc] at hpre
      have hver : verOf ver working < 2 ^ 62 := hbm
      obtain ⟨_, hrest⟩ := take3_unique p.leafPfx _ _ [] v3 0 2 (2 * verOf ver working)
        (by decide) (by decide) (by omega) hp hpre
      simp only [List.nil_append] at hrest
      have hkb : k.length < 2 ^ 64 := hkm
      obtain ⟨hkeq, hvals⟩ := encBytes_append_inj H hH p.key _ k _ hkey hkb hrest
      rw [encBytes_hash H hH, encBytes_hash H hH] at hvals
      have hvh : H p.value = H v := by simpa using hvals
      by_cases hv : p.value = v
      · right; exact ⟨ver, by rw [hkeq, hv]⟩
      · exact Or.inl ⟨_, _, hv, hvh⟩
    · exact Or.inl ⟨_, _, hpre, by simpa [applyLeaf, hashNode, preLeaf] using hxm⟩

/-- **An accepted existence proof locates its leaf**: following the directions of its ops from the
    root ends at the leaf `(key, value)`. -/
theorem exist_located (working : Nat) (t : Node Bytes Bytes) (hb : Bounded working t)
    (hk : KeysBounded t) (p : ExistProof) (hkey : p.key.length < 2 ^ 64)
    (hleaf : LeafChecked p.leafPfx) (hops : ∀ op ∈ p.path, InnerChecked op)
    (hroot : calcRoot H p = hashNode H working t) :
    Collision H ∨ ∃ ver, t.follow (p.path.reverse.map dirOf) = some (.leaf p.key p.value ver) := by
  rw [calcRoot_eq_calcUp] at hroot
  have hx : (applyLeaf H p).length = 32 := by simp [applyLeaf, hH]
  rcases path_down_follow H hH working t hb p.path hops _ hx hroot with hc | ⟨m, hm, hxm⟩
  · exact Or.inl hc
  · have hsub := follow_sub hm
    rcases leaf_identified H hH working m (bounded_sub hsub hb) (keysBounded_sub H hH hsub hk) p hkey hleaf hxm with hc | ⟨ver, hmv⟩
    · exact Or.inl hc
    · exact Or.inr ⟨ver, by rw [hm, hmv]⟩

end Iavl

namespace Iavl
open Std

/-- `binary.ReadUvarint` reads at most ten bytes -/
theorem takeUvarintGo_consumed (bz : Bytes) (i x s n : Nat) (r : Bytes) (hi : i ≤ 10)
    (h : takeUvarintGo bz i x s = some (n, r)) : bz.length + i ≤ r.length + 10 := by
  induction bz generalizing i x s with
  | nil => simp [takeUvarintGo] at h
  | cons b rest ih =>
    simp only [takeUvarintGo] at h
    split at h
    · cases h
    · rename_i h10
      split at h
      · split at h
        · cases h
        · simp only [Option.some.injEq, Prod.mk.injEq] at h
          rw [← h.2]; simp only [List.length_cons]
          omega
      · have := ih (i + 1) _ _ (by omega) h
        simp only [List.length_cons]; omega

/-- three varints take between 3 and 30 bytes -/
theorem take3_lengths (pfx rem : Bytes) (v : Nat × Nat × Nat) (h : take3 pfx = some (v, rem)) :
    rem.length + 3 ≤ pfx.length ∧ pfx.length ≤ rem.length + 30 := by
  unfold take3 at h
  cases h1 : takeUvarint pfx with
  | none => simp [h1] at h
  | some p1 =>
    obtain ⟨a, r1⟩ := p1
    rw [h1] at h; simp only at h
    cases h2 : takeUvarint r1 with
    | none => simp [h2] at h
    | some p2 =>
      obtain ⟨b, r2⟩ := p2
      rw [h2] at h; simp only at h
      cases h3 : takeUvarint r2 with
      | none => simp [h3] at h
      | some p3 =>
        obtain ⟨c, r3⟩ := p3
        rw [h3] at h; simp only [Option.some.injEq, Prod.mk.injEq] at h
        have l1 := takeUvarintGo_length pfx 0 0 0 a r1 h1
        have l2 := takeUvarintGo_length r1 0 0 0 b r2 h2
        have l3 := takeUvarintGo_length r2 0 0 0 c r3 h3
        have u1 := takeUvarintGo_consumed pfx 0 0 0 a r1 (by omega) h1
        have u2 := takeUvarintGo_consumed r1 0 0 0 b r2 (by omega) h2
        have u3 := takeUvarintGo_consumed r2 0 0 0 c r3 (by omega) h3
        rw [← h.2]
        omega

/-- the executable structural checks give the `Prop`-level ones used by the soundness proofs -/
theorem checkLeaf_checked (pfx : Bytes) (h : checkLeaf pfx = true) : LeafChecked pfx := by
  simp only [checkLeaf, validateIavlOp, Bool.and_eq_true] at h
  obtain ⟨hv, hhead⟩ := h
  cases ht : take3 pfx with
  | none => simp [ht] at hv
  | some pr =>
    obtain ⟨⟨x, y, z⟩, rem⟩ := pr
    simp only [ht, Bool.and_eq_true, beq_iff_eq] at hv
    have hrem : rem = [] := by
      have := hv.2; simpa using this
    exact ⟨⟨(x, y, z), by rw [hrem] at ht; exact ht⟩, by simpa using hhead⟩

theorem checkInner_checked (op : InnerOp) (layer : Nat) (hl : 1 ≤ layer) (h : checkInner op layer = true) :
    InnerChecked op := by
  simp only [checkInner, validateIavlOp, Bool.and_eq_true] at h
  obtain ⟨⟨⟨⟨hv, hhead⟩, _⟩, _⟩, _⟩ := h
  cases ht : take3 op.pfx with
  | none => simp [ht] at hv
  | some pr =>
    obtain ⟨⟨x, y, z⟩, rem⟩ := pr
    simp only [ht, Bool.and_eq_true] at hv
    have hb : (layer == 0) = false := by simp; omega
    have hrem := hv.2
    simp only [hb, Bool.false_eq_true, if_false, Bool.or_eq_true, beq_iff_eq] at hrem
    exact ⟨⟨(x, y, z), rem, ht, hrem⟩, by simpa using hhead⟩

theorem checkPath_checked (ops : List InnerOp) (layer : Nat) (hl : 1 ≤ layer) (h : checkPath ops layer = true) :
    ∀ op ∈ ops, InnerChecked op := by
  induction ops generalizing layer with
  | nil => simp
  | cons op ops ih =>
    simp only [checkPath, Bool.and_eq_true] at h
    intro o ho
    rcases List.mem_cons.mp ho with ho | ho
    · subst ho; exact checkInner_checked _ layer hl h.1
    · exact ih (layer + 1) (by omega) h.2 o ho

/-- the verifier's padding tests name the same direction as the parse -/
theorem padLeft_dir (op : InnerOp) (hc : InnerChecked op) (h : padLeft op = true) : dirOf op = false := by
  obtain ⟨v, rem, hp, hrem⟩ := hc.parses
  have hl := take3_lengths op.pfx rem v hp
  simp only [padLeft, icsMinPrefix, icsMaxPrefix, icsChildSize, Bool.and_eq_true] at h
  obtain ⟨⟨h4, h12⟩, _⟩ := h
  have h4 := of_decide_eq_true h4
  have h12 := of_decide_eq_true h12
  have : rem.length = 1 := by rcases hrem with h1 | h1 <;> omega
  simp [dirOf, hp, this]

theorem padRight_dir (op : InnerOp) (hc : InnerChecked op) (h : padRight op = true) : dirOf op = true := by
  obtain ⟨v, rem, hp, hrem⟩ := hc.parses
  have hl := take3_lengths op.pfx rem v hp
  simp only [padRight, icsMinPrefix, icsMaxPrefix, icsChildSize, Bool.and_eq_true] at h
  obtain ⟨⟨h37, h45⟩, _⟩ := h
  have h37 := of_decide_eq_true h37
  have h45 := of_decide_eq_true h45
  have : rem.length = 34 := by rcases hrem with h1 | h1 <;> omega
  simp [dirOf, hp, this]

end Iavl

namespace Iavl
open Std

theorem innerOp_ext (a b : InnerOp) (h1 : a.pfx = b.pfx) (h2 : a.sfx = b.sfx) : a = b := by
  cases a; cases b; simp_all

/-- two located leaves whose paths the verifier accepts as neighbours are adjacent in `toList` -/
theorem neighbor_adjacent (t : Node Bytes Bytes) (lo ro : List InnerOp)
    (hl : ∀ op ∈ lo, InnerChecked op) (hr : ∀ op ∈ ro, InnerChecked op)
    (hn : isLeftNeighborRF lo ro = true)
    (lk lv rk rv : Bytes) (lver rver : Option Nat)
    (fl : t.follow (lo.map dirOf) = some (.leaf lk lv lver))
    (fr : t.follow (ro.map dirOf) = some (.leaf rk rv rver)) :
    ∃ A B, t.toList = A ++ (lk, lv) :: (rk, rv) :: B := by
  induction lo generalizing t ro with
  | nil => simp [isLeftNeighborRF] at hn
  | cons l ls ih =>
    cases ro with
    | nil => simp [isLeftNeighborRF] at hn
    | cons r rs =>
      cases t with
      | leaf k v ver => simp [Node.follow] at fl
      | inner k h sz ver tl tr =>
        simp only [isLeftNeighborRF] at hn
        simp only [List.map_cons, Node.follow] at fl fr
        by_cases heq : (l.pfx == r.pfx && l.sfx == r.sfx) = true
        · simp only [heq, if_true] at hn
          simp only [Bool.and_eq_true, beq_iff_eq] at heq
          have hlr : l = r := innerOp_ext l r heq.1 heq.2
          subst hlr
          obtain ⟨A, B, hAB⟩ := ih _ rs (fun o ho => hl o (by simp [ho])) (fun o ho => hr o (by simp [ho])) hn fl fr
          cases hd : dirOf l
          · simp only [hd, Bool.false_eq_true, if_false] at hAB
            exact ⟨A, B ++ tr.toList, by simp [Node.toList, hAB]⟩
          · simp only [hd, if_true] at hAB
            exact ⟨tl.toList ++ A, B, by simp [Node.toList, hAB]⟩
        · simp only [heq, Bool.false_eq_true, if_false, Bool.and_eq_true] at hn
          obtain ⟨⟨⟨hpl, hpr⟩, hrm⟩, hlm⟩ := hn
          have dl : dirOf l = false := padLeft_dir l (hl l (by simp)) hpl
          have dr : dirOf r = true := padRight_dir r (hr r (by simp)) hpr
          simp only [dl, Bool.false_eq_true, if_false] at fl
          simp only [dr, if_true] at fr
          have hallR : ∀ d ∈ ls.map dirOf, d = true := by
            intro d hd
            obtain ⟨o, ho, hod⟩ := List.mem_map.mp hd
            rw [← hod]
            exact padRight_dir o (hl o (by simp [ho])) (by
              simp only [isRightMost, List.all_eq_true] at hrm; exact hrm o ho)
          have hallL : ∀ d ∈ rs.map dirOf, d = false := by
            intro d hd
            obtain ⟨o, ho, hod⟩ := List.mem_map.mp hd
            rw [← hod]
            exact padLeft_dir o (hr o (by simp [ho])) (by
              simp only [isLeftMost, List.all_eq_true] at hlm; exact hlm o ho)
          obtain ⟨A, hA⟩ := follow_allRight tl _ lk lv lver fl hallR
          obtain ⟨B, hB⟩ := follow_allLeft tr _ rk rv rver fr hallL
          exact ⟨A, B, by simp [Node.toList, hA, hB]⟩

variable (H : Bytes → Bytes) (hH : ∀ x, (H x).length = 32)
include hH

/-- what an accepted existence proof gives: checked ops and a located leaf -/
theorem verifyExist_located (working : Nat) (t : Node Bytes Bytes) (hb : Bounded working t)
    (hk : KeysBounded t) (p : ExistProof) (key value : Bytes) (hkey : p.key.length < 2 ^ 64)
    (hv : verifyExist H (hashNode H working t) p key value = true) :
    (∀ op ∈ p.path, InnerChecked op) ∧
    (Collision H ∨ ∃ ver, t.follow (p.path.reverse.map dirOf) = some (.leaf p.key p.value ver)) := by
  simp only [verifyExist, Bool.and_eq_true, beq_iff_eq] at hv
  obtain ⟨⟨⟨⟨⟨⟨⟨hleaf, _⟩, hpath⟩, _⟩, _⟩, _⟩, _⟩, hroot⟩ := hv
  have hops := checkPath_checked p.path 1 (by omega) hpath
  exact ⟨hops, exist_located H hH working t hb hk p hkey (checkLeaf_checked _ hleaf) hops hroot⟩

end Iavl

namespace Iavl
open Std

/-- in a strictly sorted list, a key strictly between two adjacent entries is absent -/
theorem absent_between (A B : List (Bytes × Bytes)) (a b : Bytes × Bytes) (key : Bytes)
    (hs : SortedKV (A ++ a :: b :: B)) (h1 : compare a.1 key = .lt) (h2 : compare key b.1 = .lt) :
    lookup key (A ++ a :: b :: B) = none := by
  rw [lookup_none_iff]
  unfold SortedKV at hs
  rw [List.pairwise_append] at hs
  obtain ⟨_, hab, hA⟩ := hs
  rw [List.pairwise_cons] at hab
  obtain ⟨ha, hbB⟩ := hab
  rw [List.pairwise_cons] at hbB
  intro p hp hc
  rcases List.mem_append.mp hp with hp | hp
  · have : compare p.1 a.1 = .lt := hA p hp a (by simp)
    have : compare p.1 key = .lt := TransCmp.lt_trans this h1
    rw [OrientedCmp.eq_comm] at hc; rw [hc] at this; cases this
  · rcases List.mem_cons.mp hp with hp | hp
    · subst hp; rw [OrientedCmp.eq_comm] at hc; rw [hc] at h1; cases h1
    · rcases List.mem_cons.mp hp with hp | hp
      · subst hp; rw [hc] at h2; cases h2
      · have : compare b.1 p.1 = .lt := hbB.1 p hp
        have : compare key p.1 = .lt := TransCmp.lt_trans h2 this
        rw [hc] at this; cases this

theorem absent_before (B : List (Bytes × Bytes)) (b : Bytes × Bytes) (key : Bytes)
    (hs : SortedKV (b :: B)) (h2 : compare key b.1 = .lt) : lookup key (b :: B) = none := by
  rw [lookup_none_iff]
  unfold SortedKV at hs
  rw [List.pairwise_cons] at hs
  intro p hp hc
  rcases List.mem_cons.mp hp with hp | hp
  · subst hp; rw [hc] at h2; cases h2
  · have : compare key p.1 = .lt := TransCmp.lt_trans h2 (hs.1 p hp)
    rw [hc] at this; cases this

theorem absent_after (A : List (Bytes × Bytes)) (a : Bytes × Bytes) (key : Bytes)
    (hs : SortedKV (A ++ [a])) (h1 : compare a.1 key = .lt) : lookup key (A ++ [a]) = none := by
  rw [lookup_none_iff]
  unfold SortedKV at hs
  rw [List.pairwise_append] at hs
  obtain ⟨_, _, hA⟩ := hs
  intro p hp hc
  rcases List.mem_append.mp hp with hp | hp
  · have : compare p.1 key = .lt := TransCmp.lt_trans (hA p hp a (by simp)) h1
    rw [OrientedCmp.eq_comm] at hc; rw [hc] at this; cases this
  · have : p = a := by simpa using hp
    subst this; rw [OrientedCmp.eq_comm] at hc; rw [hc] at h1; cases h1

variable (H : Bytes → Bytes) (hH : ∀ x, (H x).length = 32)
include hH

/-- **Non-membership soundness.** A non-existence proof that the ics23 verifier accepts for `key`
    against the root hash of an ordered tree shows that `key` is absent from the tree, or a collision
    of `H` is exhibited. -/
theorem nonmembership_sound (working : Nat) (t : Node Bytes Bytes) (ho : Ordered t)
    (hb : Bounded working t) (hk : KeysBounded t) (p : NonExistProof) (key : Bytes)
    (hkl : ∀ l, p.left = some l → l.key.length < 2 ^ 64)
    (hkr : ∀ r, p.right = some r → r.key.length < 2 ^ 64)
    (hv : verifyNonExist H (hashNode H working t) p key = true) :
    lookup key t.toList = none ∨ Collision H := by
  have hs := sortedKV_toList t ho
  simp only [verifyNonExist, Bool.and_eq_true] at hv
  obtain ⟨⟨⟨⟨hvl, hvr⟩, hcr⟩, hcl⟩, hshape⟩ := hv
  cases hL : p.left with
  | none =>
    cases hR : p.right with
    | none => simp [hL, hR] at hshape
    | some r =>
      simp only [hL, hR] at hshape hvr hcr
      obtain ⟨hopsr, hlocr⟩ := verifyExist_located H hH working t hb hk r r.key r.value (hkr r hR) hvr
      rcases hlocr with hc | ⟨ver, hf⟩
      · exact Or.inr hc
      · left
        have hall : ∀ d ∈ r.path.reverse.map dirOf, d = false := by
          intro d hd
          obtain ⟨o, ho', hod⟩ := List.mem_map.mp hd
          rw [← hod]
          have ho'' : o ∈ r.path := by simpa using ho'
          exact padLeft_dir o (hopsr o ho'') (by
            simp only [isLeftMost, List.all_eq_true] at hshape; exact hshape o ho'')
        obtain ⟨B, hB⟩ := follow_allLeft t _ r.key r.value ver hf hall
        rw [hB] at hs ⊢
        exact absent_before B (r.key, r.value) key hs (by simpa using hcr)
  | some l =>
    simp only [hL] at hvl hcl
    obtain ⟨hopsl, hlocl⟩ := verifyExist_located H hH working t hb hk l l.key l.value (hkl l hL) hvl
    rcases hlocl with hc | ⟨lver, hfl⟩
    · exact Or.inr hc
    · cases hR : p.right with
      | none =>
        simp only [hL, hR] at hshape
        left
        have hall : ∀ d ∈ l.path.reverse.map dirOf, d = true := by
          intro d hd
          obtain ⟨o, ho', hod⟩ := List.mem_map.mp hd
          rw [← hod]
          have ho'' : o ∈ l.path := by simpa using ho'
          exact padRight_dir o (hopsl o ho'') (by
            simp only [isRightMost, List.all_eq_true] at hshape; exact hshape o ho'')
        obtain ⟨A, hA⟩ := follow_allRight t _ l.key l.value lver hfl hall
        rw [hA] at hs ⊢
        exact absent_after A (l.key, l.value) key hs (by simpa using hcl)
      | some r =>
        simp only [hL, hR] at hshape hvr hcr
        obtain ⟨hopsr, hlocr⟩ := verifyExist_located H hH working t hb hk r r.key r.value (hkr r hR) hvr
        rcases hlocr with hc | ⟨rver, hfr⟩
        · exact Or.inr hc
        · left
          simp only [isLeftNeighbor] at hshape
          obtain ⟨A, B, hAB⟩ := neighbor_adjacent t l.path.reverse r.path.reverse
            (fun o ho' => hopsl o (by simpa using ho')) (fun o ho' => hopsr o (by simpa using ho'))
            hshape l.key l.value r.key r.value lver rver hfl hfr
          rw [hAB] at hs ⊢
          exact absent_between A B (l.key, l.value) (r.key, r.value) key hs (by simpa using hcl) (by simpa using hcr)

end Iavl
