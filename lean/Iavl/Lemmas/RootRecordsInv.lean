import Iavl.Model.RootRecords
/-
  C04 / C12 / C14: the root records stay right. `Inv` relates the store to the truth about the retained
  versions (`World`: which node is the root of each version, which nodes each version's tree consists of);
  `SaveVersion` and `deleteVersion` keep it; under it `GetRoot` finds the root of every retained version,
  `GetNode` finds every node of every retained version, and `hasVersion` is true exactly for the retained
  versions.
-/
namespace Iavl.Roots

structure World where
  first : Nat
  latest : Nat                      -- retained versions: first ≤ v ≤ latest (none when latest < first)
  root : Nat → Option NKey          -- the root of version v (`none`: empty tree)
  nodes : Nat → List NKey           -- the nodes of version v's tree

def World.retained (w : World) (v : Nat) : Prop := w.first ≤ v ∧ v ≤ w.latest

/-- where a node is stored: the root of a deleted version lives under nonce 0 -/
def phys (first : Nat) (id : NKey) : NKey := if id.2 = 1 ∧ id.1 < first then (id.1, 0) else id

structure Inv (s : Store) (w : World) : Prop where
  recEmpty : ∀ v, w.retained v → w.root v = none → s (v, 1) = some .empty
  recOwn : ∀ v, w.retained v → w.root v = some (v, 1) → s (v, 1) = some (.node (v, 1))
  recRef : ∀ v id, w.retained v → w.root v = some id → id ≠ (v, 1) → s (v, 1) = some (.ref id) ∧ id.1 < v
  rootIn : ∀ v id, w.retained v → w.root v = some id → id ∈ w.nodes v
  emptyNodes : ∀ v, w.retained v → w.root v = none → w.nodes v = []
  stored : ∀ v id, w.retained v → id ∈ w.nodes v → s (phys w.first id) = some (.node id) ∧ 1 ≤ id.2 ∧ id.1 ≤ v
  gone : ∀ v, ¬ w.retained v → s (v, 1) = none
  nonce1 : ∀ v id, w.retained v → id ∈ w.nodes v → id.2 = 1 → w.first ≤ id.1 → w.root id.1 = some id
  share : ∀ v id, w.retained v → w.retained (v + 1) → id ∈ w.nodes (v + 1) → id.1 ≤ v → id ∈ w.nodes v
  bound : ∀ k, (s k).isSome = true → k.1 ≤ w.latest

theorem delAll_apply (s : Store) (ks : List NKey) (k : NKey) :
    (s.delAll ks) k = if k ∈ ks then none else s k := by
  induction ks generalizing s with
  | nil => simp [Store.delAll]
  | cons a t ih =>
    simp only [Store.delAll, List.foldl_cons] at ih ⊢
    rw [ih]
    by_cases h1 : k ∈ t
    · simp [h1]
    · by_cases h2 : k = a
      · subst h2; simp [h1, Store.del]
      · simp [h1, h2, Store.del]

theorem phys_inj (first : Nat) (a b : NKey) (ha : 1 ≤ a.2) (hb : 1 ≤ b.2) (h : phys first a = phys first b) : a = b := by
  unfold phys at h
  split at h <;> split at h
  · rename_i h1 h2
    have : a.1 = b.1 := by simpa using congrArg Prod.fst h
    exact Prod.ext this (by omega)
  · have := congrArg Prod.snd h; simp at this; omega
  · have := congrArg Prod.snd h; simp at this; omega
  · exact h

theorem phys_nonce0 (first : Nat) (id : NKey) (h1 : 1 ≤ id.2) (v : Nat) (h : phys first id = (v, 0)) :
    id = (v, 1) ∧ v < first := by
  unfold phys at h
  split at h
  · rename_i hc
    have e1 : id.1 = v := by simpa using congrArg Prod.fst h
    exact ⟨Prod.ext e1 hc.1, by omega⟩
  · have := congrArg Prod.snd h; simp at this; omega

/-- **`GetRoot` finds the root of every retained version** -/
theorem getRoot_retained (s : Store) (w : World) (h : Inv s w) (v : Nat) (hv : w.retained v) :
    getRoot s v = match w.root v with | none => .emptyTree | some id => .at (phys w.first id) := by
  unfold getRoot
  cases hr : w.root v with
  | none => simp [h.recEmpty v hv hr]
  | some id =>
    simp only
    by_cases hid : id = (v, 1)
    · subst hid
      rw [h.recOwn v hv hr]
      have : phys w.first (v, 1) = (v, 1) := by
        unfold phys; have := hv.1; simp; omega
      simp [this]
    · obtain ⟨hrec, hlt⟩ := h.recRef v id hv hr hid
      rw [hrec]
      have hst := h.stored v id hv (h.rootIn v id hv hr)
      simp only
      by_cases hp : id.2 = 1 ∧ id.1 < w.first
      · have hphys : phys w.first id = (id.1, 0) := by simp [phys, hp]
        have hgone : s id = none := by
          have := h.gone id.1 (by intro hc; have := hc.1; omega)
          have e : id = (id.1, 1) := Prod.ext rfl hp.1
          rw [e]; exact this
        rw [hphys] at hst ⊢
        simp [hgone, hst.1]
      · have hphys : phys w.first id = id := by simp [phys, hp]
        rw [hphys] at hst ⊢
        simp [hst.1]

/-- **`GetNode` finds every node of every retained version** (child pointers and references name the key the
    node was created under; a re-keyed root is found through the fallback) -/
theorem getNode_retained (s : Store) (w : World) (h : Inv s w) (v : Nat) (hv : w.retained v) (id : NKey)
    (hid : id ∈ w.nodes v) : getNode s id = some (.node id) := by
  obtain ⟨hst, h1, _⟩ := h.stored v id hv hid
  unfold getNode
  by_cases hp : id.2 = 1 ∧ id.1 < w.first
  · have hphys : phys w.first id = (id.1, 0) := by simp [phys, hp]
    have hgone : s id = none := by
      have := h.gone id.1 (by intro hc; have := hc.1; omega)
      have e : id = (id.1, 1) := Prod.ext rfl hp.1
      rw [e]; exact this
    rw [hphys] at hst
    simp [hgone, hp.1, hst]
  · have hphys : phys w.first id = id := by simp [phys, hp]
    rw [hphys] at hst
    simp [hst]

/-- **`hasVersion` is true exactly for the retained versions** -/
theorem hasVersion_iff (s : Store) (w : World) (h : Inv s w) (v : Nat) :
    hasVersion s v = true ↔ w.retained v := by
  unfold hasVersion
  by_cases hv : w.retained v
  · simp only [hv, iff_true]
    cases hr : w.root v with
    | none => simp [h.recEmpty v hv hr]
    | some id =>
      by_cases hid : id = (v, 1)
      · subst hid; simp [h.recOwn v hv hr]
      · simp [(h.recRef v id hv hr hid).1]
  · simp [hv, h.gone v hv]

/-! ### `deleteVersion` -/

theorem deleteVersion_other (s : Store) (v : Nat) (os : List NKey) (k : NKey) (h1 : k ≠ (v, 1)) (h0 : k ≠ (v, 0)) :
    (deleteVersion s v os) k = if k ∈ os.map (orphanKey v) then none else s k := by
  have hd := delAll_apply s (os.map (orphanKey v)) k
  unfold deleteVersion
  cases hg : getRoot s v with
  | notExist => simp only [Store.del, h1, if_false]; exact hd
  | emptyTree => simp only [Store.del, h1, if_false]; exact hd
  | «at» k' =>
    simp only
    by_cases hk : k' = (v, 1)
    · simp only [hk, if_true]
      by_cases hro : (os.any fun id => id.2 == 1 && id.1 == v) = true
      · simp only [hro, if_true]; exact hd
      · simp only [hro, Bool.false_eq_true, if_false, Store.del, Store.set, h1, h0]; exact hd
    · simp only [hk, if_false, Store.del, h1]; exact hd

theorem chain_share (s : Store) (w : World) (h : Inv s w) (v : Nat) (hv : w.retained v) (id : NKey) (hid : id.1 ≤ v) :
    ∀ d, w.retained (v + 1 + d) → id ∈ w.nodes (v + 1 + d) → id ∈ w.nodes (v + 1) := by
  intro d
  induction d with
  | zero => intro _ hm; exact hm
  | succ d ih =>
    intro hr hm
    have hr' : w.retained (v + 1 + d) := ⟨by have := hv.1; omega, by have := hr.2; omega⟩
    have : id ∈ w.nodes (v + 1 + d) :=
      h.share (v + 1 + d) id hr' (by simpa [Nat.add_assoc] using hr) (by simpa [Nat.add_assoc] using hm) (by omega)
    exact ih hr' this

/-- **deleting the lowest version keeps the root records right**: `os` is what `traverseOrphans` reports - the
    nodes of the lowest version that the next version does not use (C04 `orphans_exact_of_every_history`) -/
theorem inv_deleteVersion (s : Store) (w : World) (h : Inv s w) (hlt : w.first < w.latest) (os : List NKey)
    (hos : ∀ id, id ∈ os ↔ id ∈ w.nodes w.first ∧ id ∉ w.nodes (w.first + 1)) :
    Inv (deleteVersion s w.first os) { w with first := w.first + 1 } := by
  have hv : w.retained w.first := ⟨Nat.le_refl _, Nat.le_of_lt hlt⟩
  have hv1 : w.retained (w.first + 1) := ⟨by omega, hlt⟩
  have hsub : ∀ x, ({ w with first := w.first + 1 } : World).retained x → w.retained x := by
    intro x hx; exact ⟨by have := hx.1; simp only at this; omega, hx.2⟩
  -- a node of a later version that is at most as old as the lowest version belongs to the next version
  have hchain : ∀ x id, ({ w with first := w.first + 1 } : World).retained x → id ∈ w.nodes x → id.1 ≤ w.first →
      id ∈ w.nodes (w.first + 1) := by
    intro x id hx hm hle
    have hx1 : w.first + 1 ≤ x := hx.1
    obtain ⟨d, rfl⟩ : ∃ d, x = w.first + 1 + d := ⟨x - (w.first + 1), by omega⟩
    exact chain_share s w h w.first hv id hle d (hsub _ hx) hm
  -- no key of a node that a later version uses is deleted
  have hkeep : ∀ x id, ({ w with first := w.first + 1 } : World).retained x → id ∈ w.nodes x →
      phys w.first id ∉ os.map (orphanKey w.first) := by
    intro x id hx hm hc
    obtain ⟨o, ho, he⟩ := List.mem_map.mp hc
    have ho' := (hos o).mp ho
    have h1o := (h.stored w.first o hv ho'.1).2
    have h1i := (h.stored x id (hsub x hx) hm).2
    have : o = id := phys_inj w.first o id h1o.1 h1i.1 he
    subst this
    exact ho'.2 (hchain x o hx hm h1o.2)
  -- the record of the deleted version is gone
  have hgone : (deleteVersion s w.first os) (w.first, 1) = none := by
    have hgr := getRoot_retained s w h w.first hv
    unfold deleteVersion
    cases hr : w.root w.first with
    | none => rw [hr] at hgr; simp [hgr, Store.del]
    | some id =>
      rw [hr] at hgr
      simp only at hgr
      rw [hgr]
      simp only
      by_cases hid : id = (w.first, 1)
      · subst hid
        have hp : phys w.first (w.first, 1) = (w.first, 1) := by simp [phys]
        rw [hp]
        simp only [if_true]
        split
        · rename_i horph
          simp only [List.any_eq_true, Bool.and_eq_true, beq_iff_eq] at horph
          obtain ⟨o, ho, h2, h1⟩ := horph
          have : o = (w.first, 1) := Prod.ext h1 h2
          subst this
          rw [delAll_apply]
          have : (w.first, 1) ∈ os.map (orphanKey w.first) :=
            List.mem_map.mpr ⟨(w.first, 1), ho, by simp [orphanKey]⟩
          simp [this]
        · simp [Store.del]
      · have hne : phys w.first id ≠ (w.first, 1) := by
          intro hc
          have h1i := (h.stored w.first id hv (h.rootIn _ _ hv hr)).2
          have : phys w.first id = phys w.first (w.first, 1) := by rw [hc]; simp [phys]
          exact hid (phys_inj w.first id (w.first, 1) h1i.1 (by simp) this)
        simp [hne, Store.del]
  -- records of the later versions are untouched
  have hrec : ∀ x, ({ w with first := w.first + 1 } : World).retained x →
      (deleteVersion s w.first os) (x, 1) = s (x, 1) := by
    intro x hx
    have hx1 : w.first + 1 ≤ x := hx.1
    rw [deleteVersion_other s w.first os (x, 1) (by intro hc; have := congrArg Prod.fst hc; simp at this; omega)
      (by intro hc; have := congrArg Prod.snd hc; simp at this)]
    have : (x, 1) ∉ os.map (orphanKey w.first) := by
      intro hc
      obtain ⟨o, ho, he⟩ := List.mem_map.mp hc
      have ho' := (hos o).mp ho
      have h1o := (h.stored w.first o hv ho'.1).2
      have hpx : phys w.first (x, 1) = (x, 1) := by simp [phys]; omega
      have : o = (x, 1) := phys_inj w.first o (x, 1) h1o.1 (by simp) (by rw [hpx]; exact he)
      subst this
      have := h1o.2
      simp only at this
      omega
    simp [this]
  refine
    { recEmpty := fun x hx hr => by rw [hrec x hx]; exact h.recEmpty x (hsub x hx) hr
      recOwn := fun x hx hr => by rw [hrec x hx]; exact h.recOwn x (hsub x hx) hr
      recRef := fun x id hx hr hid => by rw [hrec x hx]; exact h.recRef x id (hsub x hx) hr hid
      rootIn := fun x id hx hr => h.rootIn x id (hsub x hx) hr
      emptyNodes := fun x hx hr => h.emptyNodes x (hsub x hx) hr
      stored := ?_
      gone := ?_
      nonce1 := fun x id hx hm h1 hf => h.nonce1 x id (hsub x hx) hm h1 (by simp only at hf; omega)
      share := fun x id hx hx1 hm hle => h.share x id (hsub x hx) (hsub _ hx1) hm hle
      bound := ?_ }
  · -- stored
    intro x id hx hm
    have hst := h.stored x id (hsub x hx) hm
    refine ⟨?_, hst.2⟩
    simp only
    by_cases hid : id = (w.first, 1)
    · subst hid
      have hp : phys (w.first + 1) (w.first, 1) = (w.first, 0) := by simp [phys]
      rw [hp]
      have hnext : (w.first, 1) ∈ w.nodes (w.first + 1) := hchain x _ hx hm (Nat.le_refl _)
      have hroot : w.root w.first = some (w.first, 1) :=
        h.nonce1 x (w.first, 1) (hsub x hx) hm rfl (Nat.le_refl _)
      have hnot : (w.first, 1) ∉ os := fun hc => ((hos _).mp hc).2 hnext
      have hgr := getRoot_retained s w h w.first hv
      rw [hroot] at hgr
      have hp1 : phys w.first (w.first, 1) = (w.first, 1) := by simp [phys]
      simp only [hp1] at hgr
      unfold deleteVersion
      simp only [hgr, if_true]
      have hany : (os.any fun id => id.2 == 1 && id.1 == w.first) = false := by
        rw [List.any_eq_false]
        intro o ho hc
        simp only [Bool.and_eq_true, beq_iff_eq] at hc
        have : o = (w.first, 1) := Prod.ext hc.2 hc.1
        subst this; exact hnot ho
      simp [hany, Store.del, Store.set]
    · have hp : phys (w.first + 1) id = phys w.first id := by
        unfold phys
        by_cases h1 : id.2 = 1
        · have : id.1 ≠ w.first := fun hc => hid (Prod.ext hc h1)
          by_cases h2 : id.1 < w.first
          · have : id.1 < w.first + 1 := by omega
            simp [h1, h2, this]
          · have : ¬ id.1 < w.first + 1 := by omega
            simp [h1, h2, this]
        · simp [h1]
      rw [hp]
      have hk1 : phys w.first id ≠ (w.first, 1) := by
        intro hc
        have : phys w.first id = phys w.first (w.first, 1) := by rw [hc]; simp [phys]
        exact hid (phys_inj w.first id (w.first, 1) hst.2.1 (by simp) this)
      have hk0 : phys w.first id ≠ (w.first, 0) := by
        intro hc
        have := (phys_nonce0 w.first id hst.2.1 w.first hc).2
        omega
      rw [deleteVersion_other s w.first os _ hk1 hk0]
      simp only [hkeep x id hx hm, if_false]
      exact hst.1
  · -- gone
    intro x hx
    by_cases hxv : x = w.first
    · subst hxv; exact hgone
    · have hnr : ¬ w.retained x := by
        intro hc; apply hx; exact ⟨by have := hc.1; simp only; omega, hc.2⟩
      rw [deleteVersion_other s w.first os (x, 1) (by intro hc; exact hxv (by simpa using congrArg Prod.fst hc))
        (by intro hc; have := congrArg Prod.snd hc; simp at this)]
      split
      · rfl
      · exact h.gone x hnr
  · -- bound
    intro k hk
    by_cases hk0 : k = (w.first, 0)
    · subst hk0; exact Nat.le_of_lt hlt
    · by_cases hk1 : k = (w.first, 1)
      · subst hk1; exact Nat.le_of_lt hlt
      · rw [deleteVersion_other s w.first os k hk1 hk0] at hk
        split at hk
        · cases hk
        · exact h.bound k hk

/-! ### `SaveVersion` -/

theorem foldl_set_other (s : Store) (v : Nat) (news : List Nat) (k : NKey) (hk : k.1 ≠ v) :
    (news.foldl (fun acc n => acc.set (v, n) (.node (v, n))) s) k = s k := by
  induction news generalizing s with
  | nil => rfl
  | cons a t ih =>
    simp only [List.foldl_cons]
    rw [ih]
    simp only [Store.set]
    have : k ≠ (v, a) := fun hc => hk (by rw [hc])
    simp [this]

theorem foldl_set_new (s : Store) (v : Nat) (news : List Nat) (n : Nat) :
    (news.foldl (fun acc n => acc.set (v, n) (.node (v, n))) s) (v, n) =
      if n ∈ news then some (.node (v, n)) else s (v, n) := by
  induction news generalizing s with
  | nil => simp
  | cons a t ih =>
    simp only [List.foldl_cons]
    rw [ih]
    by_cases h1 : n ∈ t
    · simp [h1]
    · by_cases h2 : n = a
      · subst h2; simp [h1, Store.set]
      · have : (v, n) ≠ (v, a) := fun hc => h2 (by simpa using congrArg Prod.snd hc)
        simp [h1, h2, Store.set, this]

theorem save_other (s : Store) (v : Nat) (news : List Nat) (rk : RootKind) (k : NKey) (hk : k.1 ≠ v) :
    (save s v news rk) k = s k := by
  have hne : k ≠ (v, 1) := fun hc => hk (by rw [hc])
  unfold save
  cases rk <;> simp only [Store.set, hne, if_false] <;> exact foldl_set_other s v news k hk

def rootCell (v : Nat) : RootKind → Cell
  | .created => .node (v, 1)
  | .inherited id => .ref id
  | .emptyTree => .empty

theorem save_root (s : Store) (v : Nat) (news : List Nat) (rk : RootKind) :
    (save s v news rk) (v, 1) = some (rootCell v rk) := by
  unfold save
  cases rk <;> simp [Store.set, rootCell]

theorem save_new (s : Store) (v : Nat) (news : List Nat) (rk : RootKind) (n : Nat) (hn : n ∈ news) (h1 : n ≠ 1) :
    (save s v news rk) (v, n) = some (.node (v, n)) := by
  have hne : (v, n) ≠ (v, 1) := fun hc => h1 (by simpa using congrArg Prod.snd hc)
  unfold save
  cases rk <;> simp only [Store.set, hne, if_false] <;> rw [foldl_set_new] <;> simp [hn]

/-- what the root record of a commit says about the new tree -/
def RootSpec (v : Nat) (r : Option NKey) (ns : List NKey) : RootKind → Prop
  | .created => r = some (v, 1) ∧ (v, 1) ∈ ns
  | .inherited id => r = some id ∧ id ∈ ns ∧ id.1 < v
  | .emptyTree => r = none ∧ ns = []

/-- the world after a commit -/
def World.commit (w : World) (v : Nat) (r : Option NKey) (ns : List NKey) : World :=
  { first := if w.first ≤ w.latest then w.first else v,
    latest := v,
    root := fun x => if x = v then r else w.root x,
    nodes := fun x => if x = v then ns else w.nodes x }

/-- **a commit keeps the root records right.** `ns` are the nodes of the new tree: new ones (keyed by the new
    version: the root under nonce 1 if it is new, the others under the nonces `news` ≥ 2) and nodes of the previous
    version; the root record is the root node itself, a reference to the older node that is the root, or the
    empty value. -/
theorem inv_save (s : Store) (w : World) (h : Inv s w) (v : Nat) (hv : v = w.latest + 1)
    (news : List Nat) (rk : RootKind) (r : Option NKey) (ns : List NKey)
    (n1 : ∀ id ∈ ns, 1 ≤ id.2 ∧ id.1 ≤ v)
    (n2 : ∀ id ∈ ns, id.1 = v → (id.2 = 1 ∧ rk = .created) ∨ (id.2 ∈ news))
    (n3 : ∀ id ∈ ns, id.1 < v → w.first ≤ w.latest ∧ id ∈ w.nodes w.latest)
    (n4 : ∀ n ∈ news, 2 ≤ n)
    (n5 : RootSpec v r ns rk) :
    Inv (save s v news rk) (w.commit v r ns) := by
  have hret : ∀ x, (w.commit v r ns).retained x → x ≠ v → w.retained x ∧ w.first ≤ w.latest := by
    intro x hx hxv
    have h1 := hx.1
    have h2 := hx.2
    simp only [World.commit] at h1 h2
    by_cases hne : w.first ≤ w.latest
    · simp only [hne, if_true] at h1
      exact ⟨⟨h1, by omega⟩, hne⟩
    · simp only [hne, if_false] at h1
      omega
  have hfirst : w.first ≤ w.latest → (w.commit v r ns).first = w.first := by
    intro hne; simp [World.commit, hne]
  have hroot : ∀ x, x ≠ v → (w.commit v r ns).root x = w.root x := by intro x hx; simp [World.commit, hx]
  have hnodes : ∀ x, x ≠ v → (w.commit v r ns).nodes x = w.nodes x := by intro x hx; simp [World.commit, hx]
  have hrootv : (w.commit v r ns).root v = r := by simp [World.commit]
  have hnodesv : (w.commit v r ns).nodes v = ns := by simp [World.commit]
  have hold : ∀ x, x ≠ v → (save s v news rk) (x, 1) = s (x, 1) := fun x hx => save_other s v news rk (x, 1) hx
  refine
    { recEmpty := ?_, recOwn := ?_, recRef := ?_, rootIn := ?_, emptyNodes := ?_, stored := ?_, gone := ?_,
      nonce1 := ?_, share := ?_, bound := ?_ }
  · intro x hx hr
    by_cases hxv : x = v
    · subst hxv
      rw [hrootv] at hr; subst hr
      rw [save_root]
      cases rk with
      | created => simp [RootSpec] at n5
      | inherited id => simp [RootSpec] at n5
      | emptyTree => rfl
    · rw [hold x hxv]; rw [hroot x hxv] at hr; exact h.recEmpty x (hret x hx hxv).1 hr
  · intro x hx hr
    by_cases hxv : x = v
    · subst hxv
      rw [hrootv] at hr; subst hr
      rw [save_root]
      cases rk with
      | created => rfl
      | inherited id => simp only [RootSpec] at n5; have := n5.1; have h3 := n5.2.2; cases this; simp at h3
      | emptyTree => simp [RootSpec] at n5
    · rw [hold x hxv]; rw [hroot x hxv] at hr; exact h.recOwn x (hret x hx hxv).1 hr
  · intro x id hx hr hid
    by_cases hxv : x = v
    · subst hxv
      rw [hrootv] at hr; subst hr
      rw [save_root]
      cases rk with
      | created => simp only [RootSpec] at n5; have := n5.1; cases this; exact absurd rfl hid
      | inherited id' => simp only [RootSpec] at n5; have := n5.1; cases this; exact ⟨rfl, n5.2.2⟩
      | emptyTree => simp [RootSpec] at n5
    · rw [hold x hxv]; rw [hroot x hxv] at hr; exact h.recRef x id (hret x hx hxv).1 hr hid
  · intro x id hx hr
    by_cases hxv : x = v
    · subst hxv
      rw [hrootv] at hr; subst hr
      rw [hnodesv]
      cases rk with
      | created => simp only [RootSpec] at n5; have := n5.1; cases this; exact n5.2
      | inherited id' => simp only [RootSpec] at n5; have := n5.1; cases this; exact n5.2.1
      | emptyTree => simp [RootSpec] at n5
    · rw [hroot x hxv] at hr; rw [hnodes x hxv]; exact h.rootIn x id (hret x hx hxv).1 hr
  · intro x hx hr
    by_cases hxv : x = v
    · subst hxv
      rw [hrootv] at hr; subst hr
      rw [hnodesv]
      cases rk with
      | created => simp [RootSpec] at n5
      | inherited id' => simp [RootSpec] at n5
      | emptyTree => exact n5.2
    · rw [hroot x hxv] at hr; rw [hnodes x hxv]; exact h.emptyNodes x (hret x hx hxv).1 hr
  · -- stored
    intro x id hx hm
    by_cases hxv : x = v
    · subst hxv
      rw [hnodesv] at hm
      have hn1 := n1 id hm
      refine ⟨?_, hn1⟩
      by_cases hidv : id.1 = x
      · have hp : phys (w.commit x r ns).first id = id := by
          unfold phys
          have hf : (w.commit x r ns).first ≤ x := hx.1
          have : ¬ (id.2 = 1 ∧ id.1 < (w.commit x r ns).first) := by omega
          simp [this]
        rw [hp]
        rcases n2 id hm hidv with ⟨h1, hc⟩ | hnews
        · have : id = (x, 1) := Prod.ext hidv h1
          subst this
          rw [save_root, hc]; rfl
        · have h2 := n4 _ hnews
          have : id = (x, id.2) := Prod.ext hidv rfl
          rw [this]
          exact save_new s x news rk id.2 hnews (by omega)
      · have hlt : id.1 < x := by omega
        obtain ⟨hne, hmem⟩ := n3 id hm hlt
        have hlat : w.retained w.latest := ⟨hne, Nat.le_refl _⟩
        have hst := h.stored w.latest id hlat hmem
        rw [hfirst hne]
        have hk : (phys w.first id).1 ≠ x := by
          unfold phys; split <;> simp <;> omega
        rw [save_other s x news rk _ hk]
        exact hst.1
    · obtain ⟨hr, hne⟩ := hret x hx hxv
      rw [hnodes x hxv] at hm
      have hst := h.stored x id hr hm
      refine ⟨?_, hst.2⟩
      rw [hfirst hne]
      have hk : (phys w.first id).1 ≠ v := by
        have := hr.2
        unfold phys; split <;> simp <;> omega
      rw [save_other s v news rk _ hk]
      exact hst.1
  · -- gone
    intro x hx
    have hxv : x ≠ v := by
      intro hc; subst hc
      apply hx
      refine ⟨?_, Nat.le_refl _⟩
      simp only [World.commit]
      split <;> omega
    rw [hold x hxv]
    apply h.gone x
    intro hc
    apply hx
    have hne : w.first ≤ w.latest := Nat.le_trans hc.1 hc.2
    refine ⟨by rw [hfirst hne]; exact hc.1, ?_⟩
    have := hc.2
    simp only [World.commit]; omega
  · -- nonce1
    intro x id hx hm h1 hf
    by_cases hxv : x = v
    · subst hxv
      rw [hnodesv] at hm
      by_cases hidv : id.1 = x
      · rcases n2 id hm hidv with ⟨_, hc⟩ | hnews
        · have : id = (x, 1) := Prod.ext hidv h1
          subst this
          simp only
          rw [hrootv]
          subst hc
          exact n5.1
        · have := n4 _ hnews; omega
      · have hn1 := n1 id hm
        have hlt : id.1 < x := by omega
        obtain ⟨hne, hmem⟩ := n3 id hm hlt
        rw [hfirst hne] at hf
        rw [hroot id.1 (by omega)]
        exact h.nonce1 w.latest id ⟨hne, Nat.le_refl _⟩ hmem h1 hf
    · obtain ⟨hr, hne⟩ := hret x hx hxv
      rw [hnodes x hxv] at hm
      rw [hfirst hne] at hf
      have := (h.stored x id hr hm).2.2
      have hx2 := hr.2
      rw [hroot id.1 (by omega)]
      exact h.nonce1 x id hr hm h1 hf
  · -- share
    intro x id hx hx1 hm hle
    have hxv : x ≠ v := by
      intro hc; subst hc
      have := hx1.2
      simp only [World.commit] at this; omega
    obtain ⟨hr, hne⟩ := hret x hx hxv
    rw [hnodes x hxv]
    by_cases hx1v : x + 1 = v
    · rw [hx1v, hnodesv] at hm
      have hxl : x = w.latest := by omega
      subst hxl
      exact (n3 id hm (by omega)).2
    · obtain ⟨hr1, _⟩ := hret (x + 1) hx1 hx1v
      rw [hnodes (x + 1) hx1v] at hm
      exact h.share x id hr hr1 hm hle
  · -- bound
    intro k hk
    simp only [World.commit]
    by_cases hkv : k.1 = v
    · omega
    · rw [save_other s v news rk k hkv] at hk
      have := h.bound k hk
      omega

/-- the empty store -/
theorem inv_empty : Inv (fun _ => none) { first := 1, latest := 0, root := fun _ => none, nodes := fun _ => [] } where
  recEmpty := by intro v hv; have := hv.1; have := hv.2; simp only at *; omega
  recOwn := by intro v hv; have := hv.1; have := hv.2; simp only at *; omega
  recRef := by intro v id hv; have := hv.1; have := hv.2; simp only at *; omega
  rootIn := by intro v id hv; have := hv.1; have := hv.2; simp only at *; omega
  emptyNodes := by intro v hv; have := hv.1; have := hv.2; simp only at *; omega
  stored := by intro v id hv; have := hv.1; have := hv.2; simp only at *; omega
  gone := by intro v _; rfl
  nonce1 := by intro v id hv; have := hv.1; have := hv.2; simp only at *; omega
  share := by intro v id hv; have := hv.1; have := hv.2; simp only at *; omega
  bound := by intro k hk; simp at hk

/-! ### `DeleteVersionsFrom` -/

/-- **a rollback keeps the root records right**: versions below `n` stay as they are; when none survives
    the store is empty again -/
theorem inv_deleteFrom (s : Store) (w : World) (h : Inv s w) (n : Nat) (hn : n ≤ w.latest + 1) :
    Inv (deleteFrom s w.first n)
      (if n ≤ w.first then { first := 1, latest := 0, root := fun _ => none, nodes := fun _ => [] }
       else { w with latest := n - 1 }) := by
  unfold deleteFrom
  by_cases hall : n ≤ w.first
  · simp only [hall, if_true]; exact inv_empty
  · simp only [hall, if_false]
    have hsub : ∀ x, ({ w with latest := n - 1 } : World).retained x → w.retained x ∧ x < n := by
      intro x hx
      have h1 := hx.1
      have h2 := hx.2
      simp only at h1 h2
      exact ⟨⟨h1, by omega⟩, by omega⟩
    have hkeep : ∀ k : NKey, k.1 < n → (if n ≤ k.1 then none else s k) = s k := by
      intro k hk
      have : ¬ n ≤ k.1 := by omega
      simp [this]
    refine
      { recEmpty := fun x hx hr => by rw [hkeep (x, 1) (hsub x hx).2]; exact h.recEmpty x (hsub x hx).1 hr
        recOwn := fun x hx hr => by rw [hkeep (x, 1) (hsub x hx).2]; exact h.recOwn x (hsub x hx).1 hr
        recRef := fun x id hx hr hid => by
          rw [hkeep (x, 1) (hsub x hx).2]; exact h.recRef x id (hsub x hx).1 hr hid
        rootIn := fun x id hx hr => h.rootIn x id (hsub x hx).1 hr
        emptyNodes := fun x hx hr => h.emptyNodes x (hsub x hx).1 hr
        stored := ?_
        gone := ?_
        nonce1 := fun x id hx hm h1 hf => h.nonce1 x id (hsub x hx).1 hm h1 hf
        share := fun x id hx hx1 hm hle => h.share x id (hsub x hx).1 (hsub _ hx1).1 hm hle
        bound := ?_ }
    · intro x id hx hm
      obtain ⟨hr, hxn⟩ := hsub x hx
      have hst := h.stored x id hr hm
      refine ⟨?_, hst.2⟩
      have hk : (phys w.first id).1 < n := by
        have := hst.2.2
        unfold phys; split <;> simp <;> omega
      rw [hkeep _ hk]; exact hst.1
    · intro x hx
      by_cases hxn : n ≤ x
      · simp [hxn]
      · rw [hkeep (x, 1) (by simpa using hxn)]
        apply h.gone x
        intro hc; apply hx
        exact ⟨hc.1, by simp only; omega⟩
    · intro k hk
      by_cases hkn : n ≤ k.1
      · simp [hkn] at hk
      · simp only; omega

/-- the states reached from the empty store by commits and deletions of the lowest version, each with the
    facts about the trees that the tree layer guarantees (C01 / C04: new nodes are keyed by the new version,
    older nodes of the new tree belong to the previous version, the orphans are exactly the nodes the next
    version does not use) -/
inductive Reach : Store → World → Prop where
  | empty : Reach (fun _ => none) { first := 1, latest := 0, root := fun _ => none, nodes := fun _ => [] }
  | save (s : Store) (w : World) (v : Nat) (news : List Nat) (rk : RootKind) (r : Option NKey) (ns : List NKey) :
      Reach s w → v = w.latest + 1 →
      (∀ id ∈ ns, 1 ≤ id.2 ∧ id.1 ≤ v) →
      (∀ id ∈ ns, id.1 = v → (id.2 = 1 ∧ rk = .created) ∨ (id.2 ∈ news)) →
      (∀ id ∈ ns, id.1 < v → w.first ≤ w.latest ∧ id ∈ w.nodes w.latest) →
      (∀ n ∈ news, 2 ≤ n) →
      RootSpec v r ns rk →
      Reach (Iavl.Roots.save s v news rk) (w.commit v r ns)
  | prune (s : Store) (w : World) (os : List NKey) :
      Reach s w → w.first < w.latest →
      (∀ id, id ∈ os ↔ id ∈ w.nodes w.first ∧ id ∉ w.nodes (w.first + 1)) →
      Reach (deleteVersion s w.first os) { w with first := w.first + 1 }
  | rollback (s : Store) (w : World) (n : Nat) :
      Reach s w → n ≤ w.latest + 1 →
      Reach (deleteFrom s w.first n)
        (if n ≤ w.first then { first := 1, latest := 0, root := fun _ => none, nodes := fun _ => [] }
         else { w with latest := n - 1 })

theorem reach_inv (s : Store) (w : World) (h : Reach s w) : Inv s w := by
  induction h with
  | empty => exact inv_empty
  | save s w v news rk r ns _ hv n1 n2 n3 n4 n5 ih => exact inv_save s w ih v hv news rk r ns n1 n2 n3 n4 n5
  | prune s w os _ hlt hos ih => exact inv_deleteVersion s w ih hlt os hos
  | rollback s w n _ hn ih => exact inv_deleteFrom s w ih n hn

end Iavl.Roots
