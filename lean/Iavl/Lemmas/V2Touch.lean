import Iavl.Lemmas.V2EvictCorrect
/-
  Reads re-load: `getLeftNode` / `getRightNode` store the fetched child in the parent's pointer, so a lookup changes
  the in-memory tree (stubs on the search path become nodes whose own children are stubs). This is invisible too.
-/
namespace Iavl
open Std

variable {K V : Type}

section ordered
variable [Ord K]

/-- the fetched node `n` with the search path to `key` loaded below it and every other child a stub
    (`sql.getLeftNode` returns a node without children) -/
def loadPath (ref : Node K V → Nat) (key : K) : Node K V → ENode K V
  | .leaf k v ver => .leaf k v ver
  | .inner k h sz ver l r =>
    if compare key k = .lt then .inner k h sz ver (loadPath ref key l) (.stub (ref r))
    else .inner k h sz ver (.stub (ref l)) (loadPath ref key r)

/-- the in-memory tree after a lookup of `key`: stubs met on the search path are replaced by what was fetched -/
def ENode.touch (st : Nat → Option (Node K V)) (ref : Node K V → Nat) (key : K) : ENode K V → ENode K V
  | .stub r => match st r with
    | some n => loadPath ref key n
    | none => .stub r
  | .leaf k v ver => .leaf k v ver
  | .inner k h sz ver l r =>
    if compare key k = .lt then .inner k h sz ver (l.touch st ref key) r
    else .inner k h sz ver l (r.touch st ref key)

theorem resolve_loadPath (st : Nat → Option (Node K V)) (ref : Node K V → Nat) (key : K) (t : Node K V)
    (hs : Saved st ref t) : (loadPath ref key t).resolve st = some t := by
  induction t with
  | leaf k v ver => simp [loadPath, ENode.resolve]
  | inner k h sz ver l r ihl ihr =>
    by_cases hc : compare key k = .lt
    · simp [loadPath, hc, ENode.resolve, ihl hs.left, hs.right.self]
    · simp [loadPath, hc, ENode.resolve, ihr hs.right, hs.left.self]

/-- every reference reachable in `e` is answered by the store with a tree all of whose nodes are answered -/
def ENode.Backed (st : Nat → Option (Node K V)) (ref : Node K V → Nat) : ENode K V → Prop
  | .stub r => ∃ n, st r = some n ∧ Saved st ref n
  | .leaf .. => True
  | .inner _ _ _ _ l r => l.Backed st ref ∧ r.Backed st ref

/-- **a lookup's re-loading is invisible**: the tree after `touch` re-hydrates to what it re-hydrated to before -/
theorem resolve_touch (st : Nat → Option (Node K V)) (ref : Node K V → Nat) (key : K) (e : ENode K V)
    (hb : e.Backed st ref) : (e.touch st ref key).resolve st = e.resolve st := by
  induction e with
  | stub r =>
    obtain ⟨n, hn, hs⟩ := hb
    simp only [ENode.touch, hn, ENode.resolve]
    exact resolve_loadPath st ref key n hs
  | leaf k v ver => rfl
  | inner k h sz ver l r ihl ihr =>
    by_cases hc : compare key k = .lt
    · simp only [ENode.touch, hc, if_true, ENode.resolve, ihl hb.1]
    · simp only [ENode.touch, hc, if_false, ENode.resolve, ihr hb.2]

theorem backed_loadPath (st : Nat → Option (Node K V)) (ref : Node K V → Nat) (key : K) (t : Node K V)
    (hs : Saved st ref t) : (loadPath ref key t).Backed st ref := by
  induction t with
  | leaf k v ver => simp [loadPath, ENode.Backed]
  | inner k h sz ver l r ihl ihr =>
    by_cases hc : compare key k = .lt
    · simp only [loadPath, hc, if_true, ENode.Backed]
      exact ⟨ihl hs.left, r, hs.right.self, hs.right⟩
    · simp only [loadPath, hc, if_false, ENode.Backed]
      exact ⟨⟨l, hs.left.self, hs.left⟩, ihr hs.right⟩

theorem backed_touch (st : Nat → Option (Node K V)) (ref : Node K V → Nat) (key : K) (e : ENode K V)
    (hb : e.Backed st ref) : (e.touch st ref key).Backed st ref := by
  induction e with
  | stub r =>
    obtain ⟨n, hn, hs⟩ := hb
    simp only [ENode.touch, hn]
    exact backed_loadPath st ref key n hs
  | leaf k v ver => trivial
  | inner k h sz ver l r ihl ihr =>
    by_cases hc : compare key k = .lt
    · simp only [ENode.touch, hc, if_true, ENode.Backed]; exact ⟨ihl hb.1, hb.2⟩
    · simp only [ENode.touch, hc, if_false, ENode.Backed]; exact ⟨hb.1, ihr hb.2⟩

theorem backed_evict (st : Nat → Option (Node K V)) (ref : Node K V → Nat) (policy : Nat → Node K V → Bool)
    (t : Node K V) : ∀ d, Saved st ref t → (evict policy ref d t).Backed st ref := by
  induction t with
  | leaf k v ver => intro d _; trivial
  | inner k h sz ver l r ihl ihr =>
    intro d hs
    simp only [evict, ENode.Backed]
    constructor
    · by_cases hp : policy d l = true
      · simp only [hp, if_true]; exact ⟨l, hs.left.self, hs.left⟩
      · simp only [hp]; exact ihl (d + 1) hs.left
    · by_cases hp : policy d r = true
      · simp only [hp, if_true]; exact ⟨r, hs.right.self, hs.right⟩
      · simp only [hp]; exact ihr (d + 1) hs.right

/-- any sequence of lookups -/
theorem resolve_touches (st : Nat → Option (Node K V)) (ref : Node K V → Nat) (keys : List K) :
    ∀ (e : ENode K V), e.Backed st ref →
      (keys.foldl (fun e k => e.touch st ref k) e).resolve st = e.resolve st ∧
      (keys.foldl (fun e k => e.touch st ref k) e).Backed st ref := by
  induction keys with
  | nil => intro e hb; exact ⟨rfl, hb⟩
  | cons k ks ih =>
    intro e hb
    have := ih (e.touch st ref k) (backed_touch st ref k e hb)
    simp only [List.foldl_cons]
    exact ⟨this.1.trans (resolve_touch st ref k e hb), this.2⟩

theorem resolve_inner {st : Nat → Option (Node K V)} {k h sz ver} {l r : ENode K V} {t : Node K V}
    (hr : (ENode.inner k h sz ver l r).resolve st = some t) :
    ∃ l' r', l.resolve st = some l' ∧ r.resolve st = some r' ∧ t = .inner k h sz ver l' r' := by
  simp only [ENode.resolve] at hr
  cases hl : l.resolve st with
  | none => rw [hl] at hr; cases hr
  | some l' =>
    cases hr' : r.resolve st with
    | none => rw [hl, hr'] at hr; cases hr
    | some r' =>
      rw [hl, hr'] at hr
      exact ⟨l', r', rfl, rfl, (Option.some.inj hr).symm⟩

theorem size_of_resolve (st : Nat → Option (Node K V)) (e : ENode K V) {t : Node K V}
    (hr : e.resolve st = some t) : e.size st = some t.size := by
  cases e with
  | stub r => simp only [ENode.resolve] at hr; simp [ENode.size, hr]
  | leaf k v ver => simp only [ENode.resolve] at hr; cases hr; rfl
  | inner k h sz ver l r =>
    obtain ⟨l', r', _, _, ht⟩ := resolve_inner hr
    subst ht; rfl

/-- whatever the in-memory shape, a lookup answers as the tree the shape re-hydrates to -/
theorem get_of_resolve (st : Nat → Option (Node K V)) (key : K) (e : ENode K V) :
    ∀ {t : Node K V}, e.resolve st = some t → e.get st key = some (t.get key) := by
  induction e with
  | stub r => intro t hr; simp only [ENode.resolve] at hr; simp [ENode.get, hr]
  | leaf k v ver =>
    intro t hr; simp only [ENode.resolve] at hr; cases hr
    simp only [ENode.get, Node.get]; cases compare k key <;> rfl
  | inner k h sz ver l r ihl ihr =>
    intro t hr
    obtain ⟨l', r', hl, hr', ht⟩ := resolve_inner hr
    subst ht
    simp only [ENode.get, Node.get]
    by_cases hc : compare key k = .lt
    · simp only [hc, if_true]; exact ihl hl
    · simp only [hc, if_false, ihr hr', size_of_resolve st r hr']

theorem range_of_resolve (st : Nat → Option (Node K V)) (s en : Option K) (asc incl : Bool) (e : ENode K V) :
    ∀ {t : Node K V}, e.resolve st = some t → e.range st s en asc incl = some (t.range s en asc incl) := by
  induction e with
  | stub r => intro t hr; simp only [ENode.resolve] at hr; simp [ENode.range, hr]
  | leaf k v ver => intro t hr; simp only [ENode.resolve] at hr; cases hr; rfl
  | inner k h sz ver l r ihl ihr =>
    intro t hr
    obtain ⟨l', r', hl, hr', ht⟩ := resolve_inner hr
    subst ht
    simp only [ENode.range, Node.range, ihl hl, ihr hr']
    exact optAppend_ite _ _ _ _ _

end ordered
end Iavl
