import Iavl.Model.FastIndex
import Iavl.Model.Merge
import Iavl.Lemmas.GetRank
/- C07: the index with its overlay answers like the working map, and after a commit the persisted
   entries are exactly the committed contents. -/
namespace Iavl
open Std
set_option linter.unusedSectionVars false
variable {K V : Type} [Ord K] [TransOrd K] [LawfulEqOrd K] [DecidableEq K]

/-- the invariant between the index state and the contents `m` of the working tree -/
structure FInv (fs : FastSt K V) (m : List (K × V)) : Prop where
  si : SortedKV fs.index
  sa : SortedKV fs.adds
  disj : ∀ k ∈ fs.rems, lookup k fs.adds = none
  agree : ∀ k, fs.get k = lookup k m

theorem finv_set (fs : FastSt K V) (m : List (K × V)) (hm : SortedKV m) (h : FInv fs m) (k : K) (v : V) :
    FInv (fs.set k v) (insertSorted k v m) where
  si := h.si
  sa := sortedKV_insertSorted k v _ h.sa
  disj := by
    intro k' hk'
    simp only [FastSt.set, List.mem_filter, decide_eq_true_eq] at hk'
    simp only [FastSt.set]
    rw [lookup_insertSorted k v _ h.sa]
    have : compare k' k ≠ .eq := fun hc => hk'.2 (cmp_eq_iff.mp hc)
    simp only [this, if_false]
    exact h.disj k' hk'.1
  agree := by
    intro k'
    rw [lookup_insertSorted k v m hm]
    simp only [FastSt.get, FastSt.set]
    rw [lookup_insertSorted k v _ h.sa]
    by_cases hc : compare k' k = .eq
    · simp [hc]
    · simp only [hc, if_false]
      have hne : k' ≠ k := fun he => hc (cmp_eq_iff.mpr he)
      have hmem : (k' ∈ fs.rems.filter (· ≠ k)) ↔ k' ∈ fs.rems := by simp [List.mem_filter, hne]
      have := h.agree k'
      simp only [FastSt.get] at this
      rw [← this]
      cases lookup k' fs.adds with
      | some x => rfl
      | none => simp only [hmem]

theorem finv_remove (fs : FastSt K V) (m : List (K × V)) (hm : SortedKV m) (h : FInv fs m) (k : K) :
    FInv (fs.remove k) (eraseSorted k m) where
  si := h.si
  sa := sortedKV_eraseSorted k _ h.sa
  disj := by
    intro k' hk'
    simp only [FastSt.remove, List.mem_cons, List.mem_filter, decide_eq_true_eq] at hk'
    simp only [FastSt.remove]
    rw [lookup_eraseSorted k _ h.sa]
    by_cases hc : compare k' k = .eq
    · simp [hc]
    · simp only [hc, if_false]
      rcases hk' with hk' | hk'
      · exact absurd (cmp_eq_iff.mpr hk') hc
      · exact h.disj k' hk'.1
  agree := by
    intro k'
    rw [lookup_eraseSorted k m hm]
    simp only [FastSt.get, FastSt.remove]
    rw [lookup_eraseSorted k _ h.sa]
    by_cases hc : compare k' k = .eq
    · have : k' = k := cmp_eq_iff.mp hc
      simp [hc, this]
    · simp only [hc, if_false]
      have hne : k' ≠ k := fun he => hc (cmp_eq_iff.mpr he)
      have hmem : (k' ∈ k :: fs.rems.filter (· ≠ k)) ↔ k' ∈ fs.rems := by simp [List.mem_filter, hne]
      have := h.agree k'
      simp only [FastSt.get] at this
      rw [← this]
      cases lookup k' fs.adds with
      | some x => rfl
      | none => simp only [hmem]

theorem sorted_foldl_insert (adds m : List (K × V)) (hm : SortedKV m) :
    SortedKV (adds.foldl (fun m p => insertSorted p.1 p.2 m) m) := by
  induction adds generalizing m with
  | nil => exact hm
  | cons a as ih => exact ih _ (sortedKV_insertSorted a.1 a.2 m hm)

theorem lookup_foldl_insert (adds m : List (K × V)) (ha : SortedKV adds) (hm : SortedKV m) (k : K) :
    lookup k (adds.foldl (fun m p => insertSorted p.1 p.2 m) m) =
      match lookup k adds with | some v => some v | none => lookup k m := by
  induction adds generalizing m with
  | nil => simp [lookup]
  | cons a as ih =>
    obtain ⟨ak, av⟩ := a
    simp only [List.foldl_cons]
    rw [ih _ (sortedKV_tail ha) (sortedKV_insertSorted ak av m hm), lookup_insertSorted ak av m hm]
    simp only [lookup]
    by_cases hc : compare k ak = .eq
    · have hk : k = ak := cmp_eq_iff.mp hc
      have hnone : lookup k as = none := by
        rw [hk]; exact lookup_none_of_all_gt ak as (sortedKV_head_lt ha)
      simp [hc, hnone]
    · simp [hc]

theorem sorted_foldl_erase (rems : List K) (m : List (K × V)) (hm : SortedKV m) :
    SortedKV (rems.foldl (fun m k => eraseSorted k m) m) := by
  induction rems generalizing m with
  | nil => exact hm
  | cons r rs ih => exact ih _ (sortedKV_eraseSorted r m hm)

theorem lookup_foldl_erase (rems : List K) (m : List (K × V)) (hm : SortedKV m) (k : K) :
    lookup k (rems.foldl (fun m k => eraseSorted k m) m) = if k ∈ rems then none else lookup k m := by
  induction rems generalizing m with
  | nil => simp
  | cons r rs ih =>
    simp only [List.foldl_cons]
    rw [ih _ (sortedKV_eraseSorted r m hm), lookup_eraseSorted r m hm]
    by_cases h1 : k ∈ rs
    · simp [h1]
    · by_cases h2 : k = r
      · subst h2; simp [h1, cmp_eq_iff.mpr rfl]
      · have : compare k r ≠ .eq := fun hc => h2 (cmp_eq_iff.mp hc)
        simp [h1, h2, this]

/-- **after the commit the persisted entries are exactly the committed contents**, and the overlay is empty -/
theorem finv_save (fs : FastSt K V) (m : List (K × V)) (hm : SortedKV m) (h : FInv fs m) :
    fs.save.index = m ∧ FInv fs.save m := by
  have hs1 := sorted_foldl_insert fs.adds fs.index h.si
  have hs2 := sorted_foldl_erase fs.rems _ hs1
  have hl : ∀ k, lookup k fs.save.index = lookup k m := by
    intro k
    simp only [FastSt.save]
    rw [lookup_foldl_erase _ _ hs1, lookup_foldl_insert _ _ h.sa h.si, ← h.agree k]
    simp only [FastSt.get]
    by_cases hr : k ∈ fs.rems
    · simp [hr, h.disj k hr]
    · simp only [hr, if_false]
      cases lookup k fs.adds <;> rfl
  have heq : fs.save.index = m := sortedKV_ext _ _ hs2 hm hl
  refine ⟨heq, { si := hs2, sa := by simp [FastSt.save, SortedKV], disj := by intro k hk; simp [FastSt.save] at hk, agree := ?_ }⟩
  intro k
  simp only [FastSt.get]
  have : fs.save.adds = [] := rfl
  have hr : fs.save.rems = [] := rfl
  rw [this, hr]
  simp only [lookup, List.not_mem_nil, if_false]
  exact hl k

/-- discarding the overlay (Rollback, LoadVersion) goes back to the persisted contents -/
theorem finv_discard (fs : FastSt K V) (m0 : List (K × V)) (hi : fs.index = m0) (hs : SortedKV m0) :
    FInv fs.discard m0 where
  si := by rw [FastSt.discard]; simpa [hi] using hs
  sa := by simp [FastSt.discard, SortedKV]
  disj := by intro k hk; simp [FastSt.discard] at hk
  agree := by intro k; simp [FastSt.get, FastSt.discard, lookup, hi]

theorem lookup_some_iff_mem (m : List (K × V)) (hs : SortedKV m) (k : K) (v : V) :
    lookup k m = some v ↔ (k, v) ∈ m := by
  induction m with
  | nil => simp [lookup]
  | cons a m ih =>
    obtain ⟨ak, av⟩ := a
    simp only [lookup, List.mem_cons, Prod.mk.injEq]
    by_cases hc : compare k ak = .eq
    · have hk : k = ak := cmp_eq_iff.mp hc
      subst hk
      simp only [hc, if_true, Option.some.injEq, true_and]
      constructor
      · intro h; exact Or.inl h.symm
      · rintro (h | h)
        · exact h.symm
        · exfalso
          have := sortedKV_head_lt hs (k, v) h
          simp only at this
          rw [cmp_eq_iff.mpr rfl] at this; cases this
    · simp only [hc, if_false]
      rw [ih (sortedKV_tail hs)]
      constructor
      · intro h; exact Or.inr h
      · rintro (h | h)
        · exact absurd (cmp_eq_iff.mpr h.1) hc
        · exact h

/-- **the index-plus-overlay iterator yields exactly the working contents** -/
theorem overlay_iterator_eq (fs : FastSt K V) (m : List (K × V)) (hm : SortedKV m) (h : FInv fs m) :
    mergeNext compare (fun k => decide (k ∈ fs.rems)) fs.index fs.adds = m := by
  have hsorted : SortedKV (mergeNext compare (fun k => decide (k ∈ fs.rems)) fs.index fs.adds) :=
    sorted_mergeNext compare _ fs.index fs.adds h.si h.sa
  apply sortedKV_ext _ _ hsorted hm
  intro k
  rw [← h.agree k]
  apply Option.ext
  intro v
  rw [lookup_some_iff_mem _ hsorted, mem_mergeNext compare _ fs.index fs.adds h.si h.sa]
  simp only [FastSt.get, decide_eq_false_iff_not]
  constructor
  · rintro (h1 | ⟨h1, h2, h3⟩)
    · rw [(lookup_some_iff_mem _ h.sa k v).mpr h1]
    · have hn : lookup k fs.adds = none := (lookup_none_iff' k fs.adds).mpr h3
      rw [hn]; simp only [h2, if_false]
      exact (lookup_some_iff_mem _ h.si k v).mpr h1
  · intro hg
    cases ha : lookup k fs.adds with
    | some x =>
      rw [ha] at hg
      simp only [Option.some.injEq] at hg
      subst hg
      exact Or.inl ((lookup_some_iff_mem _ h.sa k x).mp ha)
    | none =>
      rw [ha] at hg
      simp only at hg
      by_cases hr : k ∈ fs.rems
      · simp [hr] at hg
      · simp only [hr, if_false] at hg
        exact Or.inr ⟨(lookup_some_iff_mem _ h.si k v).mp hg, hr, (lookup_none_iff' k fs.adds).mp ha⟩

/-! ### the index next to the working map, over whole histories -/

inductive FOp (K V : Type) where
  | set (k : K) (v : V) | remove (k : K) | save | discard

structure FMach (K V : Type) where
  fs : FastSt K V
  working : List (K × V)
  committed : List (K × V)

def FMach.step (s : FMach K V) : FOp K V → FMach K V
  | .set k v => { s with fs := s.fs.set k v, working := insertSorted k v s.working }
  | .remove k =>
    match lookup k s.working with
    | none => s                                     -- `Remove` of an absent key records nothing
    | some _ => { s with fs := s.fs.remove k, working := eraseSorted k s.working }
  | .save => { fs := s.fs.save, working := s.working, committed := s.working }
  | .discard => { fs := s.fs.discard, working := s.committed, committed := s.committed }

def FMach.init : FMach K V := { fs := ⟨[], [], []⟩, working := [], committed := [] }

structure FMInv (s : FMach K V) : Prop where
  sw : SortedKV s.working
  sc : SortedKV s.committed
  idx : s.fs.index = s.committed
  inv : FInv s.fs s.working

theorem fminv_init : FMInv (FMach.init : FMach K V) where
  sw := by simp [FMach.init, SortedKV]
  sc := by simp [FMach.init, SortedKV]
  idx := rfl
  inv := { si := by simp [FMach.init, SortedKV], sa := by simp [FMach.init, SortedKV],
           disj := by intro k hk; simp [FMach.init] at hk,
           agree := by intro k; simp [FMach.init, FastSt.get, lookup] }

theorem fminv_step (s : FMach K V) (h : FMInv s) (op : FOp K V) : FMInv (s.step op) := by
  cases op with
  | set k v =>
    exact { sw := sortedKV_insertSorted k v _ h.sw, sc := h.sc, idx := h.idx, inv := finv_set s.fs s.working h.sw h.inv k v }
  | remove k =>
    simp only [FMach.step]
    cases hl : lookup k s.working with
    | none => exact h
    | some v =>
      exact { sw := sortedKV_eraseSorted k _ h.sw, sc := h.sc, idx := h.idx, inv := finv_remove s.fs s.working h.sw h.inv k }
  | save =>
    obtain ⟨he, hi⟩ := finv_save s.fs s.working h.sw h.inv
    exact { sw := h.sw, sc := h.sw, idx := he, inv := hi }
  | discard =>
    exact { sw := h.sc, sc := h.sc, idx := h.idx, inv := finv_discard s.fs s.committed h.idx h.sc }

/-- **C07 over histories.** After any sequence of writes, commits and discards: a lookup through the
    index with its overlay answers like the working map, the overlay iterator yields the working
    contents, and the persisted entries are the last committed contents. -/
theorem index_coherent (ops : List (FOp K V)) :
    let s := ops.foldl FMach.step (FMach.init : FMach K V)
    (∀ k, s.fs.get k = lookup k s.working) ∧
    mergeNext compare (fun k => decide (k ∈ s.fs.rems)) s.fs.index s.fs.adds = s.working ∧
    s.fs.index = s.committed := by
  have h : ∀ (s : FMach K V), FMInv s → FMInv (ops.foldl FMach.step s) := by
    induction ops with
    | nil => intro s hs; exact hs
    | cons op ops ih => intro s hs; exact ih _ (fminv_step s hs op)
  have hs := h _ fminv_init
  exact ⟨hs.inv.agree, overlay_iterator_eq _ _ hs.sw hs.inv, hs.idx⟩

end Iavl
