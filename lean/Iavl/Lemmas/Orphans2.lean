import Iavl.Lemmas.Orphans
import Iavl.Lemmas.MembershipSound
/- Spike for C04/C12, part 2: the diff cursor and its correctness. -/
namespace Iavl
open Std
set_option linter.unusedSectionVars false

deriving instance DecidableEq for Node

variable {K V : Type} [Ord K] [BEq K] [TransOrd K] [LawfulEqOrd K] [DecidableEq K] [DecidableEq V]

instance subDec (s : Node K V) : (t : Node K V) → Decidable (Sub s t)
  | .leaf k v ver => by unfold Sub; exact inferInstance
  | .inner k h sz ver l r => by
      unfold Sub
      have := subDec s l
      have := subDec s r
      exact inferInstance

theorem sub_trans' {a b c : Node K V} (h1 : Sub a b) (h2 : Sub b c) : Sub a c := by
  induction c with
  | leaf k v ver => simp only [Sub] at h2; subst h2; exact h1
  | inner k h sz ver l r ihl ihr =>
    simp only [Sub] at h2 ⊢
    rcases h2 with h2 | h2 | h2
    · subst h2; simpa [Sub] using h1
    · exact Or.inr (Or.inl (ihl h2))
    · exact Or.inr (Or.inr (ihr h2))

theorem sub_proper_size {s t : Node K V} (h : Sub s t) (hne : s ≠ t) : s.toList.length < t.toList.length := by
  cases t with
  | leaf k v ver => simp only [Sub] at h; exact absurd h hne
  | inner k hh sz ver l r =>
    simp only [Sub] at h
    rcases h with h | h | h
    · exact absurd h hne
    · have := sub_size_le h; have := toList_length_pos r
      simp only [toList_inner, List.length_append]; omega
    · have := sub_size_le h; have := toList_length_pos l
      simp only [toList_inner, List.length_append]; omega

theorem sub_antisymm {a b : Node K V} (h1 : Sub a b) (h2 : Sub b a) : a = b := by
  by_cases h : a = b
  · exact h
  · have := sub_proper_size h1 h
    have := sub_size_le h2
    omega

/-- `t < s` and `s ⊑ t` cannot both hold; nor `t ⊑ s` -/
theorem klt_not_sub {t s : Node K V} (h : KLt t s) : ¬ Sub s t := fun hs => klt_no_common h hs (sub_refl s)
theorem klt_not_sub' {t s : Node K V} (h : KLt t s) : ¬ Sub t s := fun hs => klt_no_common h (sub_refl t) hs
theorem klt_irrefl' {a b : Node K V} (h1 : KLt a b) (h2 : KLt b a) : False := by
  have hne := keys_ne_nil a
  cases hk : a.keys with
  | nil => exact hne hk
  | cons x xs =>
    have hx : x ∈ a.keys := by rw [hk]; simp
    cases hk2 : b.keys with
    | nil => exact keys_ne_nil b hk2
    | cons y ys =>
      have hy : y ∈ b.keys := by rw [hk2]; simp
      have e1 := h1 x hx y hy
      have e2 := h2 y hy x hx
      rw [OrientedCmp.gt_of_lt e2] at e1; cases e1

/-- the `prev` cursor of `traverseOrphans`, consuming the list of shared roots -/
def diff : Node K V → List (Node K V) → List (Node K V) × List (Node K V)
  | .leaf k v ver, S =>
    match S with
    | s :: S' => if Node.leaf k v ver = s then ([], S') else ([.leaf k v ver], s :: S')
    | [] => ([.leaf k v ver], [])
  | .inner k h sz ver l r, S =>
    let o1 := diff l S
    let o2 := diff r o1.2
    let go := (Node.inner k h sz ver l r :: (o1.1 ++ o2.1), o2.2)
    match S with
    | s :: S' => if Node.inner k h sz ver l r = s then ([], S') else go
    | [] => go

/-- the key combinatorial fact: under the invariants, `t` itself can only occur in `S` as its head -/
theorem mem_tail_false {t s : Node K V} {S' : List (Node K V)}
    (hpw : (s :: S').Pairwise KLt) (hI : Sub s t ∨ KLt t s) (hm : t ∈ S') : False := by
  have hst : KLt s t := (List.pairwise_cons.mp hpw).1 t hm
  rcases hI with h | h
  · exact klt_not_sub' hst h
  · exact klt_irrefl' hst h

/-- A: if `t` is not the head of `S`, it is not in the newer tree at all -/
theorem not_shared (T' t : Node K V) (S : List (Node K V))
    (hpw : S.Pairwise KLt) (hI : ∀ s ∈ S, Sub s t ∨ KLt t s)
    (hC : ∀ n, Sub n t → Sub n T' → ∃ s ∈ S, Sub n s)
    (hhead : ∀ s S', S = s :: S' → t ≠ s) : ¬ Sub t T' := by
  intro hsub
  obtain ⟨s'', hs'', hts⟩ := hC t (sub_refl t) hsub
  have : s'' = t := by
    rcases hI s'' hs'' with h | h
    · exact sub_antisymm h hts
    · exact absurd hts (klt_not_sub' h)
  subst this
  cases S with
  | nil => simp at hs''
  | cons s S' =>
    rcases List.mem_cons.mp hs'' with h | h
    · exact hhead s S' rfl h
    · exact mem_tail_false hpw (hI s (by simp)) h

/-- B: `t` not the head ⇒ `t ∉ S` -/
theorem not_mem_of_not_head (t : Node K V) (S : List (Node K V))
    (hpw : S.Pairwise KLt) (hI : ∀ s ∈ S, Sub s t ∨ KLt t s)
    (hhead : ∀ s S', S = s :: S' → t ≠ s) : t ∉ S := by
  intro hm
  cases S with
  | nil => simp at hm
  | cons s S' =>
    rcases List.mem_cons.mp hm with h | h
    · exact hhead s S' rfl h
    · exact mem_tail_false hpw (hI s (by simp)) h

/-- C: consuming the head -/
theorem filter_head (t : Node K V) (S' : List (Node K V)) (hpw : (t :: S').Pairwise KLt) :
    (t :: S').filter (fun x => decide (¬ Sub x t)) = S' := by
  simp only [List.filter_cons, sub_refl, not_true_eq_false, decide_false, Bool.false_eq_true, if_false]
  rw [List.filter_eq_self]
  intro x hx
  have : KLt t x := (List.pairwise_cons.mp hpw).1 x hx
  simpa using klt_not_sub this

/-- D: everything below a shared node is in the newer tree -/
theorem filter_pre_shared (T' t : Node K V) (h : Sub t T') :
    (pre t).filter (fun n => decide (¬ Sub n T')) = [] := by
  rw [List.filter_eq_nil_iff]
  intro n hn
  have : Sub n t := (mem_pre_iff n t).mp hn
  simpa using sub_trans' this h

theorem diff_spec (T' : Node K V) (t : Node K V) (ho : Ordered t) (S : List (Node K V))
    (hpw : S.Pairwise KLt)
    (hI : ∀ s ∈ S, Sub s t ∨ KLt t s)
    (hC : ∀ n, Sub n t → Sub n T' → ∃ s ∈ S, Sub n s)
    (hS : ∀ s ∈ S, Sub s T') :
    diff t S = ((pre t).filter (fun n => decide (¬ Sub n T')), S.filter (fun s => decide (¬ Sub s t))) := by
  induction t generalizing S with
  | leaf k v ver =>
    cases S with
    | nil =>
      have hns := not_shared T' _ [] hpw hI hC (by intro s S' h; cases h)
      simp [diff, pre, hns]
    | cons s S' =>
      simp only [diff]
      by_cases hts : Node.leaf k v ver = s
      · rw [if_pos hts]
        subst hts
        rw [filter_head _ S' hpw, filter_pre_shared T' _ (hS _ (by simp))]
      · rw [if_neg hts]
        have hhead : ∀ s0 S0, s :: S' = s0 :: S0 → Node.leaf k v ver ≠ s0 := by
          intro s0 S0 h; cases h; exact hts
        have hns := not_shared T' _ (s :: S') hpw hI hC hhead
        have hnm := not_mem_of_not_head _ (s :: S') hpw hI hhead
        have hkeep : (s :: S').filter (fun x => decide (¬ Sub x (Node.leaf k v ver))) = s :: S' := by
          rw [List.filter_eq_self]
          intro x hx
          simp only [Sub]
          have : ¬ x = Node.leaf k v ver := fun hxe => hnm (hxe ▸ hx)
          simp [this]
        rw [hkeep]
        simp [pre, hns]
  | inner k h sz ver l r ihl ihr =>
    -- the recursive branch, shared by the two ways of reaching it
    have go : (∀ s S', S = s :: S' → Node.inner k h sz ver l r ≠ s) →
        (Node.inner k h sz ver l r :: ((diff l S).1 ++ (diff r (diff l S).2).1), (diff r (diff l S).2).2) =
        ((pre (Node.inner k h sz ver l r)).filter (fun n => decide (¬ Sub n T')),
         S.filter (fun s => decide (¬ Sub s (Node.inner k h sz ver l r)))) := by
      intro hhead
      have hns := not_shared T' _ S hpw hI hC hhead
      have hnm := not_mem_of_not_head _ S hpw hI hhead
      have hklr : KLt l r := klt_children ho
      -- invariants for the left child
      have hIl : ∀ s ∈ S, Sub s l ∨ KLt l s := by
        intro s hs
        rcases hI s hs with hsub | hk
        · simp only [Sub] at hsub
          rcases hsub with e | hl | hr
          · exact absurd (e ▸ hs) hnm
          · exact Or.inl hl
          · exact Or.inr (klt_sub_right hklr hr)
        · exact Or.inr (klt_sub_left hk (sub_inner_of_child (Or.inl (sub_refl l))))
      have hCl : ∀ n, Sub n l → Sub n T' → ∃ s ∈ S, Sub n s :=
        fun n hn hn' => hC n (sub_inner_of_child (Or.inl hn)) hn'
      have el := ihl ho.1 S hpw hIl hCl hS
      -- invariants for the right child with what is left
      have hpw1 : (S.filter (fun s => decide (¬ Sub s l))).Pairwise KLt := List.Pairwise.filter _ hpw
      have hIr : ∀ s ∈ S.filter (fun s => decide (¬ Sub s l)), Sub s r ∨ KLt r s := by
        intro s hs
        obtain ⟨hs, hnl⟩ := List.mem_filter.mp hs
        have hnl : ¬ Sub s l := by simpa using hnl
        rcases hI s hs with hsub | hk
        · simp only [Sub] at hsub
          rcases hsub with e | hl | hr
          · exact absurd (e ▸ hs) hnm
          · exact absurd hl hnl
          · exact Or.inl hr
        · exact Or.inr (klt_sub_left hk (sub_inner_of_child (Or.inr (sub_refl r))))
      have hCr : ∀ n, Sub n r → Sub n T' → ∃ s ∈ S.filter (fun s => decide (¬ Sub s l)), Sub n s := by
        intro n hn hn'
        obtain ⟨s, hs, hns'⟩ := hC n (sub_inner_of_child (Or.inr hn)) hn'
        refine ⟨s, List.mem_filter.mpr ⟨hs, ?_⟩, hns'⟩
        simp only [decide_not, Bool.not_eq_eq_eq_not, Bool.not_true, decide_eq_false_iff_not]
        intro hsl
        exact klt_no_common hklr (sub_trans' hns' hsl) hn
      have hS1 : ∀ s ∈ S.filter (fun s => decide (¬ Sub s l)), Sub s T' :=
        fun s hs => hS s (List.mem_filter.mp hs).1
      rw [el]
      have er := ihr ho.2.1 _ hpw1 hIr hCr hS1
      rw [er]
      simp only [pre, List.filter_cons, List.filter_append, hns, not_false_eq_true, decide_true, if_true,
        List.filter_filter, Prod.mk.injEq, true_and]
      apply List.filter_congr
      intro s hs
      have hne : s ≠ Node.inner k h sz ver l r := fun e => hnm (e ▸ hs)
      simp only [Sub, hne, false_or, decide_not, not_or, Bool.decide_and, Bool.and_comm]
    cases S with
    | nil => simp only [diff]; exact go (by intro s S' h; cases h)
    | cons s S' =>
      simp only [diff]
      by_cases hts : Node.inner k h sz ver l r = s
      · rw [if_pos hts]
        subst hts
        rw [filter_head _ S' hpw, filter_pre_shared T' _ (hS _ (by simp))]
      · rw [if_neg hts]
        exact go (by intro s0 S0 h; cases h; exact hts)
end Iavl

namespace Iavl
open Std
set_option linter.unusedSectionVars false
variable {K V : Type} [Ord K] [BEq K] [TransOrd K] [LawfulEqOrd K] [DecidableEq K] [DecidableEq V]

/-- every node of `t` was persisted at or before `v` (true of the tree of version `v`) -/
def AllLe (v : Nat) : Node K V → Prop
  | .leaf k vv ver => sharedAt v (.leaf k vv ver : Node K V) = true
  | .inner k h sz ver l r => sharedAt v (.inner k h sz ver l r : Node K V) = true ∧ AllLe v l ∧ AllLe v r

theorem allLe_sub {v : Nat} {n t : Node K V} (h : AllLe v t) (hs : Sub n t) : sharedAt v n = true := by
  induction t with
  | leaf k vv ver => simp only [Sub] at hs; subst hs; exact h
  | inner k hh sz ver l r ihl ihr =>
    simp only [Sub] at hs
    rcases hs with hs | hs | hs
    · subst hs; exact h.1
    · exact ihl h.2.1 hs
    · exact ihr h.2.2 hs

/-- a node of the newer tree that is old enough lies at or below one of the shared roots -/
theorem sharedRoots_cover (v : Nat) (t n : Node K V) (hs : Sub n t) (hn : sharedAt v n = true) :
    ∃ s ∈ sharedRoots v t, Sub n s := by
  induction t with
  | leaf k vv ver =>
    simp only [Sub] at hs; subst hs
    exact ⟨_, by simp [sharedRoots, hn], sub_refl _⟩
  | inner k h sz ver l r ihl ihr =>
    by_cases hroot : sharedAt v (Node.inner k h sz ver l r) = true
    · exact ⟨_, by simp [sharedRoots, hroot], hs⟩
    · simp only [Sub] at hs
      rcases hs with hs | hs | hs
      · subst hs; exact absurd hn hroot
      · obtain ⟨s, hs1, hs2⟩ := ihl hs
        exact ⟨s, by simp [sharedRoots, hroot, hs1], hs2⟩
      · obtain ⟨s, hs1, hs2⟩ := ihr hs
        exact ⟨s, by simp [sharedRoots, hroot, hs1], hs2⟩

/-- **Orphans.** For the tree `T` of version `v` and the tree `T'` of version `v+1`, if every node of
    `T'` persisted at or before `v` is a subtree of `T` (the sharing invariant, which `set_shares` /
    `remove_shares` establish), the two-cursor diff returns exactly the nodes of `T` that do not occur
    in `T'`, in pre-order, and consumes every shared root. -/
theorem orphans_correct (v : Nat) (T T' : Node K V) (hT : Ordered T) (hT' : Ordered T')
    (hle : AllLe v T) (hshare : ∀ s ∈ sharedRoots v T', Sub s T) :
    diff T (sharedRoots v T') = ((pre T).filter (fun n => decide (¬ Sub n T')), []) := by
  have h := diff_spec T' T hT (sharedRoots v T') (sharedRoots_pairwise v T' hT')
    (fun s hs => Or.inl (hshare s hs))
    (fun n hn hn' => sharedRoots_cover v T' n hn' (allLe_sub hle hn))
    (sharedRoots_sub v T')
  rw [h]
  congr 1
  rw [List.filter_eq_nil_iff]
  intro s hs
  simpa using hshare s hs
end Iavl
