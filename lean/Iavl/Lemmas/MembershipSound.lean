import Iavl.Model.TakeVarint
import Iavl.Lemmas.Sharing
/- Spike for C03: membership soundness modulo an explicit hash collision. -/
namespace Iavl
open Std

variable (H : Bytes → Bytes)

def Collision : Prop := ∃ x y : Bytes, x ≠ y ∧ H x = H y

/-- zig-zag of a natural number -/
theorem varint_nat (n : Nat) : varint (n : Int) = uvarint (2 * n) := by
  unfold varint
  have : ((n : Int) ≥ 0) := Int.natCast_nonneg n
  simp only [this, if_true]
  congr 1

/-- magnitude bounds that make every varint of the pre-image a 64-bit one, and `h ≥ 1` on inner nodes -/
def Bounded (working : Nat) : Node Bytes Bytes → Prop
  | .leaf _ _ ver => verOf ver working < 2 ^ 62
  | .inner _ h sz ver l r => 1 ≤ h ∧ h < 2 ^ 62 ∧ sz < 2 ^ 62 ∧ verOf ver working < 2 ^ 62 ∧
      Bounded working l ∧ Bounded working r

theorem bounded_sub {working : Nat} {s t : Node Bytes Bytes} (hs : Sub s t) (hb : Bounded working t) :
    Bounded working s := by
  induction t with
  | leaf k v ver => simp only [Sub] at hs; subst hs; exact hb
  | inner k h sz ver l r ihl ihr =>
    simp only [Sub] at hs
    obtain ⟨_, _, _, _, hbl, hbr⟩ := hb
    rcases hs with hs | hs | hs
    · subst hs; exact ⟨‹_›, ‹_›, ‹_›, ‹_›, hbl, hbr⟩
    · exact ihl hs hbl
    · exact ihr hs hbr

theorem sub_trans {a b c : Node Bytes Bytes} (h1 : Sub a b) (h2 : Sub b c) : Sub a c := by
  induction c with
  | leaf k v ver => simp only [Sub] at h2; subst h2; exact h1
  | inner k h sz ver l r ihl ihr =>
    simp only [Sub] at h2 ⊢
    rcases h2 with h2 | h2 | h2
    · subst h2; simpa [Sub] using h1
    · exact Or.inr (Or.inl (ihl h2))
    · exact Or.inr (Or.inr (ihr h2))

theorem sub_leaf_mem {k v : Bytes} {ver : Option Nat} {t : Node Bytes Bytes}
    (h : Sub (.leaf k v ver) t) : (k, v) ∈ t.toList := by
  induction t with
  | leaf k' v' ver' => simp only [Sub] at h; cases h; simp
  | inner k' hh sz ver' l r ihl ihr =>
    simp only [Sub] at h
    rcases h with h | h | h
    · cases h
    · simp [ihl h]
    · simp [ihr h]

/-- pre-images -/
def preLeaf (working : Nat) (k v : Bytes) (ver : Option Nat) : Bytes :=
  leafPrefix (verOf ver working) ++ encBytes k ++ encBytes (H v)
def preInner (working : Nat) (h sz : Nat) (ver : Option Nat) (l r : Node Bytes Bytes) : Bytes :=
  innerPrefix h sz (verOf ver working) ++ encBytes (hashNode H working l) ++ encBytes (hashNode H working r)

theorem uvarint_ne_nil (n : Nat) : uvarint n ≠ [] := by
  unfold uvarint; split <;> simp

theorem uvarint_head_zero_iff (n : Nat) : (uvarint n).head? = some 0 ↔ n = 0 := by
  unfold uvarint
  split
  · rename_i h
    simp only [List.head?_cons, Option.some.injEq]
    constructor
    · intro h0
      have : (n.toUInt8).toNat = n := by
        simp [Nat.toUInt8, UInt8.toNat_ofNat, Nat.mod_eq_of_lt (show n < 256 by omega)]
      rw [h0] at this; simpa using this.symm
    · intro h0; subst h0; rfl
  · rename_i h
    simp only [List.head?_cons, Option.some.injEq]
    constructor
    · intro h0
      have : ((n % 128 + 128).toUInt8).toNat = n % 128 + 128 := by
        simp [Nat.toUInt8, UInt8.toNat_ofNat, Nat.mod_eq_of_lt (show n % 128 + 128 < 256 by omega)]
      rw [h0] at this; simp at this
    · intro h0; omega

/-- the verifier-side checks that matter for soundness (ics23 `CheckAgainstSpec` + `validateIavlOps`) -/
structure InnerChecked (op : InnerOp) : Prop where
  parses : ∃ v rem, take3 op.pfx = some (v, rem) ∧ (rem.length = 1 ∨ rem.length = 34)
  notLeaf : op.pfx.head? ≠ some 0
structure LeafChecked (pfx : Bytes) : Prop where
  parses : ∃ v, take3 pfx = some (v, [])
  isLeaf : pfx.head? = some 0

def calcUp (x : Bytes) : List InnerOp → Bytes
  | [] => x
  | op :: ops => calcUp (applyInner H op x) ops

theorem calcRoot_eq_calcUp (p : ExistProof) : calcRoot H p = calcUp H (applyLeaf H p) p.path := by
  unfold calcRoot
  generalize applyLeaf H p = x
  induction p.path generalizing x with
  | nil => rfl
  | cons op ops ih => simp [calcUp, ih]

variable (hH : ∀ x, (H x).length = 32)
include hH

theorem encBytes_hash (x : Bytes) : encBytes (H x) = 32 :: H x := by
  unfold encBytes
  rw [hH x]
  unfold uvarint; simp

theorem hashNode_length (working : Nat) (n : Node Bytes Bytes) : (hashNode H working n).length = 32 := by
  cases n <;> simp [hashNode, hH]

/-- one step down: an inner op applied to `x` yields the hash of node `m` ⇒ collision, or `m` is an
    inner node and `x` is the hash of one of its children -/
theorem step_down (working : Nat) (m : Node Bytes Bytes) (hb : Bounded working m) (op : InnerOp)
    (hc : InnerChecked op) (x : Bytes) (hx : x.length = 32)
    (heq : applyInner H op x = hashNode H working m) :
    Collision H ∨ ∃ c, Sub c m ∧ x = hashNode H working c := by
  cases m with
  | leaf k v ver =>
    -- pre-image of a leaf starts with 0x00, the op's prefix does not
    by_cases hpre : op.pfx ++ x ++ op.sfx = preLeaf H working k v ver
    · exfalso
      obtain ⟨v3, rem, hp, _⟩ := hc.parses
      have hne : op.pfx ≠ [] := by
        intro h; rw [h] at hp; simp [take3, takeUvarint, takeUvarintGo] at hp
      have hhead : (op.pfx ++ x ++ op.sfx).head? = op.pfx.head? := by
        cases hpf : op.pfx with
        | nil => exact absurd hpf hne
        | cons a as => simp
      have : (preLeaf H working k v ver).head? = some 0 := by
        have hz : varint 0 = [0] := by
          unfold varint; simp; unfold uvarint; simp
        simp only [preLeaf, leafPrefix, hz, List.cons_append, List.nil_append, List.append_assoc, List.head?_cons]
      rw [hpre] at hhead
      exact hc.notLeaf (by rw [← hhead, this])
    · left
      exact ⟨_, _, hpre, by simpa [applyInner, hashNode, preLeaf] using heq⟩
  | inner k h sz ver l r =>
    obtain ⟨h1, hh, hsz, hver, hbl, hbr⟩ := hb
    by_cases hpre : op.pfx ++ x ++ op.sfx = preInner H working h sz ver l r
    · right
      obtain ⟨v3, rem, hp, hrem⟩ := hc.parses
      -- rewrite the honest pre-image as three uvarints followed by 0x20‖L‖0x20‖R
      have hL := hashNode_length H hH working l
      have hR := hashNode_length H hH working r
      have hform : preInner H working h sz ver l r =
          uvarint (2 * h) ++ uvarint (2 * sz) ++ uvarint (2 * verOf ver working) ++
            (32 :: hashNode H working l ++ 32 :: hashNode H working r) := by
        have e1 : encBytes (hashNode H working l) = 32 :: hashNode H working l := by
          unfold encBytes; rw [hL]; unfold uvarint; simp
        have e2 : encBytes (hashNode H working r) = 32 :: hashNode H working r := by
          unfold encBytes; rw [hR]; unfold uvarint; simp
        simp only [preInner, innerPrefix, varint_nat, e1, e2, List.append_assoc]
      rw [hform, List.append_assoc] at hpre
      have hu := take3_unique op.pfx (x ++ op.sfx) _ rem v3 (2 * h) (2 * sz) (2 * verOf ver working)
        (by omega) (by omega) (by omega) hp hpre
      obtain ⟨_, hrest⟩ := hu
      rcases hrem with hrem | hrem
      · -- rem = [0x20]: x is the left child hash
        refine ⟨l, by simp [Sub, sub_refl], ?_⟩
        cases rem with
        | nil => simp at hrem
        | cons b rem' =>
          have : rem' = [] := List.eq_nil_of_length_eq_zero (by simpa using hrem)
          subst this
          simp only [List.cons_append, List.nil_append, List.cons.injEq] at hrest
          have := List.append_inj hrest.2 (by rw [hx, hL])
          exact this.1
      · -- rem = 0x20‖L‖0x20: x is the right child hash
        refine ⟨r, by simp [Sub, sub_refl], ?_⟩
        have hsplit : rem ++ (x ++ op.sfx) = (32 :: hashNode H working l ++ [32]) ++ hashNode H working r := by
          rw [hrest]; simp
        have h1 := List.append_inj hsplit (by simp [hrem, hL])
        have h2 : x ++ op.sfx = hashNode H working r ++ [] := by simpa using h1.2
        exact (List.append_inj h2 (by rw [hx, hR])).1
    · left
      exact ⟨_, _, hpre, by simpa [applyInner, hashNode, preInner] using heq⟩

/-- walking the whole path down from the root -/
theorem path_down (working : Nat) (t : Node Bytes Bytes) (hb : Bounded working t)
    (ops : List InnerOp) (hops : ∀ op ∈ ops, InnerChecked op) (x : Bytes) (hx : x.length = 32)
    (heq : calcUp H x ops = hashNode H working t) :
    Collision H ∨ ∃ m, Sub m t ∧ x = hashNode H working m := by
  induction ops generalizing x with
  | nil => exact Or.inr ⟨t, sub_refl t, heq⟩
  | cons op ops ih =>
    simp only [calcUp] at heq
    have hx' : (applyInner H op x).length = 32 := by simp [applyInner, hH]
    rcases ih (fun o ho => hops o (by simp [ho])) _ hx' heq with hc | ⟨m, hm, hxm⟩
    · exact Or.inl hc
    · rcases step_down H hH working m (bounded_sub hm hb) op (hops op (by simp)) x hx hxm with hc | ⟨c, hcm, hxc⟩
      · exact Or.inl hc
      · exact Or.inr ⟨c, sub_trans hcm hm, hxc⟩
end Iavl

namespace Iavl
open Std
variable (H : Bytes → Bytes) (hH : ∀ x, (H x).length = 32)
include hH

/-- `encBytes` is injective on its first component when lengths are 64-bit -/
theorem encBytes_append_inj (a b c d : Bytes) (ha : a.length < 2 ^ 64) (hc : c.length < 2 ^ 64)
    (h : encBytes a ++ b = encBytes c ++ d) : a = c ∧ b = d := by
  unfold encBytes at h
  rw [List.append_assoc, List.append_assoc] at h
  have h1 := takeUvarint_put a.length ha (a ++ b)
  have h2 := takeUvarint_put c.length hc (c ++ d)
  rw [h] at h1
  rw [h1] at h2
  simp only [Option.some.injEq, Prod.mk.injEq] at h2
  obtain ⟨hl, hrest⟩ := h2
  exact List.append_inj hrest hl

/-- keys of the tree have 64-bit lengths (true of any Go slice) -/
def KeysBounded : Node Bytes Bytes → Prop
  | .leaf k _ _ => k.length < 2 ^ 64
  | .inner _ _ _ _ l r => KeysBounded l ∧ KeysBounded r

theorem keysBounded_sub {s t : Node Bytes Bytes} (hs : Sub s t) (hb : KeysBounded t) : KeysBounded s := by
  induction t with
  | leaf k v ver => simp only [Sub] at hs; subst hs; exact hb
  | inner k h sz ver l r ihl ihr =>
    simp only [Sub] at hs
    rcases hs with hs | hs | hs
    · subst hs; exact hb
    · exact ihl hs hb.1
    · exact ihr hs hb.2

/-- **Membership soundness.** If the verifier's computation on a spec-conforming existence proof
    yields the root hash of `t`, then the proved pair is in `t` — or we hold a collision of `H`. -/
theorem membership_sound (working : Nat) (t : Node Bytes Bytes) (hb : Bounded working t)
    (hk : KeysBounded t) (p : ExistProof) (hkey : p.key.length < 2 ^ 64)
    (hleaf : LeafChecked p.leafPfx) (hops : ∀ op ∈ p.path, InnerChecked op)
    (hroot : calcRoot H p = hashNode H working t) :
    (p.key, p.value) ∈ t.toList ∨ Collision H := by
  rw [calcRoot_eq_calcUp] at hroot
  have hx : (applyLeaf H p).length = 32 := by simp [applyLeaf, hH]
  rcases path_down H hH working t hb p.path hops _ hx hroot with hc | ⟨m, hm, hxm⟩
  · exact Or.inr hc
  · have hbm := bounded_sub hm hb
    obtain ⟨v3, hp⟩ := hleaf.parses
    cases m with
    | inner k h sz ver l r =>
      -- a leaf pre-image (first byte 0) cannot be an inner pre-image (first byte ≠ 0)
      obtain ⟨h1, hh, _⟩ := hbm
      by_cases hpre : p.leafPfx ++ encBytes p.key ++ encBytes (H p.value) = preInner H working h sz ver l r
      · exfalso
        have hne : p.leafPfx ≠ [] := by
          intro h0; rw [h0] at hp; simp [take3, takeUvarint, takeUvarintGo] at hp
        have hhead : (p.leafPfx ++ encBytes p.key ++ encBytes (H p.value)).head? = some 0 := by
          cases hpf : p.leafPfx with
          | nil => exact absurd hpf hne
          | cons a as =>
            have := hleaf.isLeaf; rw [hpf] at this; simpa using this
        rw [hpre] at hhead
        have : (preInner H working h sz ver l r).head? = (uvarint (2 * h)).head? := by
          simp only [preInner, innerPrefix, varint_nat, List.append_assoc]
          cases hu : uvarint (2 * h) with
          | nil => exact absurd hu (uvarint_ne_nil _)
          | cons a as => simp
        rw [this, uvarint_head_zero_iff] at hhead
        omega
      · exact Or.inr ⟨_, _, hpre, by simpa [applyLeaf, hashNode, preInner] using hxm⟩
    | leaf k v ver =>
      by_cases hpre : p.leafPfx ++ encBytes p.key ++ encBytes (H p.value) = preLeaf H working k v ver
      · -- headers agree, then key, then value hash
        have hform : preLeaf H working k v ver =
            uvarint 0 ++ uvarint 2 ++ uvarint (2 * verOf ver working) ++ (encBytes k ++ encBytes (H v)) := by
          have e0 : varint 0 = uvarint 0 := by simpa using varint_nat 0
          have e1 : varint 1 = uvarint 2 := by simpa using varint_nat 1
          simp only [preLeaf, leafPrefix, e0, e1, varint_nat, List.append_assoc]
        rw [hform, List.append_assoc] at hpre
        have hver : verOf ver working < 2 ^ 62 := hbm
        obtain ⟨_, hrest⟩ := take3_unique p.leafPfx _ _ [] v3 0 2 (2 * verOf ver working)
          (by decide) (by decide) (by omega) hp hpre
        simp only [List.nil_append] at hrest
        have hkb : k.length < 2 ^ 64 := keysBounded_sub H hH hm hk
        obtain ⟨hkeq, hvals⟩ := encBytes_append_inj H hH p.key _ k _ hkey hkb hrest
        rw [encBytes_hash H hH, encBytes_hash H hH] at hvals
        have hvh : H p.value = H v := by simpa using hvals
        by_cases hv : p.value = v
        · left
          rw [hkeq, hv]
          exact sub_leaf_mem hm
        · exact Or.inr ⟨_, _, hv, hvh⟩
      · exact Or.inr ⟨_, _, hpre, by simpa [applyLeaf, hashNode, preLeaf] using hxm⟩
end Iavl
