import Iavl.Lemmas.Refine
import Iavl.Lemmas.Sharing
import Iavl.Lemmas.Twin
import Iavl.Lemmas.ChangeSetCorrect
/-
  C15, lifted to histories: the sharing hypothesis of `apply_changeSet` holds between every two
  consecutive retained versions of every reachable state of the version machine. The invariant says:
  the saved leaves of the working tree are leaves of the tree it was loaded from (`set_shares` /
  `remove_shares` for every write), that tree is the retained version `base` whenever that version is
  retained, and every retained pair (u, u+1) shares.
-/
namespace Iavl
open Std
set_option linter.unusedSectionVars false
variable {K V : Type} [Ord K] [BEq K] [TransOrd K] [LawfulEqOrd K]

/-- the sharing hypothesis of `apply_changeSet` -/
def ShareO (u : Nat) (prev cur : OTree K V) : Prop :=
  ∀ x ∈ leavesO cur, (∃ w, x.2.2 = some w ∧ w ≤ u) → x ∈ leavesO prev

/-- a leaf of the list of leaves is a subtree, and conversely -/
theorem mem_leaves_iff_sub (t : Node K V) (k : K) (v : V) (ver : Option Nat) :
    (k, v, ver) ∈ t.leaves ↔ Sub (.leaf k v ver) t := by
  induction t with
  | leaf k' v' ver' =>
    simp only [Node.leaves, List.mem_singleton, Sub, Prod.mk.injEq, Node.leaf.injEq]
  | inner k' h sz ver' l r ihl ihr =>
    simp only [Node.leaves, List.mem_append, Sub, ihl, ihr]
    constructor
    · intro h; exact Or.inr h
    · intro h; rcases h with h | h
      · cases h
      · exact h

/-- saved leaves of `t.set` are leaves of `t` -/
theorem set_saved_leaves (t : Node K V) (key : K) (val : V) (x : K × V × Option Nat)
    (hx : x ∈ (t.set key val).1.leaves) (hs : x.2.2.isSome) : x ∈ t.leaves := by
  obtain ⟨k, v, ver⟩ := x
  rw [mem_leaves_iff_sub] at hx ⊢
  exact set_shares t _ key val hx (by simpa [Node.saved] using hs)

theorem remove_saved_leaves (t t' : Node K V) (key : K) (nk : Option K) (v : V)
    (hrem : t.remove key = some ⟨some t', nk, v⟩) (x : K × V × Option Nat)
    (hx : x ∈ t'.leaves) (hs : x.2.2.isSome) : x ∈ t.leaves := by
  obtain ⟨k, v', ver⟩ := x
  rw [mem_leaves_iff_sub] at hx ⊢
  exact remove_shares t _ key t' nk v hrem hx (by simpa [Node.saved] using hs)

/-- a leaf of the committed tree that carries version `w` is an untouched leaf of the working tree,
    or it was stamped: `w = ver` -/
theorem leaves_commitVer (ver : Nat) (t : Node K V) (x : K × V × Option Nat)
    (hx : x ∈ (commitVer ver t).leaves) (w : Nat) (hw : x.2.2 = some w) : x ∈ t.leaves ∨ w = ver := by
  induction t with
  | leaf k v o =>
    cases o with
    | none =>
      simp only [commitVer, Node.leaves, List.mem_singleton] at hx; subst hx
      simp only [Option.some.injEq] at hw; exact Or.inr hw.symm
    | some u => simp only [commitVer] at hx; exact Or.inl hx
  | inner k h sz o l r ihl ihr =>
    cases o with
    | none =>
      simp only [commitVer, Node.leaves, List.mem_append] at hx ⊢
      rcases hx with hx | hx
      · rcases ihl hx with h1 | h1
        · exact Or.inl (Or.inl h1)
        · exact Or.inr h1
      · rcases ihr hx with h1 | h1
        · exact Or.inl (Or.inr h1)
        · exact Or.inr h1
    | some u => simp only [commitVer] at hx; exact Or.inl hx

/-- the invariant -/
structure SInv (s : VState (OTree K V)) : Prop where
  asc : AscV s.versions
  pos : ∀ p ∈ s.versions, 1 ≤ p.1
  pairs : ∀ u p c, (u, p) ∈ s.versions → (u + 1, c) ∈ s.versions → ShareO u p c
  wshare : ∀ x ∈ leavesO s.working, x.2.2.isSome → x ∈ leavesO s.lastSaved
  lastOk : ∀ p, findVer s.versions s.base = some p → p = s.lastSaved
  base0 : s.base = 0 → s.lastSaved = none

section lists
variable {C : Type}

theorem asc_mem_findVer (vs : List (Nat × C)) (ha : AscV vs) (n : Nat) (c : C) (hm : (n, c) ∈ vs) :
    findVer vs n = some c := by
  induction vs with
  | nil => cases hm
  | cons a tl ih =>
    have hlt := (List.pairwise_cons.mp ha).1
    rcases List.mem_cons.mp hm with h | h
    · subst h; simp [findVer]
    · have hne : (a.1 == n) = false := by
        have := hlt _ h
        simp; omega
      have := ih (List.Pairwise.of_cons ha) h
      simp only [findVer, List.find?_cons, hne] at this ⊢
      exact this

theorem asc_le_latest (vs : List (Nat × C)) (ha : AscV vs) (p : Nat × C) (hm : p ∈ vs) : p.1 ≤ latestVer vs := by
  induction vs generalizing p with
  | nil => cases hm
  | cons a tl ih =>
    have hlt := (List.pairwise_cons.mp ha).1
    cases tl with
    | nil =>
      have : p = a := by simpa using hm
      subst this; simp [latestVer]
    | cons b tl' =>
      have hrec := ih (List.Pairwise.of_cons ha)
      have hl : latestVer (a :: b :: tl') = latestVer (b :: tl') := by
        simp [latestVer, List.getLast?_cons_cons]
      rw [hl]
      rcases List.mem_cons.mp hm with h | h
      · subst h
        have h1 := hlt b (by simp)
        have h2 := hrec b (by simp)
        omega
      · exact hrec p h

theorem asc_append (vs : List (Nat × C)) (ha : AscV vs) (ver : Nat) (c : C) (hl : latestVer vs < ver) :
    AscV (vs ++ [(ver, c)]) := by
  unfold AscV
  rw [List.pairwise_append]
  refine ⟨ha, by simp, ?_⟩
  intro a hma b hmb
  have : b = (ver, c) := by simpa using hmb
  subst this
  have := asc_le_latest vs ha a hma
  simp only; omega

theorem findVer_append_new (vs : List (Nat × C)) (ver : Nat) (c : C) (h : findVer vs ver = none) :
    findVer (vs ++ [(ver, c)]) ver = some c := by
  unfold findVer at h ⊢
  rw [List.find?_append]
  cases hf : vs.find? (fun p => p.1 == ver) with
  | some p => simp [hf] at h
  | none => simp
end lists

theorem sinv_filter (s : VState (OTree K V)) (q : Nat → Bool) (h : SInv s) :
    SInv { s with versions := s.versions.filter (fun p => q p.1) } where
  asc := List.Pairwise.filter _ h.asc
  pos := fun p hp => h.pos p (List.mem_filter.mp hp).1
  pairs := fun u p c h1 h2 => h.pairs u p c (List.mem_filter.mp h1).1 (List.mem_filter.mp h2).1
  wshare := h.wshare
  lastOk := by
    intro p hp
    simp only at hp
    rw [findVer_filter] at hp
    split at hp
    · exact h.lastOk p hp
    · cases hp
  base0 := h.base0

/-- what a successful load amounts to -/
theorem load_shape {C : Type} (s s' : VState C) (target lat : Nat) (hl : s.load target = some (s', lat)) :
    s' = s ∨ ∃ t c, findVer s.versions t = some c ∧ s' = { s with working := c, lastSaved := c, base := t } := by
  unfold VState.load at hl
  cases hvs : s.versions with
  | nil =>
    rw [hvs] at hl; simp only at hl
    split at hl
    · simp only [Option.some.injEq, Prod.mk.injEq] at hl; exact Or.inl hl.1.symm
    · cases hl
  | cons a as =>
    rw [hvs] at hl; simp only at hl
    split at hl
    · cases hl
    · split at hl
      · cases hl
      · cases hf : findVer (a :: as) (if target = 0 then latestVer (a :: as) else target) with
        | none => rw [hf] at hl; cases hl
        | some c =>
          rw [hf] at hl
          simp only [Option.some.injEq, Prod.mk.injEq] at hl
          exact Or.inr ⟨_, c, hf, hl.1.symm⟩

theorem sinv_load (s s' : VState (OTree K V)) (target lat : Nat) (h : SInv s)
    (hl : s.load target = some (s', lat)) : SInv s' := by
  rcases load_shape s s' target lat hl with rfl | ⟨t, c, hf, rfl⟩
  · exact h
  · have hmem := findVer_some_mem _ _ _ hf
    exact {
      asc := h.asc
      pos := h.pos
      pairs := h.pairs
      wshare := fun x hx _ => hx
      lastOk := by intro p hp; simp only at hp; rw [hf] at hp; exact (Option.some.inj hp).symm
      base0 := by
        intro h0
        simp only at h0
        have := h.pos _ hmem
        simp only at this
        omega }

theorem sinv_fresh (s : VState (OTree K V)) (iv : Option Nat) (h : SInv s) :
    SInv (s.fresh (treeContent (K := K) (V := V)) iv) where
  asc := h.asc
  pos := h.pos
  pairs := h.pairs
  wshare := by intro x hx; simp [VState.fresh, treeContent, leavesO] at hx
  lastOk := by
    intro p hp
    simp only [VState.fresh] at hp
    have := h.pos _ (findVer_some_mem _ _ _ hp)
    simp at this
  base0 := fun _ => rfl

/-- a commit onto a new version number keeps the invariant: the pair (ver-1, ver) shares because the
    saved leaves of the working tree are leaves of the tree it was loaded from -/
theorem sinv_save_new (s : VState (OTree K V)) (h : SInv s)
    (hnone : findVer s.versions s.workingVersion = none) (hlt : latestVer s.versions < s.workingVersion) :
    SInv { s with ivSet := false,
                  versions := s.versions ++ [(s.workingVersion, s.working.map (commitVer s.workingVersion))],
                  working := s.working.map (commitVer s.workingVersion),
                  lastSaved := s.working.map (commitVer s.workingVersion),
                  base := s.workingVersion } where
  asc := asc_append _ h.asc _ _ hlt
  pos := by
    intro p hp
    rcases List.mem_append.mp hp with hp | hp
    · exact h.pos p hp
    · have : p = (s.workingVersion, s.working.map (commitVer s.workingVersion)) := by simpa using hp
      rw [this]; simp only; omega
  pairs := by
    intro u p c h1 h2
    rcases List.mem_append.mp h1 with h1 | h1
    · rcases List.mem_append.mp h2 with h2 | h2
      · exact h.pairs u p c h1 h2
      · -- the new version and its retained predecessor
        have heq : (u + 1, c) = (s.workingVersion, s.working.map (commitVer s.workingVersion)) := by simpa using h2
        simp only [Prod.mk.injEq] at heq
        obtain ⟨hver, hc⟩ := heq
        intro x hx hw
        obtain ⟨w, hw1, hw2⟩ := hw
        -- x is an untouched saved leaf of the working tree (it was not stamped: w ≤ u < ver)
        have hxw : x ∈ leavesO s.working := by
          rw [hc] at hx
          cases hwk : s.working with
          | none => rw [hwk] at hx; simp [leavesO] at hx
          | some t =>
            rw [hwk] at hx
            simp only [Option.map_some, leavesO] at hx ⊢
            rcases leaves_commitVer _ t x hx w hw1 with h' | h'
            · exact h'
            · omega
        have hxl := h.wshare x hxw (by rw [hw1]; rfl)
        -- the tree it was loaded from is the retained predecessor
        by_cases hb : s.base + 1 = 1 ∧ s.ivSet = true
        · have : s.lastSaved = none := h.base0 (by omega)
          rw [this] at hxl; simp [leavesO] at hxl
        · have hwv : s.workingVersion = s.base + 1 := by
            unfold VState.workingVersion; rw [if_neg hb]
          have hub : u = s.base := by omega
          have := h.lastOk p (by rw [← hub]; exact asc_mem_findVer _ h.asc _ _ h1)
          rw [this]; exact hxl
    · have hp : (u, p) = (s.workingVersion, s.working.map (commitVer s.workingVersion)) := by simpa using h1
      simp only [Prod.mk.injEq] at hp
      rcases List.mem_append.mp h2 with h2 | h2
      · have := asc_le_latest _ h.asc _ h2
        simp only at this; omega
      · have : (u + 1, c) = (s.workingVersion, s.working.map (commitVer s.workingVersion)) := by simpa using h2
        simp only [Prod.mk.injEq] at this
        omega
  wshare := fun x hx _ => hx
  lastOk := by
    intro p hp
    simp only at hp
    rw [findVer_append_new _ _ _ hnone] at hp
    exact (Option.some.inj hp).symm
  base0 := by intro h0; simp only at h0; omega

/-- **every operation of the version machine keeps the sharing invariant** -/
theorem step_sinv (s : VState (OTree K V)) (h : SInv s) (op : Op K V) : SInv (VTree.step s op).1 := by
  unfold VTree.step
  cases op with
  | set k v =>
    simp only [VState.step]
    refine { asc := h.asc, pos := h.pos, pairs := h.pairs, lastOk := h.lastOk, base0 := h.base0, wshare := ?_ }
    intro x hx hs
    cases hw : s.working with
    | none => simp only [hw, treeContent, leavesO, Node.leaves, List.mem_singleton] at hx; subst hx; simp at hs
    | some t =>
      simp only [hw, treeContent, leavesO] at hx
      have := set_saved_leaves t k v x hx hs
      exact h.wshare x (by rw [hw]; exact this) hs
  | remove k =>
    simp only [VState.step]
    cases hr : treeContent.remove s.working k with
    | none => simpa [hr] using h
    | some cv =>
      obtain ⟨c, v⟩ := cv
      simp only [hr]
      refine { asc := h.asc, pos := h.pos, pairs := h.pairs, lastOk := h.lastOk, base0 := h.base0, wshare := ?_ }
      intro x hx hs
      cases hw : s.working with
      | none => simp [hw, treeContent] at hr
      | some t =>
        simp only [hw, treeContent, Option.map_eq_some_iff] at hr
        obtain ⟨r, hrem, hrc⟩ := hr
        simp only [Prod.mk.injEq] at hrc
        obtain ⟨hnode, _⟩ := hrc
        cases hn : r.node with
        | none => rw [hn] at hnode; rw [← hnode] at hx; simp [leavesO] at hx
        | some t' =>
          rw [hn] at hnode; rw [← hnode] at hx
          have hrem' : t.remove k = some ⟨some t', r.newKey, r.value⟩ := by rw [hrem, ← hn]
          have := remove_saved_leaves t t' k r.newKey r.value hrem' x hx hs
          exact h.wshare x (by rw [hw]; exact this) hs
  | save same =>
    simp only [VState.step]
    cases hf : findVer s.versions s.workingVersion with
    | some c =>
      simp only
      split
      · have hmem := findVer_some_mem _ _ _ hf
        exact { asc := h.asc, pos := h.pos, pairs := h.pairs, wshare := fun x hx _ => hx,
                lastOk := by intro p hp; simp only at hp; rw [hf] at hp; exact (Option.some.inj hp).symm,
                base0 := by intro h0; simp only at h0; have := h.pos _ hmem; simp only at this; omega }
      · exact { asc := h.asc, pos := h.pos, pairs := h.pairs, wshare := h.wshare, lastOk := h.lastOk, base0 := h.base0 }
    | none =>
      simp only
      split
      · rename_i hlt
        exact sinv_save_new s h hf hlt
      · exact { asc := h.asc, pos := h.pos, pairs := h.pairs, wshare := h.wshare, lastOk := h.lastOk, base0 := h.base0 }
  | rollback =>
    simp only [VState.step]
    refine { asc := h.asc, pos := h.pos, pairs := h.pairs, lastOk := h.lastOk, base0 := h.base0, wshare := ?_ }
    intro x hx _
    split at hx
    · simp [treeContent, leavesO] at hx
    · exact hx
  | load target =>
    simp only [VState.step]
    cases hl : s.load target with
    | none => exact h
    | some r => obtain ⟨s', lat⟩ := r; exact sinv_load s s' target lat h hl
  | loadow target =>
    simp only [VState.step]
    cases hl : s.load target with
    | none => exact h
    | some r =>
      obtain ⟨s', lat⟩ := r
      exact sinv_filter s' (fun v => decide (v ≤ s'.base)) (sinv_load s s' target lat h hl)
  | prune n =>
    simp only [VState.step]
    split
    · exact h
    · exact sinv_filter s (fun v => decide (n < v)) h
  | delfrom n =>
    simp only [VState.step]
    exact sinv_filter s (fun v => decide (v < n)) h
  | reopen iv target =>
    simp only [VState.step]
    cases hl : (s.fresh treeContent iv).load target with
    | none => exact sinv_fresh s iv h
    | some r => obtain ⟨s', lat⟩ := r; exact sinv_load _ s' target lat (sinv_fresh s iv h) hl
  | read r => exact h
  | immRead ver r =>
    simp only [VState.step]
    split <;> exact h
  | getVersioned k ver => exact h
  | versionExists ver => exact h
  | available => exact h
  | latest => exact h

/-- the state after a history -/
def stateAfter (s : VState (OTree K V)) : List (Op K V) → VState (OTree K V)
  | [] => s
  | op :: ops => stateAfter (VTree.step s op).1 ops

theorem sinv_init (iv : Option Nat) : SInv (initT iv : VState (OTree K V)) where
  asc := by simp [initT, AscV]
  pos := by intro p hp; simp [initT] at hp
  pairs := by intro u p c h1; simp [initT] at h1
  wshare := by intro x hx; simp [initT, leavesO] at hx
  lastOk := by intro p hp; simp [initT, findVer] at hp
  base0 := fun _ => rfl

theorem stateAfter_sinv (s : VState (OTree K V)) (h : SInv s) (ops : List (Op K V)) : SInv (stateAfter s ops) := by
  induction ops generalizing s with
  | nil => exact h
  | cons op ops ih => exact ih _ (step_sinv s h op)

theorem stateAfter_inv (s : VState (OTree K V)) (h : Inv s) (ops : List (Op K V)) : Inv (stateAfter s ops) := by
  induction ops generalizing s with
  | nil => exact h
  | cons op ops ih => exact ih _ (step_refines s h op).2

end Iavl
