import Iavl.Lemmas.Refine
/- Version bookkeeping lemmas of the generic version machine (C04, C09, C14). They hold for any
   content type, so for the versioned map and for the tree machine alike. -/
namespace Iavl
open Std
variable {C : Type}

theorem findVer_filter (vs : List (Nat × C)) (q : Nat → Bool) (w : Nat) :
    findVer (vs.filter (fun p => q p.1)) w = if q w then findVer vs w else none := by
  induction vs with
  | nil => simp [findVer]
  | cons a vs ih =>
    simp only [findVer] at ih ⊢
    by_cases hq : q a.1
    · simp only [List.filter_cons, hq, if_true, List.find?_cons]
      by_cases ha : a.1 == w
      · have : a.1 = w := by simpa using ha
        subst this
        simp [hq]
      · simp only [ha]
        exact ih
    · simp only [List.filter_cons, hq, List.find?_cons]
      by_cases ha : a.1 == w
      · have : a.1 = w := by simpa using ha
        subst this
        simp only [Bool.false_eq_true, if_false] at ih ⊢
        simp only [hq, Bool.false_eq_true, if_false] at ih ⊢
        exact ih
      · simp only [ha]
        exact ih

variable {K V : Type} (ct : Content K V C)

/-- C04: a deletion up to `n` that would remove the latest version is rejected without effect -/
theorem prune_rejected (s : VState C) (n : Nat) (h : latestVer s.versions ≤ n) :
    s.step ct (.prune n) = (s, .err) := by
  simp [VState.step, h]

/-- C04: otherwise every version `≤ n` becomes unavailable and every later version is untouched -/
theorem prune_effect (s : VState C) (n : Nat) (h : ¬ latestVer s.versions ≤ n) (w : Nat) :
    findVer (s.step ct (.prune n)).1.versions w = if n < w then findVer s.versions w else none := by
  simp only [VState.step, h, if_false]
  have := findVer_filter s.versions (fun v => decide (n < v)) w
  simpa using this

/-- C04: the working tree, the last saved tree and the counters are not touched by a deletion -/
theorem prune_keeps_working (s : VState C) (n : Nat) :
    (s.step ct (.prune n)).1.working = s.working ∧ (s.step ct (.prune n)).1.base = s.base := by
  simp only [VState.step]
  split <;> exact ⟨rfl, rfl⟩

/-- C09: `Rollback` returns the working state to the last saved version -/
theorem rollback_effect (s : VState C) :
    (s.step ct .rollback).1 = { s with working := if s.base = 0 then ct.empty else s.lastSaved } := rfl

/-- C09: `LoadVersionForOverwriting(target)`: when the load succeeds the working and last-saved
    state are version `base`, every greater version is gone and every other version is untouched -/
theorem loadow_effect (s s' : VState C) (target lat : Nat) (hl : s.load target = some (s', lat)) (w : Nat) :
    let r := (s.step ct (.loadow target)).1
    r.working = s'.working ∧ r.lastSaved = s'.lastSaved ∧ r.base = s'.base ∧
    findVer r.versions w = if w ≤ s'.base then findVer s'.versions w else none := by
  simp only [VState.step, hl]
  refine ⟨by trivial, by trivial, by trivial, ?_⟩
  have := findVer_filter s'.versions (fun v => decide (v ≤ s'.base)) w
  simpa using this

/-- `LoadVersion` changes neither the set of versions nor their contents -/
theorem load_versions (s s' : VState C) (target lat : Nat) (hl : s.load target = some (s', lat)) :
    s'.versions = s.versions := by
  unfold VState.load at hl
  cases hvs : s.versions with
  | nil =>
    rw [hvs] at hl; simp only at hl
    split at hl
    · simp only [Option.some.injEq, Prod.mk.injEq] at hl; rw [← hl.1, hvs]
    · cases hl
  | cons a as =>
    rw [hvs] at hl; simp only at hl
    split at hl
    · cases hl
    · split at hl
      · cases hl
      · cases hf : findVer (a :: as) (if target = 0 then latestVer (a :: as) else target) with
        | none => rw [hf] at hl; cases hl
        | some c =>
          rw [hf] at hl
          simp only [Option.some.injEq, Prod.mk.injEq] at hl
          rw [← hl.1]

/-- C09: deleting all versions from `n` upwards removes exactly those -/
theorem delfrom_effect (s : VState C) (n w : Nat) :
    findVer (s.step ct (.delfrom n)).1.versions w = if w < n then findVer s.versions w else none := by
  simp only [VState.step]
  have := findVer_filter s.versions (fun v => decide (v < n)) w
  simpa using this

/-- C14: the five version queries answer from one list -/
theorem version_queries_agree (s : VState C) (v : Nat) :
    ((s.step ct (.versionExists v)).2 = .bool (findVer s.versions v).isSome) ∧
    ((s.step ct .available).2 = .versions (s.versions.map (·.1))) ∧
    ((s.step ct .latest).2 = .nat (latestVer s.versions)) := ⟨rfl, rfl, rfl⟩

/-- C14: a query outside the range fails and leaves the machine unchanged (usable) -/
theorem load_missing_fails (s : VState C) (target : Nat) (h : s.load target = none) :
    s.step ct (.load target) = (s, .err) := by
  simp [VState.step, h]

theorem immRead_missing_fails (s : VState C) (ver : Nat) (r : ReadOp K) (h : findVer s.versions ver = none) :
    s.step ct (.immRead ver r) = (s, .err) := by
  simp [VState.step, h]

/-- C14: committing an existing version number succeeds iff the root hashes agree (`same`), and
    otherwise fails leaving every version untouched -/
theorem save_existing (s : VState C) (same : Bool) (c : C) (h : findVer s.versions s.workingVersion = some c) :
    (s.step ct (.save same)).1.versions = s.versions ∧
    ((s.step ct (.save same)).2 = if same then .version s.workingVersion else .err) := by
  simp only [VState.step, h]
  cases same <;> exact ⟨rfl, rfl⟩

/-- C14: a new commit appends exactly one version, numbered `workingVersion` -/
theorem save_new (s : VState C) (same : Bool) (h : findVer s.versions s.workingVersion = none)
    (hl : latestVer s.versions < s.workingVersion) :
    (s.step ct (.save same)).1.versions = s.versions ++ [(s.workingVersion, ct.commit s.workingVersion s.working)] ∧
    (s.step ct (.save same)).2 = .version s.workingVersion := by
  simp [VState.step, h, hl]
end Iavl
