import Iavl.Lemmas.Remove
/- Spike for C04/C12/C15: path copying shares every persisted subtree with the old tree
   (the basis of the "sharing interval" invariant behind orphan computation). -/
namespace Iavl
open Std
set_option linter.unusedSectionVars false
variable {K V : Type} [Ord K] [BEq K] [TransOrd K] [LawfulEqOrd K]

/-- `s` occurs as a subtree of `t` -/
def Sub (s : Node K V) : Node K V → Prop
  | .leaf k v ver => s = .leaf k v ver
  | .inner k h sz ver l r => s = .inner k h sz ver l r ∨ Sub s l ∨ Sub s r

def Node.saved : Node K V → Bool
  | .leaf _ _ ver => ver.isSome
  | .inner _ _ _ ver _ _ => ver.isSome

theorem sub_refl (t : Node K V) : Sub t t := by cases t <;> simp [Sub]

theorem sub_newInner {s : Node K V} {k : K} {l r : Node K V} (h : Sub s (newInner k l r)) (hs : s.saved = true) :
    Sub s l ∨ Sub s r := by
  simp only [newInner, Sub] at h
  rcases h with h | h | h
  · subst h; simp [Node.saved] at hs
  · exact Or.inl h
  · exact Or.inr h

theorem sub_inner_of_child {s : Node K V} {k : K} {h sz : Nat} {ver : Option Nat} {l r : Node K V}
    (hc : Sub s l ∨ Sub s r) : Sub s (.inner k h sz ver l r) := by
  simp only [Sub]; exact Or.inr hc

/-- rotations: every saved subtree of the result is a subtree of the argument -/
theorem rotateRight_shares (n s : Node K V) (h : Sub s (rotateRight n)) (hs : s.saved = true) : Sub s n := by
  unfold rotateRight at h
  split at h
  · rename_i k hh sz ver lk lh ls lver ll lr r
    rcases sub_newInner h hs with h | h
    · exact sub_inner_of_child (Or.inl (sub_inner_of_child (Or.inl h)))
    · rcases sub_newInner h hs with h | h
      · exact sub_inner_of_child (Or.inl (sub_inner_of_child (Or.inr h)))
      · exact sub_inner_of_child (Or.inr h)
  · exact h

theorem rotateLeft_shares (n s : Node K V) (h : Sub s (rotateLeft n)) (hs : s.saved = true) : Sub s n := by
  unfold rotateLeft at h
  split at h
  · rename_i k hh sz ver l rk rh rs rver rl rr
    rcases sub_newInner h hs with h | h
    · rcases sub_newInner h hs with h | h
      · exact sub_inner_of_child (Or.inl h)
      · exact sub_inner_of_child (Or.inr (sub_inner_of_child (Or.inl h)))
    · exact sub_inner_of_child (Or.inr (sub_inner_of_child (Or.inr h)))
  · exact h

/-- `balance (newInner k l r)`: saved subtrees come from `l` or `r` -/
theorem balance_shares (k : K) (l r s : Node K V) (h : Sub s (balance (newInner k l r))) (hs : s.saved = true) :
    Sub s l ∨ Sub s r := by
  unfold balance newInner at h
  simp only at h
  split at h
  · split at h
    · have := rotateRight_shares _ s h hs
      exact sub_newInner this hs
    · have := rotateRight_shares _ s h hs
      rcases sub_newInner this hs with h' | h'
      · exact Or.inl (rotateLeft_shares _ s h' hs)
      · exact Or.inr h'
  · split at h
    · split at h
      · have := rotateLeft_shares _ s h hs
        exact sub_newInner this hs
      · have := rotateLeft_shares _ s h hs
        rcases sub_newInner this hs with h' | h'
        · exact Or.inl h'
        · exact Or.inr (rotateRight_shares _ s h' hs)
    · exact sub_newInner h hs

/-- `set` shares: a saved subtree of the new tree already was a subtree of the old one -/
theorem set_shares (t s : Node K V) (key : K) (val : V) (h : Sub s (t.set key val).1) (hs : s.saved = true) :
    Sub s t := by
  induction t with
  | leaf k v ver =>
    simp only [Node.set] at h
    split at h
    · simp only [Sub] at h
      rcases h with h | h | h
      · subst h; simp [Node.saved] at hs
      · subst h; simp [Node.saved] at hs
      · exact h
    · simp only [Sub] at h
      rcases h with h | h | h
      · subst h; simp [Node.saved] at hs
      · exact h
      · subst h; simp [Node.saved] at hs
    · simp only [Sub] at h; subst h; simp [Node.saved] at hs
  | inner k hh sz ver l r ihl ihr =>
    simp only [Node.set] at h
    split at h
    · cases hset : l.set key val with
      | mk l' upd =>
        rw [hset] at h ihl
        cases upd with
        | true =>
          simp only [↓reduceIte, Sub] at h
          rcases h with h | h | h
          · subst h; simp [Node.saved] at hs
          · exact sub_inner_of_child (Or.inl (ihl h))
          · exact sub_inner_of_child (Or.inr h)
        | false =>
          simp only [Bool.false_eq_true, ↓reduceIte] at h
          rcases balance_shares k l' r s h hs with h | h
          · exact sub_inner_of_child (Or.inl (ihl h))
          · exact sub_inner_of_child (Or.inr h)
    · cases hset : r.set key val with
      | mk r' upd =>
        rw [hset] at h ihr
        cases upd with
        | true =>
          simp only [↓reduceIte, Sub] at h
          rcases h with h | h | h
          · subst h; simp [Node.saved] at hs
          · exact sub_inner_of_child (Or.inl h)
          · exact sub_inner_of_child (Or.inr (ihr h))
        | false =>
          simp only [Bool.false_eq_true, ↓reduceIte] at h
          rcases balance_shares k l r' s h hs with h | h
          · exact sub_inner_of_child (Or.inl h)
          · exact sub_inner_of_child (Or.inr (ihr h))

/-- `remove` shares likewise -/
theorem remove_shares (t s : Node K V) (key : K) (t' : Node K V) (nk : Option K) (v : V)
    (hrem : t.remove key = some ⟨some t', nk, v⟩) (h : Sub s t') (hs : s.saved = true) : Sub s t := by
  induction t generalizing t' nk v with
  | leaf k v0 ver =>
    simp only [Node.remove] at hrem
    split at hrem <;> simp at hrem
  | inner k hh sz ver l r ihl ihr =>
    simp only [Node.remove] at hrem
    split at hrem
    · -- left
      cases hl : l.remove key with
      | none => rw [hl] at hrem; simp at hrem
      | some res =>
        obtain ⟨node, nk', v'⟩ := res
        rw [hl] at hrem
        cases node with
        | none =>
          simp only [Option.some.injEq, RemoveRes.mk.injEq] at hrem
          obtain ⟨h1, _, _⟩ := hrem
          rw [← h1] at h
          exact sub_inner_of_child (Or.inr h)
        | some l' =>
          simp only [Option.some.injEq, RemoveRes.mk.injEq] at hrem
          obtain ⟨h1, _, _⟩ := hrem
          rw [← h1] at h
          rcases balance_shares k l' r s h hs with h | h
          · exact sub_inner_of_child (Or.inl (ihl l' nk' v' hl h))
          · exact sub_inner_of_child (Or.inr h)
    · cases hr : r.remove key with
      | none => rw [hr] at hrem; simp at hrem
      | some res =>
        obtain ⟨node, nk', v'⟩ := res
        rw [hr] at hrem
        cases node with
        | none =>
          simp only [Option.some.injEq, RemoveRes.mk.injEq] at hrem
          obtain ⟨h1, _, _⟩ := hrem
          rw [← h1] at h
          exact sub_inner_of_child (Or.inl h)
        | some r' =>
          simp only [Option.some.injEq, RemoveRes.mk.injEq] at hrem
          obtain ⟨h1, _, _⟩ := hrem
          rw [← h1] at h
          rcases balance_shares _ l r' s h hs with h | h
          · exact sub_inner_of_child (Or.inl h)
          · exact sub_inner_of_child (Or.inr (ihr r' nk' v' hr h))
end Iavl
