import Iavl.Model.V2Evict
/-
  Eviction is invisible: for ANY eviction rule, a tree whose nodes are all in the store answers every
  walk as the unevicted tree does.
-/
namespace Iavl
open Std

variable {K V : Type}

theorem Node.self_mem_subtrees (t : Node K V) : t ∈ t.subtrees := by
  cases t <;> simp [Node.subtrees]

theorem Saved.self {st : Nat → Option (Node K V)} {ref} {t : Node K V} (h : Saved st ref t) :
    st (ref t) = some t := h t t.self_mem_subtrees

theorem Saved.left {st : Nat → Option (Node K V)} {ref} {k h sz ver} {l r : Node K V}
    (hs : Saved st ref (.inner k h sz ver l r)) : Saved st ref l := by
  intro c hc; apply hs; simp [Node.subtrees, hc]

theorem Saved.right {st : Nat → Option (Node K V)} {ref} {k h sz ver} {l r : Node K V}
    (hs : Saved st ref (.inner k h sz ver l r)) : Saved st ref r := by
  intro c hc; apply hs; simp [Node.subtrees, hc]

theorem resolve_evict (st : Nat → Option (Node K V)) (ref : Node K V → Nat)
    (policy : Nat → Node K V → Bool) (t : Node K V) :
    ∀ d, Saved st ref t → (evict policy ref d t).resolve st = some t := by
  induction t with
  | leaf k v ver => intro d _; simp [evict, ENode.resolve]
  | inner k h sz ver l r ihl ihr =>
    intro d hs
    have hl : (if policy d l then ENode.stub (ref l) else evict policy ref (d + 1) l).resolve st = some l := by
      by_cases hp : policy d l = true
      · simp [hp, ENode.resolve, hs.left.self]
      · simp [hp, ihl (d + 1) hs.left]
    have hr : (if policy d r then ENode.stub (ref r) else evict policy ref (d + 1) r).resolve st = some r := by
      by_cases hp : policy d r = true
      · simp [hp, ENode.resolve, hs.right.self]
      · simp [hp, ihr (d + 1) hs.right]
    simp only [evict, ENode.resolve, hl, hr]

theorem size_evict (st : Nat → Option (Node K V)) (ref : Node K V → Nat)
    (policy : Nat → Node K V → Bool) (t : Node K V) (d : Nat) :
    (evict policy ref d t).size st = some t.size := by
  cases t <;> simp [evict, ENode.size, Node.size]

theorem toList_evict (st : Nat → Option (Node K V)) (ref : Node K V → Nat)
    (policy : Nat → Node K V → Bool) (t : Node K V) :
    ∀ d, Saved st ref t → (evict policy ref d t).toList st = some t.toList := by
  induction t with
  | leaf k v ver => intro d _; simp [evict, ENode.toList, Node.toList]
  | inner k h sz ver l r ihl ihr =>
    intro d hs
    have hl : (if policy d l then ENode.stub (ref l) else evict policy ref (d + 1) l).toList st = some l.toList := by
      by_cases hp : policy d l = true
      · simp [hp, ENode.toList, hs.left.self]
      · simp [hp, ihl (d + 1) hs.left]
    have hr : (if policy d r then ENode.stub (ref r) else evict policy ref (d + 1) r).toList st = some r.toList := by
      by_cases hp : policy d r = true
      · simp [hp, ENode.toList, hs.right.self]
      · simp [hp, ihr (d + 1) hs.right]
    simp only [evict, ENode.toList, hl, hr, Node.toList]

section ordered
variable [Ord K]

theorem get_evict (st : Nat → Option (Node K V)) (ref : Node K V → Nat)
    (policy : Nat → Node K V → Bool) (key : K) (t : Node K V) :
    ∀ d, Saved st ref t → (evict policy ref d t).get st key = some (t.get key) := by
  induction t with
  | leaf k v ver => intro d _; simp only [evict, ENode.get, Node.get]; cases compare k key <;> rfl
  | inner k h sz ver l r ihl ihr =>
    intro d hs
    have hl : (if policy d l then ENode.stub (ref l) else evict policy ref (d + 1) l).get st key = some (l.get key) := by
      by_cases hp : policy d l = true
      · simp [hp, ENode.get, hs.left.self]
      · simp [hp, ihl (d + 1) hs.left]
    have hr : (if policy d r then ENode.stub (ref r) else evict policy ref (d + 1) r).get st key = some (r.get key) := by
      by_cases hp : policy d r = true
      · simp [hp, ENode.get, hs.right.self]
      · simp [hp, ihr (d + 1) hs.right]
    have hz : (if policy d r then ENode.stub (ref r) else evict policy ref (d + 1) r).size st = some r.size := by
      by_cases hp : policy d r = true
      · simp [hp, ENode.size, hs.right.self]
      · simp [hp, size_evict]
    simp only [evict, ENode.get, Node.get, hl, hr, hz]
    by_cases hc : compare key k = .lt <;> simp [hc]

theorem has_evict (st : Nat → Option (Node K V)) (ref : Node K V → Nat)
    (policy : Nat → Node K V → Bool) (key : K) (t : Node K V) :
    ∀ d, Saved st ref t → (evict policy ref d t).has st key = some (t.has key) := by
  induction t with
  | leaf k v ver => intro d _; simp [evict, ENode.has, Node.has]
  | inner k h sz ver l r ihl ihr =>
    intro d hs
    have hl : (if policy d l then ENode.stub (ref l) else evict policy ref (d + 1) l).has st key = some (l.has key) := by
      by_cases hp : policy d l = true
      · simp [hp, ENode.has, hs.left.self]
      · simp [hp, ihl (d + 1) hs.left]
    have hr : (if policy d r then ENode.stub (ref r) else evict policy ref (d + 1) r).has st key = some (r.has key) := by
      by_cases hp : policy d r = true
      · simp [hp, ENode.has, hs.right.self]
      · simp [hp, ihr (d + 1) hs.right]
    simp only [evict, ENode.has, Node.has, hl, hr]
    by_cases he : compare k key = .eq <;> by_cases hc : compare key k = .lt <;> simp [he, hc]

theorem optAppend_ite {α : Type} (p q : Prop) [Decidable p] [Decidable q] (asc : Bool) (X Y : List α) :
    optAppend asc (if p then some X else some []) (if q then some Y else some [])
      = some (if asc then (if p then X else []) ++ (if q then Y else [])
              else (if q then Y else []) ++ (if p then X else [])) := by
  by_cases hp : p <;> by_cases hq : q <;> simp [optAppend, hp, hq]

theorem range_evict (st : Nat → Option (Node K V)) (ref : Node K V → Nat)
    (policy : Nat → Node K V → Bool) (s e : Option K) (asc incl : Bool) (t : Node K V) :
    ∀ d, Saved st ref t →
      (evict policy ref d t).range st s e asc incl = some (t.range s e asc incl) := by
  induction t with
  | leaf k v ver => intro d _; simp [evict, ENode.range]
  | inner k h sz ver l r ihl ihr =>
    intro d hs
    have hl : (if policy d l then ENode.stub (ref l) else evict policy ref (d + 1) l).range st s e asc incl
        = some (l.range s e asc incl) := by
      by_cases hp : policy d l = true
      · simp [hp, ENode.range, hs.left.self]
      · simp [hp, ihl (d + 1) hs.left]
    have hr : (if policy d r then ENode.stub (ref r) else evict policy ref (d + 1) r).range st s e asc incl
        = some (r.range s e asc incl) := by
      by_cases hp : policy d r = true
      · simp [hp, ENode.range, hs.right.self]
      · simp [hp, ihr (d + 1) hs.right]
    simp only [evict, ENode.range, Node.range, hl, hr]
    exact optAppend_ite _ _ _ _ _

end ordered
end Iavl
