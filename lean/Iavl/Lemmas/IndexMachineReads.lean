import Iavl.Lemmas.IndexMachineStep
/-
  C07, index machine: under the invariant every answer served through the index equals the answer of the
  tree walk (= the lookup in the contents, by C01).
-/
namespace Iavl
open Std
set_option linter.unusedSectionVars false
variable {K V : Type} [Ord K] [TransOrd K] [LawfulEqOrd K] [DecidableEq K]

theorem isEmpty_lookup (c : SMap K V) (h : c.isEmpty = true) (k : K) : lookup k c = none := by
  have : c = [] := List.isEmpty_iff.mp h
  subst this; rfl

/-- `ImmutableTree.Get` on a retained version -/
theorem immGet_retained (s : IxSt K V) (h : IInv s)
    (hfl : s.fast = true → s.label = some (latestVer s.vs.versions))
    (b : Nat) (c : SMap K V) (hm : (b, c) ∈ s.vs.versions) (k : K) : s.immGet b c k = lookup k c := by
  unfold IxSt.immGet
  by_cases he : c.isEmpty = true
  · simp only [he, if_true]; exact (isEmpty_lookup c he k).symm
  · simp only [he, Bool.false_eq_true, if_false]
    cases hfast : s.fast with
    | false => simp
    | true =>
      simp only [if_true]
      have hk := h.x.idx (hfl hfast) k
      have hne : s.vs.versions ≠ [] := by intro e; rw [e] at hm; cases hm
      cases hi : lookup k s.index with
      | none =>
        rw [hi] at hk
        simp only at hk ⊢
        split
        · rename_i hb
          subst hb
          have := asc_uniq _ h.v.asc _ c _ hm (latestCV_mem _ h.v.versOk hne)
          rw [this]; exact hk.symm
        · rfl
      | some x =>
        obtain ⟨v, st⟩ := x
        rw [hi] at hk
        simp only at hk ⊢
        split
        · rename_i hst; exact (hk.2 b c hm hst).symm
        · rfl

/-- what the persisted entries say about the tree the object is positioned on -/
theorem index_vs_lastSaved (s : IxSt K V) (h : IInv s) (hfast : s.fast = true) (hp : Positioned s) (k : K) :
    match lookup k s.index with
    | some (v, st) => st ≤ s.vs.base → lookup k s.vs.lastSaved = some v
    | none => s.vs.base = latestVer s.vs.versions → lookup k s.vs.lastSaved = none := by
  rcases hp with ⟨c0, hc0⟩ | ⟨hb0, he, hidx⟩
  · have hm0 := findVer_some_mem _ _ _ hc0
    have hb1 : 1 ≤ s.vs.base := h.v.vpos _ c0 hm0
    have hL : c0 = s.vs.lastSaved := h.v.lastOk c0 hc0
    have hk := h.x.idx (h.fastLabel hfast (by omega)) k
    cases hi : lookup k s.index with
    | none =>
      rw [hi] at hk
      simp only at hk ⊢
      intro hb
      have : latestCV s.vs.versions = s.vs.lastSaved := by unfold latestCV; rw [← hb, hc0]; exact hL
      rw [← this]; exact hk
    | some x =>
      obtain ⟨v, st⟩ := x
      rw [hi] at hk
      simp only at hk ⊢
      intro hst
      rw [← hL]; exact hk.2 _ c0 hm0 hst
  · have hLs : s.vs.lastSaved = [] := h.v.base0 hb0
    have hnone : lookup k s.index = none := by
      rcases hidx with hl0 | hi0
      · have hlat0 : latestVer s.vs.versions = 0 := by rw [he]; rfl
        have hk := h.x.idx (by rw [hlat0]; exact hl0) k
        cases hi : lookup k s.index with
        | none => rfl
        | some x =>
          obtain ⟨v, st⟩ := x
          rw [hi] at hk
          have := h.x.ipos k v st hi
          have := hk.1
          omega
      · rw [hi0]; rfl
    rw [hnone]
    simp only [hLs, lookup]
    intro _; trivial

/-- **`MutableTree.Get`** through overlay and index = the lookup in the working contents -/
theorem ix_get_eq (s : IxSt K V) (h : IInv s) (hp : Positioned s) (k : K) : s.get k = lookup k s.vs.working := by
  unfold IxSt.get
  by_cases he : s.vs.working.isEmpty = true
  · simp only [he, if_true]; exact (isEmpty_lookup _ he k).symm
  · simp only [he, Bool.false_eq_true, if_false]
    cases hfast : s.fast with
    | false => simp [IxSt.immGet, he, hfast]
    | true =>
      simp only [if_true]
      have ho := h.o
      rw [hfast] at ho
      have ha := (ho.ovl rfl).agree k
      simp only [FastSt.get] at ha
      rw [lookup_proj] at ha
      cases hl : lookup k s.adds with
      | some x => obtain ⟨v, st⟩ := x; rw [hl] at ha; simpa using ha
      | none =>
        rw [hl] at ha
        simp only [Option.map_none] at ha ⊢
        by_cases hr : k ∈ s.rems
        · simp only [hr, if_true] at ha ⊢; exact ha
        · simp only [hr, if_false] at ha ⊢
          rw [← ha]
          have hix := index_vs_lastSaved s h hfast hp k
          unfold IxSt.immGet
          simp only [he, Bool.false_eq_true, if_false, hfast, if_true]
          cases hi : lookup k s.index with
          | none =>
            rw [hi] at hix
            simp only at hix ⊢
            split
            · rename_i hb; exact (hix hb).symm
            · exact ha.symm
          | some x =>
            obtain ⟨v, st⟩ := x
            rw [hi] at hix
            simp only at hix ⊢
            split
            · rename_i hst; exact (hix hst).symm
            · exact ha.symm

/-- the tree object has been loaded (or the store is empty): what every generated history does before
    it reads through a tree object that maintains the index -/
def Ready (s : IxSt K V) : Prop := s.fast = true → s.vs.base ≠ 0 ∨ s.vs.versions = []

/-- **`MutableTree.GetVersioned`** = the lookup in the contents of that version -/
theorem ix_getVersioned_eq (s : IxSt K V) (h : IInv s) (hr : Ready s) (k : K) (ver : Nat) :
    s.getVersioned k ver = (findVer s.vs.versions ver).bind (fun c => lookup k c) := by
  unfold IxSt.getVersioned
  cases hf : findVer s.vs.versions ver with
  | none => rfl
  | some c =>
    simp only [Option.bind_some]
    have hm := findVer_some_mem _ _ _ hf
    have hne : s.vs.versions ≠ [] := by intro e; rw [e] at hm; cases hm
    have hfl : s.fast = true → s.label = some (latestVer s.vs.versions) := by
      intro hfast
      rcases hr hfast with hb | he
      · exact h.fastLabel hfast hb
      · exact absurd he hne
    have himm := immGet_retained s h hfl ver c hm k
    by_cases hg : (s.fast && s.fastEnabled) = true
    · simp only [hg, if_true]
      have hfast : s.fast = true := by simp only [Bool.and_eq_true] at hg; exact hg.1
      have hk := h.x.idx (hfl hfast) k
      cases hi : lookup k s.index with
      | none =>
        rw [hi] at hk
        simp only at hk ⊢
        split
        · rename_i hb
          subst hb
          have := asc_uniq _ h.v.asc _ c _ hm (latestCV_mem _ h.v.versOk hne)
          rw [this]; exact hk.symm
        · exact himm
      | some x =>
        obtain ⟨v, st⟩ := x
        rw [hi] at hk
        simp only at hk ⊢
        split
        · rename_i hst; exact (hk.2 ver c hm hst).symm
        · exact himm
    · simp only [hg, Bool.false_eq_true, if_false]; exact himm

/-- **`MutableTree.Iterator`** over persisted entries merged with the overlay = the working contents -/
theorem ix_iterate_eq (s : IxSt K V) (h : IInv s) (hp : Positioned s) : s.iterate = s.vs.working := by
  unfold IxSt.iterate
  by_cases hg : (s.fast && s.fastEnabled) = true
  · simp only [hg, if_true]
    simp only [Bool.and_eq_true, IxSt.fastEnabled, beq_iff_eq] at hg
    obtain ⟨hfast, hb, hsome⟩ := hg
    have ho := h.o
    rw [hfast] at ho
    have hfi := ho.ovl rfl
    have hpi : proj s.index = s.vs.lastSaved := by
      apply sortedKV_ext _ _ ((sorted_proj _).mpr h.x.si) h.v.sl
      intro k
      rw [lookup_proj]
      have hix := index_vs_lastSaved s h hfast hp k
      cases hi : lookup k s.index with
      | none => rw [hi] at hix; simp only at hix ⊢; exact (hix hb).symm
      | some x =>
        obtain ⟨v, st⟩ := x
        rw [hi] at hix
        simp only [Option.map_some] at hix ⊢
        -- the entry's stamp is at most the latest version, which is the base
        have hst : st ≤ s.vs.base := by
          rcases hp with ⟨c0, hc0⟩ | ⟨hb0, he, hidx⟩
          · have hb1 : 1 ≤ s.vs.base := h.v.vpos _ c0 (findVer_some_mem _ _ _ hc0)
            have hk := h.x.idx (h.fastLabel hfast (by omega)) k
            rw [hi] at hk
            have := hk.1
            omega
          · -- an empty store has no entries
            exfalso
            have hnone : lookup k s.index = none := by
              rcases hidx with hl0 | hi0
              · have hlat0 : latestVer s.vs.versions = 0 := by rw [he]; rfl
                have hk := h.x.idx (by rw [hlat0]; exact hl0) k
                rw [hi] at hk
                have := h.x.ipos k v st hi
                have := hk.1
                omega
              · rw [hi0]; rfl
            rw [hi] at hnone; cases hnone
        exact (hix hst).symm
    have := overlay_iterator_eq (⟨proj s.index, proj s.adds, s.rems⟩ : FastSt K V) s.vs.working h.v.sw
      (by rw [hpi]; exact hfi)
    exact this
  · simp only [hg, Bool.false_eq_true, if_false]

/-- after any commit or open by a tree object that maintains the index, the persisted entries are exactly
    the contents of the latest version and the label names it -/
theorem index_is_latest (s : IxSt K V) (h : IInv s) (hl : s.label = some (latestVer s.vs.versions)) :
    proj s.index = latestCV s.vs.versions := by
  apply sortedKV_ext _ _ ((sorted_proj _).mpr h.x.si) (latestCV_sorted _ h.v.versOk)
  intro k
  rw [lookup_proj]
  have hk := h.x.idx hl k
  cases hi : lookup k s.index with
  | none => rw [hi] at hk; simp only at hk ⊢; exact hk.symm
  | some x =>
    obtain ⟨v, st⟩ := x
    rw [hi] at hk
    simp only [Option.map_some] at hk ⊢
    have hne : s.vs.versions ≠ [] := by
      intro e
      have h1 := h.x.ipos k v st hi
      have h2 := hk.1
      rw [e] at h2
      simp [latestVer] at h2
      omega
    exact (hk.2 _ _ (latestCV_mem _ h.v.versOk hne) hk.1).symm

end Iavl
