import Iavl.Model.VMachine
namespace Iavl
open Std
set_option linter.unusedSectionVars false
variable {K V : Type} [Ord K] [BEq K] [TransOrd K] [LawfulEqOrd K]

def Good (t : Node K V) : Prop := Ordered t ∧ RoutingMin t ∧ AVL t
def GoodO : OTree K V → Prop
  | none => True
  | some t => Good t

theorem avl_sizeOK (t : Node K V) (h : AVL t) : SizeOK t := by
  induction t with
  | leaf => trivial
  | inner k ht sz ver l r ihl ihr =>
    obtain ⟨hl, hr, _, hs, _, _⟩ := h
    exact ⟨ihl hl, ihr hr, hs⟩

/-! commitVer changes versions only -/
theorem toList_commitVer (ver : Nat) (t : Node K V) : (commitVer ver t).toList = t.toList := by
  induction t with
  | leaf k v x => cases x <;> rfl
  | inner k h sz x l r ihl ihr => cases x <;> simp [commitVer, ihl, ihr]
theorem height_commitVer (ver : Nat) (t : Node K V) : (commitVer ver t).height = t.height := by
  cases t with
  | leaf k v x => cases x <;> rfl
  | inner k h sz x l r => cases x <;> rfl
theorem size_commitVer (ver : Nat) (t : Node K V) : (commitVer ver t).size = t.size := by
  cases t with
  | leaf k v x => cases x <;> rfl
  | inner k h sz x l r => cases x <;> rfl
theorem keys_commitVer (ver : Nat) (t : Node K V) : (commitVer ver t).keys = t.keys := by
  simp [Node.keys, toList_commitVer]

theorem good_commitVer (ver : Nat) (t : Node K V) (h : Good t) : Good (commitVer ver t) := by
  induction t with
  | leaf k v x => cases x <;> exact ⟨trivial, trivial, trivial⟩
  | inner k hh sz x l r ihl ihr =>
    obtain ⟨⟨hol, hor, hl, hr⟩, ⟨hrl, hrr, hhead⟩, ⟨hal, har, e1, e2, b1, b2⟩⟩ := h
    cases x with
    | some x => exact ⟨⟨hol, hor, hl, hr⟩, ⟨hrl, hrr, hhead⟩, ⟨hal, har, e1, e2, b1, b2⟩⟩
    | none =>
      have gl := ihl ⟨hol, hrl, hal⟩
      have gr := ihr ⟨hor, hrr, har⟩
      refine ⟨⟨gl.1, gr.1, ?_, ?_⟩, ⟨gl.2.1, gr.2.1, ?_⟩, ⟨gl.2.2, gr.2.2, ?_, ?_, ?_, ?_⟩⟩
      · rw [toList_commitVer]; exact hl
      · rw [toList_commitVer]; exact hr
      · rw [keys_commitVer]; exact hhead
      · rw [height_commitVer, height_commitVer]; exact e1
      · rw [size_commitVer, size_commitVer]; exact e2
      · rw [height_commitVer, height_commitVer]; exact b1
      · rw [height_commitVer, height_commitVer]; exact b2

/-! bookkeeping commutes with mapping the contents -/
section
variable {C D : Type} (f : C → D)
def mapVers (vs : List (Nat × C)) : List (Nat × D) := vs.map (fun p => (p.1, f p.2))

theorem findVer_map (vs : List (Nat × C)) (n : Nat) : findVer (mapVers f vs) n = (findVer vs n).map f := by
  induction vs with
  | nil => rfl
  | cons a vs ih =>
    simp only [mapVers, findVer, List.map_cons, List.find?_cons] at ih ⊢
    split <;> simp_all
theorem latestVer_map (vs : List (Nat × C)) : latestVer (mapVers f vs) = latestVer vs := by
  simp [latestVer, mapVers, List.getLast?_map, Option.map_map, Function.comp_def]
theorem filter_map_vers (vs : List (Nat × C)) (p : Nat → Bool) :
    (mapVers f vs).filter (fun q => p q.1) = mapVers f (vs.filter (fun q => p q.1)) := by
  simp [mapVers, List.filter_map, Function.comp_def]
theorem map_fst_vers (vs : List (Nat × C)) : (mapVers f vs).map (·.1) = vs.map (·.1) := by
  simp [mapVers, Function.comp_def]
theorem mapVers_append (a b : List (Nat × C)) : mapVers f (a ++ b) = mapVers f a ++ mapVers f b := by
  simp [mapVers]
end

/-- abstraction function: forget the tree shapes -/
def absS (vt : VState (OTree K V)) : VState (SMap K V) :=
  { versions := mapVers contents vt.versions, working := contents vt.working,
    lastSaved := contents vt.lastSaved, base := vt.base, ivOpt := vt.ivOpt, ivSet := vt.ivSet }

structure Inv (vt : VState (OTree K V)) : Prop where
  gw : GoodO vt.working
  gl : GoodO vt.lastSaved
  gv : ∀ p ∈ vt.versions, GoodO p.2

theorem goodO_find {vs : List (Nat × OTree K V)} (h : ∀ p ∈ vs, GoodO p.2) {n : Nat} {c : OTree K V}
    (hf : findVer vs n = some c) : GoodO c := by
  unfold findVer at hf
  cases hfind : vs.find? (fun p => p.1 == n) with
  | none => simp [hfind] at hf
  | some p =>
    simp [hfind] at hf; subst hf
    exact h p (List.mem_of_find?_eq_some hfind)

theorem workingVersion_abs (vt : VState (OTree K V)) : (absS vt).workingVersion = vt.workingVersion := rfl

theorem firstVer_map {C D : Type} (f : C → D) (vs : List (Nat × C)) : firstVer (mapVers f vs) = firstVer vs := by
  cases vs <;> simp [firstVer, mapVers]

theorem load_abs (vt : VState (OTree K V)) (target : Nat) :
    (absS vt).load target = (vt.load target).map (fun p => (absS p.1, p.2)) := by
  unfold VState.load absS
  cases hvs : vt.versions with
  | nil => simp only [mapVers, List.map_nil]; split <;> simp [mapVers, hvs]
  | cons a as =>
    have hne : mapVers contents (a :: as) = (a.1, contents a.2) :: mapVers contents as := rfl
    simp only [hne]
    rw [← hne, latestVer_map, firstVer_map]
    split
    · rfl
    · split
      · rfl
      · rw [findVer_map]
        cases findVer (a :: as) (if target = 0 then latestVer (a :: as) else target) with
        | none => rfl
        | some c => simp [mapVers]

theorem load_inv (vt : VState (OTree K V)) (h : Inv vt) (target : Nat) (vt' : VState (OTree K V)) (n : Nat)
    (hl : vt.load target = some (vt', n)) : Inv vt' := by
  unfold VState.load at hl
  cases hvs : vt.versions with
  | nil =>
    rw [hvs] at hl; simp only at hl
    split at hl
    · simp only [Option.some.injEq, Prod.mk.injEq] at hl; rw [← hl.1]; exact h
    · cases hl
  | cons a as =>
    rw [hvs] at hl; simp only at hl
    split at hl
    · cases hl
    · split at hl
      · cases hl
      · cases hf : findVer (a :: as) (if target = 0 then latestVer (a :: as) else target) with
        | none => rw [hf] at hl; cases hl
        | some c =>
          rw [hf] at hl
          simp only [Option.some.injEq, Prod.mk.injEq] at hl
          have hg : GoodO c := goodO_find (by rw [← hvs]; exact h.gv) hf
          rw [← hl.1]
          exact ⟨hg, hg, by rw [← hvs]; exact h.gv⟩
end Iavl
