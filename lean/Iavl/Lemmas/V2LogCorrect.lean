import Iavl.Model.V2Log
/-
  C20: `FindPrevious` returns the greatest checkpoint not above the version; pruning leaves every version at
  or above the checkpoint it rounds to loadable, with exactly the rows it replayed before; the replayed rows
  of a store built by commits are the writes of the versions in between, in order.
-/
namespace Iavl.V2

theorem sorted_get_le (vs : List Nat) (h : vs.Pairwise (· < ·)) (i j a b : Nat) (hij : i ≤ j)
    (ha : vs[i]? = some a) (hb : vs[j]? = some b) : a ≤ b := by
  obtain ⟨hi, rfl⟩ := List.getElem?_eq_some_iff.mp ha
  obtain ⟨hj, rfl⟩ := List.getElem?_eq_some_iff.mp hb
  rcases Nat.lt_or_eq_of_le hij with hlt | heq
  · exact Nat.le_of_lt ((List.pairwise_iff_getElem.mp h) i j hi hj hlt)
  · subst heq; exact Nat.le_refl _

theorem findPrevLoop_spec (vs : List Nat) (hs : vs.Pairwise (· < ·)) (version : Nat) :
    ∀ (fuel low hi : Nat), hi - low ≤ fuel → low ≤ hi → hi ≤ vs.length →
      (∀ i x, i < low → vs[i]? = some x → x < version) →
      (∀ i x, hi ≤ i → vs[i]? = some x → version < x) →
      (∃ x, vs[0]? = some x ∧ x ≤ version) →
      ∃ c, findPrevLoop vs version fuel low hi = some c ∧ c ∈ vs ∧ c ≤ version ∧ ∀ d ∈ vs, d ≤ version → d ≤ c := by
  -- what both exits of the loop return
  have hexit : ∀ (low hi : Nat), low = hi → hi ≤ vs.length →
      (∀ i x, i < low → vs[i]? = some x → x < version) →
      (∀ i x, hi ≤ i → vs[i]? = some x → version < x) →
      (∃ x, vs[0]? = some x ∧ x ≤ version) →
      ∃ c, vs[hi - 1]? = some c ∧ c ∈ vs ∧ c ≤ version ∧ ∀ d ∈ vs, d ≤ version → d ≤ c := by
    intro low hi hl hhi Ilow Ihi ⟨x0, hx0, hle0⟩
    have hpos : 0 < hi := by
      rcases Nat.eq_zero_or_pos hi with h0 | h0
      · have := Ihi 0 x0 (by omega) hx0; omega
      · exact h0
    have hlt : hi - 1 < vs.length := by omega
    refine ⟨vs[hi - 1], List.getElem?_eq_getElem hlt, List.getElem_mem hlt, ?_, ?_⟩
    · exact Nat.le_of_lt (Ilow (hi - 1) _ (by omega) (List.getElem?_eq_getElem hlt))
    · intro d hd hdv
      obtain ⟨j, hj, rfl⟩ := List.mem_iff_getElem.mp hd
      by_cases hji : hi ≤ j
      · have := Ihi j _ hji (List.getElem?_eq_getElem hj); omega
      · exact sorted_get_le vs hs j (hi - 1) _ _ (by omega) (List.getElem?_eq_getElem hj) (List.getElem?_eq_getElem hlt)
  intro fuel
  induction fuel with
  | zero =>
    intro low hi hf hlh hhi Ilow Ihi h0
    simp only [findPrevLoop]
    exact hexit low hi (by omega) hhi Ilow Ihi h0
  | succ fuel ih =>
    intro low hi hf hlh hhi Ilow Ihi h0
    simp only [findPrevLoop]
    by_cases hlt : low < hi
    · simp only [hlt, if_true]
      have hmid1 : low ≤ (low + (hi - 1)) / 2 := by omega
      have hmid2 : (low + (hi - 1)) / 2 ≤ hi - 1 := by omega
      have hml : (low + (hi - 1)) / 2 < vs.length := by omega
      rw [List.getElem?_eq_getElem hml]
      simp only
      by_cases heq : vs[(low + (hi - 1)) / 2] = version
      · simp only [heq, if_true]
        refine ⟨version, rfl, ?_, Nat.le_refl _, fun d _ hd => hd⟩
        rw [← heq]; exact List.getElem_mem hml
      · simp only [heq, if_false]
        by_cases hx : vs[(low + (hi - 1)) / 2] < version
        · simp only [hx, if_true]
          apply ih _ _ (by omega) (by omega) hhi _ Ihi h0
          intro i x hi' hxi
          have := sorted_get_le vs hs i _ x _ (by omega) hxi (List.getElem?_eq_getElem hml)
          omega
        · simp only [hx, if_false]
          apply ih _ _ (by omega) (by omega) (by omega) Ilow _ h0
          intro i x hi' hxi
          have := sorted_get_le vs hs _ i _ x hi' (List.getElem?_eq_getElem hml) hxi
          omega
    · simp only [hlt, if_false]
      exact hexit low hi (by omega) hhi Ilow Ihi h0

/-- **`FindPrevious` is the greatest element not above the version** (ascending input, as `Add` maintains) -/
theorem findPrevious_spec (vs : List Nat) (hs : vs.Pairwise (· < ·)) (version : Nat) :
    (findPrevious vs version = none ↔ ∀ d ∈ vs, version < d) ∧
    (∀ c, findPrevious vs version = some c → c ∈ vs ∧ c ≤ version ∧ ∀ d ∈ vs, d ≤ version → d ≤ c) := by
  cases vs with
  | nil => simp [findPrevious]
  | cons v0 rest =>
    simp only [findPrevious]
    by_cases hlt : version < v0
    · simp only [hlt, if_true]
      refine ⟨⟨fun _ d hd => ?_, fun _ => trivial⟩, fun c hc => by cases hc⟩
      rcases List.mem_cons.mp hd with e | e
      · omega
      · have := (List.pairwise_cons.mp hs).1 d e; omega
    · simp only [hlt, if_false]
      obtain ⟨c, hc, hm, hle, hmax⟩ := findPrevLoop_spec (v0 :: rest) hs version (v0 :: rest).length 0 (v0 :: rest).length
        (by omega) (by omega) (Nat.le_refl _) (by intro i x hi; omega)
        (by intro i x hi hx; have := List.getElem?_eq_some_iff.mp hx; obtain ⟨h, _⟩ := this; omega)
        ⟨v0, rfl, by omega⟩
      refine ⟨⟨fun hn => ?_, fun hall => ?_⟩, fun c' hc' => ?_⟩
      · rw [hc] at hn; cases hn
      · have := hall v0 (by simp); omega
      · rw [hc] at hc'; cases hc'; exact ⟨hm, hle, hmax⟩

theorem rangeAdd_sorted (vs : List Nat) (h : vs.Pairwise (· < ·)) (v : Nat) (vs' : List Nat)
    (ha : rangeAdd vs v = some vs') : vs'.Pairwise (· < ·) := by
  unfold rangeAdd at ha
  cases hl : vs.getLast? with
  | none =>
    rw [hl] at ha; simp only [Option.some.injEq] at ha; subst ha; simp
  | some last =>
    rw [hl] at ha
    simp only at ha
    split at ha
    · cases ha
    · rename_i hv
      simp only [Option.some.injEq] at ha; subst ha
      rw [List.pairwise_append]
      refine ⟨h, by simp, ?_⟩
      intro a hma b hmb
      have : b = v := by simpa using hmb
      subst this
      obtain ⟨j, hj, rfl⟩ := List.mem_iff_getElem.mp hma
      rw [List.getLast?_eq_getElem?] at hl
      have := sorted_get_le vs h j (vs.length - 1) _ _ (by omega) (List.getElem?_eq_getElem hj) hl
      omega

/-- **every `VersionRange` the library can build is strictly ascending** - the hypothesis of the two search
    theorems holds for every sequence of `Add` calls -/
theorem rangeOf_sorted (adds : List Nat) : (rangeOf adds).Pairwise (· < ·) := by
  unfold rangeOf
  have : ∀ (vs : List Nat), vs.Pairwise (· < ·) →
      (adds.foldl (fun vs v => (rangeAdd vs v).getD vs) vs).Pairwise (· < ·) := by
    induction adds with
    | nil => intro vs h; exact h
    | cons a t ih =>
      intro vs h
      simp only [List.foldl_cons]
      apply ih
      cases ha : rangeAdd vs a with
      | none => simpa using h
      | some vs' => simpa using rangeAdd_sorted vs h a vs' ha
  exact this [] List.Pairwise.nil

theorem findLoop_spec (vs : List Nat) (hs : vs.Pairwise (· < ·)) (version : Nat) :
    ∀ (fuel low hi : Nat), hi - low ≤ fuel → low ≤ hi → hi ≤ vs.length →
      (∀ i x, i < low → vs[i]? = some x → x < version) →
      (∀ i x, hi ≤ i → vs[i]? = some x → version < x) →
      (∃ x, vs.getLast? = some x ∧ version ≤ x) →
      ∃ c, findLoop vs version fuel low hi = some c ∧ c ∈ vs ∧ version ≤ c ∧ ∀ d ∈ vs, version ≤ d → c ≤ d := by
  have hexit : ∀ (low hi : Nat), low = hi → hi ≤ vs.length →
      (∀ i x, i < low → vs[i]? = some x → x < version) →
      (∀ i x, hi ≤ i → vs[i]? = some x → version < x) →
      (∃ x, vs.getLast? = some x ∧ version ≤ x) →
      ∃ c, vs[low]? = some c ∧ c ∈ vs ∧ version ≤ c ∧ ∀ d ∈ vs, version ≤ d → c ≤ d := by
    intro low hi hl hhi Ilow Ihi ⟨xl, hxl, hlel⟩
    have hne : vs ≠ [] := by intro e; subst e; simp at hxl
    have hlen : 0 < vs.length := List.length_pos_iff.mpr hne
    have hlast : vs[vs.length - 1]? = some xl := by
      rw [List.getLast?_eq_getElem?] at hxl; exact hxl
    have hlow : low < vs.length := by
      rcases Nat.lt_or_ge low vs.length with h | h
      · exact h
      · have := Ilow (vs.length - 1) xl (by omega) hlast; omega
    refine ⟨vs[low], List.getElem?_eq_getElem hlow, List.getElem_mem hlow, ?_, ?_⟩
    · exact Nat.le_of_lt (Ihi low _ (by omega) (List.getElem?_eq_getElem hlow))
    · intro d hd hdv
      obtain ⟨j, hj, rfl⟩ := List.mem_iff_getElem.mp hd
      by_cases hji : j < low
      · have := Ilow j _ hji (List.getElem?_eq_getElem hj); omega
      · exact sorted_get_le vs hs low j _ _ (by omega) (List.getElem?_eq_getElem hlow) (List.getElem?_eq_getElem hj)
  intro fuel
  induction fuel with
  | zero =>
    intro low hi hf hlh hhi Ilow Ihi h0
    simp only [findLoop]
    exact hexit low hi (by omega) hhi Ilow Ihi h0
  | succ fuel ih =>
    intro low hi hf hlh hhi Ilow Ihi h0
    simp only [findLoop]
    by_cases hlt : low < hi
    · simp only [hlt, if_true]
      have hml : (low + (hi - 1)) / 2 < vs.length := by omega
      rw [List.getElem?_eq_getElem hml]
      simp only
      by_cases heq : vs[(low + (hi - 1)) / 2] = version
      · simp only [heq, if_true]
        refine ⟨version, rfl, ?_, Nat.le_refl _, fun d _ hd => hd⟩
        rw [← heq]; exact List.getElem_mem hml
      · simp only [heq, if_false]
        by_cases hx : vs[(low + (hi - 1)) / 2] < version
        · simp only [hx, if_true]
          apply ih _ _ (by omega) (by omega) hhi _ Ihi h0
          intro i x hi' hxi
          have := sorted_get_le vs hs i _ x _ (by omega) hxi (List.getElem?_eq_getElem hml)
          omega
        · simp only [hx, if_false]
          apply ih _ _ (by omega) (by omega) (by omega) Ilow _ h0
          intro i x hi' hxi
          have := sorted_get_le vs hs _ i _ x hi' (List.getElem?_eq_getElem hml) hxi
          omega
    · simp only [hlt, if_false]
      exact hexit low hi (by omega) hhi Ilow Ihi h0

/-- **`Find` is the least element not below the version** (the shard that holds it) -/
theorem find_spec (vs : List Nat) (hs : vs.Pairwise (· < ·)) (version : Nat) :
    (find vs version = none ↔ ∀ d ∈ vs, d < version) ∧
    (∀ c, find vs version = some c → c ∈ vs ∧ version ≤ c ∧ ∀ d ∈ vs, version ≤ d → c ≤ d) := by
  unfold find
  cases hl : vs.getLast? with
  | none =>
    have : vs = [] := List.getLast?_eq_none_iff.mp hl
    subst this; simp
  | some last =>
    simp only
    have hlm : last ∈ vs := List.mem_of_getLast? hl
    have hmax : ∀ d ∈ vs, d ≤ last := by
      intro d hd
      obtain ⟨j, hj, rfl⟩ := List.mem_iff_getElem.mp hd
      rw [List.getLast?_eq_getElem?] at hl
      exact sorted_get_le vs hs j (vs.length - 1) _ _ (by omega) (List.getElem?_eq_getElem hj) hl
    by_cases hlt : last < version
    · simp only [hlt, if_true]
      exact ⟨⟨fun _ d hd => by have := hmax d hd; omega, fun _ => trivial⟩, fun c hc => by cases hc⟩
    · simp only [hlt, if_false]
      obtain ⟨c, hc, hm, hle, hmin⟩ := findLoop_spec vs hs version vs.length 0 vs.length
        (by omega) (by omega) (Nat.le_refl _) (by intro i x hi; omega)
        (by intro i x hi hx; have := List.getElem?_eq_some_iff.mp hx; obtain ⟨h, _⟩ := this; omega)
        ⟨last, hl, by omega⟩
      refine ⟨⟨fun hn => ?_, fun hall => ?_⟩, fun c' hc' => ?_⟩
      · rw [hc] at hn; cases hn
      · have := hall last hlm; omega
      · rw [hc] at hc'; cases hc'; exact ⟨hm, hle, hmin⟩

theorem findPrevious_eq_some_iff (vs : List Nat) (hs : vs.Pairwise (· < ·)) (version c : Nat) :
    findPrevious vs version = some c ↔ c ∈ vs ∧ c ≤ version ∧ ∀ d ∈ vs, d ≤ version → d ≤ c := by
  have hsp := findPrevious_spec vs hs version
  constructor
  · exact hsp.2 c
  · intro ⟨hm, hle, hmax⟩
    cases hf : findPrevious vs version with
    | none => have := hsp.1.mp hf c hm; omega
    | some c' =>
      obtain ⟨hm', hle', hmax'⟩ := hsp.2 c' hf
      have h1 := hmax c' hm' hle'
      have h2 := hmax' c hm hle
      have : c' = c := by omega
      rw [this]

/-! ### pruning -/
variable {K V : Type}

structure LogInv (s : Store K V) : Prop where
  asc : s.ckpts.Pairwise (· < ·)
  orph : ∀ o ∈ s.orphans, o.ver ≤ o.atv

theorem prune_of_none (s : Store K V) (req : Nat) (h : findPrevious s.ckpts req = none) : prune s req = s := by
  simp [prune, h]

/-- **`DeleteVersionsTo(req)` keeps every version at or above the checkpoint it rounds to loadable, from the
    same checkpoint and with exactly the same rows to replay** -/
theorem prune_keeps (s : Store K V) (h : LogInv s) (req P : Nat) (hP : findPrevious s.ckpts req = some P)
    (v : Nat) (hv : P ≤ v) :
    loadPoint (prune s req) v = loadPoint s v ∧
    ∀ c, loadPoint s v = some c → P ≤ c ∧ replayRows (prune s req) c v = replayRows s c v := by
  obtain ⟨hPm, hPle, _⟩ := (findPrevious_eq_some_iff _ h.asc req P).mp hP
  have hasc' : (s.ckpts.filter (fun c => decide (P ≤ c))).Pairwise (· < ·) := List.Pairwise.filter _ h.asc
  have hfp : findPrevious (s.ckpts.filter (fun c => decide (P ≤ c))) v = findPrevious s.ckpts v := by
    cases hf : findPrevious s.ckpts v with
    | none => have := (findPrevious_spec _ h.asc v).1.mp hf P hPm; omega
    | some c =>
      obtain ⟨hm, hle, hmax⟩ := (findPrevious_eq_some_iff _ h.asc v c).mp hf
      have hPc : P ≤ c := hmax P hPm hv
      apply (findPrevious_eq_some_iff _ hasc' v c).mpr
      refine ⟨List.mem_filter.mpr ⟨hm, by simpa using hPc⟩, hle, ?_⟩
      intro d hd hdv
      exact hmax d (List.mem_filter.mp hd).1 hdv
  constructor
  · simp only [loadPoint, prune, hP]
    have hroot : (v ∈ s.roots.filter (fun w => decide (P ≤ w))) ↔ v ∈ s.roots := by
      simp only [List.mem_filter, decide_eq_true_eq]; exact ⟨fun x => x.1, fun x => ⟨x, hv⟩⟩
    by_cases hr : v ∈ s.roots
    · simp only [hroot.mpr hr, hr, if_true]; exact hfp
    · have : ¬ v ∈ s.roots.filter (fun w => decide (P ≤ w)) := fun x => hr (hroot.mp x)
      simp only [this, hr, if_false]
  · intro c hc
    have hcf : findPrevious s.ckpts v = some c := by
      simp only [loadPoint] at hc
      split at hc
      · exact hc
      · cases hc
    obtain ⟨hm, hle, hmax⟩ := (findPrevious_eq_some_iff _ h.asc v c).mp hcf
    have hPc : P ≤ c := hmax P hPm hv
    refine ⟨hPc, ?_⟩
    simp only [replayRows, prune, hP, List.filter_filter]
    apply List.filter_congr
    intro r _
    by_cases hw : (decide (c < r.ver) && decide (r.ver ≤ v)) = true
    · rw [hw]
      simp only [Bool.and_eq_true, decide_eq_true_eq] at hw
      simp only [Bool.true_and]
      by_cases hset : r.isSet = true
      · simp only [hset, if_true, Bool.not_eq_true', List.any_eq_false, Bool.and_eq_true, beq_iff_eq,
          decide_eq_true_eq, not_and]
        intro o ho h1
        have := h.orph o ho
        intro h3; omega
      · simp only [hset, Bool.false_eq_true, if_false, Bool.not_eq_true', decide_eq_false_iff_not]
        omega
    · have : (decide (c < r.ver) && decide (r.ver ≤ v)) = false := by simpa using hw
      rw [this]; simp

/-! ### the rows of a store built by commits -/

structure Commit (K V : Type) where
  evs : List (Ev K V)
  orph : List (Nat × Nat)
  ck : Bool

def buildFrom (s : Store K V) (ver : Nat) : List (Commit K V) → Store K V
  | [] => s
  | h :: t => buildFrom (commit s ver h.evs h.orph h.ck) (ver + 1) t

def emptyStore : Store K V := ⟨[], [], [], []⟩

/-- the writes of the versions in the window `(c, v]`, in order; the first commit of the list is version `ver` -/
def windowEvs (ver c v : Nat) : List (Commit K V) → List (Ev K V)
  | [] => []
  | h :: t => (if c < ver ∧ ver ≤ v then h.evs else []) ++ windowEvs (ver + 1) c v t

theorem replay_commit_rows (ver c v : Nat) (evs : List (Ev K V)) :
    ((evs.zipIdx.map fun p => (⟨ver, p.2 + 1, p.1⟩ : Row K V)).filter
        (fun r => decide (c < r.ver) && decide (r.ver ≤ v))).map (·.ev) =
      if c < ver ∧ ver ≤ v then evs else [] := by
  by_cases hw : c < ver ∧ ver ≤ v
  · simp only [hw, and_self, if_true]
    have : ∀ l : List (Ev K V × Nat), (l.map fun p => (⟨ver, p.2 + 1, p.1⟩ : Row K V)).filter
        (fun r => decide (c < r.ver) && decide (r.ver ≤ v)) = l.map fun p => (⟨ver, p.2 + 1, p.1⟩ : Row K V) := by
      intro l
      apply List.filter_eq_self.mpr
      intro r hr
      obtain ⟨p, _, rfl⟩ := List.mem_map.mp hr
      simp [hw.1, hw.2]
    rw [this, List.map_map]
    have : ((fun r : Row K V => r.ev) ∘ fun p : Ev K V × Nat => (⟨ver, p.2 + 1, p.1⟩ : Row K V)) = Prod.fst := rfl
    rw [this]
    exact List.zipIdx_map_fst _ _
  · simp only [hw, if_false]
    have : ∀ l : List (Ev K V × Nat), (l.map fun p => (⟨ver, p.2 + 1, p.1⟩ : Row K V)).filter
        (fun r => decide (c < r.ver) && decide (r.ver ≤ v)) = [] := by
      intro l
      apply List.filter_eq_nil_iff.mpr
      intro r hr
      obtain ⟨p, _, rfl⟩ := List.mem_map.mp hr
      simp only [Bool.and_eq_true, decide_eq_true_eq]
      exact hw
    rw [this]; rfl

/-- the rows replayed from a store built by commits are the writes of the versions in the window, in order -/
theorem replay_buildFrom (s : Store K V) (ver c v : Nat) (hs : List (Commit K V)) :
    (replayRows (buildFrom s ver hs) c v).map (·.ev) = (replayRows s c v).map (·.ev) ++ windowEvs ver c v hs := by
  induction hs generalizing s ver with
  | nil => simp [buildFrom, windowEvs]
  | cons h t ih =>
    simp only [buildFrom, windowEvs]
    rw [ih]
    simp only [replayRows, commit, List.filter_append, List.map_append, List.append_assoc]
    rw [replay_commit_rows]

theorem windowEvs_nil_of_gt (ver a b : Nat) (h : b < ver) (hs : List (Commit K V)) : windowEvs ver a b hs = [] := by
  induction hs generalizing ver with
  | nil => rfl
  | cons x t ih =>
    simp only [windowEvs]
    have : ¬ (a < ver ∧ ver ≤ b) := by omega
    simp only [this, if_false, List.nil_append]
    exact ih (ver + 1) (by omega)

theorem windowEvs_split (ver a b c : Nat) (hab : a ≤ b) (hbc : b ≤ c) (hs : List (Commit K V)) :
    windowEvs ver a c hs = windowEvs ver a b hs ++ windowEvs ver b c hs := by
  induction hs generalizing ver with
  | nil => rfl
  | cons h t ih =>
    simp only [windowEvs]
    rw [ih]
    by_cases h1 : a < ver ∧ ver ≤ b
    · have h2 : ¬ (b < ver ∧ ver ≤ c) := by omega
      have h3 : a < ver ∧ ver ≤ c := by omega
      rw [if_pos h1, if_neg h2, if_pos h3]
      simp only [List.nil_append, List.append_assoc]
    · by_cases h2 : b < ver ∧ ver ≤ c
      · have h3 : a < ver ∧ ver ≤ c := by omega
        rw [if_neg h1, if_pos h2, if_pos h3, windowEvs_nil_of_gt (ver + 1) a b (by omega) t]
        simp
      · have h3 : ¬ (a < ver ∧ ver ≤ c) := by omega
        rw [if_neg h1, if_neg h2, if_neg h3]
        simp

/-! ### replay reproduces the version -/
section replay
variable {T : Type} (apply : T → Ev K V → T)

/-- the state of version `n` of the history: every write of versions 1..n applied to the empty state -/
def stateOf (t0 : T) (hs : List (Commit K V)) (n : Nat) : T := (windowEvs 1 0 n hs).foldl apply t0

/-- **replaying the rows of `(c, v]` on the state of checkpoint `c` yields the state of `v`** -/
theorem replay_reproduces (t0 : T) (hs : List (Commit K V)) (c v : Nat) (hcv : c ≤ v) :
    ((replayRows (buildFrom (emptyStore : Store K V) 1 hs) c v).map (·.ev)).foldl apply (stateOf apply t0 hs c) =
      stateOf apply t0 hs v := by
  rw [replay_buildFrom]
  simp only [replayRows, emptyStore, List.filter_nil, List.map_nil, List.nil_append, stateOf]
  rw [windowEvs_split 1 0 c v (Nat.zero_le _) hcv hs, List.foldl_append]

end replay

/-! ### the invariant of stores built by commits -/

theorem loginv_commit (s : Store K V) (h : LogInv s) (ver : Nat) (evs : List (Ev K V)) (orph : List (Nat × Nat))
    (ck : Bool) (hver : ∀ c ∈ s.ckpts, c < ver) (horph : ∀ o ∈ orph, o.1 ≤ ver) :
    LogInv (commit s ver evs orph ck) where
  asc := by
    simp only [commit]
    split
    · rw [List.pairwise_append]
      exact ⟨h.asc, by simp, by intro a ha b hb; simp at hb; subst hb; exact hver a ha⟩
    · exact h.asc
  orph := by
    intro o ho
    simp only [commit, List.mem_append, List.mem_map] at ho
    rcases ho with ho | ⟨p, hp, rfl⟩
    · exact h.orph o ho
    · exact horph p hp

theorem loginv_prune (s : Store K V) (h : LogInv s) (req : Nat) : LogInv (prune s req) := by
  unfold prune
  split
  · exact h
  · exact ⟨List.Pairwise.filter _ h.asc, fun o ho => h.orph o (List.mem_filter.mp ho).1⟩

end Iavl.V2

namespace Iavl.V2
variable {K V : Type}

/-- the orphan records of every commit name leaves of that version or older ones -/
def WellFormed (ver : Nat) : List (Commit K V) → Prop
  | [] => True
  | h :: t => (∀ o ∈ h.orph, o.1 ≤ ver) ∧ WellFormed (ver + 1) t

theorem loginv_buildFrom (s : Store K V) (ver : Nat) (hs : List (Commit K V)) (h : LogInv s)
    (hck : ∀ c ∈ s.ckpts, c < ver) (hwf : WellFormed ver hs) : LogInv (buildFrom s ver hs) := by
  induction hs generalizing s ver with
  | nil => exact h
  | cons x t ih =>
    simp only [buildFrom]
    apply ih _ _ (loginv_commit s h ver x.evs x.orph x.ck hck hwf.1) _ hwf.2
    intro c hc
    simp only [commit] at hc
    split at hc
    · rcases List.mem_append.mp hc with hc | hc
      · have := hck c hc; omega
      · simp at hc; omega
    · have := hck c hc; omega

theorem loginv_empty : LogInv (emptyStore : Store K V) := ⟨List.Pairwise.nil, by intro o ho; cases ho⟩

end Iavl.V2

namespace Iavl.V2

/-- `SaveVersion`'s checkpoint rule (tree.go): version 1, or `interval` versions after the last checkpoint
    (the memory-pressure trigger and an explicit `SetShouldCheckpoint` only add checkpoints) -/
def ckptDue (interval : Nat) (ckpts : List Nat) (ver : Nat) : Bool :=
  ver == 1 || (decide (0 < interval) && match ckpts.getLast? with
    | none => false
    | some last => decide (interval ≤ ver - last))

/-- the checkpoint list after committing versions 1..n under the rule; `extra v` = a checkpoint was forced at v -/
def autoCkpts (interval : Nat) (extra : Nat → Bool) : Nat → List Nat
  | 0 => []
  | n + 1 =>
    let prev := autoCkpts interval extra n
    if ckptDue interval prev (n + 1) || extra (n + 1) then prev ++ [n + 1] else prev

theorem autoCkpts_mem_le (interval : Nat) (extra : Nat → Bool) (n : Nat) : ∀ c ∈ autoCkpts interval extra n, 1 ≤ c ∧ c ≤ n := by
  induction n with
  | zero => intro c hc; cases hc
  | succ n ih =>
    intro c hc
    simp only [autoCkpts] at hc
    split at hc
    · rcases List.mem_append.mp hc with h | h
      · have := ih c h; omega
      · simp at h; omega
    · have := ih c hc; omega

theorem autoCkpts_sorted (interval : Nat) (extra : Nat → Bool) (n : Nat) : (autoCkpts interval extra n).Pairwise (· < ·) := by
  induction n with
  | zero => exact List.Pairwise.nil
  | succ n ih =>
    simp only [autoCkpts]
    split
    · rw [List.pairwise_append]
      refine ⟨ih, by simp, ?_⟩
      intro a ha b hb
      have : b = n + 1 := by simpa using hb
      have := autoCkpts_mem_le interval extra n a ha
      omega
    · exact ih

/-- **every committed version has a checkpoint at most `interval - 1` versions below it**: the replay of a
    `LoadVersion` never covers `interval` versions or more, and `FindPrevious` never answers -1 for a committed
    version -/
theorem checkpoint_within_interval (interval : Nat) (hi : 0 < interval) (extra : Nat → Bool) (n v : Nat)
    (hv1 : 1 ≤ v) (hvn : v ≤ n) :
    ∃ c, findPrevious (autoCkpts interval extra n) v = some c ∧ c ≤ v ∧ v - c < interval := by
  -- the last checkpoint after m commits is within `interval` of m
  have hlast : ∀ m, 1 ≤ m → ∃ last, (autoCkpts interval extra m).getLast? = some last ∧ last ≤ m ∧ m - last < interval := by
    intro m
    induction m with
    | zero => intro h; omega
    | succ m ih =>
      intro _
      simp only [autoCkpts]
      by_cases hm : m = 0
      · subst hm
        simp [autoCkpts, ckptDue]
        exact hi
      · obtain ⟨last, hl, hle, hlt⟩ := ih (by omega)
        by_cases hdue : (ckptDue interval (autoCkpts interval extra m) (m + 1) || extra (m + 1)) = true
        · simp only [hdue, if_true]
          exact ⟨m + 1, by simp, Nat.le_refl _, by omega⟩
        · simp only [hdue, Bool.false_eq_true, if_false]
          refine ⟨last, hl, by omega, ?_⟩
          have hnd : ckptDue interval (autoCkpts interval extra m) (m + 1) = false := by
            cases h : ckptDue interval (autoCkpts interval extra m) (m + 1) <;> simp_all
          simp only [ckptDue, hl, Bool.or_eq_false_iff, Bool.and_eq_false_iff, decide_eq_false_iff_not] at hnd
          rcases hnd.2 with h | h
          · omega
          · omega
  -- checkpoints of the first v commits are a prefix of those of n commits, and later ones are above v
  have hmono : ∀ d, ∀ c, c ∈ autoCkpts interval extra (v + d) → c ≤ v → c ∈ autoCkpts interval extra v := by
    intro d
    induction d with
    | zero => intro c hc _; exact hc
    | succ d ih =>
      intro c hc hcv
      have hadd : v + (d + 1) = (v + d) + 1 := by omega
      rw [hadd] at hc
      simp only [autoCkpts] at hc
      split at hc
      · rcases List.mem_append.mp hc with h | h
        · exact ih c h hcv
        · simp at h; omega
      · exact ih c hc hcv
  have hsub : ∀ d, ∀ c, c ∈ autoCkpts interval extra v → c ∈ autoCkpts interval extra (v + d) := by
    intro d
    induction d with
    | zero => intro c hc; exact hc
    | succ d ih =>
      intro c hc
      have hadd : v + (d + 1) = (v + d) + 1 := by omega
      rw [hadd]
      simp only [autoCkpts]
      split
      · exact List.mem_append_left _ (ih c hc)
      · exact ih c hc
  obtain ⟨d, rfl⟩ : ∃ d, n = v + d := ⟨n - v, by omega⟩
  obtain ⟨last, hl, hle, hlt⟩ := hlast v hv1
  have hmem : last ∈ autoCkpts interval extra v := List.mem_of_getLast? hl
  refine ⟨last, ?_, hle, hlt⟩
  apply (findPrevious_eq_some_iff _ (autoCkpts_sorted interval extra (v + d)) v last).mpr
  refine ⟨hsub d last hmem, hle, ?_⟩
  intro c hc hcv
  have hcv' := hmono d c hc hcv
  -- `last` is the greatest element of the sorted list of the first v commits
  have hs := autoCkpts_sorted interval extra v
  obtain ⟨j, hj, rfl⟩ := List.mem_iff_getElem.mp hcv'
  rw [List.getLast?_eq_getElem?] at hl
  exact sorted_get_le _ hs j _ _ _ (by omega) (List.getElem?_eq_getElem hj) hl

end Iavl.V2
