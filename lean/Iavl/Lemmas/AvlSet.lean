import Iavl.Lemmas.GetRank
/- Spike for C11: `set` and `remove` preserve the AVL invariant (exact stored heights/sizes). -/
namespace Iavl
open Std
set_option linter.unusedSectionVars false
variable {K V : Type} [Ord K] [BEq K] [TransOrd K] [LawfulEqOrd K]

theorem avl_newInner_balance (k : K) (l r : Node K V) (hl : AVL l) (hr : AVL r)
    (h1 : l.height ≤ r.height + 2) (h2 : r.height ≤ l.height + 2) :
    AVL (balance (newInner k l r)) := by
  unfold balance newInner
  by_cases hb : bal (Node.inner k (max l.height r.height + 1) (l.size + r.size) none l r) > 1
  · simp only [hb, ↓reduceIte]
    have hb' : (l.height : Int) - (r.height : Int) > 1 := hb
    cases l with
    | leaf lk lv lver => simp at hb'; omega
    | inner lk lh lsz lver ll lr =>
      obtain ⟨hll, hlr, e1, e2, hl1, hl2⟩ := hl
      subst e1 e2
      by_cases hlb : bal (Node.inner lk (max ll.height lr.height + 1) (ll.size + lr.size) lver ll lr) ≥ 0
      · simp only [hlb, ↓reduceIte]
        have hlb' : (ll.height : Int) - (lr.height : Int) ≥ 0 := hlb
        simp only [height_inner] at hb' h1 h2
        simp only [rotateRight, newInner, AVL, height_inner, size_inner]
        refine ⟨hll, ⟨hlr, hr, ?_, ?_, ?_, ?_⟩, ?_, ?_, ?_, ?_⟩ <;> first | trivial | omega
      · simp only [hlb, ↓reduceIte]
        have hlb' : ¬ ((ll.height : Int) - (lr.height : Int) ≥ 0) := hlb
        cases lr with
        | leaf rk rv rver => simp at hlb'
        | inner lrk lrh lrsz lrver lrl lrr =>
          obtain ⟨hlrl, hlrr, e3, e4, h3, h4⟩ := hlr
          subst e3 e4
          simp only [height_inner] at hb' hlb' h1 h2 hl1 hl2
          simp only [rotateLeft, rotateRight, newInner, AVL, height_inner, size_inner]
          refine ⟨⟨hll, hlrl, ?_, ?_, ?_, ?_⟩, ⟨hlrr, hr, ?_, ?_, ?_, ?_⟩, ?_, ?_, ?_, ?_⟩ <;> first | trivial | omega
  · simp only [hb, ↓reduceIte]
    have hb' : ¬ ((l.height : Int) - (r.height : Int) > 1) := hb
    by_cases hb2 : bal (Node.inner k (max l.height r.height + 1) (l.size + r.size) none l r) < -1
    · simp only [hb2, ↓reduceIte]
      have hb2' : (l.height : Int) - (r.height : Int) < -1 := hb2
      cases r with
      | leaf rk rv rver => simp at hb2'; omega
      | inner rk rh rsz rver rl rr =>
        obtain ⟨hrl, hrr, e1, e2, hr1, hr2⟩ := hr
        subst e1 e2
        by_cases hrb : bal (Node.inner rk (max rl.height rr.height + 1) (rl.size + rr.size) rver rl rr) ≤ 0
        · simp only [hrb, ↓reduceIte]
          have hrb' : (rl.height : Int) - (rr.height : Int) ≤ 0 := hrb
          simp only [height_inner] at hb' hb2' h1 h2
          simp only [rotateLeft, newInner, AVL, height_inner, size_inner]
          refine ⟨⟨hl, hrl, ?_, ?_, ?_, ?_⟩, hrr, ?_, ?_, ?_, ?_⟩ <;> first | trivial | omega
        · simp only [hrb, ↓reduceIte]
          have hrb' : ¬ ((rl.height : Int) - (rr.height : Int) ≤ 0) := hrb
          cases rl with
          | leaf k' v' ver' => simp at hrb'
          | inner rlk rlh rlsz rlver rll rlr =>
            obtain ⟨h5, h6, e3, e4, h7, h8⟩ := hrl
            subst e3 e4
            simp only [height_inner] at hb' hb2' hrb' h1 h2 hr1 hr2
            simp only [rotateLeft, rotateRight, newInner, AVL, height_inner, size_inner]
            refine ⟨⟨hl, h5, ?_, ?_, ?_, ?_⟩, ⟨h6, hrr, ?_, ?_, ?_, ?_⟩, ?_, ?_, ?_, ?_⟩ <;> first | trivial | omega
    · simp only [hb2, ↓reduceIte]
      have hb2' : ¬ ((l.height : Int) - (r.height : Int) < -1) := hb2
      simp only [AVL]
      refine ⟨hl, hr, ?_, ?_, ?_, ?_⟩ <;> first | trivial | omega

/-- height of a rebalanced node: within one of the taller child + 1 (needed to chain the induction) -/
theorem height_balance_bounds (k : K) (l r : Node K V) (hl : AVL l) (hr : AVL r)
    (h1 : l.height ≤ r.height + 2) (h2 : r.height ≤ l.height + 2) :
    (balance (newInner k l r)).height ≤ max l.height r.height + 1 ∧
    max l.height r.height ≤ (balance (newInner k l r)).height := by
  unfold balance newInner
  by_cases hb : bal (Node.inner k (max l.height r.height + 1) (l.size + r.size) none l r) > 1
  · simp only [hb, ↓reduceIte]
    have hb' : (l.height : Int) - (r.height : Int) > 1 := hb
    cases l with
    | leaf lk lv lver => simp at hb'; omega
    | inner lk lh lsz lver ll lr =>
      obtain ⟨hll, hlr, e1, e2, hl1, hl2⟩ := hl
      subst e1 e2
      by_cases hlb : bal (Node.inner lk (max ll.height lr.height + 1) (ll.size + lr.size) lver ll lr) ≥ 0
      · simp only [hlb, ↓reduceIte]
        have hlb' : (ll.height : Int) - (lr.height : Int) ≥ 0 := hlb
        simp only [height_inner] at hb' h1 h2 ⊢
        simp only [rotateRight, newInner, height_inner]
        omega
      · simp only [hlb, ↓reduceIte]
        have hlb' : ¬ ((ll.height : Int) - (lr.height : Int) ≥ 0) := hlb
        cases lr with
        | leaf rk rv rver => simp at hlb'
        | inner lrk lrh lrsz lrver lrl lrr =>
          obtain ⟨hlrl, hlrr, e3, e4, h3, h4⟩ := hlr
          subst e3 e4
          simp only [height_inner] at hb' hlb' h1 h2 hl1 hl2 ⊢
          simp only [rotateLeft, rotateRight, newInner, height_inner]
          omega
  · simp only [hb, ↓reduceIte]
    have hb' : ¬ ((l.height : Int) - (r.height : Int) > 1) := hb
    by_cases hb2 : bal (Node.inner k (max l.height r.height + 1) (l.size + r.size) none l r) < -1
    · simp only [hb2, ↓reduceIte]
      have hb2' : (l.height : Int) - (r.height : Int) < -1 := hb2
      cases r with
      | leaf rk rv rver => simp at hb2'; omega
      | inner rk rh rsz rver rl rr =>
        obtain ⟨hrl, hrr, e1, e2, hr1, hr2⟩ := hr
        subst e1 e2
        by_cases hrb : bal (Node.inner rk (max rl.height rr.height + 1) (rl.size + rr.size) rver rl rr) ≤ 0
        · simp only [hrb, ↓reduceIte]
          have hrb' : (rl.height : Int) - (rr.height : Int) ≤ 0 := hrb
          simp only [height_inner] at hb' hb2' h1 h2 ⊢
          simp only [rotateLeft, newInner, height_inner]
          omega
        · simp only [hrb, ↓reduceIte]
          have hrb' : ¬ ((rl.height : Int) - (rr.height : Int) ≤ 0) := hrb
          cases rl with
          | leaf k' v' ver' => simp at hrb'
          | inner rlk rlh rlsz rlver rll rlr =>
            obtain ⟨h5, h6, e3, e4, h7, h8⟩ := hrl
            subst e3 e4
            simp only [height_inner] at hb' hb2' hrb' h1 h2 hr1 hr2 ⊢
            simp only [rotateLeft, rotateRight, newInner, height_inner]
            omega
    · simp only [hb2, ↓reduceIte, height_inner]
      omega

/-- no rotation when already balanced -/
theorem balance_noop (k : K) (l r : Node K V)
    (h1 : l.height ≤ r.height + 1) (h2 : r.height ≤ l.height + 1) :
    balance (newInner k l r) = newInner k l r := by
  unfold balance newInner
  have hb : ¬ (bal (Node.inner k (max l.height r.height + 1) (l.size + r.size) none l r) > 1) := by
    show ¬ ((l.height : Int) - (r.height : Int) > 1); omega
  have hb2 : ¬ (bal (Node.inner k (max l.height r.height + 1) (l.size + r.size) none l r) < -1) := by
    show ¬ ((l.height : Int) - (r.height : Int) < -1); omega
  simp only [hb, hb2, ↓reduceIte]

/-- size of a rebalanced node -/
theorem size_balance (k : K) (l r : Node K V) (hl : AVL l) (hr : AVL r) :
    (balance (newInner k l r)).size = l.size + r.size := by
  unfold balance newInner
  by_cases hb : bal (Node.inner k (max l.height r.height + 1) (l.size + r.size) none l r) > 1
  · simp only [hb, ↓reduceIte]
    have hb' : (l.height : Int) - (r.height : Int) > 1 := hb
    cases l with
    | leaf lk lv lver => simp at hb'; omega
    | inner lk lh lsz lver ll lr =>
      obtain ⟨hll, hlr, e1, e2, hl1, hl2⟩ := hl
      subst e1 e2
      by_cases hlb : bal (Node.inner lk (max ll.height lr.height + 1) (ll.size + lr.size) lver ll lr) ≥ 0
      · simp only [hlb, ↓reduceIte, rotateRight, newInner, size_inner]; omega
      · simp only [hlb, ↓reduceIte]
        have hlb' : ¬ ((ll.height : Int) - (lr.height : Int) ≥ 0) := hlb
        cases lr with
        | leaf rk rv rver => simp at hlb'
        | inner lrk lrh lrsz lrver lrl lrr =>
          obtain ⟨hlrl, hlrr, e3, e4, h3, h4⟩ := hlr
          subst e3 e4
          simp only [rotateLeft, rotateRight, newInner, size_inner]; omega
  · simp only [hb, ↓reduceIte]
    by_cases hb2 : bal (Node.inner k (max l.height r.height + 1) (l.size + r.size) none l r) < -1
    · simp only [hb2, ↓reduceIte]
      have hb2' : (l.height : Int) - (r.height : Int) < -1 := hb2
      cases r with
      | leaf rk rv rver => simp at hb2'; omega
      | inner rk rh rsz rver rl rr =>
        obtain ⟨hrl, hrr, e1, e2, hr1, hr2⟩ := hr
        subst e1 e2
        by_cases hrb : bal (Node.inner rk (max rl.height rr.height + 1) (rl.size + rr.size) rver rl rr) ≤ 0
        · simp only [hrb, ↓reduceIte, rotateLeft, newInner, size_inner]; omega
        · simp only [hrb, ↓reduceIte]
          have hrb' : ¬ ((rl.height : Int) - (rr.height : Int) ≤ 0) := hrb
          cases rl with
          | leaf k' v' ver' => simp at hrb'
          | inner rlk rlh rlsz rlver rll rlr =>
            obtain ⟨h5, h6, e3, e4, h7, h8⟩ := hrl
            subst e3 e4
            simp only [rotateLeft, rotateRight, newInner, size_inner]; omega
    · simp only [hb2, ↓reduceIte, size_inner]

/-- what `set` does to shape -/
def SetShape (t t' : Node K V) (upd : Bool) : Prop :=
  AVL t' ∧ (if upd then t'.height = t.height ∧ t'.size = t.size
            else t.height ≤ t'.height ∧ t'.height ≤ t.height + 1 ∧ t'.size = t.size + 1)

theorem avl_set (t : Node K V) (key : K) (val : V) (h : AVL t) :
    SetShape t (t.set key val).1 (t.set key val).2 := by
  induction t with
  | leaf k v ver =>
    simp only [Node.set]
    split <;> simp [SetShape, AVL]
  | inner k ht sz ver l r ihl ihr =>
    obtain ⟨hl, hr, hh, hsz, h1, h2⟩ := h
    subst hh hsz
    have ihl := ihl hl
    have ihr := ihr hr
    simp only [Node.set]
    split
    · cases hset : l.set key val with
      | mk l' upd =>
        rw [hset] at ihl
        obtain ⟨hl', hshape⟩ := ihl
        dsimp only at hl' hshape
        cases upd with
        | true =>
          simp only [↓reduceIte] at hshape ⊢
          obtain ⟨e1, e2⟩ := hshape
          refine ⟨⟨hl', hr, ?_, ?_, ?_, ?_⟩, ?_⟩ <;> (try simp only [↓reduceIte, height_inner, size_inner]) <;> first | omega | simp
        | false =>
          simp only [Bool.false_eq_true, ↓reduceIte] at hshape ⊢
          obtain ⟨e1, e2, e3⟩ := hshape
          have hb := avl_newInner_balance k l' r hl' hr (by omega) (by omega)
          have hh := height_balance_bounds k l' r hl' hr (by omega) (by omega)
          have hs := size_balance k l' r hl' hr
          refine ⟨hb, ?_⟩
          simp only [Bool.false_eq_true, ↓reduceIte, height_inner, size_inner]
          by_cases hbalanced : l'.height ≤ r.height + 1
          · rw [balance_noop k l' r hbalanced (by omega)] at hh hs ⊢
            simp only [newInner, height_inner, size_inner] at hh hs ⊢
            refine ⟨?_, ?_, ?_⟩ <;> omega
          · refine ⟨?_, ?_, ?_⟩ <;> omega
    · cases hset : r.set key val with
      | mk r' upd =>
        rw [hset] at ihr
        obtain ⟨hr', hshape⟩ := ihr
        dsimp only at hr' hshape
        cases upd with
        | true =>
          simp only [↓reduceIte] at hshape ⊢
          obtain ⟨e1, e2⟩ := hshape
          refine ⟨⟨hl, hr', ?_, ?_, ?_, ?_⟩, ?_⟩ <;> (try simp only [↓reduceIte, height_inner, size_inner]) <;> first | omega | simp
        | false =>
          simp only [Bool.false_eq_true, ↓reduceIte] at hshape ⊢
          obtain ⟨e1, e2, e3⟩ := hshape
          have hb := avl_newInner_balance k l r' hl hr' (by omega) (by omega)
          have hh := height_balance_bounds k l r' hl hr' (by omega) (by omega)
          have hs := size_balance k l r' hl hr'
          refine ⟨hb, ?_⟩
          simp only [Bool.false_eq_true, ↓reduceIte, height_inner, size_inner]
          by_cases hbalanced : r'.height ≤ l.height + 1
          · rw [balance_noop k l r' (by omega) hbalanced] at hh hs ⊢
            simp only [newInner, height_inner, size_inner] at hh hs ⊢
            refine ⟨?_, ?_, ?_⟩ <;> omega
          · refine ⟨?_, ?_, ?_⟩ <;> omega
end Iavl
