import Iavl.Lemmas.VersionSharingN
import Iavl.Lemmas.ContigHistory
/-
  C04 / C12: the nodes a pruning step deletes are used by **no** later retained version, not only not by
  the next one. `NInv.pairs` links consecutive versions; here it is chained over any run of retained
  versions u, u+1, …, w.
-/
namespace Iavl
open Std
set_option linter.unusedSectionVars false
variable {K V : Type} [Ord K] [BEq K] [TransOrd K] [LawfulEqOrd K]

theorem asc_unique {C : Type} (vs : List (Nat × C)) (ha : AscV vs) (n : Nat) (c c' : C)
    (h : (n, c) ∈ vs) (h' : (n, c') ∈ vs) : c = c' := by
  have a := asc_mem_findVer vs ha n c h
  have b := asc_mem_findVer vs ha n c' h'
  rw [a] at b; exact Option.some.inj b

/-- every version from `u` to `w` is retained -/
def Run {C : Type} (vs : List (Nat × C)) (u w : Nat) : Prop := ∀ j, u ≤ j → j ≤ w → ∃ c, (j, c) ∈ vs

/-- a node of version `w`'s tree that was persisted at or before `u` belongs to version `u`'s tree,
    when every version in between is retained -/
theorem shared_chain (s : VState (OTree K V)) (h : NInv s) (u d : Nat) :
    ∀ (p c : OTree K V), (u, p) ∈ s.versions → (u + d, c) ∈ s.versions → Run s.versions u (u + d) →
      ∀ x, SubO x c → sharedAt u x = true → SubO x p := by
  induction d with
  | zero =>
    intro p c hp hc _ x hx _
    have : p = c := asc_unique s.versions h.asc u p c hp (by simpa using hc)
    subst this; exact hx
  | succ d ih =>
    intro p c hp hc hrun x hx hsh
    obtain ⟨m, hm⟩ := hrun (u + d) (by omega) (by omega)
    have h1 : SubO x m :=
      h.pairs (u + d) m c hm (by simpa [Nat.add_assoc] using hc) x hx (sharedAt_mono (by omega) hsh)
    exact ih p m hp hm (fun j a b => hrun j a (by omega)) x h1 hsh

variable [DecidableEq K] [DecidableEq V]

/-- **pruning safety at node level.** In a state satisfying the node invariant, let `T` be the tree of
    version `u`. A node of `T` that the tree of version `u+1` does not use is used by no retained
    version `w > u` reachable through a run of retained versions. -/
theorem pruned_unused_later (s : VState (OTree K V)) (h : NInv s) (u w : Nat) (T : Node K V) (c' c : OTree K V)
    (h1 : (u, some T) ∈ s.versions) (h2 : (u + 1, c') ∈ s.versions) (hw : (w, c) ∈ s.versions)
    (huw : u + 1 ≤ w) (hrun : Run s.versions (u + 1) w)
    (n : Node K V) (hn : Sub n T) (hnot : ¬ SubO n c') : ¬ SubO n c := by
  intro hc
  have hsh : sharedAt u n = true := allLe_sub (h.allLe _ h1) hn
  obtain ⟨d, rfl⟩ : ∃ d, w = (u + 1) + d := ⟨w - (u + 1), by omega⟩
  exact hnot (shared_chain s h (u + 1) d c' c h2 hw hrun n hc (sharedAt_mono (by omega) hsh))

omit [DecidableEq K] [DecidableEq V] in
theorem stateAfter_eq_run (s : VState (OTree K V)) (ops : List (Op K V)) :
    stateAfter s ops = s.run treeContent ops := by
  induction ops generalizing s with
  | nil => rfl
  | cons op ops ih => simp only [stateAfter, VState.run]; exact ih _

omit [DecidableEq K] [DecidableEq V] [Ord K] [BEq K] [TransOrd K] [LawfulEqOrd K] in
/-- in a contiguous version list every number between two retained versions is retained -/
theorem run_of_contig {C : Type} (vs : List (Nat × C)) (hc : Contig (vs.map (·.1))) (a w : Nat) (ca cw : C)
    (ha : (a, ca) ∈ vs) (hw : (w, cw) ∈ vs) : Run vs a w := by
  intro j h1 h2
  have := contig_mem_between hc a j w (List.mem_map_of_mem ha) (List.mem_map_of_mem hw) h1 h2
  obtain ⟨p, hp, e⟩ := List.mem_map.mp this
  exact ⟨p.2, by rw [← e]; exact hp⟩

/-- **pruning safety for every history.** In every state reached from an empty store by a history free of
    the two documented misuses, a node of version `u`'s tree that version `u+1` does not use is used by no
    retained version above `u`: what `DeleteVersionsTo` removes for `u` is needed by nobody. -/
theorem pruned_unused_in_every_history (iv : Option Nat) (ops : List (Op K V))
    (hok : RunOk treeContent (initT iv : VState (OTree K V)) ops) (u w : Nat) (T : Node K V) (c' c : OTree K V)
    (h1 : (u, some T) ∈ (stateAfter (initT iv) ops).versions)
    (h2 : (u + 1, c') ∈ (stateAfter (initT iv) ops).versions)
    (hw : (w, c) ∈ (stateAfter (initT iv) ops).versions) (huw : u + 1 ≤ w)
    (n : Node K V) (hn : Sub n T) (hnot : ¬ SubO n c') : ¬ SubO n c := by
  have hn' := stateAfter_ninv (initT iv : VState (OTree K V)) (ninv_init iv) ops
  have hc : CInv (stateAfter (initT iv : VState (OTree K V)) ops) := by
    rw [stateAfter_eq_run]
    exact run_cinv treeContent _ ⟨by simp [verNums, initT, Contig], by intro v hv; simp [verNums, initT] at hv, Or.inl rfl⟩ ops hok
  exact pruned_unused_later _ hn' u w T c' c h1 h2 hw huw
    (run_of_contig _ hc.contig (u + 1) w c' c h2 hw) n hn hnot

end Iavl
