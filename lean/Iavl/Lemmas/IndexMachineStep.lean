import Iavl.Lemmas.IndexMachineInv
/-
  C07, index machine: the overlay invariant, the full invariant `IInv` and its preservation by every step.
-/
namespace Iavl
open Std
set_option linter.unusedSectionVars false
variable {K V : Type} [Ord K] [TransOrd K] [LawfulEqOrd K] [DecidableEq K]

/-- the uncommitted overlay of the tree object -/
structure OInv (vs : VState (SMap K V)) (fast : Bool) (adds : IMap K V) (rems : List K) : Prop where
  sa : SortedKV adds
  skip : fast = false → adds = [] ∧ rems = []
  ovl : fast = true → FInv ⟨vs.lastSaved, proj adds, rems⟩ vs.working
  stamps : ∀ k v st, lookup k adds = some (v, st) → 1 ≤ st ∧ st ≤ vs.base + 1 ∧
      ∀ w c, (w, c) ∈ vs.versions → st ≤ w → w ≤ vs.base → lookup k c = some v

theorem oinv_clear (vs : VState (SMap K V)) (fast : Bool) (hs : SortedKV vs.lastSaved)
    (he : vs.working = vs.lastSaved) : OInv vs fast [] [] where
  sa := by simp [SortedKV]
  skip := fun _ => ⟨rfl, rfl⟩
  ovl := fun _ => {
    si := hs
    sa := by simp [proj, SortedKV]
    disj := by intro k hk; cases hk
    agree := by intro k; simp [FastSt.get, proj, lookup, he] }
  stamps := by intro k v st hl; simp [lookup] at hl

/-- versions may disappear; the tree object and its overlay stay -/
theorem oinv_shrink (vs vs' : VState (SMap K V)) (fast : Bool) (adds : IMap K V) (rems : List K)
    (h : OInv vs fast adds rems) (hsub : ∀ p ∈ vs'.versions, p ∈ vs.versions)
    (hw : vs'.working = vs.working) (hl : vs'.lastSaved = vs.lastSaved) (hb : vs'.base = vs.base) :
    OInv vs' fast adds rems where
  sa := h.sa
  skip := h.skip
  ovl := by rw [hw, hl]; exact h.ovl
  stamps := by
    intro k v st hk
    have := h.stamps k v st hk
    rw [hb]
    exact ⟨this.1, this.2.1, fun w c hm h1 h2 => this.2.2 w c (hsub _ hm) h1 h2⟩

/-- a tree object that does not maintain the index has no overlay, whatever its working tree -/
theorem oinv_skip (vs : VState (SMap K V)) : OInv vs false [] [] where
  sa := by simp [SortedKV]
  skip := fun _ => ⟨rfl, rfl⟩
  ovl := by intro h; cases h
  stamps := by intro k v st hl; simp [lookup] at hl

structure IInv (s : IxSt K V) : Prop where
  v : VInv s.vs
  x : XInv s.vs.versions s.label s.index
  o : OInv s.vs s.fast s.adds s.rems
  fastLabel : s.fast = true → s.vs.base ≠ 0 → s.label = some (latestVer s.vs.versions)

/-- the tree object is positioned on a retained version, or it is a never-loaded object on an empty store
    whose index is empty -/
def Positioned (s : IxSt K V) : Prop :=
  (∃ c, findVer s.vs.versions s.vs.base = some c) ∨
  (s.vs.base = 0 ∧ s.vs.versions = [] ∧ (s.label = some 0 ∨ s.index = []))

/-- side conditions of one step: those of the version machine (`OpOk`); an identical re-commit is accepted
    only for identical contents (no hash collision); a tree object that maintains the index commits only
    when it is positioned -/
def IxOk (s : IxSt K V) : Op K V → Prop
  | .save same => OpOk s.vs (.save same : Op K V) ∧
      (same = true → ∀ c, findVer s.vs.versions s.vs.workingVersion = some c → s.vs.working = c) ∧
      (s.fast = true → Positioned s)
  | op => OpOk s.vs op

theorem ixok_opok (s : IxSt K V) (op : Op K V) (h : IxOk s op) : OpOk s.vs op := by
  cases op <;> first | exact h | exact h.1

/-! ### rebuild -/
theorem rebuild_vs (s : IxSt K V) : s.rebuild.vs = s.vs := by unfold IxSt.rebuild; split <;> rfl
theorem rebuild_fast (s : IxSt K V) : s.rebuild.fast = s.fast := by unfold IxSt.rebuild; split <;> rfl
theorem rebuild_adds (s : IxSt K V) : s.rebuild.adds = s.adds := by unfold IxSt.rebuild; split <;> rfl
theorem rebuild_rems (s : IxSt K V) : s.rebuild.rems = s.rems := by unfold IxSt.rebuild; split <;> rfl
theorem rebuild_label (s : IxSt K V) : s.rebuild.label = some (latestVer s.vs.versions) := by
  unfold IxSt.rebuild; split
  · assumption
  · rfl

theorem latestC_eq (vs : VState (SMap K V)) : latestC vs = latestCV vs.versions := rfl

theorem xinv_rebuild (s : IxSt K V) (ho : VersOk s.vs.versions) (h : XInv s.vs.versions s.label s.index) :
    XInv s.vs.versions s.rebuild.label s.rebuild.index := by
  unfold IxSt.rebuild
  split
  · exact h
  · exact xinv_rebuilt s.vs.versions ho

theorem iinv_rebuild (s : IxSt K V) (hv : VInv s.vs) (hx : XInv s.vs.versions s.label s.index)
    (ho : OInv s.vs s.fast s.adds s.rems) : IInv s.rebuild where
  v := by rw [rebuild_vs]; exact hv
  x := by rw [rebuild_vs]; exact xinv_rebuild s hv.versOk hx
  o := by rw [rebuild_vs, rebuild_fast, rebuild_adds, rebuild_rems]; exact ho
  fastLabel := by intro _ _; rw [rebuild_label, rebuild_vs]

theorem load_shape' {C : Type} (s s' : VState C) (target lat : Nat) (hl : s.load target = some (s', lat)) :
    (s.versions = [] ∧ s' = s) ∨
    (s.versions ≠ [] ∧ ∃ t c, findVer s.versions t = some c ∧ s' = { s with working := c, lastSaved := c, base := t }) := by
  unfold VState.load at hl
  cases hvs : s.versions with
  | nil =>
    rw [hvs] at hl; simp only at hl
    split at hl
    · simp only [Option.some.injEq, Prod.mk.injEq] at hl; exact Or.inl ⟨rfl, hl.1.symm⟩
    · cases hl
  | cons a as =>
    rw [hvs] at hl; simp only at hl
    split at hl
    · cases hl
    · split at hl
      · cases hl
      · cases hf : findVer (a :: as) (if target = 0 then latestVer (a :: as) else target) with
        | none => rw [hf] at hl; cases hl
        | some c =>
          rw [hf] at hl
          simp only [Option.some.injEq, Prod.mk.injEq] at hl
          exact Or.inr ⟨by simp, _, c, hf, hl.1.symm⟩

/-- a successful `LoadVersion` -/
theorem iinv_afterLoad (s : IxSt K V) (h : IInv s) (target lat : Nat) (v' : VState (SMap K V))
    (hl : s.vs.load target = some (v', lat)) : IInv ({ s with vs := v' } : IxSt K V).afterLoad := by
  have hv' := vinv_load s.vs v' target lat h.v hl
  have hvers := load_versions s.vs v' target lat hl
  have hx' : XInv v'.versions s.label s.index := by rw [hvers]; exact h.x
  unfold IxSt.afterLoad
  rcases load_shape' s.vs v' target lat hl with ⟨he, rfl⟩ | ⟨hne, t, c, hf, rfl⟩
  · -- empty store: nothing is loaded, the overlay stays
    cases hfast : s.fast with
    | false => simp only [hfast]; exact ⟨hv', hx', by simpa [hfast] using h.o, by intro hc; simp [hfast] at hc⟩
    | true =>
      simp only [he, List.isEmpty_nil, if_true]
      exact iinv_rebuild _ hv' hx' (by simpa [hfast] using h.o)
  · have hcl : OInv ({ s.vs with working := c, lastSaved := c, base := t } : VState (SMap K V)) s.fast [] [] :=
      oinv_clear _ _ hv'.sl rfl
    cases hfast : s.fast with
    | false =>
      simp only [hfast]
      have hsk := h.o.skip hfast
      refine ⟨hv', hx', ?_, by intro hc; simp [hfast] at hc⟩
      simp only [hsk.1, hsk.2]
      simpa [hfast] using hcl
    | true =>
      have : s.vs.versions.isEmpty = false := by
        cases hh : s.vs.versions with
        | nil => exact absurd hh hne
        | cons a as => rfl
      simp only [this]
      exact iinv_rebuild _ hv' hx' (by simpa [hfast] using hcl)

theorem vinv_fresh (vs : VState (SMap K V)) (h : VInv vs) (iv : Option Nat) : VInv (vs.fresh mapContent iv) := by
  have hcf : CInv (vs.fresh mapContent iv) :=
    ⟨h.c.contig, h.c.pos, by
      rcases h.c.tip with e | _
      · left; exact e
      · right; simp [VState.fresh]⟩
  refine ⟨hcf, by simp [VState.fresh, mapContent, SortedKV], by simp [VState.fresh, mapContent, SortedKV], h.sv,
    fun _ => rfl, ?_⟩
  intro c hc'
  have := h.vpos 0 c (findVer_some_mem _ _ _ hc')
  omega

theorem filter_all {C : Type} (vers : List (Nat × C)) (q : Nat → Bool) (h : ∀ p ∈ vers, q p.1 = true) :
    vers.filter (fun p => q p.1) = vers := List.filter_eq_self.mpr h

theorem iinv_set (s : IxSt K V) (h : IInv s) (m : Bool) (k : K) (v : V) : IInv (s.step m (.set k v)) := by
  have hv := vinv_step s.vs h.v (.set k v) trivial
  simp only [IxSt.step]
  cases hfast : s.fast with
  | false =>
    simp only [Bool.false_eq_true, if_false]
    have hsk := h.o.skip hfast
    refine ⟨hv, h.x, ?_, by intro hc; simp [hfast] at hc⟩
    simp only [hfast, hsk.1, hsk.2]
    exact oinv_skip _
  | true =>
    simp only [if_true]
    refine ⟨hv, h.x, ?_, ?_⟩
    · have ho := h.o
      rw [hfast] at ho
      refine ⟨sortedKV_insertSorted _ _ _ ho.sa, (fun hc => by cases hc), ?_, ?_⟩
      · intro _
        have := finv_set _ _ h.v.sw (ho.ovl rfl) k v
        simp only [FastSt.set] at this
        simp only [VState.step, mapContent]
        rw [proj_insertSorted]
        exact this
      · intro k' v' st hl
        rw [lookup_insertSorted _ _ _ ho.sa] at hl
        simp only [VState.step]
        split at hl
        · simp only [Option.some.injEq, Prod.mk.injEq] at hl
          refine ⟨by omega, by omega, ?_⟩
          intro w c _ h1 h2; omega
        · exact ho.stamps k' v' st hl
    · intro _ hb; exact h.fastLabel hfast hb

theorem iinv_remove (s : IxSt K V) (h : IInv s) (m : Bool) (k : K) : IInv (s.step m (.remove k)) := by
  have hv := vinv_step s.vs h.v (.remove k) trivial
  simp only [IxSt.step]
  cases hl : lookup k s.vs.working with
  | none => exact h
  | some v0 =>
    simp only
    have hvs : (s.vs.step mapContent (.remove k)).1 = { s.vs with working := eraseSorted k s.vs.working } := by
      simp [VState.step, mapContent, hl]
    cases hfast : s.fast with
    | false =>
      simp only [Bool.false_eq_true, if_false]
      have hsk := h.o.skip hfast
      refine ⟨hv, by rw [hvs]; exact h.x, ?_, by intro hc; simp [hfast] at hc⟩
      simp only [hfast, hsk.1, hsk.2]
      exact oinv_skip _
    | true =>
      simp only [if_true]
      refine ⟨hv, by rw [hvs]; exact h.x, ?_, ?_⟩
      · have ho := h.o
        rw [hfast] at ho
        rw [hvs]
        refine ⟨sortedKV_eraseSorted _ _ ho.sa, (fun hc => by cases hc), ?_, ?_⟩
        · intro _
          have := finv_remove _ _ h.v.sw (ho.ovl rfl) k
          simp only [FastSt.remove] at this
          rw [proj_eraseSorted]
          exact this
        · intro k' v' st hl'
          rw [lookup_eraseSorted _ _ ho.sa] at hl'
          split at hl'
          · cases hl'
          · exact ho.stamps k' v' st hl'
      · intro _ hb; rw [hvs] at hb ⊢; exact h.fastLabel hfast hb

theorem iinv_rollback (s : IxSt K V) (h : IInv s) (m : Bool) : IInv (s.step m .rollback) := by
  have hv := vinv_step s.vs h.v .rollback trivial
  simp only [IxSt.step]
  refine ⟨hv, h.x, ?_, ?_⟩
  · refine oinv_clear _ _ h.v.sl ?_
    simp only [VState.step, mapContent]
    split
    · rename_i hb; exact (h.v.base0 hb).symm
    · rfl
  · intro hf hb; exact h.fastLabel hf hb

theorem iinv_prune (s : IxSt K V) (h : IInv s) (m : Bool) (n : Nat) : IInv (s.step m (.prune n)) := by
  have hv := vinv_step s.vs h.v (.prune n) trivial
  simp only [IxSt.step]
  by_cases hlat : latestVer s.vs.versions ≤ n
  · have : (s.vs.step mapContent (.prune n)).1 = s.vs := by simp [VState.step, hlat]
    rw [this]; exact h
  · have hvs : (s.vs.step mapContent (.prune n)).1 =
        { s.vs with versions := s.vs.versions.filter (fun p => decide (n < p.1)) } := by
      simp [VState.step, hlat]
    rw [hvs] at hv ⊢
    refine ⟨hv, xinv_prune _ h.v.versOk _ _ h.x n hlat, ?_, ?_⟩
    · exact oinv_shrink s.vs _ _ _ _ h.o (fun p hp => (List.mem_filter.mp hp).1) rfl rfl rfl
    · intro hf hb
      simp only at hb ⊢
      rw [latestVer_prune _ h.v.versOk n hlat]
      exact h.fastLabel hf hb

theorem iinv_delfrom (s : IxSt K V) (h : IInv s) (m : Bool) (n : Nat) (hok : OpOk s.vs (.delfrom n : Op K V)) :
    IInv (s.step m (.delfrom n)) := by
  have hv := vinv_step s.vs h.v (.delfrom n) hok
  have hvs : (s.vs.step mapContent (.delfrom n : Op K V)).1 =
      { s.vs with versions := s.vs.versions.filter (fun p => decide (p.1 < n)) } := rfl
  simp only [IxSt.step]
  rw [hvs] at hv ⊢
  have ho' : OInv ({ s.vs with versions := s.vs.versions.filter (fun p => decide (p.1 < n)) } : VState (SMap K V))
      s.fast s.adds s.rems :=
    oinv_shrink s.vs _ _ _ _ h.o (fun p hp => (List.mem_filter.mp hp).1) rfl rfl rfl
  by_cases hlat : latestVer s.vs.versions < n
  · simp only [hlat, if_true]
    have hall : s.vs.versions.filter (fun p => decide (p.1 < n)) = s.vs.versions := by
      apply filter_all s.vs.versions (fun w => decide (w < n))
      intro p hp
      have := asc_le_latest s.vs.versions h.v.asc p hp
      simp; omega
    refine ⟨hv, by simp only [hall]; exact h.x, ho', ?_⟩
    intro hf hb
    simp only [hall] at hb ⊢
    exact h.fastLabel hf hb
  · simp only [hlat, if_false]
    have hx2 : XInv (s.vs.versions.filter (fun p => decide (p.1 < n))) none s.index :=
      xinv_unlabelled _ _ h.x.si h.x.ipos
    cases hfast : s.fast with
    | false =>
      simp only [Bool.false_eq_true, if_false]
      exact ⟨hv, hx2, by simpa [hfast] using ho', by intro hc; simp [hfast] at hc⟩
    | true =>
      simp only [if_true]
      exact iinv_rebuild _ hv hx2 (by simpa [hfast] using ho')

theorem iinv_load (s : IxSt K V) (h : IInv s) (m : Bool) (target : Nat) : IInv (s.step m (.load target)) := by
  simp only [IxSt.step]
  cases hl : s.vs.load target with
  | none => exact h
  | some p => obtain ⟨v', lat⟩ := p; exact iinv_afterLoad s h target lat v' hl

theorem iinv_reopen (s : IxSt K V) (h : IInv s) (m : Bool) (iv : Option Nat) (target : Nat) :
    IInv (s.step m (.reopen iv target)) := by
  have hvf := vinv_fresh s.vs h.v iv
  have h0 : IInv ({ s with vs := s.vs.fresh mapContent iv, fast := m, adds := [], rems := [] } : IxSt K V) :=
    ⟨hvf, h.x, oinv_clear _ _ hvf.sl rfl, by intro _ hb; exact absurd rfl hb⟩
  simp only [IxSt.step]
  cases hl : (s.vs.fresh mapContent iv).load target with
  | none => exact h0
  | some p => obtain ⟨v', lat⟩ := p; exact iinv_afterLoad _ h0 target lat v' hl

theorem afterLoad_vs (s : IxSt K V) : s.afterLoad.vs = s.vs := by
  unfold IxSt.afterLoad
  split
  · rw [rebuild_vs]; split <;> rfl
  · rfl

theorem afterLoad_fast (s : IxSt K V) : s.afterLoad.fast = s.fast := by
  unfold IxSt.afterLoad
  split
  · rw [rebuild_fast]; split <;> rfl
  · rfl

theorem iinv_loadow (s : IxSt K V) (h : IInv s) (m : Bool) (target : Nat) : IInv (s.step m (.loadow target)) := by
  have hv := vinv_step s.vs h.v (.loadow target) trivial
  simp only [IxSt.step]
  cases hl : s.vs.load target with
  | none => exact h
  | some p =>
    obtain ⟨v', lat⟩ := p
    have h1 := iinv_afterLoad s h target lat v' hl
    have hvs : (s.vs.step mapContent (.loadow target : Op K V)).1 =
        { v' with versions := v'.versions.filter (fun p => decide (p.1 ≤ v'.base)) } := by
      simp [VState.step, hl]
    simp only
    rw [hvs] at hv ⊢
    generalize hs1 : ({ s with vs := v' } : IxSt K V).afterLoad = s1 at h1 ⊢
    have e1 : s1.vs = v' := by rw [← hs1, afterLoad_vs]
    have ef : s1.fast = s.fast := by rw [← hs1, afterLoad_fast]
    have ho' : OInv ({ v' with versions := v'.versions.filter (fun p => decide (p.1 ≤ v'.base)) } : VState (SMap K V))
        s1.fast s1.adds s1.rems := by
      have := h1.o
      rw [e1] at this
      exact oinv_shrink v' _ _ _ _ this (fun p hp => (List.mem_filter.mp hp).1) rfl rfl rfl
    have hx2 : XInv (v'.versions.filter (fun p => decide (p.1 ≤ v'.base)))
        (if v'.base < latestVer v'.versions then none else s1.label) s1.index := by
      have hx1 := h1.x
      rw [e1] at hx1
      by_cases hd : v'.base < latestVer v'.versions
      · simp only [hd, if_true]; exact xinv_unlabelled _ _ hx1.si hx1.ipos
      · simp only [hd, if_false]
        have hall : v'.versions.filter (fun p => decide (p.1 ≤ v'.base)) = v'.versions := by
          apply filter_all v'.versions (fun w => decide (w ≤ v'.base))
          intro p hp
          have := asc_le_latest v'.versions (e1 ▸ h1.v).asc p hp
          simp; omega
        rw [hall]; exact hx1
    cases hfast : s.fast with
    | false =>
      simp only [Bool.false_eq_true, if_false]
      refine ⟨hv, hx2, ho', ?_⟩
      intro hc; rw [ef, hfast] at hc; cases hc
    | true =>
      simp only [if_true]
      exact iinv_rebuild _ hv hx2 ho'

theorem iinv_save (s : IxSt K V) (h : IInv s) (m : Bool) (same : Bool) (hok : IxOk s (.save same)) :
    IInv (s.step m (.save same)) := by
  have hv := vinv_step s.vs h.v (.save same) hok.1
  simp only [IxSt.step]
  cases hf : findVer s.vs.versions s.vs.workingVersion with
  | some c =>
    simp only
    cases same with
    | false =>
      have : (s.vs.step mapContent (.save false : Op K V)).1 = s.vs := by simp [VState.step, hf]
      rw [this]; exact h
    | true =>
      have hvs : (s.vs.step mapContent (.save true : Op K V)).1 =
          { s.vs with ivSet := false, working := c, lastSaved := c, base := s.vs.workingVersion } := by
        simp [VState.step, hf]
      rw [hvs] at hv ⊢
      have hm := findVer_some_mem _ _ _ hf
      cases hfast : s.fast with
      | false =>
        have hsk := h.o.skip hfast
        refine ⟨hv, h.x, ?_, by intro hc; simp [hfast] at hc⟩
        simp only [hfast, hsk.1, hsk.2]
        exact oinv_skip _
      | true =>
        have hW : s.vs.working = c := hok.2.1 rfl c hf
        have ho := h.o
        rw [hfast] at ho
        -- the object is positioned on a retained version (the store is not empty)
        have hpos : ∃ c0, findVer s.vs.versions s.vs.base = some c0 := by
          rcases hok.2.2 hfast with hp | ⟨_, he, _⟩
          · exact hp
          · rw [he] at hm; cases hm
        obtain ⟨c0, hc0⟩ := hpos
        have hb1 : 1 ≤ s.vs.base := h.v.vpos _ c0 (findVer_some_mem _ _ _ hc0)
        have hwv : s.vs.workingVersion = s.vs.base + 1 := by
          unfold VState.workingVersion
          have : ¬ (s.vs.base + 1 = 1 ∧ s.vs.ivSet = true) := by omega
          simp only [this, if_false]
        have hfi := ho.ovl rfl
        refine ⟨hv, h.x, ?_, ?_⟩
        · refine ⟨ho.sa, (fun hc => by cases hc), ?_, ?_⟩
          · intro _
            refine ⟨h.v.sv _ hm, hfi.sa, hfi.disj, ?_⟩
            intro k
            have ha := hfi.agree k
            rw [hW] at ha
            simp only [FastSt.get] at ha ⊢
            cases hla : lookup k (proj s.adds) with
            | some x => rw [hla] at ha; exact ha
            | none =>
              rw [hla] at ha
              simp only at ha ⊢
              split
              · rename_i hr; simpa [hr] using ha
              · rfl
          · intro k v st hl
            have h3 := ho.stamps k v st hl
            refine ⟨h3.1, by simp only; omega, ?_⟩
            intro w c' hm' h1 h2
            simp only at h2
            by_cases hw : w ≤ s.vs.base
            · exact h3.2.2 w c' hm' h1 hw
            · have hw' : w = s.vs.workingVersion := by omega
              subst hw'
              have : c' = c := asc_uniq _ h.v.asc _ c' c hm' hm
              subst this
              have ha := hfi.agree k
              simp only [FastSt.get] at ha
              rw [lookup_proj, hl] at ha
              simp only [Option.map_some] at ha
              rw [← hW]; exact ha.symm
        · intro _ _; exact h.fastLabel hfast (by omega)
  | none =>
    simp only
    by_cases hlt : latestVer s.vs.versions < s.vs.workingVersion
    · have hvs : (s.vs.step mapContent (.save same : Op K V)).1 =
          { s.vs with ivSet := false, versions := s.vs.versions ++ [(s.vs.workingVersion, s.vs.working)],
                      working := s.vs.working, lastSaved := s.vs.working, base := s.vs.workingVersion } := by
        simp [VState.step, hf, hlt, mapContent]
      rw [hvs] at hv ⊢
      cases hfast : s.fast with
      | false =>
        simp only [hlt, Bool.false_eq_true, and_false, if_false]
        have hsk := h.o.skip hfast
        refine ⟨hv, xinv_save_skip _ _ _ h.x _ _ hlt, ?_, by intro hc; simp [hfast] at hc⟩
        simp only [hfast, hsk.1, hsk.2]
        exact oinv_skip _
      | true =>
        simp only [hlt, and_self, if_true]
        have ho := h.o
        rw [hfast] at ho
        have hfi := ho.ovl rfl
        refine ⟨hv, ?_, oinv_clear _ _ hv.sl rfl, by intro _ _; simp only; rw [latestVer_append]⟩
        simp only
        rcases hok.2.2 hfast with ⟨c0, hc0⟩ | ⟨hb0, he, hidx⟩
        · -- positioned on a retained version, which is the latest one
          have hm0 := findVer_some_mem _ _ _ hc0
          have hb1 : 1 ≤ s.vs.base := h.v.vpos _ c0 hm0
          have hL : c0 = s.vs.lastSaved := h.v.lastOk c0 hc0
          have hwv : s.vs.workingVersion = s.vs.base + 1 := by
            unfold VState.workingVersion
            have : ¬ (s.vs.base + 1 = 1 ∧ s.vs.ivSet = true) := by omega
            simp only [this, if_false]
          have hble := asc_le_latest _ h.v.asc _ hm0
          simp only at hble
          have hbl : s.vs.base = latestVer s.vs.versions := by omega
          have hlab := h.fastLabel hfast (by omega)
          have hidx := h.x.idx hlab
          refine xinv_save_fast _ h.v.versOk _ _ _ s.vs.lastSaved s.vs.working _ hlt h.x.si h.x.ipos ho.sa hfi ?_ ?_
          · intro k v st hl
            have h3 := ho.stamps k v st hl
            refine ⟨h3.1, by omega, ?_⟩
            intro w c hm h1
            have := asc_le_latest _ h.v.asc _ hm
            simp only at this
            exact h3.2.2 w c hm h1 (by omega)
          · intro k
            have hk := hidx k
            cases hi : lookup k s.index with
            | none =>
              rw [hi] at hk
              simp only at hk ⊢
              have : latestCV s.vs.versions = s.vs.lastSaved := by
                unfold latestCV; rw [← hbl, hc0]; exact hL
              rw [← this]; exact hk
            | some x =>
              obtain ⟨v, st⟩ := x
              rw [hi] at hk
              simp only at hk ⊢
              refine ⟨hk.1, hk.2, ?_⟩
              rw [← hL]
              exact hk.2 _ c0 hm0 (by omega)
        · -- a never-loaded object on an empty store with an empty index
          have hLs : s.vs.lastSaved = [] := h.v.base0 hb0
          refine xinv_save_fast _ h.v.versOk _ _ _ s.vs.lastSaved s.vs.working _ hlt h.x.si h.x.ipos ho.sa hfi ?_ ?_
          · intro k v st hl
            have h3 := ho.stamps k v st hl
            refine ⟨h3.1, by omega, ?_⟩
            intro w c hm; rw [he] at hm; cases hm
          · intro k
            have hnone : lookup k s.index = none := by
              rcases hidx with hl0 | hi0
              · have hlat0 : latestVer s.vs.versions = 0 := by rw [he]; rfl
                have hk := h.x.idx (by rw [hlat0]; exact hl0) k
                cases hi : lookup k s.index with
                | none => rfl
                | some x =>
                  obtain ⟨v, st⟩ := x
                  rw [hi] at hk
                  have := h.x.ipos k v st hi
                  have := hk.1
                  omega
              · rw [hi0]; rfl
            rw [hnone]
            simp only [hLs, lookup]
    · have : (s.vs.step mapContent (.save same : Op K V)).1 = s.vs := by simp [VState.step, hf, hlt]
      simp only [hlt, false_and, if_false]
      rw [this]; exact h

/-- **every step keeps the invariant** -/
theorem step_iinv (s : IxSt K V) (h : IInv s) (m : Bool) (op : Op K V) (hok : IxOk s op) : IInv (s.step m op) := by
  cases op with
  | set k v => exact iinv_set s h m k v
  | remove k => exact iinv_remove s h m k
  | save same => exact iinv_save s h m same hok
  | rollback => exact iinv_rollback s h m
  | load target => exact iinv_load s h m target
  | loadow target => exact iinv_loadow s h m target
  | prune n => exact iinv_prune s h m n
  | delfrom n => exact iinv_delfrom s h m n hok
  | reopen iv target => exact iinv_reopen s h m iv target
  | read r => exact h
  | immRead ver r =>
    simp only [IxSt.step, VState.step]
    split <;> exact h
  | getVersioned k ver => exact h
  | versionExists ver => exact h
  | available => exact h
  | latest => exact h

def IxRunOk (s : IxSt K V) : List (Bool × Op K V) → Prop
  | [] => True
  | (m, op) :: ops => IxOk s op ∧ IxRunOk (s.step m op) ops

theorem iinv_init (iv : Option Nat) (mode : Bool) : IInv (IxSt.init iv mode : IxSt K V) where
  v := ⟨⟨by simp [IxSt.init, verNums, Contig], by intro v hv; simp [IxSt.init, verNums] at hv, Or.inl rfl⟩,
        by simp [IxSt.init, SortedKV], by simp [IxSt.init, SortedKV], by intro p hp; simp [IxSt.init] at hp,
        fun _ => rfl, by intro c hc; simp [IxSt.init, findVer] at hc⟩
  x := xinv_unlabelled _ _ (by simp [IxSt.init, SortedKV]) (by intro k v st hl; simp [IxSt.init, lookup] at hl)
  o := oinv_clear _ _ (by simp [IxSt.init, SortedKV]) rfl
  fastLabel := by intro _ hb; exact absurd rfl hb

theorem run_iinv (s : IxSt K V) (h : IInv s) (ops : List (Bool × Op K V)) (hok : IxRunOk s ops) : IInv (s.run ops) := by
  induction ops generalizing s with
  | nil => exact h
  | cons a ops ih => obtain ⟨m, op⟩ := a; exact ih _ (step_iinv s h m op hok.1) hok.2

end Iavl
