import Iavl.Lemmas.Rotate
namespace Iavl
open Std
set_option linter.unusedSectionVars false
variable {K V : Type} [Ord K] [BEq K] [TransOrd K] [LawfulEqOrd K]

/-- every element of an ordered tree is ≥ its head key -/
theorem head_le_all (t : Node K V) (ho : Ordered t) {x : K} (hx : t.keys.head? = some x) :
    AllGe t.toList x := by
  induction t generalizing x with
  | leaf k v ver =>
    simp [Node.keys] at hx; subst hx
    intro p hp; simp at hp; subst hp; simp [ReflCmp.compare_self]
  | inner k h s ver l r ihl ihr =>
    obtain ⟨hol, hor, hl, hr⟩ := ho
    rw [keys_inner, head_append_keys] at hx
    have h1 := ihl hol hx
    rw [toList_inner, allGe_append]
    refine ⟨h1, ?_⟩
    -- x ≤ (some element of l) < k ≤ r
    obtain ⟨p, hp, hpx⟩ := head_mem l hx
    have : compare x k = .lt := by rw [← hpx]; exact hl p hp
    exact allGe_of_le (isLE_of_lt this) hr

theorem mem_erase (key : K) (m : List (K × V)) {p : K × V} (h : p ∈ eraseSorted key m) : p ∈ m := by
  induction m with
  | nil => simp [eraseSorted] at h
  | cons a m ih =>
    obtain ⟨ak, av⟩ := a
    simp only [eraseSorted] at h
    split at h
    · exact List.mem_cons_of_mem _ h
    · rcases List.mem_cons.mp h with h | h
      · simp [h]
      · exact List.mem_cons_of_mem _ (ih h)

/-- what `recursiveRemove` guarantees -/
def RemOK (t : Node K V) (key : K) : Option (RemoveRes K V) → Prop
  | none => ∀ p ∈ t.toList, compare key p.1 ≠ .eq
  | some ⟨none, _, v⟩ => ∃ k ver, t = .leaf k v ver ∧ compare key k = .eq
  | some ⟨some t', nk, v⟩ =>
      t'.toList = eraseSorted key t.toList ∧ Ordered t' ∧ RoutingMin t' ∧ lookup key t.toList = some v ∧
      (match nk with
       | some x => t'.keys.head? = some x
       | none => t'.keys.head? = t.keys.head?)

theorem lookup_append_left (key : K) (A B : List (K × V)) {v : V} (h : lookup key A = some v) :
    lookup key (A ++ B) = some v := by
  induction A with
  | nil => simp [lookup] at h
  | cons a A ih =>
    obtain ⟨ak, av⟩ := a
    simp only [List.cons_append, lookup] at h ⊢
    split
    · rename_i hc; simp [hc] at h; simp [h]
    · rename_i hc; simp [hc] at h; exact ih h

theorem lookup_append_right (key : K) (A B : List (K × V)) (hA : ∀ p ∈ A, compare key p.1 ≠ .eq) :
    lookup key (A ++ B) = lookup key B := by
  induction A with
  | nil => rfl
  | cons a A ih =>
    obtain ⟨ak, av⟩ := a
    have := hA (ak, av) (by simp)
    simp only [List.cons_append, lookup, this, if_false]
    exact ih (fun p hp => hA p (by simp [hp]))

theorem remove_ok (t : Node K V) (key : K) (ho : Ordered t) (hr : RoutingMin t) :
    RemOK t key (t.remove key) := by
  induction t with
  | leaf k v ver =>
    simp only [Node.remove]
    split
    · rename_i hc; exact ⟨k, ver, rfl, hc⟩
    · rename_i hc; intro p hp; simp at hp; subst hp; exact hc
  | inner k h s ver l r ihl ihr =>
    obtain ⟨hol, hor, hl, hrr⟩ := ho
    obtain ⟨hrl, hrr', hrhead⟩ := hr
    have ihl := ihl hol hrl
    have ihr := ihr hor hrr'
    simp only [Node.remove]
    split
    · -- key < k : go left
      rename_i hlt
      have hkeyr : ∀ p ∈ r.toList, compare key p.1 ≠ .eq := by
        intro p hp hc
        have := TransCmp.lt_of_lt_of_isLE hlt (hrr p hp)
        rw [hc] at this; cases this
      split
      · -- not found
        rename_i hnone; rw [hnone] at ihl
        intro p hp
        simp only [toList_inner, List.mem_append] at hp
        rcases hp with hp | hp
        · exact ihl p hp
        · exact hkeyr p hp
      · -- left leaf removed → collapse to r
        rename_i nk v hsome; rw [hsome] at ihl
        obtain ⟨lk, lver, hleaf, hc⟩ := ihl
        subst hleaf
        refine ⟨?_, hor, hrr', ?_, hrhead⟩
        · simp only [toList_inner, toList_leaf]
          rw [erase_append_left key _ _ k hlt hrr]
          simp [eraseSorted, hc]
        · simp [lookup, hc]
      · -- left subtree shrinks to l'
        rename_i l' nk v hsome; rw [hsome] at ihl
        obtain ⟨htl, hol', hrl'', hlook, hhead⟩ := ihl
        have hl' : AllLt l'.toList k := by
          intro p hp; rw [htl] at hp; exact hl p (mem_erase key _ hp)
        have hinv := inv_balance (newInner k l' r)
          ((ordered_newInner_iff k l' r).mpr ⟨hol', hor, hl', hrr⟩)
          ((rmin_newInner_iff k l' r).mpr ⟨hrl'', hrr', hrhead⟩)
        refine ⟨?_, hinv.1, hinv.2, ?_, ?_⟩
        · rw [toList_balance, toList_newInner, htl, toList_inner, erase_append_left key _ _ k hlt hrr]
        · rw [toList_inner]; exact lookup_append_left key _ _ hlook
        · have hk : (balance (newInner k l' r)).keys = l'.keys ++ r.keys := by
            simp [Node.keys, toList_balance]
          rw [hk, head_append_keys, keys_inner, head_append_keys]
          exact hhead
    · -- key ≥ k : go right
      rename_i hnlt
      have hge : (compare k key).isLE := by
        rw [← OrientedCmp.isGE_iff_isLE]
        cases hc : compare key k <;> simp_all [Ordering.isGE]
      have hkeyl : ∀ p ∈ l.toList, compare key p.1 ≠ .eq := by
        intro p hp hc
        have h1 : compare p.1 key = .lt := TransCmp.lt_of_lt_of_isLE (hl p hp) hge
        rw [OrientedCmp.eq_comm] at hc; rw [hc] at h1; cases h1
      split
      · rename_i hnone; rw [hnone] at ihr
        intro p hp
        simp only [toList_inner, List.mem_append] at hp
        rcases hp with hp | hp
        · exact hkeyl p hp
        · exact ihr p hp
      · -- right leaf removed → collapse to l
        rename_i nk v hsome; rw [hsome] at ihr
        obtain ⟨rk, rver, hleaf, hc⟩ := ihr
        subst hleaf
        refine ⟨?_, hol, hrl, ?_, ?_⟩
        · simp only [toList_inner, toList_leaf]
          rw [erase_append_right key _ _ k hge hl]
          simp [eraseSorted, hc]
        · rw [toList_inner, lookup_append_right key _ _ hkeyl]; simp [lookup, hc]
        · rw [keys_inner, head_append_keys]
      · rename_i r' nk v hsome; rw [hsome] at ihr
        obtain ⟨htr, hor', hrr'', hlook, hhead⟩ := ihr
        -- the (possibly patched) routing key
        have hsub : ∀ p ∈ r'.toList, p ∈ r.toList := by
          intro p hp; rw [htr] at hp; exact mem_erase key _ hp
        cases nk with
        | none =>
          simp only at hhead ⊢
          have hge' : AllGe r'.toList k := fun p hp => hrr p (hsub p hp)
          have hinv := inv_balance (newInner k l r')
            ((ordered_newInner_iff k l r').mpr ⟨hol, hor', hl, hge'⟩)
            ((rmin_newInner_iff k l r').mpr ⟨hrl, hrr'', by rw [hhead]; exact hrhead⟩)
          refine ⟨?_, hinv.1, hinv.2, ?_, ?_⟩
          · rw [toList_balance, toList_newInner, htr, toList_inner, erase_append_right key _ _ k hge hl]
          · rw [toList_inner, lookup_append_right key _ _ hkeyl]; exact hlook
          · have hk : (balance (newInner k l r')).keys = l.keys ++ r'.keys := by
              simp [Node.keys, toList_balance]
            rw [hk, head_append_keys, keys_inner, head_append_keys]
        | some x =>
          simp only at hhead ⊢
          have hxge : AllGe r'.toList x := head_le_all r' hor' hhead
          obtain ⟨p, hp, hpx⟩ := head_mem r' hhead
          have hkx : (compare k x).isLE := by rw [← hpx]; exact hrr p (hsub p hp)
          have hinv := inv_balance (newInner x l r')
            ((ordered_newInner_iff x l r').mpr ⟨hol, hor', allLt_of_le hkx hl, hxge⟩)
            ((rmin_newInner_iff x l r').mpr ⟨hrl, hrr'', hhead⟩)
          refine ⟨?_, hinv.1, hinv.2, ?_, ?_⟩
          · rw [toList_balance, toList_newInner, htr, toList_inner, erase_append_right key _ _ k hge hl]
          · rw [toList_inner, lookup_append_right key _ _ hkeyl]; exact hlook
          · have hk : (balance (newInner x l r')).keys = l.keys ++ r'.keys := by
              simp [Node.keys, toList_balance]
            rw [hk, head_append_keys, keys_inner, head_append_keys]
end Iavl
