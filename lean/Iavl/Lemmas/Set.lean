import Iavl.Lemmas.AvlRemove
import Iavl.Model.Walk
/- Spike for C01: complete specification of `set` and `has` (companion of `remove_ok`). -/
namespace Iavl
open Std
set_option linter.unusedSectionVars false
variable {K V : Type} [Ord K] [BEq K] [TransOrd K] [LawfulEqOrd K]

theorem ins_append_left (key : K) (val : V) (A B : List (K × V))
    (hB : ∀ p ∈ B, compare key p.1 = .lt) : insertSorted key val (A ++ B) = insertSorted key val A ++ B := by
  induction A with
  | nil =>
    cases B with
    | nil => rfl
    | cons b B' =>
      have := hB b (by simp)
      obtain ⟨bk, bv⟩ := b
      simp only [List.nil_append, insertSorted] at this ⊢
      simp [this]
  | cons a A ih =>
    obtain ⟨k, v⟩ := a
    simp only [List.cons_append, insertSorted]
    split <;> simp_all

theorem ins_append_right (key : K) (val : V) (A B : List (K × V))
    (hA : ∀ p ∈ A, compare key p.1 = .gt) : insertSorted key val (A ++ B) = A ++ insertSorted key val B := by
  induction A with
  | nil => rfl
  | cons a A ih =>
    obtain ⟨k, v⟩ := a
    have h1 := hA (k, v) (by simp)
    simp only [List.cons_append, insertSorted, h1]
    rw [ih (fun p hp => hA p (by simp [hp]))]

theorem mem_ins (key : K) (val : V) (m : List (K × V)) {p : K × V} (h : p ∈ insertSorted key val m) :
    p = (key, val) ∨ p ∈ m := by
  induction m with
  | nil => simp [insertSorted] at h; exact Or.inl h
  | cons a m ih =>
    obtain ⟨ak, av⟩ := a
    simp only [insertSorted] at h
    split at h
    · rcases List.mem_cons.mp h with h | h
      · exact Or.inl h
      · exact Or.inr h
    · rcases List.mem_cons.mp h with h | h
      · exact Or.inl h
      · exact Or.inr (List.mem_cons_of_mem _ h)
    · rcases List.mem_cons.mp h with h | h
      · exact Or.inr (by simp [h])
      · rcases ih h with h | h
        · exact Or.inl h
        · exact Or.inr (List.mem_cons_of_mem _ h)

theorem keys_head_ins_of_lt (key : K) (val : V) (m : List (K × V)) (x : K)
    (hx : (m.map (·.1)).head? = some x) (hlt : compare x key = .lt) :
    ((insertSorted key val m).map (·.1)).head? = some x := by
  cases m with
  | nil => simp at hx
  | cons a m =>
    obtain ⟨ak, av⟩ := a
    simp at hx; subst hx
    have : compare key ak = .gt := OrientedCmp.gt_of_lt hlt
    simp [insertSorted, this]

/-- what `recursiveSet` guarantees -/
structure SetOK (t : Node K V) (key : K) (val : V) (res : Node K V × Bool) : Prop where
  list : res.1.toList = insertSorted key val t.toList
  ord  : Ordered res.1
  rmin : RoutingMin res.1
  upd  : res.2 = true ↔ lookup key t.toList ≠ none

theorem isLE_of_not_lt {a b : K} (h : compare a b ≠ .lt) : (compare b a).isLE := by
  rw [← OrientedCmp.isGE_iff_isLE]
  cases hc : compare a b <;> simp_all [Ordering.isGE]

theorem set_ok (t : Node K V) (key : K) (val : V) (ho : Ordered t) (hr : RoutingMin t) :
    SetOK t key val (t.set key val) := by
  induction t with
  | leaf k v ver =>
    simp only [Node.set]
    cases hc : compare key k with
    | lt =>
      refine ⟨by simp [insertSorted, hc], ?_, ?_, by simp [lookup, hc]⟩
      · refine ⟨trivial, trivial, ?_, ?_⟩
        · intro p hp; simp at hp; subst hp; exact hc
        · intro p hp; simp at hp; subst hp; simp [ReflCmp.compare_self]
      · exact ⟨trivial, trivial, by simp [Node.keys]⟩
    | gt =>
      refine ⟨by simp [insertSorted, hc], ?_, ?_, by simp [lookup, hc]⟩
      · refine ⟨trivial, trivial, ?_, ?_⟩
        · intro p hp; simp at hp; subst hp; exact OrientedCmp.lt_of_gt hc
        · intro p hp; simp at hp; subst hp; simp [ReflCmp.compare_self]
      · exact ⟨trivial, trivial, by simp [Node.keys]⟩
    | eq =>
      refine ⟨by simp [insertSorted, hc], trivial, trivial, by simp [lookup, hc]⟩
  | inner k h sz ver l r ihl ihr =>
    obtain ⟨hol, hor, hl, hrr⟩ := ho
    obtain ⟨hrl, hrr', hrhead⟩ := hr
    simp only [Node.set]
    split
    · -- key < k
      rename_i hlt
      have hB : ∀ p ∈ r.toList, compare key p.1 = .lt := fun p hp => TransCmp.lt_of_lt_of_isLE hlt (hrr p hp)
      have hnr : ∀ p ∈ r.toList, compare key p.1 ≠ .eq := by
        intro p hp hc; rw [hB p hp] at hc; cases hc
      have ih := ihl hol hrl
      cases hset : l.set key val with
      | mk l' upd =>
        rw [hset] at ih
        obtain ⟨hlist, hord, hrm, hupd⟩ := ih
        simp only at hlist hord hrm hupd
        have hl' : AllLt l'.toList k := by
          intro p hp; rw [hlist] at hp
          rcases mem_ins key val _ hp with h | h
          · subst h; exact hlt
          · exact hl p h
        have hupd' : (upd = true ↔ lookup key (l.toList ++ r.toList) ≠ none) := by
          rw [hupd]
          constructor
          · intro h
            cases hll : lookup key l.toList with
            | none => exact absurd hll h
            | some v => rw [lookup_append_left key _ _ hll]; simp
          · intro h hll
            rw [lookup_append_right key _ _ ((lookup_none_iff' key _).mp hll),
                (lookup_none_iff' key _).mpr hnr] at h
            exact h rfl
        cases upd with
        | true =>
          simp only [↓reduceIte]
          refine ⟨?_, ⟨hord, hor, hl', hrr⟩, ⟨hrm, hrr', hrhead⟩, by simpa using hupd'⟩
          simp only [toList_inner, hlist]; exact (ins_append_left key val _ _ hB).symm
        | false =>
          simp only [Bool.false_eq_true, ↓reduceIte]
          have hinv := inv_balance (newInner k l' r)
            ((ordered_newInner_iff k l' r).mpr ⟨hord, hor, hl', hrr⟩)
            ((rmin_newInner_iff k l' r).mpr ⟨hrm, hrr', hrhead⟩)
          refine ⟨?_, hinv.1, hinv.2, by simpa using hupd'⟩
          simp only [toList_balance, toList_newInner, toList_inner, hlist]
          exact (ins_append_left key val _ _ hB).symm
    · -- key ≥ k
      rename_i hnlt
      have hge : (compare k key).isLE := isLE_of_not_lt hnlt
      have hA : ∀ p ∈ l.toList, compare key p.1 = .gt := by
        intro p hp
        rw [OrientedCmp.gt_iff_lt]; exact TransCmp.lt_of_lt_of_isLE (hl p hp) hge
      have hnl : ∀ p ∈ l.toList, compare key p.1 ≠ .eq := by
        intro p hp hc; rw [hA p hp] at hc; cases hc
      have ih := ihr hor hrr'
      cases hset : r.set key val with
      | mk r' upd =>
        rw [hset] at ih
        obtain ⟨hlist, hord, hrm, hupd⟩ := ih
        simp only at hlist hord hrm hupd
        have hr'ge : AllGe r'.toList k := by
          intro p hp; rw [hlist] at hp
          rcases mem_ins key val _ hp with h | h
          · subst h; exact hge
          · exact hrr p h
        -- head key of r' is still k: either key = k (replaced in place) or key > k
        have hhead' : r'.keys.head? = some k := by
          unfold Node.keys; rw [hlist]
          unfold Node.keys at hrhead
          cases hck : compare k key with
          | lt => exact keys_head_ins_of_lt key val _ k hrhead hck
          | gt => simp [hck, Ordering.isLE] at hge
          | eq =>
            have hkk : k = key := LawfulEqOrd.eq_of_compare hck
            subst hkk
            cases hrl : r.toList with
            | nil => exact absurd hrl (toList_ne_nil r)
            | cons a m =>
              obtain ⟨ak, av⟩ := a
              rw [hrl] at hrhead; simp at hrhead; subst hrhead
              simp [insertSorted, ReflCmp.compare_self]
        have hupd' : (upd = true ↔ lookup key (l.toList ++ r.toList) ≠ none) := by
          rw [hupd, lookup_append_right key _ _ hnl]
        cases upd with
        | true =>
          simp only [↓reduceIte]
          refine ⟨?_, ⟨hol, hord, hl, hr'ge⟩, ⟨hrl, hrm, hhead'⟩, by simpa using hupd'⟩
          simp only [toList_inner, hlist]; exact (ins_append_right key val _ _ hA).symm
        | false =>
          simp only [Bool.false_eq_true, ↓reduceIte]
          have hinv := inv_balance (newInner k l r')
            ((ordered_newInner_iff k l r').mpr ⟨hol, hord, hl, hr'ge⟩)
            ((rmin_newInner_iff k l r').mpr ⟨hrl, hrm, hhead'⟩)
          refine ⟨?_, hinv.1, hinv.2, by simpa using hupd'⟩
          simp only [toList_balance, toList_newInner, toList_inner, hlist]
          exact (ins_append_right key val _ _ hA).symm

theorem has_eq (t : Node K V) (key : K) (ho : Ordered t) (hr : RoutingMin t) :
    t.has key = (lookup key t.toList).isSome := by
  induction t with
  | leaf k v ver =>
    simp only [Node.has, toList_leaf, lookup]
    cases hc : compare k key with
    | lt =>
      have : compare key k ≠ .eq := by intro h; rw [OrientedCmp.eq_comm] at h; rw [h] at hc; cases hc
      simp [this]
    | gt =>
      have : compare key k ≠ .eq := by intro h; rw [OrientedCmp.eq_comm] at h; rw [h] at hc; cases hc
      simp [this]
    | eq => simp [OrientedCmp.eq_symm hc]
  | inner k h sz ver l r ihl ihr =>
    obtain ⟨hol, hor, hl, hrr⟩ := ho
    obtain ⟨hrl, hrr', hrhead⟩ := hr
    simp only [Node.has, toList_inner]
    by_cases hlt : compare key k = .lt
    · simp only [hlt, if_true]
      have hnr : ∀ p ∈ r.toList, compare key p.1 ≠ .eq := by
        intro p hp hc
        have := TransCmp.lt_of_lt_of_isLE hlt (hrr p hp); rw [hc] at this; cases this
      have hkk : compare k key ≠ .eq := by
        have : compare k key = .gt := OrientedCmp.gt_of_lt hlt
        rw [this]; intro h; cases h
      simp only [hkk, decide_false, Bool.false_or]
      rw [ihl hol hrl]
      cases hll : lookup key l.toList with
      | some v => rw [lookup_append_left key _ _ hll]
      | none =>
        rw [lookup_append_right key _ _ ((lookup_none_iff' key _).mp hll), (lookup_none_iff' key _).mpr hnr]
    · simp only [hlt, if_false]
      have hge : (compare k key).isLE := isLE_of_not_lt hlt
      have hnl : ∀ p ∈ l.toList, compare key p.1 ≠ .eq := by
        intro p hp hc
        have h1 : compare p.1 key = .lt := TransCmp.lt_of_lt_of_isLE (hl p hp) hge
        rw [OrientedCmp.eq_comm] at hc; rw [hc] at h1; cases h1
      rw [lookup_append_right key _ _ hnl, ihr hor hrr']
      cases hck : compare k key with
      | eq =>
        -- the routing key is the head key of r, hence present
        have hkk : k = key := LawfulEqOrd.eq_of_compare hck
        subst hkk
        obtain ⟨p, hp, hpk⟩ := head_mem r hrhead
        have : lookup k r.toList ≠ none := by
          intro hnone
          have := (lookup_none_iff' k _).mp hnone p hp
          rw [hpk] at this; exact this ReflCmp.compare_self
        cases hl' : lookup k r.toList with
        | none => exact absurd hl' this
        | some v => simp
      | lt => simp
      | gt => simp [hck, Ordering.isLE] at hge
end Iavl
