import Iavl.Model.IndexMachine
import Iavl.Lemmas.FastIndexCorrect
import Iavl.Lemmas.ContigHistory
/-
  C07, index machine: projection lemmas and the version-level invariant of the versioned-map machine
  (sorted contents, `lastSaved` is the content of the version the tree object is positioned on).
-/
namespace Iavl
open Std
set_option linter.unusedSectionVars false
variable {K V : Type} [Ord K] [TransOrd K] [LawfulEqOrd K] [DecidableEq K]

theorem lookup_proj (m : IMap K V) (k : K) : lookup k (proj m) = (lookup k m).map (·.1) := by
  induction m with
  | nil => rfl
  | cons a m ih =>
    simp only [proj, List.map_cons, lookup] at ih ⊢
    split
    · rfl
    · exact ih

theorem sorted_proj (m : IMap K V) : SortedKV (proj m) ↔ SortedKV m := by
  simp only [SortedKV, proj, List.pairwise_map]

theorem proj_insertSorted (k : K) (x : V × Nat) (m : IMap K V) :
    proj (insertSorted k x m) = insertSorted k x.1 (proj m) := by
  induction m with
  | nil => rfl
  | cons a m ih =>
    obtain ⟨ak, av⟩ := a
    simp only [proj, List.map_cons, insertSorted] at ih ⊢
    cases compare k ak with
    | lt => rfl
    | eq => rfl
    | gt => simp only [List.map_cons, ih]

theorem proj_eraseSorted (k : K) (m : IMap K V) : proj (eraseSorted k m) = eraseSorted k (proj m) := by
  induction m with
  | nil => rfl
  | cons a m ih =>
    obtain ⟨ak, av⟩ := a
    simp only [proj, List.map_cons, eraseSorted] at ih ⊢
    split
    · rfl
    · simp only [List.map_cons, ih]

theorem lookup_stampAll (m : SMap K V) (ver : Nat) (k : K) :
    lookup k (stampAll m ver) = (lookup k m).map (fun v => (v, ver)) := by
  induction m with
  | nil => rfl
  | cons a m ih =>
    simp only [stampAll, List.map_cons, lookup] at ih ⊢
    split
    · rfl
    · exact ih

theorem sorted_stampAll (m : SMap K V) (ver : Nat) (h : SortedKV m) : SortedKV (stampAll m ver) := by
  simpa only [SortedKV, stampAll, List.pairwise_map] using h

/-- the version-level invariant -/
structure VInv (s : VState (SMap K V)) : Prop where
  c : CInv s
  sw : SortedKV s.working
  sl : SortedKV s.lastSaved
  sv : ∀ p ∈ s.versions, SortedKV p.2
  base0 : s.base = 0 → s.lastSaved = []
  lastOk : ∀ c, findVer s.versions s.base = some c → c = s.lastSaved

theorem VInv.asc {s : VState (SMap K V)} (h : VInv s) : AscV s.versions := contig_asc _ h.c.contig

theorem VInv.vpos {s : VState (SMap K V)} (h : VInv s) (w : Nat) (c : SMap K V) (hm : (w, c) ∈ s.versions) : 1 ≤ w :=
  h.c.pos w (List.mem_map_of_mem (f := (·.1)) hm)

theorem vinv_load (s s' : VState (SMap K V)) (target lat : Nat) (h : VInv s) (hl : s.load target = some (s', lat)) :
    VInv s' := by
  have hc := load_cinv s s' target lat h.c hl
  have hv := load_versions s s' target lat hl
  rcases load_shape s s' target lat hl with e | ⟨t, c, hf, e⟩
  · subst e; exact h
  · have hm := findVer_some_mem _ _ _ hf
    have hs := h.sv _ hm
    subst e
    refine ⟨hc, hs, hs, h.sv, ?_, ?_⟩
    · intro hb; have := h.vpos t c hm; simp only at hb; omega
    · intro c' hc'; simp only at hc' ⊢; rw [hf] at hc'; exact (Option.some.inj hc').symm

theorem vinv_filter (s : VState (SMap K V)) (q : Nat → Bool) (h : VInv s)
    (hc : CInv ({ s with versions := s.versions.filter (fun p => q p.1) } : VState (SMap K V))) :
    VInv ({ s with versions := s.versions.filter (fun p => q p.1) } : VState (SMap K V)) := by
  refine ⟨hc, h.sw, h.sl, ?_, h.base0, ?_⟩
  · intro p hp; exact h.sv p (List.mem_filter.mp hp).1
  · intro c hc'
    simp only at hc'
    rw [findVer_filter] at hc'
    split at hc'
    · exact h.lastOk c hc'
    · cases hc'

theorem vinv_step (s : VState (SMap K V)) (h : VInv s) (op : Op K V) (hok : OpOk s op) :
    VInv (s.step mapContent op).1 := by
  have hc := step_cinv mapContent s h.c op hok
  cases op with
  | set k v => exact ⟨hc, sortedKV_insertSorted k v _ h.sw, h.sl, h.sv, h.base0, h.lastOk⟩
  | remove k =>
    simp only [VState.step, mapContent] at hc ⊢
    cases hl : lookup k s.working with
    | none => simpa [hl] using h
    | some v =>
      simp only [hl, Option.map_some] at hc ⊢
      exact ⟨hc, sortedKV_eraseSorted k _ h.sw, h.sl, h.sv, h.base0, h.lastOk⟩
  | rollback =>
    refine ⟨hc, ?_, h.sl, h.sv, h.base0, h.lastOk⟩
    simp only [VState.step]
    split
    · simp [mapContent, SortedKV]
    · exact h.sl
  | read r => exact h
  | immRead ver r =>
    simp only [VState.step]
    split <;> exact h
  | getVersioned k ver => exact h
  | versionExists ver => exact h
  | available => exact h
  | latest => exact h
  | load target =>
    simp only [VState.step]
    cases hl : s.load target with
    | none => exact h
    | some p => obtain ⟨s', lat⟩ := p; exact vinv_load s s' target lat h hl
  | reopen iv target =>
    have hfresh : VInv (s.fresh mapContent iv) := by
      have hcf : CInv (s.fresh mapContent iv) :=
        ⟨h.c.contig, h.c.pos, by
          rcases h.c.tip with e | _
          · left; exact e
          · right; simp [VState.fresh]⟩
      refine ⟨hcf, by simp [VState.fresh, mapContent, SortedKV], by simp [VState.fresh, mapContent, SortedKV], h.sv,
        fun _ => rfl, ?_⟩
      intro c hc'
      have := h.vpos 0 c (findVer_some_mem _ _ _ hc')
      omega
    simp only [VState.step]
    cases hl : (s.fresh mapContent iv).load target with
    | none => exact hfresh
    | some p => obtain ⟨s', lat⟩ := p; exact vinv_load _ s' target lat hfresh hl
  | loadow target =>
    simp only [VState.step] at hc ⊢
    cases hl : s.load target with
    | none => exact h
    | some p =>
      obtain ⟨s', lat⟩ := p
      simp only [hl] at hc
      exact vinv_filter s' (fun v => decide (v ≤ s'.base)) (vinv_load s s' target lat h hl) hc
  | prune n =>
    simp only [VState.step] at hc ⊢
    split
    · exact h
    · rename_i hlat
      simp only [hlat, if_false] at hc
      exact vinv_filter s (fun v => decide (n < v)) h hc
  | delfrom n =>
    simp only [VState.step] at hc ⊢
    exact vinv_filter s (fun v => decide (v < n)) h hc
  | save same =>
    cases hf : findVer s.versions s.workingVersion with
    | some c =>
      cases same with
      | false => simp only [VState.step, hf]; exact h
      | true =>
        simp only [VState.step, hf, if_true] at hc ⊢
        have hm := findVer_some_mem _ _ _ hf
        have hs := h.sv _ hm
        refine ⟨hc, hs, hs, h.sv, ?_, ?_⟩
        · intro hb; have := h.vpos _ c hm; simp only at hb; omega
        · intro c' hc'; simp only at hc' ⊢; rw [hf] at hc'; exact (Option.some.inj hc').symm
    | none =>
      by_cases hl : latestVer s.versions < s.workingVersion
      · simp only [VState.step, hf, hl, if_true] at hc ⊢
        refine ⟨hc, h.sw, h.sw, ?_, ?_, ?_⟩
        · intro p hp
          simp only [List.mem_append, List.mem_singleton] at hp
          rcases hp with hp | hp
          · exact h.sv p hp
          · subst hp; exact h.sw
        · intro hb; simp only at hb; omega
        · intro c' hc'
          simp only at hc' ⊢
          rw [findVer_append_new _ _ _ hf] at hc'
          exact (Option.some.inj hc').symm
      · simp only [VState.step, hf, hl, if_false]
        exact h

end Iavl
