import Iavl.Lemmas.MembershipSound
/- Spike for C03: the generated existence proof passes the verifier's structural checks, so
   completeness and soundness meet: generated proofs verify, verified proofs are true. -/
namespace Iavl
open Std
variable (H : Bytes → Bytes) (hH : ∀ x, (H x).length = 32)
include hH

theorem mkProof_checked (working : Nat) (t : Node Bytes Bytes) (hb : Bounded working t) (key : Bytes) :
    LeafChecked (mkProof H working t key).leafPfx ∧ ∀ op ∈ (mkProof H working t key).path, InnerChecked op := by
  induction t with
  | leaf k v ver =>
    have hver : verOf ver working < 2 ^ 62 := hb
    refine ⟨⟨⟨(0, 2, 2 * verOf ver working), ?_⟩, ?_⟩, by simp [mkProof]⟩
    · have e0 : varint 0 = uvarint 0 := by simpa using varint_nat 0
      have e1 : varint 1 = uvarint 2 := by simpa using varint_nat 1
      simp only [mkProof, leafPrefix, e0, e1, varint_nat]
      have := take3_put 0 2 (2 * verOf ver working) (by decide) (by decide) (by omega) []
      simpa using this
    · have hz : varint 0 = [0] := by unfold varint; simp; unfold uvarint; simp
      simp [mkProof, leafPrefix, hz]
  | inner k h sz ver l r ihl ihr =>
    obtain ⟨h1, hh, hsz, hver, hbl, hbr⟩ := hb
    have hL := hashNode_length H hH working l
    have hR := hashNode_length H hH working r
    have hhead : (innerPrefix h sz (verOf ver working)).head? ≠ some 0 := by
      simp only [innerPrefix, varint_nat, List.append_assoc]
      cases hu : uvarint (2 * h) with
      | nil => exact absurd hu (uvarint_ne_nil _)
      | cons a as =>
        intro hc
        have : (uvarint (2 * h)).head? = some 0 := by rw [hu]; simpa using hc
        rw [uvarint_head_zero_iff] at this; omega
    have hpre : ∀ rest : Bytes, take3 (innerPrefix h sz (verOf ver working) ++ rest) =
        some ((2 * h, 2 * sz, 2 * verOf ver working), rest) := by
      intro rest
      simp only [innerPrefix, varint_nat]
      exact take3_put _ _ _ (by omega) (by omega) (by omega) rest
    simp only [mkProof]
    split
    · obtain ⟨hl1, hl2⟩ := ihl hbl
      refine ⟨hl1, ?_⟩
      intro op hop
      simp only [List.mem_append, List.mem_singleton] at hop
      rcases hop with hop | hop
      · exact hl2 op hop
      · subst hop
        refine ⟨⟨(2 * h, 2 * sz, 2 * verOf ver working), uvarint (hashNode H working l).length, hpre _, Or.inl ?_⟩, ?_⟩
        · rw [hL]; unfold uvarint; simp
        · simp only
          cases hp : innerPrefix h sz (verOf ver working) with
          | nil => simp [hp] at hhead ⊢; have := hpre []; simp [hp, take3, takeUvarint, takeUvarintGo] at this
          | cons a as => rw [hp] at hhead; simpa using hhead
    · obtain ⟨hr1, hr2⟩ := ihr hbr
      refine ⟨hr1, ?_⟩
      intro op hop
      simp only [List.mem_append, List.mem_singleton] at hop
      rcases hop with hop | hop
      · exact hr2 op hop
      · subst hop
        refine ⟨⟨(2 * h, 2 * sz, 2 * verOf ver working),
          encBytes (hashNode H working l) ++ uvarint (hashNode H working r).length, ?_, Or.inr ?_⟩, ?_⟩
        · simp only [List.append_assoc]; exact hpre _
        · have e : encBytes (hashNode H working l) = 32 :: hashNode H working l := by
            unfold encBytes; rw [hL]; unfold uvarint; simp
          rw [e, hR]; unfold uvarint; simp [hL]
        · simp only [List.append_assoc]
          cases hp : innerPrefix h sz (verOf ver working) with
          | nil => simp [hp] at hhead ⊢; have := hpre []; simp [hp, take3, takeUvarint, takeUvarintGo] at this
          | cons a as => rw [hp] at hhead; simpa using hhead

/-- completeness and soundness together: in an ordered, bounded tree the generated proof for a
    present key has the verifier's shape, computes the root hash, and carries exactly the stored pair -/
theorem membership_complete (working : Nat) (t : Node Bytes Bytes) (ho : Ordered t) (hb : Bounded working t)
    (key v : Bytes) (hv : lookup key t.toList = some v) :
    let p := mkProof H working t key
    LeafChecked p.leafPfx ∧ (∀ op ∈ p.path, InnerChecked op) ∧
    calcRoot H p = hashNode H working t ∧ p.key = key ∧ p.value = v := by
  have hc := mkProof_checked H hH working t hb key
  have hkv := mkProof_key_value H working t key ho hv
  exact ⟨hc.1, hc.2, calcRoot_mkProof H working t key, hkv.1, hkv.2⟩
end Iavl
