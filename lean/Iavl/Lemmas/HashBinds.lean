import Iavl.Lemmas.MembershipSound
/-
  C02 / C03: the root hash binds the contents. Two trees (within the 64-bit magnitudes of the encoding)
  with the same hash have the same pairs in the same order - indeed the same shape, heights, sizes and
  node versions; only the routing keys of inner nodes, which are not hashed, may differ - or an explicit
  collision of `H` is exhibited.
-/
namespace Iavl
open Std
variable (H : Bytes → Bytes) (hH : ∀ x, (H x).length = 32)

/-- equal up to the routing keys of inner nodes and the distinction between "unsaved" and "saved at the
    working version" (neither is hashed) -/
def SameHashed (working : Nat) : Node Bytes Bytes → Node Bytes Bytes → Prop
  | .leaf k v ver, .leaf k' v' ver' => k = k' ∧ v = v' ∧ verOf ver working = verOf ver' working
  | .inner _ h sz ver l r, .inner _ h' sz' ver' l' r' =>
      h = h' ∧ sz = sz' ∧ verOf ver working = verOf ver' working ∧ SameHashed working l l' ∧ SameHashed working r r'
  | _, _ => False

theorem sameHashed_toList (working : Nat) (a b : Node Bytes Bytes) (h : SameHashed working a b) :
    a.toList = b.toList := by
  induction a generalizing b with
  | leaf k v ver =>
    cases b with
    | leaf k' v' ver' => obtain ⟨h1, h2, _⟩ := h; simp [Node.toList, h1, h2]
    | inner => exact absurd h (by simp [SameHashed])
  | inner k hh sz ver l r ihl ihr =>
    cases b with
    | leaf => exact absurd h (by simp [SameHashed])
    | inner k' hh' sz' ver' l' r' =>
      obtain ⟨_, _, _, hl, hr⟩ := h
      simp [Node.toList, ihl l' hl, ihr r' hr]

include hH

theorem preLeaf_form (working : Nat) (k v : Bytes) (ver : Option Nat) :
    preLeaf H working k v ver =
      uvarint 0 ++ uvarint 2 ++ uvarint (2 * verOf ver working) ++ (encBytes k ++ encBytes (H v)) := by
  have e0 : varint 0 = uvarint 0 := by simpa using varint_nat 0
  have e1 : varint 1 = uvarint 2 := by simpa using varint_nat 1
  simp only [preLeaf, leafPrefix, e0, e1, varint_nat, List.append_assoc]

theorem preInner_form (working h sz : Nat) (ver : Option Nat) (l r : Node Bytes Bytes) :
    preInner H working h sz ver l r =
      uvarint (2 * h) ++ uvarint (2 * sz) ++ uvarint (2 * verOf ver working) ++
        (32 :: hashNode H working l ++ 32 :: hashNode H working r) := by
  have hL := hashNode_length H hH working l
  have hR := hashNode_length H hH working r
  have e1 : encBytes (hashNode H working l) = 32 :: hashNode H working l := by
    unfold encBytes; rw [hL]; unfold uvarint; simp
  have e2 : encBytes (hashNode H working r) = 32 :: hashNode H working r := by
    unfold encBytes; rw [hR]; unfold uvarint; simp
  simp only [preInner, innerPrefix, varint_nat, e1, e2, List.append_assoc]

/-- three honest varints followed by anything parse back uniquely -/
theorem three_varints_inj (a b c a' b' c' : Nat) (x y : Bytes)
    (ha : a < 2 ^ 64) (hb : b < 2 ^ 64) (hc : c < 2 ^ 64) (ha' : a' < 2 ^ 64) (hb' : b' < 2 ^ 64) (hc' : c' < 2 ^ 64)
    (h : uvarint a ++ uvarint b ++ uvarint c ++ x = uvarint a' ++ uvarint b' ++ uvarint c' ++ y) :
    a = a' ∧ b = b' ∧ c = c' ∧ x = y := by
  have h1 := take3_put a b c ha hb hc x
  have h2 := take3_put a' b' c' ha' hb' hc' y
  rw [h] at h1
  rw [h1] at h2
  simp only [Option.some.injEq, Prod.mk.injEq] at h2
  exact ⟨h2.1.1, h2.1.2.1, h2.1.2.2, h2.2⟩

/-- **the hash binds the tree** -/
theorem hash_binds (working : Nat) (a b : Node Bytes Bytes) (ha : Bounded working a) (hb : Bounded working b)
    (hka : KeysBounded a) (hkb : KeysBounded b) (heq : hashNode H working a = hashNode H working b) :
    SameHashed working a b ∨ Collision H := by
  induction a generalizing b with
  | leaf k v ver =>
    cases b with
    | leaf k' v' ver' =>
      by_cases hpre : preLeaf H working k v ver = preLeaf H working k' v' ver'
      · rw [preLeaf_form H hH, preLeaf_form H hH] at hpre
        have hv : verOf ver working < 2 ^ 62 := ha
        have hv' : verOf ver' working < 2 ^ 62 := hb
        obtain ⟨_, _, h3, hrest⟩ := three_varints_inj H hH _ _ _ _ _ _ _ _ (by decide) (by decide) (by omega)
          (by decide) (by decide) (by omega) hpre
        have hk : k.length < 2 ^ 64 := hka
        have hk' : k'.length < 2 ^ 64 := hkb
        obtain ⟨hkeq, hvals⟩ := encBytes_append_inj H hH k _ k' _ hk hk' hrest
        rw [encBytes_hash H hH, encBytes_hash H hH] at hvals
        have hvh : H v = H v' := by simpa using hvals
        by_cases hvv : v = v'
        · exact Or.inl ⟨hkeq, hvv, by omega⟩
        · exact Or.inr ⟨_, _, hvv, hvh⟩
      · exact Or.inr ⟨_, _, hpre, by simpa [hashNode, preLeaf] using heq⟩
    | inner k' h' sz' ver' l' r' =>
      right
      obtain ⟨h1, _⟩ := hb
      refine ⟨preLeaf H working k v ver, preInner H working h' sz' ver' l' r', ?_, by simpa [hashNode, preLeaf, preInner] using heq⟩
      intro hpre
      have hl : (preLeaf H working k v ver).head? = some 0 := by
        have hz : varint 0 = [0] := by unfold varint; simp; unfold uvarint; simp
        simp only [preLeaf, leafPrefix, hz, List.cons_append, List.nil_append, List.append_assoc, List.head?_cons]
      have hr : (preInner H working h' sz' ver' l' r').head? = (uvarint (2 * h')).head? := by
        simp only [preInner, innerPrefix, varint_nat, List.append_assoc]
        cases hu : uvarint (2 * h') with
        | nil => exact absurd hu (uvarint_ne_nil _)
        | cons a as => simp
      rw [hpre, hr, uvarint_head_zero_iff] at hl
      omega
  | inner k h sz ver l r ihl ihr =>
    cases b with
    | leaf k' v' ver' =>
      right
      obtain ⟨h1, _⟩ := ha
      refine ⟨preInner H working h sz ver l r, preLeaf H working k' v' ver', ?_, by simpa [hashNode, preLeaf, preInner] using heq⟩
      intro hpre
      have hl : (preLeaf H working k' v' ver').head? = some 0 := by
        have hz : varint 0 = [0] := by unfold varint; simp; unfold uvarint; simp
        simp only [preLeaf, leafPrefix, hz, List.cons_append, List.nil_append, List.append_assoc, List.head?_cons]
      have hr : (preInner H working h sz ver l r).head? = (uvarint (2 * h)).head? := by
        simp only [preInner, innerPrefix, varint_nat, List.append_assoc]
        cases hu : uvarint (2 * h) with
        | nil => exact absurd hu (uvarint_ne_nil _)
        | cons a as => simp
      rw [← hpre, hr, uvarint_head_zero_iff] at hl
      omega
    | inner k' h' sz' ver' l' r' =>
      obtain ⟨h1, hh, hsz, hver, hbl, hbr⟩ := ha
      obtain ⟨h1', hh', hsz', hver', hbl', hbr'⟩ := hb
      by_cases hpre : preInner H working h sz ver l r = preInner H working h' sz' ver' l' r'
      · rw [preInner_form H hH, preInner_form H hH] at hpre
        obtain ⟨e1, e2, e3, hrest⟩ := three_varints_inj H hH _ _ _ _ _ _ _ _ (by omega) (by omega) (by omega)
          (by omega) (by omega) (by omega) hpre
        have hL := hashNode_length H hH working l
        have hL' := hashNode_length H hH working l'
        simp only [List.cons_append, List.cons.injEq, true_and] at hrest
        have hsplit := List.append_inj hrest (by rw [hL, hL'])
        have hlh : hashNode H working l = hashNode H working l' := hsplit.1
        have hrh : hashNode H working r = hashNode H working r' := by simpa using hsplit.2
        rcases ihl l' hbl hbl' hka.1 hkb.1 hlh with hl | hc
        · rcases ihr r' hbr hbr' hka.2 hkb.2 hrh with hr | hc
          · exact Or.inl ⟨by omega, by omega, by omega, hl, hr⟩
          · exact Or.inr hc
        · exact Or.inr hc
      · exact Or.inr ⟨_, _, hpre, by simpa [hashNode, preInner] using heq⟩

/-- equal root hashes, equal contents -/
theorem hash_binds_contents (working : Nat) (a b : Node Bytes Bytes) (ha : Bounded working a) (hb : Bounded working b)
    (hka : KeysBounded a) (hkb : KeysBounded b) (heq : hashNode H working a = hashNode H working b) :
    a.toList = b.toList ∨ Collision H := by
  rcases hash_binds H hH working a b ha hb hka hkb heq with h | h
  · exact Or.inl (sameHashed_toList working a b h)
  · exact Or.inr h

end Iavl
