import Iavl.Lemmas.Versions
/- C14: the available versions form a contiguous range, as an invariant of the version machine. -/
namespace Iavl
open Std

/-- consecutive numbers -/
def Contig : List Nat → Prop
  | [] => True
  | [_] => True
  | a :: b :: rest => b = a + 1 ∧ Contig (b :: rest)

theorem contig_tail {a : Nat} {l : List Nat} (h : Contig (a :: l)) : Contig l := by
  cases l with
  | nil => trivial
  | cons b rest => exact h.2

theorem contig_head_lt {a : Nat} {l : List Nat} (h : Contig (a :: l)) : ∀ x ∈ l, a < x := by
  induction l generalizing a with
  | nil => intro x hx; cases hx
  | cons b rest ih =>
    intro x hx
    obtain ⟨hb, hr⟩ := h
    rcases List.mem_cons.mp hx with hx | hx
    · omega
    · have := ih hr x hx; omega

theorem contig_filter_gt (l : List Nat) (h : Contig l) (n : Nat) : Contig (l.filter (fun v => decide (n < v))) := by
  induction l with
  | nil => trivial
  | cons a tl ih =>
    by_cases ha : n < a
    · -- everything from `a` on is kept
      have hall : ∀ x ∈ tl, decide (n < x) = true := by
        intro x hx; have := contig_head_lt h x hx; simp; omega
      have : (a :: tl).filter (fun v => decide (n < v)) = a :: tl := by
        simp only [List.filter_cons, ha, decide_true, if_true]
        congr 1
        exact List.filter_eq_self.mpr hall
      rw [this]; exact h
    · simp only [List.filter_cons, ha, decide_false]
      exact ih (contig_tail h)

theorem contig_filter_le (l : List Nat) (h : Contig l) (n : Nat) : Contig (l.filter (fun v => decide (v ≤ n))) := by
  induction l with
  | nil => trivial
  | cons a tl ih =>
    by_cases ha : a ≤ n
    · simp only [List.filter_cons, ha, decide_true, if_true]
      have ht := ih (contig_tail h)
      -- the head of the filtered tail, if any, is a+1
      cases tl with
      | nil => trivial
      | cons b rest =>
        obtain ⟨hb, hr⟩ := h
        by_cases hbn : b ≤ n
        · simp only [List.filter_cons, hbn, decide_true, if_true] at ht ⊢
          exact ⟨hb, ht⟩
        · have hnone : (b :: rest).filter (fun v => decide (v ≤ n)) = [] := by
            apply List.filter_eq_nil_iff.mpr
            intro x hx
            rcases List.mem_cons.mp hx with hx | hx
            · subst hx; simp [hbn]
            · have := contig_head_lt hr x hx; simp; omega
          rw [hnone]; trivial
    · have hnone : (a :: tl).filter (fun v => decide (v ≤ n)) = [] := by
        apply List.filter_eq_nil_iff.mpr
        intro x hx
        rcases List.mem_cons.mp hx with hx | hx
        · subst hx; simp [ha]
        · have := contig_head_lt h x hx; simp; omega
      rw [hnone]; trivial

theorem contig_filter_lt (l : List Nat) (h : Contig l) (n : Nat) : Contig (l.filter (fun v => decide (v < n))) := by
  cases n with
  | zero =>
    have : l.filter (fun v => decide (v < 0)) = [] := List.filter_eq_nil_iff.mpr (by intro x _; simp)
    rw [this]; trivial
  | succ m =>
    have : (fun v => decide (v < m + 1)) = (fun v => decide (v ≤ m)) := by
      funext v; congr 1; exact propext Nat.lt_succ_iff
    rw [this]; exact contig_filter_le l h m

theorem contig_append (l : List Nat) (h : Contig l) (n : Nat) (hn : ∀ x, l.getLast? = some x → n = x + 1) :
    Contig (l ++ [n]) := by
  induction l with
  | nil => trivial
  | cons a tl ih =>
    cases tl with
    | nil =>
      have := hn a (by simp)
      exact ⟨this, trivial⟩
    | cons b rest =>
      obtain ⟨hb, hr⟩ := h
      refine ⟨hb, ?_⟩
      apply ih hr
      intro x hx
      apply hn x
      simpa using hx

variable {K V C : Type} (ct : Content K V C)

def verNums (s : VState C) : List Nat := s.versions.map (·.1)

theorem map_filter_fst (vs : List (Nat × C)) (q : Nat → Bool) :
    (vs.filter (fun p => q p.1)).map (·.1) = (vs.map (·.1)).filter q := by
  induction vs with
  | nil => rfl
  | cons a vs ih =>
    by_cases h : q a.1 <;> simp [List.filter_cons, h, ih]

/-- the tree is positioned on its latest version (or nothing has been committed yet): the state in
    which a commit creates a new version -/
def AtTip (s : VState C) : Prop :=
  (s.versions = [] ∧ s.base = 0) ∨ (s.versions ≠ [] ∧ s.base = latestVer s.versions)

/-- C14: a commit keeps the available versions contiguous: onto an existing number it adds nothing;
    at the tip it appends `latest + 1` (or the configured initial version as the very first) -/
theorem save_keeps_contig (s : VState C) (same : Bool) (h : Contig (verNums s))
    (hpos : ∀ v ∈ verNums s, 0 < v)
    (htip : findVer s.versions s.workingVersion = none → AtTip s) :
    Contig (verNums (s.step ct (.save same)).1) := by
  cases hf : findVer s.versions s.workingVersion with
  | some c =>
    have := (save_existing ct s same c hf).1
    simp only [verNums, this]; exact h
  | none =>
    by_cases hl : latestVer s.versions < s.workingVersion
    · have := (save_new ct s same hf hl).1
      simp only [verNums, this, List.map_append, List.map_cons, List.map_nil]
      apply contig_append _ h
      intro x hx
      rcases htip hf with ⟨he, hb⟩ | ⟨hne, hb⟩
      · simp [verNums, he] at hx
      · -- base = latest = x ≥ 1: the working version is base + 1
        have hxm : x ∈ verNums s := List.mem_of_getLast? hx
        have hxpos := hpos x hxm
        have hlat : latestVer s.versions = x := by
          unfold latestVer
          unfold verNums at hx
          rw [List.getLast?_map] at hx
          cases hg : s.versions.getLast? with
          | none => simp [hg] at hx
          | some p => simp [hg] at hx ⊢; exact hx
        unfold VState.workingVersion
        rw [hb, hlat]
        have hc : ¬ (x + 1 = 1 ∧ s.ivSet = true) := by omega
        simp only [hc, if_false]
    · simp only [verNums, VState.step, hf, hl, if_false]
      exact h

/-- C14: deletions and rollbacks keep the available versions contiguous -/
theorem prune_keeps_contig (s : VState C) (n : Nat) (h : Contig (verNums s)) :
    Contig (verNums (s.step ct (.prune n)).1) := by
  simp only [VState.step]
  split
  · exact h
  · simp only [verNums]
    rw [map_filter_fst s.versions (fun v => decide (n < v))]
    exact contig_filter_gt _ h n

theorem delfrom_keeps_contig (s : VState C) (n : Nat) (h : Contig (verNums s)) :
    Contig (verNums (s.step ct (.delfrom n)).1) := by
  simp only [VState.step, verNums]
  rw [map_filter_fst s.versions (fun v => decide (v < n))]
  exact contig_filter_lt _ h n

theorem loadow_keeps_contig (s : VState C) (target : Nat) (h : Contig (verNums s)) :
    Contig (verNums (s.step ct (.loadow target)).1) := by
  simp only [VState.step]
  cases hl : s.load target with
  | none => exact h
  | some p =>
    obtain ⟨s', lat⟩ := p
    simp only [verNums]
    rw [map_filter_fst s'.versions (fun v => decide (v ≤ s'.base)), load_versions s s' target lat hl]
    exact contig_filter_le _ h s'.base
end Iavl
