import Iavl.Lemmas.VersionSharing
import Iavl.Lemmas.Orphans2
/-
  C04 / C12, lifted to histories: the hypotheses of `orphans_correct` (every node of a version's tree is
  persisted at or before that version; every node of the next version persisted at or before it is a
  subtree of it) hold for every two consecutive retained versions of every reachable state of the
  version machine. Node-level counterpart of `Lemmas/VersionSharing.lean`.
-/
namespace Iavl
open Std
set_option linter.unusedSectionVars false
variable {K V : Type} [Ord K] [BEq K] [TransOrd K] [LawfulEqOrd K]

def SubO (s : Node K V) : OTree K V → Prop
  | none => False
  | some t => Sub s t

def AllLeO (v : Nat) : OTree K V → Prop
  | none => True
  | some t => AllLe v t

theorem sharedAt_saved {v : Nat} {s : Node K V} (h : sharedAt v s = true) : s.saved = true := by
  cases s with
  | leaf k vv ver => cases ver <;> simp_all [sharedAt, Node.saved]
  | inner k hh sz ver l r => cases ver <;> simp_all [sharedAt, Node.saved]

theorem sharedAt_mono {u v : Nat} {s : Node K V} (huv : u ≤ v) (h : sharedAt u s = true) : sharedAt v s = true := by
  cases s with
  | leaf k vv ver => cases ver with | none => simp [sharedAt] at h | some x => simp [sharedAt] at h ⊢; omega
  | inner k hh sz ver l r => cases ver with | none => simp [sharedAt] at h | some x => simp [sharedAt] at h ⊢; omega

theorem allLe_mono {u v : Nat} (huv : u ≤ v) (t : Node K V) (h : AllLe u t) : AllLe v t := by
  induction t with
  | leaf k vv ver => exact sharedAt_mono huv h
  | inner k hh sz ver l r ihl ihr => exact ⟨sharedAt_mono huv h.1, ihl h.2.1, ihr h.2.2⟩

theorem allLe_of_sub {v : Nat} {s t : Node K V} (h : AllLe v t) (hs : Sub s t) : AllLe v s := by
  induction t with
  | leaf k vv ver => simp only [Sub] at hs; subst hs; exact h
  | inner k hh sz ver l r ihl ihr =>
    simp only [Sub] at hs
    rcases hs with hs | hs | hs
    · subst hs; exact h
    · exact ihl h.2.1 hs
    · exact ihr h.2.2 hs

/-- a subtree of the committed tree whose root was persisted before `ver` is an untouched subtree of the
    working tree -/
theorem sub_commitVer (ver : Nat) (t s : Node K V) (hs : Sub s (commitVer ver t)) (u : Nat) (hu : u < ver)
    (hsh : sharedAt u s = true) : Sub s t := by
  induction t with
  | leaf k v o =>
    cases o with
    | none =>
      simp only [commitVer, Sub] at hs; subst hs
      simp [sharedAt] at hsh; omega
    | some x => simpa [commitVer] using hs
  | inner k h sz o l r ihl ihr =>
    cases o with
    | none =>
      simp only [commitVer, Sub] at hs ⊢
      rcases hs with hs | hs | hs
      · subst hs; simp [sharedAt] at hsh; omega
      · exact Or.inr (Or.inl (ihl hs))
      · exact Or.inr (Or.inr (ihr hs))
    | some x => simpa [commitVer] using hs

/-- if every saved subtree of `t` has all its nodes persisted at or before `b`, the committed tree has all
    its nodes persisted at or before `ver ≥ b` -/
theorem allLe_commitVer (ver b : Nat) (hb : b ≤ ver) (t : Node K V)
    (h : ∀ s, s.saved = true → Sub s t → AllLe b s) : AllLe ver (commitVer ver t) := by
  induction t with
  | leaf k v o =>
    cases o with
    | none => simp [commitVer, AllLe, sharedAt]
    | some x =>
      have := h (.leaf k v (some x)) (by simp [Node.saved]) (sub_refl _)
      exact allLe_mono hb _ this
  | inner k hh sz o l r ihl ihr =>
    cases o with
    | none =>
      simp only [commitVer, AllLe]
      refine ⟨by simp [sharedAt], ihl ?_, ihr ?_⟩
      · intro s hs hsub; exact h s hs (by simp only [Sub]; exact Or.inr (Or.inl hsub))
      · intro s hs hsub; exact h s hs (by simp only [Sub]; exact Or.inr (Or.inr hsub))
    | some x =>
      have := h (.inner k hh sz (some x) l r) (by simp [Node.saved]) (sub_refl _)
      simpa [commitVer] using allLe_mono hb _ this

/-- the node-level invariant -/
structure NInv (s : VState (OTree K V)) : Prop where
  asc : AscV s.versions
  pos : ∀ p ∈ s.versions, 1 ≤ p.1
  allLe : ∀ p ∈ s.versions, AllLeO p.1 p.2
  pairs : ∀ u p c, (u, p) ∈ s.versions → (u + 1, c) ∈ s.versions →
    ∀ x, SubO x c → sharedAt u x = true → SubO x p
  wsub : ∀ x, x.saved = true → SubO x s.working → SubO x s.lastSaved
  lastLe : AllLeO s.base s.lastSaved
  lastOk : ∀ p, findVer s.versions s.base = some p → p = s.lastSaved
  base0 : s.base = 0 → s.lastSaved = none

theorem ninv_filter (s : VState (OTree K V)) (q : Nat → Bool) (h : NInv s) :
    NInv { s with versions := s.versions.filter (fun p => q p.1) } where
  asc := List.Pairwise.filter _ h.asc
  pos := fun p hp => h.pos p (List.mem_filter.mp hp).1
  allLe := fun p hp => h.allLe p (List.mem_filter.mp hp).1
  pairs := fun u p c h1 h2 => h.pairs u p c (List.mem_filter.mp h1).1 (List.mem_filter.mp h2).1
  wsub := h.wsub
  lastLe := h.lastLe
  lastOk := by
    intro p hp
    simp only at hp
    rw [findVer_filter] at hp
    split at hp
    · exact h.lastOk p hp
    · cases hp
  base0 := h.base0

theorem ninv_load (s s' : VState (OTree K V)) (target lat : Nat) (h : NInv s)
    (hl : s.load target = some (s', lat)) : NInv s' := by
  rcases load_shape s s' target lat hl with rfl | ⟨t, c, hf, rfl⟩
  · exact h
  · have hmem := findVer_some_mem _ _ _ hf
    exact {
      asc := h.asc
      pos := h.pos
      allLe := h.allLe
      pairs := h.pairs
      wsub := fun x _ hx => hx
      lastLe := h.allLe _ hmem
      lastOk := by intro p hp; simp only at hp; rw [hf] at hp; exact (Option.some.inj hp).symm
      base0 := by
        intro h0
        simp only at h0
        have := h.pos _ hmem
        simp only at this
        omega }

theorem ninv_fresh (s : VState (OTree K V)) (iv : Option Nat) (h : NInv s) :
    NInv (s.fresh (treeContent (K := K) (V := V)) iv) where
  asc := h.asc
  pos := h.pos
  allLe := h.allLe
  pairs := h.pairs
  wsub := by intro x _ hx; simp [VState.fresh, treeContent, SubO] at hx
  lastLe := by simp [VState.fresh, treeContent, AllLeO]
  lastOk := by
    intro p hp
    simp only [VState.fresh] at hp
    have := h.pos _ (findVer_some_mem _ _ _ hp)
    simp at this
  base0 := fun _ => rfl

theorem ninv_save_new (s : VState (OTree K V)) (h : NInv s)
    (hnone : findVer s.versions s.workingVersion = none) (hlt : latestVer s.versions < s.workingVersion) :
    NInv { s with ivSet := false,
                  versions := s.versions ++ [(s.workingVersion, s.working.map (commitVer s.workingVersion))],
                  working := s.working.map (commitVer s.workingVersion),
                  lastSaved := s.working.map (commitVer s.workingVersion),
                  base := s.workingVersion } := by
  have hbase : s.base ≤ s.workingVersion := by
    unfold VState.workingVersion; split <;> omega
  -- every node of the committed tree is persisted at or before the new version
  have hcommit : AllLeO s.workingVersion (s.working.map (commitVer s.workingVersion)) := by
    cases hw : s.working with
    | none => simp [AllLeO]
    | some t =>
      simp only [Option.map_some, AllLeO]
      apply allLe_commitVer _ s.base hbase
      intro x hx hsub
      have hxl := h.wsub x hx (by rw [hw]; exact hsub)
      cases hls : s.lastSaved with
      | none => rw [hls] at hxl; exact absurd hxl (by simp [SubO])
      | some tl =>
        rw [hls] at hxl
        have := h.lastLe; rw [hls] at this
        exact allLe_of_sub this hxl
  exact {
    asc := asc_append _ h.asc _ _ hlt
    pos := by
      intro p hp
      rcases List.mem_append.mp hp with hp | hp
      · exact h.pos p hp
      · have : p = (s.workingVersion, s.working.map (commitVer s.workingVersion)) := by simpa using hp
        rw [this]; simp only; omega
    allLe := by
      intro p hp
      rcases List.mem_append.mp hp with hp | hp
      · exact h.allLe p hp
      · have : p = (s.workingVersion, s.working.map (commitVer s.workingVersion)) := by simpa using hp
        rw [this]; exact hcommit
    pairs := by
      intro u p c h1 h2
      rcases List.mem_append.mp h1 with h1 | h1
      · rcases List.mem_append.mp h2 with h2 | h2
        · exact h.pairs u p c h1 h2
        · have heq : (u + 1, c) = (s.workingVersion, s.working.map (commitVer s.workingVersion)) := by simpa using h2
          simp only [Prod.mk.injEq] at heq
          obtain ⟨hver, hc⟩ := heq
          intro x hx hsh
          -- x is an untouched saved subtree of the working tree
          have hxw : SubO x s.working := by
            rw [hc] at hx
            cases hwk : s.working with
            | none => rw [hwk] at hx; simp [SubO] at hx
            | some t =>
              rw [hwk] at hx
              simp only [Option.map_some, SubO] at hx ⊢
              exact sub_commitVer _ t x hx u (by omega) hsh
          have hxl := h.wsub x (sharedAt_saved hsh) hxw
          by_cases hb : s.base + 1 = 1 ∧ s.ivSet = true
          · have : s.lastSaved = none := h.base0 (by omega)
            rw [this] at hxl; simp [SubO] at hxl
          · have hwv : s.workingVersion = s.base + 1 := by
              unfold VState.workingVersion; rw [if_neg hb]
            have hub : u = s.base := by omega
            have := h.lastOk p (by rw [← hub]; exact asc_mem_findVer _ h.asc _ _ h1)
            rw [this]; exact hxl
      · have hp : (u, p) = (s.workingVersion, s.working.map (commitVer s.workingVersion)) := by simpa using h1
        simp only [Prod.mk.injEq] at hp
        rcases List.mem_append.mp h2 with h2 | h2
        · have := asc_le_latest _ h.asc _ h2
          simp only at this; omega
        · have : (u + 1, c) = (s.workingVersion, s.working.map (commitVer s.workingVersion)) := by simpa using h2
          simp only [Prod.mk.injEq] at this
          omega
    wsub := fun x _ hx => hx
    lastLe := hcommit
    lastOk := by
      intro p hp
      simp only at hp
      rw [findVer_append_new _ _ _ hnone] at hp
      exact (Option.some.inj hp).symm
    base0 := by intro h0; simp only at h0; omega }

theorem step_ninv (s : VState (OTree K V)) (h : NInv s) (op : Op K V) : NInv (VTree.step s op).1 := by
  unfold VTree.step
  cases op with
  | set k v =>
    simp only [VState.step]
    refine { asc := h.asc, pos := h.pos, allLe := h.allLe, pairs := h.pairs, lastLe := h.lastLe, lastOk := h.lastOk,
             base0 := h.base0, wsub := ?_ }
    intro x hs hx
    cases hw : s.working with
    | none =>
      simp only [hw, treeContent, SubO, Sub] at hx; subst hx; simp [Node.saved] at hs
    | some t =>
      simp only [hw, treeContent, SubO] at hx
      exact h.wsub x hs (by rw [hw]; exact set_shares t x k v hx hs)
  | remove k =>
    simp only [VState.step]
    cases hr : treeContent.remove s.working k with
    | none => simpa [hr] using h
    | some cv =>
      obtain ⟨c, v⟩ := cv
      simp only
      refine { asc := h.asc, pos := h.pos, allLe := h.allLe, pairs := h.pairs, lastLe := h.lastLe, lastOk := h.lastOk,
               base0 := h.base0, wsub := ?_ }
      intro x hs hx
      cases hw : s.working with
      | none => simp [hw, treeContent] at hr
      | some t =>
        simp only [hw, treeContent, Option.map_eq_some_iff] at hr
        obtain ⟨r, hrem, hrc⟩ := hr
        simp only [Prod.mk.injEq] at hrc
        obtain ⟨hnode, _⟩ := hrc
        cases hn : r.node with
        | none => rw [hn] at hnode; rw [← hnode] at hx; simp [SubO] at hx
        | some t' =>
          rw [hn] at hnode; rw [← hnode] at hx
          have hrem' : t.remove k = some ⟨some t', r.newKey, r.value⟩ := by rw [hrem, ← hn]
          exact h.wsub x hs (by rw [hw]; exact remove_shares t x k t' r.newKey r.value hrem' hx hs)
  | save same =>
    simp only [VState.step]
    cases hf : findVer s.versions s.workingVersion with
    | some c =>
      simp only
      split
      · have hmem := findVer_some_mem _ _ _ hf
        exact { asc := h.asc, pos := h.pos, allLe := h.allLe, pairs := h.pairs, wsub := fun x _ hx => hx,
                lastLe := h.allLe _ hmem,
                lastOk := by intro p hp; simp only at hp; rw [hf] at hp; exact (Option.some.inj hp).symm,
                base0 := by intro h0; simp only at h0; have := h.pos _ hmem; simp only at this; omega }
      · exact { asc := h.asc, pos := h.pos, allLe := h.allLe, pairs := h.pairs, wsub := h.wsub, lastLe := h.lastLe,
                lastOk := h.lastOk, base0 := h.base0 }
    | none =>
      simp only
      split
      · rename_i hlt
        exact ninv_save_new s h hf hlt
      · exact { asc := h.asc, pos := h.pos, allLe := h.allLe, pairs := h.pairs, wsub := h.wsub, lastLe := h.lastLe,
                lastOk := h.lastOk, base0 := h.base0 }
  | rollback =>
    simp only [VState.step]
    refine { asc := h.asc, pos := h.pos, allLe := h.allLe, pairs := h.pairs, lastLe := h.lastLe, lastOk := h.lastOk,
             base0 := h.base0, wsub := ?_ }
    intro x _ hx
    split at hx
    · simp [treeContent, SubO] at hx
    · exact hx
  | load target =>
    simp only [VState.step]
    cases hl : s.load target with
    | none => exact h
    | some r => obtain ⟨s', lat⟩ := r; exact ninv_load s s' target lat h hl
  | loadow target =>
    simp only [VState.step]
    cases hl : s.load target with
    | none => exact h
    | some r =>
      obtain ⟨s', lat⟩ := r
      exact ninv_filter s' (fun v => decide (v ≤ s'.base)) (ninv_load s s' target lat h hl)
  | prune n =>
    simp only [VState.step]
    split
    · exact h
    · exact ninv_filter s (fun v => decide (n < v)) h
  | delfrom n =>
    simp only [VState.step]
    exact ninv_filter s (fun v => decide (v < n)) h
  | reopen iv target =>
    simp only [VState.step]
    cases hl : (s.fresh treeContent iv).load target with
    | none => exact ninv_fresh s iv h
    | some r => obtain ⟨s', lat⟩ := r; exact ninv_load _ s' target lat (ninv_fresh s iv h) hl
  | read r => exact h
  | immRead ver r =>
    simp only [VState.step]
    split <;> exact h
  | getVersioned k ver => exact h
  | versionExists ver => exact h
  | available => exact h
  | latest => exact h

theorem ninv_init (iv : Option Nat) : NInv (initT iv : VState (OTree K V)) where
  asc := by simp [initT, AscV]
  pos := by intro p hp; simp [initT] at hp
  allLe := by intro p hp; simp [initT] at hp
  pairs := by intro u p c h1; simp [initT] at h1
  wsub := by intro x _ hx; simp [initT, SubO] at hx
  lastLe := by simp [initT, AllLeO]
  lastOk := by intro p hp; simp [initT, findVer] at hp
  base0 := fun _ => rfl

theorem stateAfter_ninv (s : VState (OTree K V)) (h : NInv s) (ops : List (Op K V)) : NInv (stateAfter s ops) := by
  induction ops generalizing s with
  | nil => exact h
  | cons op ops ih => exact ih _ (step_ninv s h op)

theorem sharedRoots_sharedAt (v : Nat) (t : Node K V) : ∀ s ∈ sharedRoots v t, sharedAt v s = true := by
  induction t with
  | leaf k vv ver =>
    intro s hs; simp only [sharedRoots] at hs
    split at hs
    · rename_i h; simp only [List.mem_singleton] at hs; subst hs; exact h
    · cases hs
  | inner k h sz ver l r ihl ihr =>
    intro s hs; simp only [sharedRoots] at hs
    split at hs
    · rename_i h'; simp only [List.mem_singleton] at hs; subst hs; exact h'
    · rcases List.mem_append.mp hs with hs | hs
      · exact ihl s hs
      · exact ihr s hs

end Iavl
