import Iavl.Model.KV
/-
  C18: a prefix-namespaced view (db/prefixdb.go) is the ordered key-value contract on the sub-map of its
  namespace: its iterators - bounds translated into the parent's key space, the open end replaced by the
  incremented prefix (the repaired, cut bound) - yield exactly the stripped pairs of the namespace in range,
  and nothing of a neighbouring namespace, whatever bytes the prefix and the keys contain.
-/
namespace Iavl
open Std

theorem compare_append_left (p a b : Bz) : compare (p ++ a) (p ++ b) = compare a b := by
  induction p with
  | nil => rfl
  | cons c p ih =>
    simp only [List.cons_append]
    rw [compare_cons, compare_self8, ih]
    rfl

/-- a key between two keys of the namespace belongs to the namespace -/
theorem prefix_of_between (p a b k : Bz) (h1 : compare (p ++ a) k ≠ .gt) (h2 : compare k (p ++ b) = .lt) : p <+: k := by
  induction p generalizing k with
  | nil => exact List.nil_prefix
  | cons c p ih =>
    cases k with
    | nil => simp only [List.cons_append] at h1; exact absurd (compare_cons_nil c (p ++ a)) (by simpa using h1)
    | cons d k =>
      simp only [List.cons_append] at h1 h2
      rw [compare_cons] at h1 h2
      have hcd : c = d := by
        cases h3 : compare c d with
        | lt =>
          -- then d > c, so the second comparison cannot be `lt`
          have : compare d c = .gt := Std.OrientedCmp.gt_of_lt h3
          rw [this] at h2; simp at h2
        | eq => exact Std.LawfulEqCmp.eq_of_compare h3
        | gt => rw [h3] at h1; simp at h1
      subst hcd
      rw [compare_self8] at h1 h2
      simp only [Ordering.then] at h1 h2
      have := ih k h1 h2
      exact List.cons_prefix_cons.mpr ⟨rfl, this⟩

def stripP (p : Bz) (kv : Bytes × Bytes) : Bytes × Bytes := (kv.1.drop p.length, kv.2)

/-- the pairs of the namespace, keys stripped -/
def subMap (p : Bz) (M : SMapB) : SMapB :=
  M.filterMap (fun kv => if p.isPrefixOf kv.1 then some (stripP p kv) else none)

/-- `prefixDB.Iterator` / `ReverseIterator`: the bounds handed to the parent store -/
def viewStart (p : Bz) (s : Option Bytes) : Option Bytes := some (p ++ s.getD [])
def viewEnd (p : Bz) (e : Option Bytes) : Option Bytes :=
  match e with
  | some e => some (p ++ e)
  | none => cpIncrCut p

/-- what the view's iterator yields: the parent's range, prefix stripped -/
def viewRange (p : Bz) (M : SMapB) (s e : Option Bytes) (rev : Bool) : List (Bytes × Bytes) :=
  (kvRange M (viewStart p s) (viewEnd p e) rev).map (stripP p)

theorem inRange_view (p : Bz) (hp : p ≠ []) (s e : Option Bytes) (k : Bytes) :
    inRange (viewStart p s) (viewEnd p e) false k =
      (p.isPrefixOf k && inRange s e false (k.drop p.length)) := by
  by_cases hpre : p <+: k
  · obtain ⟨t, rfl⟩ := hpre
    have hpo : p.isPrefixOf (p ++ t) = true := List.isPrefixOf_iff_prefix.mpr (List.prefix_append p t)
    simp only [hpo, Bool.true_and, List.drop_left]
    have hnil : ∀ t : Bz, (compare ([] : Bz) t != Ordering.gt) = true := by
      intro t; cases t <;> rfl
    have hq : ∀ q, cpIncrCut p = some q → compare (p ++ t) q = .lt :=
      ((prefix_iff_range p (p ++ t) hp).mp (List.prefix_append p t)).2
    cases s with
    | none =>
      cases e with
      | some e1 =>
        simp only [inRange, viewStart, viewEnd, Option.getD_none, compare_append_left, hnil]
      | none =>
        simp only [inRange, viewStart, viewEnd, Option.getD_none, compare_append_left, hnil]
        cases hc : cpIncrCut p with
        | none => rfl
        | some q => simp [hq q hc]
    | some s1 =>
      cases e with
      | some e1 =>
        simp only [inRange, viewStart, viewEnd, Option.getD_some, compare_append_left]
      | none =>
        simp only [inRange, viewStart, viewEnd, Option.getD_some, compare_append_left]
        cases hc : cpIncrCut p with
        | none => rfl
        | some q => simp [hq q hc]
  · have hpo : p.isPrefixOf k = false := by
      cases h : p.isPrefixOf k with
      | false => rfl
      | true => exact absurd (List.isPrefixOf_iff_prefix.mp h) hpre
    simp only [hpo, Bool.false_and]
    unfold inRange viewStart viewEnd
    simp only [Bool.false_and, Bool.or_false]
    -- inside the translated bounds a key has the prefix
    cases h1 : (compare (p ++ s.getD []) k != .gt) with
    | false => simp
    | true =>
      simp only [Bool.true_and]
      have h1' : compare (p ++ s.getD []) k ≠ .gt := by simpa using h1
      cases e with
      | some e1 =>
        simp only
        cases h2 : compare k (p ++ e1) with
        | lt => exact absurd (prefix_of_between p _ e1 k h1' h2) hpre
        | eq => rfl
        | gt => rfl
      | none =>
        simp only
        cases hq : cpIncrCut p with
        | none =>
          -- the prefix is all 0xFF: every key not below it has it
          exfalso
          apply hpre
          apply (prefix_iff_range p k hp).mpr
          refine ⟨?_, fun q hq' => by rw [hq] at hq'; cases hq'⟩
          have hpa : compare p (p ++ s.getD []) ≠ .gt := by
            have := compare_append_left p [] (s.getD [])
            simp only [List.append_nil] at this
            rw [this]
            cases s.getD [] <;> simp [compare_nil_nil, compare_nil_cons]
          intro hgt
          have hle1 : compare p (p ++ s.getD []) |>.isLE := by
            cases hc : compare p (p ++ s.getD []) <;> simp_all
          have hle2 : compare (p ++ s.getD []) k |>.isLE := by
            cases hc : compare (p ++ s.getD []) k <;> simp_all
          have := Std.TransCmp.isLE_trans hle1 hle2
          rw [hgt] at this; simp at this
        | some q =>
          simp only
          cases h2 : compare k q with
          | lt =>
            exfalso
            apply hpre
            apply (prefix_iff_range p k hp).mpr
            refine ⟨?_, fun q' hq' => by rw [hq] at hq'; cases hq'; exact h2⟩
            have hpa : compare p (p ++ s.getD []) ≠ .gt := by
              have := compare_append_left p [] (s.getD [])
              simp only [List.append_nil] at this
              rw [this]
              cases s.getD [] <;> simp [compare_nil_nil, compare_nil_cons]
            intro hgt
            have hle1 : compare p (p ++ s.getD []) |>.isLE := by
              cases hc : compare p (p ++ s.getD []) <;> simp_all
            have hle2 : compare (p ++ s.getD []) k |>.isLE := by
              cases hc : compare (p ++ s.getD []) k <;> simp_all
            have := Std.TransCmp.isLE_trans hle1 hle2
            rw [hgt] at this; simp at this
          | eq => rfl
          | gt => rfl

/-- **the view's iterator = the contract's range on the namespace**, both directions, any bounds, any bytes -/
theorem viewRange_eq (p : Bz) (hp : p ≠ []) (M : SMapB) (s e : Option Bytes) (rev : Bool) :
    viewRange p M s e rev = kvRange (subMap p M) s e rev := by
  unfold viewRange kvRange rangeSpec subMap
  have hcore : (M.filter (fun kv => inRange (viewStart p s) (viewEnd p e) false kv.1)).map (stripP p) =
      (M.filterMap (fun kv => if p.isPrefixOf kv.1 then some (stripP p kv) else none)).filter
        (fun kv => inRange s e false kv.1) := by
    induction M with
    | nil => rfl
    | cons a M ih =>
      simp only [List.filter_cons, List.filterMap_cons, inRange_view p hp s e a.1]
      by_cases hpo : p.isPrefixOf a.1 = true
      · simp only [hpo, Bool.true_and, if_true]
        by_cases hin : inRange s e false (a.1.drop p.length) = true
        · have hin' : inRange s e false (stripP p a).1 = true := hin
          simp only [hin, hin', if_true, List.map_cons, List.filter_cons]
          rw [ih]
        · have hf : inRange s e false (a.1.drop p.length) = false := by simpa using hin
          have hf' : inRange s e false (stripP p a).1 = false := hf
          simp only [hf, hf', Bool.false_eq_true, if_false, List.filter_cons]
          exact ih
      · have hf : p.isPrefixOf a.1 = false := Bool.eq_false_iff.mpr hpo
        simp only [hf, Bool.false_and, Bool.false_eq_true, if_false]
        exact ih
  cases rev with
  | false => simp only [Bool.not_false, if_true]; exact hcore
  | true => simp only [Bool.not_true, Bool.false_eq_true, if_false]; rw [List.map_reverse, hcore]

end Iavl

namespace Iavl
open Std

/-- **point reads through the view**: `prefixDB.Get(k)` reads `prefix ++ k` of the parent, which is the lookup of
    `k` in the namespace's sub-map -/
theorem viewGet_eq (p : Bz) (M : SMapB) (k : Bytes) : lookup (p ++ k) M = lookup k (subMap p M) := by
  induction M with
  | nil => rfl
  | cons a M ih =>
    obtain ⟨ak, av⟩ := a
    simp only [lookup, subMap, List.filterMap_cons]
    by_cases hpre : p <+: ak
    · obtain ⟨t, rfl⟩ := hpre
      have hpo : p.isPrefixOf (p ++ t) = true := List.isPrefixOf_iff_prefix.mpr (List.prefix_append p t)
      simp only [hpo, if_true, stripP, List.drop_left, lookup, compare_append_left]
      split
      · rfl
      · exact ih
    · have hpo : p.isPrefixOf ak = false := by
        cases h : p.isPrefixOf ak with
        | false => rfl
        | true => exact absurd (List.isPrefixOf_iff_prefix.mp h) hpre
      have hne : compare (p ++ k) ak ≠ .eq := by
        intro hc
        have : p ++ k = ak := Std.LawfulEqCmp.eq_of_compare hc
        exact hpre ⟨k, this⟩
      simp only [hpo, Bool.false_eq_true, if_false, hne]
      exact ih

end Iavl
