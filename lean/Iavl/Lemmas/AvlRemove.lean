import Iavl.Lemmas.AvlSet
/- Spike for C11: `remove` preserves AVL. -/
namespace Iavl
open Std
set_option linter.unusedSectionVars false
variable {K V : Type} [Ord K] [BEq K] [TransOrd K] [LawfulEqOrd K]

def RemShape (t : Node K V) : Option (RemoveRes K V) → Prop
  | none => True
  | some ⟨none, _, _⟩ => t.height = 0 ∧ t.size = 1
  | some ⟨some t', _, _⟩ => AVL t' ∧ t'.height ≤ t.height ∧ t.height ≤ t'.height + 1 ∧ t'.size + 1 = t.size

theorem avl_height_pos_of_inner (k : K) (h s ver) (l r : Node K V) (ha : AVL (Node.inner k h s ver l r)) : 1 ≤ h := by
  obtain ⟨_, _, e, _⟩ := ha; omega

theorem avl_size_pos (t : Node K V) (h : AVL t) : 1 ≤ t.size := by
  induction t with
  | leaf => simp
  | inner k ht sz ver l r ihl ihr =>
    obtain ⟨hl, hr, _, e, _⟩ := h
    have := ihl hl; simp only [size_inner]; omega

theorem avl_remove (t : Node K V) (key : K) (h : AVL t) : RemShape t (t.remove key) := by
  induction t with
  | leaf k v ver =>
    simp only [Node.remove]
    split <;> simp [RemShape]
  | inner k ht sz ver l r ihl ihr =>
    obtain ⟨hl, hr, hh, hsz, h1, h2⟩ := h
    subst hh hsz
    have ihl := ihl hl
    have ihr := ihr hr
    simp only [Node.remove]
    split
    · -- left
      split
      · trivial
      · -- left leaf removed: result is r
        rename_i nk v hsome
        rw [hsome] at ihl
        simp only [RemShape] at ihl ⊢
        have := avl_size_pos r hr
        obtain ⟨el1, el2⟩ := ihl
        refine ⟨hr, ?_, ?_, ?_⟩ <;> simp only [height_inner, size_inner] <;> omega
      · rename_i l' nk v hsome
        rw [hsome] at ihl
        simp only [RemShape] at ihl ⊢
        obtain ⟨hl', e1, e2, e3⟩ := ihl
        have hb := avl_newInner_balance k l' r hl' hr (by omega) (by omega)
        have hh := height_balance_bounds k l' r hl' hr (by omega) (by omega)
        have hs := size_balance k l' r hl' hr
        refine ⟨hb, ?_⟩
        simp only [height_inner, size_inner]
        by_cases hbalanced : r.height ≤ l'.height + 1
        · rw [balance_noop k l' r (by omega) hbalanced] at hh hs ⊢
          simp only [newInner, height_inner, size_inner] at hh hs ⊢
          refine ⟨?_, ?_, ?_⟩ <;> omega
        · refine ⟨?_, ?_, ?_⟩ <;> omega
    · split
      · trivial
      · rename_i nk v hsome
        rw [hsome] at ihr
        simp only [RemShape] at ihr ⊢
        have := avl_size_pos l hl
        obtain ⟨er1, er2⟩ := ihr
        refine ⟨hl, ?_, ?_, ?_⟩ <;> simp only [height_inner, size_inner] <;> omega
      · rename_i r' nk v hsome
        rw [hsome] at ihr
        simp only [RemShape] at ihr ⊢
        obtain ⟨hr', e1, e2, e3⟩ := ihr
        -- the routing key may be patched; shape lemmas do not depend on it
        have key_indep : ∀ k' : K, AVL (balance (newInner k' l r')) ∧
            ((balance (newInner k' l r')).height ≤ (max l.height r.height + 1) ∧
             (max l.height r.height + 1) ≤ (balance (newInner k' l r')).height + 1 ∧
             (balance (newInner k' l r')).size + 1 = l.size + r.size) := by
          intro k'
          have hb := avl_newInner_balance k' l r' hl hr' (by omega) (by omega)
          have hh := height_balance_bounds k' l r' hl hr' (by omega) (by omega)
          have hs := size_balance k' l r' hl hr'
          refine ⟨hb, ?_⟩
          by_cases hbalanced : l.height ≤ r'.height + 1
          · rw [balance_noop k' l r' hbalanced (by omega)] at hh hs ⊢
            simp only [newInner, height_inner, size_inner] at hh hs ⊢
            refine ⟨?_, ?_, ?_⟩ <;> omega
          · refine ⟨?_, ?_, ?_⟩ <;> omega
        simp only [height_inner, size_inner]
        exact key_indep _
end Iavl
