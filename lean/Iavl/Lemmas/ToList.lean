import Iavl.Model.Tree
namespace Iavl
open Std
set_option linter.unusedSectionVars false
variable {K V : Type} [Ord K] [BEq K] [TransOrd K] [LawfulEqOrd K]

@[simp] theorem toList_leaf (k : K) (v : V) (ver) : (Node.leaf k v ver).toList = [(k, v)] := rfl
@[simp] theorem toList_inner (k : K) (h s ver) (l r : Node K V) : (Node.inner k h s ver l r).toList = l.toList ++ r.toList := rfl
@[simp] theorem toList_newInner (k : K) (l r : Node K V) : (newInner k l r).toList = l.toList ++ r.toList := rfl

theorem toList_ne_nil (t : Node K V) : t.toList ≠ [] := by
  induction t with
  | leaf => simp
  | inner k h s ver l r ihl ihr => simp [ihl]

theorem toList_rotateRight (n : Node K V) : (rotateRight n).toList = n.toList := by
  unfold rotateRight; split <;> simp [List.append_assoc]
theorem toList_rotateLeft (n : Node K V) : (rotateLeft n).toList = n.toList := by
  unfold rotateLeft; split <;> simp [List.append_assoc]

theorem toList_balance (n : Node K V) : (balance n).toList = n.toList := by
  unfold balance
  split
  · rfl
  · split
    · split
      · exact toList_rotateRight _
      · rw [toList_rotateRight]; simp [toList_rotateLeft]
    · split
      · split
        · exact toList_rotateLeft _
        · rw [toList_rotateLeft]; simp [toList_rotateRight]
      · rfl

/-- the sorted-list view: strictly increasing keys -/
def Sorted : List (K × V) → Prop
  | [] => True
  | [_] => True
  | a :: b :: rest => compare a.1 b.1 = .lt ∧ Sorted (b :: rest)

/-- all keys of `A` below `k` / all keys of `B` at or above `k` -/
def AllLt (A : List (K × V)) (k : K) : Prop := ∀ p ∈ A, compare p.1 k = .lt
def AllGe (B : List (K × V)) (k : K) : Prop := ∀ p ∈ B, (compare k p.1).isLE

theorem erase_all_gt (key : K) (B : List (K × V)) (hB : ∀ p ∈ B, compare key p.1 = .lt) :
    eraseSorted key B = B := by
  induction B with
  | nil => rfl
  | cons b B ih =>
    obtain ⟨bk, bv⟩ := b
    have h2 : compare key bk = .lt := hB (bk, bv) (by simp)
    have h3 : compare key bk ≠ .eq := by rw [h2]; intro h; cases h
    simp only [eraseSorted, h3, if_false]
    rw [ih (fun p hp => hB p (by simp [hp]))]

theorem erase_append_left (key : K) (A B : List (K × V)) (k : K)
    (hlt : compare key k = .lt) (hB : AllGe B k) :
    eraseSorted key (A ++ B) = eraseSorted key A ++ B := by
  induction A with
  | nil =>
    simp only [List.nil_append, eraseSorted]
    exact erase_all_gt key B (fun p hp => TransCmp.lt_of_lt_of_isLE hlt (hB p hp))
  | cons a A ih =>
    obtain ⟨ak, av⟩ := a
    simp only [List.cons_append, eraseSorted]
    split
    · rfl
    · simp [ih]

theorem erase_append_right (key : K) (A B : List (K × V)) (k : K)
    (hge : (compare k key).isLE) (hA : AllLt A k) :
    eraseSorted key (A ++ B) = A ++ eraseSorted key B := by
  induction A with
  | nil => rfl
  | cons a A ih =>
    obtain ⟨ak, av⟩ := a
    have h1 : compare ak k = .lt := hA (ak, av) (by simp)
    have h2 : compare ak key = .lt := TransCmp.lt_of_lt_of_isLE h1 hge
    have h3 : compare key ak ≠ .eq := by
      intro h; rw [OrientedCmp.eq_comm] at h; rw [h] at h2; cases h2
    simp only [List.cons_append, eraseSorted, h3, if_false]
    rw [ih (fun p hp => hA p (by simp [hp]))]

end Iavl
