import Iavl.Lemmas.ToList
namespace Iavl
open Std
set_option linter.unusedSectionVars false
variable {K V : Type} [Ord K] [BEq K] [TransOrd K] [LawfulEqOrd K]

theorem keys_inner (k : K) (h s ver) (l r : Node K V) :
    (Node.inner k h s ver l r).keys = l.keys ++ r.keys := by simp [Node.keys]
theorem keys_newInner (k : K) (l r : Node K V) : (newInner k l r).keys = l.keys ++ r.keys := by
  simp [Node.keys]
theorem keys_ne_nil (t : Node K V) : t.keys ≠ [] := by
  simp [Node.keys, toList_ne_nil]

theorem head_append_keys (l r : Node K V) : (l.keys ++ r.keys).head? = l.keys.head? := by
  cases h : l.keys with
  | nil => exact absurd h (keys_ne_nil l)
  | cons a as => simp

/-- Ordered/RoutingMin for a node built from parts -/
theorem ordered_inner_iff (k : K) (h s ver) (l r : Node K V) :
    Ordered (Node.inner k h s ver l r) ↔
      Ordered l ∧ Ordered r ∧ AllLt l.toList k ∧ AllGe r.toList k := Iff.rfl
theorem ordered_newInner_iff (k : K) (l r : Node K V) :
    Ordered (newInner k l r) ↔ Ordered l ∧ Ordered r ∧ AllLt l.toList k ∧ AllGe r.toList k := Iff.rfl
theorem rmin_inner_iff (k : K) (h s ver) (l r : Node K V) :
    RoutingMin (Node.inner k h s ver l r) ↔ RoutingMin l ∧ RoutingMin r ∧ r.keys.head? = some k := Iff.rfl
theorem rmin_newInner_iff (k : K) (l r : Node K V) :
    RoutingMin (newInner k l r) ↔ RoutingMin l ∧ RoutingMin r ∧ r.keys.head? = some k := Iff.rfl

theorem allLt_append {A B : List (K × V)} {k : K} : AllLt (A ++ B) k ↔ AllLt A k ∧ AllLt B k := by
  simp [AllLt, or_imp, forall_and]
theorem allGe_append {A B : List (K × V)} {k : K} : AllGe (A ++ B) k ↔ AllGe A k ∧ AllGe B k := by
  simp [AllGe, or_imp, forall_and]

/-- if `k` is the head key of a subtree whose keys are all `≥ lk`-bounded … helper: the head key of
    `t` is a member -/
theorem head_mem (t : Node K V) {x : K} (h : t.keys.head? = some x) : ∃ p ∈ t.toList, p.1 = x := by
  unfold Node.keys at h
  cases ht : t.toList with
  | nil => simp [ht] at h
  | cons a as => simp [ht] at h; exact ⟨a, by simp, h⟩

theorem allGe_of_le {B : List (K × V)} {k k' : K} (h : (compare k' k).isLE) (hB : AllGe B k) : AllGe B k' :=
  fun p hp => TransCmp.isLE_trans h (hB p hp)
theorem allLt_of_le {A : List (K × V)} {k k' : K} (h : (compare k k').isLE) (hA : AllLt A k) : AllLt A k' :=
  fun p hp => TransCmp.lt_of_lt_of_isLE (hA p hp) h

theorem isLE_of_lt {a b : K} (h : compare a b = .lt) : (compare a b).isLE := by simp [h]

/-- rotations preserve Ordered ∧ RoutingMin -/
theorem inv_rotateRight (n : Node K V) (ho : Ordered n) (hr : RoutingMin n) :
    Ordered (rotateRight n) ∧ RoutingMin (rotateRight n) := by
  unfold rotateRight
  split
  · rename_i k h s ver lk lh ls lver ll lr r
    obtain ⟨⟨holl, holr, hll, hlr⟩, hor, hl, hrr⟩ := ho
    obtain ⟨⟨hrll, hrlr, hlrhead⟩, hrr', hrhead⟩ := hr
    simp only [toList_inner] at hl
    have hl := (allLt_append (K := K) (V := V)).mp hl
    obtain ⟨p, hp, hpk⟩ := head_mem lr hlrhead
    have hlk_lt_k : compare lk k = .lt := by have := hl.2 p hp; rw [hpk] at this; exact this
    refine ⟨?_, ?_⟩
    · rw [ordered_newInner_iff]
      refine ⟨holl, ?_, hll, ?_⟩
      · rw [ordered_newInner_iff]; exact ⟨holr, hor, hl.2, hrr⟩
      · rw [toList_newInner, allGe_append]; exact ⟨hlr, allGe_of_le (isLE_of_lt hlk_lt_k) hrr⟩
    · rw [rmin_newInner_iff]
      refine ⟨hrll, ?_, ?_⟩
      · rw [rmin_newInner_iff]; exact ⟨hrlr, hrr', hrhead⟩
      · rw [keys_newInner, head_append_keys]; exact hlrhead
  · exact ⟨ho, hr⟩

theorem inv_rotateLeft (n : Node K V) (ho : Ordered n) (hr : RoutingMin n) :
    Ordered (rotateLeft n) ∧ RoutingMin (rotateLeft n) := by
  unfold rotateLeft
  split
  · rename_i k h s ver l rk rh rs rver rl rr
    obtain ⟨hol, ⟨horl, horr, hrl, hrr⟩, hl, hr'⟩ := ho
    obtain ⟨hrl', ⟨hrrl, hrrr, hrrhead⟩, hrhead⟩ := hr
    simp only [toList_inner] at hr'
    have hr' := (allGe_append (K := K) (V := V)).mp hr'
    -- k ≤ rk : rk is the head key of rr, a member of r
    obtain ⟨p, hp, hpk⟩ := head_mem rr hrrhead
    have hk_le_rk : (compare k rk).isLE := by have := hr'.2 p hp; rw [hpk] at this; exact this
    refine ⟨?_, ?_⟩
    · rw [ordered_newInner_iff]
      refine ⟨?_, horr, ?_, hrr⟩
      · rw [ordered_newInner_iff]; exact ⟨hol, horl, hl, hr'.1⟩
      · rw [toList_newInner, allLt_append]; exact ⟨allLt_of_le hk_le_rk hl, hrl⟩
    · rw [rmin_newInner_iff]
      refine ⟨?_, hrrr, hrrhead⟩
      rw [rmin_newInner_iff]
      refine ⟨hrl', hrrl, ?_⟩
      rw [keys_inner, head_append_keys] at hrhead
      exact hrhead
  · exact ⟨ho, hr⟩

theorem inv_balance (n : Node K V) (ho : Ordered n) (hr : RoutingMin n) :
    Ordered (balance n) ∧ RoutingMin (balance n) := by
  unfold balance
  split
  · exact ⟨ho, hr⟩
  · rename_i k h s ver l r
    split
    · split
      · exact inv_rotateRight _ ho hr
      · obtain ⟨hol, hor, hl, hrr⟩ := ho
        obtain ⟨hrl, hrr', hrhead⟩ := hr
        have := inv_rotateLeft l hol hrl
        apply inv_rotateRight
        · rw [ordered_newInner_iff]; refine ⟨this.1, hor, ?_, hrr⟩; rw [toList_rotateLeft]; exact hl
        · rw [rmin_newInner_iff]; exact ⟨this.2, hrr', hrhead⟩
    · split
      · split
        · exact inv_rotateLeft _ ho hr
        · obtain ⟨hol, hor, hl, hrr⟩ := ho
          obtain ⟨hrl, hrr', hrhead⟩ := hr
          have := inv_rotateRight r hor hrr'
          apply inv_rotateLeft
          · rw [ordered_newInner_iff]; refine ⟨hol, this.1, hl, ?_⟩; rw [toList_rotateRight]; exact hrr
          · rw [rmin_newInner_iff]; refine ⟨hrl, this.2, ?_⟩
            have : (rotateRight r).keys = r.keys := by simp [Node.keys, toList_rotateRight]
            rw [this]; exact hrhead
      · exact ⟨ho, hr⟩
end Iavl
