import Iavl.Lemmas.Contig
/- C09: rolling back to a version is the same as never having had the later versions. -/
namespace Iavl
open Std
variable {C : Type}

/-- versions in ascending order -/
def AscV (vs : List (Nat × C)) : Prop := vs.Pairwise (fun a b => a.1 < b.1)

theorem findVer_some_mem (vs : List (Nat × C)) (n : Nat) (c : C) (h : findVer vs n = some c) : (n, c) ∈ vs := by
  unfold findVer at h
  cases hf : vs.find? (fun p => p.1 == n) with
  | none => simp [hf] at h
  | some p =>
    simp [hf] at h
    have hm := List.mem_of_find?_eq_some hf
    have hp := List.find?_some hf
    have : p.1 = n := by simpa using hp
    rw [← this, ← h]; exact hm

theorem firstVer_filter_le (vs : List (Nat × C)) (ha : AscV vs) (t : Nat) (c : C) (hm : (t, c) ∈ vs) :
    firstVer (vs.filter (fun p => decide (p.1 ≤ t))) = firstVer vs := by
  cases vs with
  | nil => cases hm
  | cons a tl =>
    have hle : a.1 ≤ t := by
      rcases List.mem_cons.mp hm with h | h
      · rw [← h]; exact Nat.le_refl _
      · exact Nat.le_of_lt ((List.pairwise_cons.mp ha).1 _ h)
    simp [firstVer, List.filter_cons, hle]

theorem latestVer_filter_le (vs : List (Nat × C)) (ha : AscV vs) (t : Nat) (c : C) (hm : (t, c) ∈ vs) :
    latestVer (vs.filter (fun p => decide (p.1 ≤ t))) = t := by
  induction vs with
  | nil => cases hm
  | cons a tl ih =>
    have hlt := (List.pairwise_cons.mp ha).1
    rcases List.mem_cons.mp hm with h | h
    · -- a is the target: everything after it is larger and dropped
      have hnone : tl.filter (fun p => decide (p.1 ≤ t)) = [] := by
        apply List.filter_eq_nil_iff.mpr
        intro p hp
        have := hlt p hp
        rw [← h] at this
        simp; exact this
      have hat : a.1 = t := by rw [← h]
      simp [latestVer, List.filter_cons, hat, hnone]
    · have hle : a.1 ≤ t := Nat.le_of_lt (hlt _ h)
      have hrec := ih (List.Pairwise.of_cons ha) h
      have hne : tl.filter (fun p => decide (p.1 ≤ t)) ≠ [] := by
        intro he
        have : (t, c) ∈ tl.filter (fun p => decide (p.1 ≤ t)) := List.mem_filter.mpr ⟨h, by simp⟩
        rw [he] at this; cases this
      simp only [List.filter_cons, hle, decide_true, if_true]
      unfold latestVer at hrec ⊢
      rw [List.getLast?_cons_of_ne_nil hne] <;> exact hrec

variable {K V : Type} (ct : Content K V C)

/-- the store of a history that ended at `target` -/
def truncate (s : VState C) (target : Nat) : VState C :=
  { s with versions := s.versions.filter (fun p => decide (p.1 ≤ target)) }

/-- what a successful `LoadVersion(target)`, `target ≠ 0`, amounts to -/
theorem load_some_iff (s : VState C) (target : Nat) (ht : target ≠ 0) (c : C)
    (hne : s.versions ≠ [])
    (hiv : ¬ (0 < firstVer s.versions ∧ firstVer s.versions < s.ivOpt))
    (hlat : ¬ latestVer s.versions < target)
    (hf : findVer s.versions target = some c) :
    s.load target = some ({ s with working := c, lastSaved := c, base := target }, latestVer s.versions) := by
  unfold VState.load
  cases hvs : s.versions with
  | nil => exact absurd hvs hne
  | cons a as =>
    rw [hvs] at hiv hlat hf
    simp only [hiv, hlat, ht, if_false, hf]

theorem load_some_facts (s s' : VState C) (target lat : Nat) (ht : target ≠ 0)
    (hl : s.load target = some (s', lat)) :
    s.versions ≠ [] ∧ ¬ (0 < firstVer s.versions ∧ firstVer s.versions < s.ivOpt) ∧
    ¬ latestVer s.versions < target ∧
    ∃ c, findVer s.versions target = some c ∧ s' = { s with working := c, lastSaved := c, base := target } := by
  unfold VState.load at hl
  cases hvs : s.versions with
  | nil => rw [hvs] at hl; simp [ht] at hl
  | cons a as =>
    rw [hvs] at hl
    simp only at hl
    split at hl
    · cases hl
    · rename_i hiv
      split at hl
      · cases hl
      · rename_i hlat
        cases hf : findVer (a :: as) target with
        | none => rw [hf] at hl; cases hl
        | some c =>
          rw [hf] at hl
          simp only [Option.some.injEq, Prod.mk.injEq] at hl
          refine ⟨by simp, hiv, hlat, c, rfl, ?_⟩
          rw [← hl.1]

/-- **C09.** `LoadVersionForOverwriting(target)` leaves exactly the state obtained by loading
    `target` in a store that never had the later versions; the latest version it then reports is
    `target`. Every later observation is therefore the same (the machine is a function of its state). -/
theorem rollback_is_truncation (s s' : VState C) (target lat : Nat) (ht : target ≠ 0) (ha : AscV s.versions)
    (hl : s.load target = some (s', lat)) :
    (truncate s target).load target = some ((s.step ct (.loadow target)).1, target) := by
  obtain ⟨hne, hiv, hlat, c, hf, hs'⟩ := load_some_facts s s' target lat ht hl
  have hmem : (target, c) ∈ s.versions := findVer_some_mem _ _ _ hf
  have hfirst := firstVer_filter_le s.versions ha target c hmem
  have hlatest := latestVer_filter_le s.versions ha target c hmem
  have hfind : findVer (truncate s target).versions target = some c := by
    have := findVer_filter s.versions (fun v => decide (v ≤ target)) target
    simp only [Nat.le_refl, decide_true, if_true] at this
    simp only [truncate]; rw [this]; exact hf
  have hne' : (truncate s target).versions ≠ [] := by
    intro he
    have : (target, c) ∈ s.versions.filter (fun p => decide (p.1 ≤ target)) := List.mem_filter.mpr ⟨hmem, by simp⟩
    simp only [truncate] at he
    rw [he] at this; cases this
  have h1 := load_some_iff (truncate s target) target ht c hne'
    (by simp only [truncate]; rw [hfirst]; exact hiv)
    (by simp only [truncate]; rw [hlatest]; exact Nat.lt_irrefl _) hfind
  rw [h1]
  have hlt : latestVer (truncate s target).versions = target := by simp only [truncate]; exact hlatest
  rw [hlt]
  -- the state after LoadVersionForOverwriting
  have h2 : (s.step ct (.loadow target)).1 =
      { s' with versions := s'.versions.filter (fun p => decide (p.1 ≤ s'.base)) } := by
    simp only [VState.step, hl]
  rw [h2, hs']
  rfl
end Iavl
