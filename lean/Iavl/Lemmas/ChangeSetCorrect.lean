import Iavl.Lemmas.SortedMap
import Iavl.Model.ChangeSet
/- C15: applying an extracted change set to the contents of the predecessor gives the contents of the
   version (list level). -/
namespace Iavl
open Std
set_option linter.unusedSectionVars false
set_option linter.unusedSimpArgs false
variable {K V : Type} [Ord K] [TransOrd K] [LawfulEqOrd K] [DecidableEq K]

def SortedKeys (d : List K) : Prop := d.Pairwise (fun a b => compare a b = .lt)

theorem applyChanges_dels (m : List (K × V)) (hs : SortedKV m) (ds : List K) (k : K) :
    SortedKV (applyChanges m (ds.map Change.del)) ∧
    lookup k (applyChanges m (ds.map Change.del)) = if k ∈ ds then none else lookup k m := by
  induction ds generalizing m with
  | nil => simp [applyChanges, hs]
  | cons d ds ih =>
    simp only [List.map_cons, applyChanges]
    obtain ⟨h1, h2⟩ := ih (eraseSorted d m) (sortedKV_eraseSorted d m hs)
    refine ⟨h1, ?_⟩
    rw [h2, lookup_eraseSorted d m hs k]
    by_cases hk : k ∈ ds
    · simp [hk]
    · by_cases hd : compare k d = .eq
      · have : k = d := cmp_eq_iff.mp hd
        subst this; simp
      · have : k ≠ d := fun e => hd (cmp_eq_iff.mpr e)
        simp [hk, hd, this]

theorem applyChanges_sets (m : List (K × V)) (hs : SortedKV m) (ns : List (K × V)) (hn : SortedKV ns) (k : K) :
    SortedKV (applyChanges m (ns.map (fun p => Change.set p.1 p.2))) ∧
    lookup k (applyChanges m (ns.map (fun p => Change.set p.1 p.2))) =
      if (lookup k ns).isSome then lookup k ns else lookup k m := by
  induction ns generalizing m with
  | nil => simp [applyChanges, hs, lookup]
  | cons a ns ih =>
    obtain ⟨ak, av⟩ := a
    simp only [List.map_cons, applyChanges]
    obtain ⟨h1, h2⟩ := ih (insertSorted ak av m) (sortedKV_insertSorted ak av m hs) (sortedKV_tail hn)
    refine ⟨h1, ?_⟩
    rw [h2, lookup_insertSorted ak av m hs k]
    simp only [lookup]
    by_cases hd : compare k ak = .eq
    · have : k = ak := cmp_eq_iff.mp hd
      subst this
      have : lookup k ns = none := lookup_none_of_all_gt k ns (sortedKV_head_lt hn)
      simp [hd, this]
    · simp [hd]

theorem sortedKV_applyChanges (m : List (K × V)) (hs : SortedKV m) (cs : List (Change K V)) :
    SortedKV (applyChanges m cs) := by
  induction cs generalizing m with
  | nil => exact hs
  | cons c cs ih =>
    cases c with
    | set k v => exact ih _ (sortedKV_insertSorted k v m hs)
    | del k => exact ih _ (sortedKV_eraseSorted k m hs)

/-- the effect of a merged change set on any sorted map, key by key -/
theorem lookup_applyChanges_merge (ns : List (K × V)) (ds : List K) :
    ∀ (m : List (K × V)), SortedKV m → SortedKV ns → SortedKeys ds → ∀ k,
    SortedKV (applyChanges m (mergeChanges ns ds)) ∧
    lookup k (applyChanges m (mergeChanges ns ds)) =
      if (lookup k ns).isSome then lookup k ns else if k ∈ ds then none else lookup k m := by
  induction ns, ds using mergeChanges.induct with
  | case1 ds =>
    intro m hs _ _ k
    have := applyChanges_dels m hs ds k
    simpa [mergeChanges, lookup] using this
  | case2 ns hne =>
    intro m hs hn _ k
    have := applyChanges_sets m hs ns hn k
    have e : mergeChanges ns ([] : List K) = ns.map (fun p => Change.set p.1 p.2) := by
      cases ns <;> simp [mergeChanges]
    rw [e]
    simpa using this
  | case3 k0 v0 ns d ds hlt ih =>
    intro m hs hn hd k
    simp only [mergeChanges, hlt, applyChanges]
    have hds : SortedKeys ds := List.Pairwise.of_cons hd
    obtain ⟨h1, h2⟩ := ih (eraseSorted d m) (sortedKV_eraseSorted d m hs) hn hds k
    refine ⟨h1, ?_⟩
    rw [h2, lookup_eraseSorted d m hs k]
    by_cases hk : compare k d = .eq
    · have : k = d := cmp_eq_iff.mp hk
      subst this
      -- d is smaller than every new key
      have hnone : lookup k ((k0, v0) :: ns) = none := lookup_none_of_all_gt k _ (by
        intro p hp
        rcases List.mem_cons.mp hp with hp | hp
        · subst hp; exact hlt
        · exact TransCmp.lt_trans hlt (sortedKV_head_lt hn p hp))
      simp [hnone, hk]
    · have hne : k ≠ d := fun e => hk (cmp_eq_iff.mpr e)
      simp [hk, hne]
  | case4 k0 v0 ns d ds heq ih =>
    intro m hs hn hd k
    simp only [mergeChanges, heq, applyChanges]
    have hdk : d = k0 := cmp_eq_iff.mp heq
    subst hdk
    have hds : SortedKeys ds := List.Pairwise.of_cons hd
    obtain ⟨h1, h2⟩ := ih (insertSorted d v0 m) (sortedKV_insertSorted d v0 m hs) (sortedKV_tail hn) hds k
    refine ⟨h1, ?_⟩
    rw [h2, lookup_insertSorted d v0 m hs k]
    simp only [lookup]
    by_cases hk : compare k d = .eq
    · have : k = d := cmp_eq_iff.mp hk
      subst this
      have hnone : lookup k ns = none := lookup_none_of_all_gt k ns (sortedKV_head_lt hn)
      have hnd : k ∉ ds := by
        intro hmem
        have := (List.pairwise_cons.mp hd).1 k hmem
        rw [cmp_eq_iff.mpr rfl] at this; cases this
      simp [hk, hnone, hnd]
    · have hne : k ≠ d := fun e => hk (cmp_eq_iff.mpr e)
      simp [hk, hne]
  | case5 k0 v0 ns d ds hgt ih =>
    intro m hs hn hd k
    simp only [mergeChanges, hgt, applyChanges]
    obtain ⟨h1, h2⟩ := ih (insertSorted k0 v0 m) (sortedKV_insertSorted k0 v0 m hs) (sortedKV_tail hn) hd k
    refine ⟨h1, ?_⟩
    rw [h2, lookup_insertSorted k0 v0 m hs k]
    simp only [lookup]
    by_cases hk : compare k k0 = .eq
    · have : k = k0 := cmp_eq_iff.mp hk
      subst this
      have hnone : lookup k ns = none := lookup_none_of_all_gt k ns (sortedKV_head_lt hn)
      -- k0 is smaller than every remaining orphan key
      have hlt : compare k d = .lt := OrientedCmp.lt_of_gt hgt
      have hnd : k ∉ d :: ds := by
        intro hmem
        rcases List.mem_cons.mp hmem with h | h
        · subst h; rw [cmp_eq_iff.mpr rfl] at hlt; cases hlt
        · have := TransCmp.lt_trans hlt ((List.pairwise_cons.mp hd).1 k h)
          rw [cmp_eq_iff.mpr rfl] at this; cases this
      simp [hk, hnone, hnd]
    · simp [hk]
end Iavl

namespace Iavl
open Std
set_option linter.unusedSectionVars false
set_option linter.unusedSimpArgs false
variable {K V : Type} [Ord K] [TransOrd K] [LawfulEqOrd K] [DecidableEq K] [DecidableEq V]

abbrev Leaf (K V : Type) := K × V × Option Nat
def kvOf (x : Leaf K V) : K × V := (x.1, x.2.1)
def SortedL (l : List (Leaf K V)) : Prop := l.Pairwise (fun a b => compare a.1 b.1 = .lt)

theorem leaves_map_kv (t : Node K V) : t.leaves.map kvOf = t.toList := by
  induction t with
  | leaf k v ver => rfl
  | inner k h sz ver l r ihl ihr => simp [Node.leaves, ihl, ihr]

theorem leavesO_map_kv (c : OTree K V) : (leavesO c).map kvOf = contents c := by
  cases c with
  | none => rfl
  | some t => exact leaves_map_kv t

/-- an ordered tree lists its leaves in strictly ascending key order -/
theorem sortedL_leaves (t : Node K V) (ho : Ordered t) : SortedL t.leaves := by
  induction t with
  | leaf k v ver => simp [Node.leaves, SortedL]
  | inner k h sz ver l r ihl ihr =>
    obtain ⟨hol, hor, hl, hr⟩ := ho
    simp only [Node.leaves, SortedL]
    refine List.pairwise_append.mpr ⟨ihl hol, ihr hor, ?_⟩
    intro a ha b hb
    have ha' : kvOf a ∈ l.toList := by rw [← leaves_map_kv]; exact List.mem_map_of_mem ha
    have hb' : kvOf b ∈ r.toList := by rw [← leaves_map_kv]; exact List.mem_map_of_mem hb
    exact TransCmp.lt_of_lt_of_isLE (hl _ ha') (hr _ hb')

theorem sortedL_leavesO (c : OTree K V) (hg : match c with | none => True | some t => Ordered t) : SortedL (leavesO c) := by
  cases c with
  | none => simp [leavesO, SortedL]
  | some t => exact sortedL_leaves t hg

theorem sortedKV_of_sortedL (l : List (Leaf K V)) (h : SortedL l) : SortedKV (l.map kvOf) := by
  unfold SortedKV
  rw [List.pairwise_map]
  exact h

/-- in a key-sorted leaf list a key occurs at most once -/
theorem sortedL_unique (l : List (Leaf K V)) (h : SortedL l) {x y : Leaf K V} (hx : x ∈ l) (hy : y ∈ l)
    (hk : x.1 = y.1) : x = y := by
  induction l with
  | nil => cases hx
  | cons a l ih =>
    have hlt := (List.pairwise_cons.mp h).1
    rcases List.mem_cons.mp hx with hx | hx
    · rcases List.mem_cons.mp hy with hy | hy
      · rw [hx, hy]
      · exfalso
        have := hlt y hy
        rw [← hx, hk, cmp_eq_iff.mpr rfl] at this; cases this
    · rcases List.mem_cons.mp hy with hy | hy
      · exfalso
        have := hlt x hx
        rw [← hy, ← hk, cmp_eq_iff.mpr rfl] at this; cases this
      · exact ih (List.Pairwise.of_cons h) hx hy

theorem lookup_map_of_mem (l : List (Leaf K V)) (h : SortedL l) {x : Leaf K V} (hx : x ∈ l) :
    lookup x.1 (l.map kvOf) = some x.2.1 := by
  induction l with
  | nil => cases hx
  | cons a l ih =>
    simp only [List.map_cons, lookup, kvOf]
    rcases List.mem_cons.mp hx with hx | hx
    · subst hx; simp [cmp_eq_iff.mpr rfl]
    · have hlt := (List.pairwise_cons.mp h).1 x hx
      have : compare x.1 a.1 ≠ .eq := by
        intro e; have := cmp_gt_of_lt hlt; rw [e] at this; cases this
      simp only [this, if_false]
      exact ih (List.Pairwise.of_cons h) hx

theorem lookup_map_none (l : List (Leaf K V)) (k : K) (h : ∀ x ∈ l, x.1 ≠ k) : lookup k (l.map kvOf) = none := by
  induction l with
  | nil => rfl
  | cons a l ih =>
    simp only [List.map_cons, lookup, kvOf]
    have : compare k a.1 ≠ .eq := fun e => h a (by simp) (cmp_eq_iff.mp e).symm
    simp only [this, if_false]
    exact ih (fun x hx => h x (by simp [hx]))

theorem lookup_map_some_mem (l : List (Leaf K V)) (k : K) (v : V) (h : lookup k (l.map kvOf) = some v) :
    ∃ ver, (k, v, ver) ∈ l := by
  induction l with
  | nil => simp [lookup] at h
  | cons a l ih =>
    simp only [List.map_cons, lookup, kvOf] at h
    by_cases hc : compare k a.1 = .eq
    · simp only [hc, if_true, Option.some.injEq] at h
      have hk : k = a.1 := cmp_eq_iff.mp hc
      exact ⟨a.2.2, by rw [hk, ← h]; simp⟩
    · simp only [hc, if_false] at h
      obtain ⟨ver, hm⟩ := ih h
      exact ⟨ver, by simp [hm]⟩

/-- **C15.** For ordered trees `prev` (the predecessor version) and `cur`, if every leaf of `cur` that
    was persisted at or before `prevVersion` is a leaf of `prev` (the sharing invariant that
    path-copying writes establish), then applying the extracted change set to the contents of `prev`
    gives exactly the contents of `cur`. -/
theorem apply_changeSet (prevVersion : Nat) (prev cur : OTree K V)
    (hp : match prev with | none => True | some t => Ordered t)
    (hc : match cur with | none => True | some t => Ordered t)
    (hshare : ∀ x ∈ leavesO cur, (∃ u, x.2.2 = some u ∧ u ≤ prevVersion) → x ∈ leavesO prev) :
    applyChanges (contents prev) (changeSet prevVersion prev cur) = contents cur := by
  have hsp := sortedL_leavesO prev hp
  have hsc := sortedL_leavesO cur hc
  -- the two inputs of the merge
  let isNew : Leaf K V → Bool := fun x => match x.2.2 with | some ver => decide (prevVersion < ver) | none => true
  let newsL := (leavesO cur).filter isNew
  let orphL := (leavesO prev).filter (fun x => !(leavesO cur).contains x)
  have hnews : changeSet prevVersion prev cur = mergeChanges (newsL.map kvOf) (orphL.map (·.1)) := rfl
  have hsn : SortedKV (newsL.map kvOf) := sortedKV_of_sortedL _ (List.Pairwise.filter _ hsc)
  have hso : SortedKeys (orphL.map (·.1)) := by
    unfold SortedKeys
    rw [List.pairwise_map]
    exact List.Pairwise.filter _ hsp
  have hsP : SortedKV (contents prev) := by rw [← leavesO_map_kv]; exact sortedKV_of_sortedL _ hsp
  have hsC : SortedKV (contents cur) := by rw [← leavesO_map_kv]; exact sortedKV_of_sortedL _ hsc
  rw [hnews]
  have hm := lookup_applyChanges_merge (newsL.map kvOf) (orphL.map (·.1)) (contents prev) hsP hsn hso
  apply sortedKV_ext _ _ (sortedKV_applyChanges _ hsP _) hsC
  intro k
  rw [(hm k).2]
  -- does `cur` hold a leaf with key k?
  by_cases hex : ∃ x ∈ leavesO cur, x.1 = k
  · obtain ⟨x, hx, hxk⟩ := hex
    have hcur : lookup k (contents cur) = some x.2.1 := by
      rw [← leavesO_map_kv, ← hxk]; exact lookup_map_of_mem _ hsc hx
    by_cases hn : isNew x = true
    · -- a new leaf: the change set sets it
      have hxn : x ∈ newsL := List.mem_filter.mpr ⟨hx, hn⟩
      have : lookup k (newsL.map kvOf) = some x.2.1 := by
        rw [← hxk]; exact lookup_map_of_mem _ (List.Pairwise.filter _ hsc) hxn
      simp [this, hcur]
    · -- a shared leaf: untouched by the change set, and present in `prev`
      have hnone : lookup k (newsL.map kvOf) = none := by
        apply lookup_map_none
        intro y hy hyk
        have hy' := List.mem_filter.mp hy
        have : y = x := sortedL_unique _ hsc hy'.1 hx (by rw [hyk, hxk])
        rw [this] at hy'; exact hn hy'.2
      have hshared : x ∈ leavesO prev := by
        apply hshare x hx
        simp only [isNew] at hn
        cases hver : x.2.2 with
        | none => rw [hver] at hn; simp at hn
        | some u =>
          rw [hver] at hn
          simp only [decide_eq_true_eq] at hn
          exact ⟨u, rfl, by omega⟩
      have hnd : k ∉ orphL.map (·.1) := by
        intro hmem
        obtain ⟨y, hy, hyk⟩ := List.mem_map.mp hmem
        have hy' := List.mem_filter.mp hy
        have : y = x := sortedL_unique _ hsp hy'.1 hshared (by rw [hyk, hxk])
        rw [this] at hy'
        have hcx : (leavesO cur).contains x = true := List.contains_iff_mem.mpr hx
        rw [hcx] at hy'
        exact absurd hy'.2 (by simp)
      have hprev : lookup k (contents prev) = some x.2.1 := by
        rw [← leavesO_map_kv, ← hxk]; exact lookup_map_of_mem _ hsp hshared
      simp [hnone, hnd, hprev, hcur]
  · -- no leaf with key k in `cur`
    have hcur : lookup k (contents cur) = none := by
      rw [← leavesO_map_kv]; apply lookup_map_none
      intro x hx hxk; exact hex ⟨x, hx, hxk⟩
    have hnone : lookup k (newsL.map kvOf) = none := by
      apply lookup_map_none
      intro y hy hyk
      exact hex ⟨y, (List.mem_filter.mp hy).1, hyk⟩
    by_cases hd : k ∈ orphL.map (·.1)
    · simp [hnone, hd, hcur]
    · -- then `prev` has no such leaf either (it would be an orphan)
      have hprev : lookup k (contents prev) = none := by
        cases hl : lookup k (contents prev) with
        | none => rfl
        | some v =>
          exfalso
          rw [← leavesO_map_kv] at hl
          obtain ⟨ver, hm'⟩ := lookup_map_some_mem _ k v hl
          apply hd
          refine List.mem_map.mpr ⟨(k, v, ver), List.mem_filter.mpr ⟨hm', ?_⟩, rfl⟩
          have : ¬ (k, v, ver) ∈ leavesO cur := fun hin => hex ⟨_, hin, rfl⟩
          simp [List.contains_iff_mem, this]
      simp [hnone, hd, hprev, hcur]
end Iavl
