import Iavl.Lemmas.V2EvictCorrect
/-
  Where `Saved` comes from: a checkpoint writes every node of the tree under its node key. If node keys are unique
  within the tree (v2: (version, sequence) from `leafSequence` / `branchSequence`), the store afterwards answers every
  node of the tree - the hypothesis of the eviction theorems.
-/
namespace Iavl
open Std

variable {K V : Type}

/-- the store after writing every node of `t` under its key (later writes of the same key lose: first match) -/
def writeAll (st : Nat → Option (Node K V)) (ref : Node K V → Nat) (t : Node K V) : Nat → Option (Node K V) :=
  fun r => match t.subtrees.find? (fun c => ref c == r) with
    | some c => some c
    | none => st r

/-- node keys are unique within `t` -/
def UniqueKeys (ref : Node K V → Nat) (t : Node K V) : Prop :=
  ∀ a ∈ t.subtrees, ∀ b ∈ t.subtrees, ref a = ref b → a = b

theorem saved_writeAll (st : Nat → Option (Node K V)) (ref : Node K V → Nat) (t : Node K V)
    (hu : UniqueKeys ref t) : Saved (writeAll st ref t) ref t := by
  intro c hc
  simp only [writeAll]
  cases hf : t.subtrees.find? (fun c' => ref c' == ref c) with
  | none =>
    have := List.find?_eq_none.mp hf c hc
    simp at this
  | some c' =>
    have hm : c' ∈ t.subtrees := List.mem_of_find?_eq_some hf
    have hp := List.find?_some hf
    have : ref c' = ref c := by simpa using hp
    rw [hu c' hm c hc this]

end Iavl
