import Iavl.Lemmas.Sharing
import Iavl.Lemmas.Set
/- Spike for C04/C12: the orphan computation (`traverseOrphans`) equals the set difference
   "nodes of the previous version that are not in the next one". Part 1: vocabulary and key facts. -/
namespace Iavl
open Std
set_option linter.unusedSectionVars false
variable {K V : Type} [Ord K] [BEq K] [TransOrd K] [LawfulEqOrd K]

/-- all subtrees, pre-order (the order of `NodeIterator`) -/
def pre : Node K V → List (Node K V)
  | .leaf k v ver => [.leaf k v ver]
  | .inner k h sz ver l r => .inner k h sz ver l r :: (pre l ++ pre r)

theorem mem_pre_iff (n t : Node K V) : n ∈ pre t ↔ Sub n t := by
  induction t with
  | leaf k v ver => simp [pre, Sub]
  | inner k h sz ver l r ihl ihr => simp [pre, Sub, ihl, ihr]

theorem sub_keys {s t : Node K V} (h : Sub s t) : ∀ x ∈ s.keys, x ∈ t.keys := by
  induction t with
  | leaf k v ver => simp only [Sub] at h; subst h; exact fun x hx => hx
  | inner k hh sz ver l r ihl ihr =>
    simp only [Sub] at h
    rcases h with h | h | h
    · subst h; exact fun x hx => hx
    · intro x hx; rw [keys_inner]; exact List.mem_append_left _ (ihl h x hx)
    · intro x hx; rw [keys_inner]; exact List.mem_append_right _ (ihr h x hx)

theorem sub_size_le {s t : Node K V} (h : Sub s t) : s.toList.length ≤ t.toList.length := by
  induction t with
  | leaf k v ver => simp only [Sub] at h; subst h; exact Nat.le_refl _
  | inner k hh sz ver l r ihl ihr =>
    simp only [Sub] at h
    rcases h with h | h | h
    · subst h; exact Nat.le_refl _
    · have := ihl h; simp only [toList_inner, List.length_append]; omega
    · have := ihr h; simp only [toList_inner, List.length_append]; omega

theorem toList_length_pos (t : Node K V) : 0 < t.toList.length := by
  have := toList_ne_nil t
  cases h : t.toList with
  | nil => exact absurd h this
  | cons a as => simp

/-- a tree is not a subtree of one of its children -/
theorem not_sub_child_left (k : K) (h sz : Nat) (ver : Option Nat) (l r : Node K V) :
    ¬ Sub (.inner k h sz ver l r) l := by
  intro hs
  have := sub_size_le hs
  have := toList_length_pos r
  simp only [toList_inner, List.length_append] at *
  omega
theorem not_sub_child_right (k : K) (h sz : Nat) (ver : Option Nat) (l r : Node K V) :
    ¬ Sub (.inner k h sz ver l r) r := by
  intro hs
  have := sub_size_le hs
  have := toList_length_pos l
  simp only [toList_inner, List.length_append] at *
  omega

/-- every key of `a` is below every key of `b` -/
def KLt (a b : Node K V) : Prop := ∀ x ∈ a.keys, ∀ y ∈ b.keys, compare x y = .lt

theorem mem_keys_iff (t : Node K V) (x : K) : x ∈ t.keys ↔ ∃ p ∈ t.toList, p.1 = x := by
  simp [Node.keys]

theorem klt_children {k : K} {h sz : Nat} {ver : Option Nat} {l r : Node K V}
    (ho : Ordered (.inner k h sz ver l r)) : KLt l r := by
  obtain ⟨_, _, hl, hr⟩ := ho
  intro x hx y hy
  obtain ⟨p, hp, rfl⟩ := (mem_keys_iff l x).mp hx
  obtain ⟨q, hq, rfl⟩ := (mem_keys_iff r y).mp hy
  exact TransCmp.lt_of_lt_of_isLE (hl p hp) (hr q hq)

theorem klt_sub_left {a a' b : Node K V} (h : KLt a b) (hs : Sub a' a) : KLt a' b :=
  fun x hx y hy => h x (sub_keys hs x hx) y hy
theorem klt_sub_right {a b b' : Node K V} (h : KLt a b) (hs : Sub b' b) : KLt a b' :=
  fun x hx y hy => h x hx y (sub_keys hs y hy)

/-- two trees ordered by `KLt` share no subtree -/
theorem klt_no_common {a b n : Node K V} (h : KLt a b) (ha : Sub n a) (hb : Sub n b) : False := by
  have hne := keys_ne_nil n
  cases hk : n.keys with
  | nil => exact hne hk
  | cons x xs =>
    have hx : x ∈ n.keys := by rw [hk]; simp
    have := h x (sub_keys ha x hx) x (sub_keys hb x hx)
    have hself : compare x x = .eq := ReflCmp.compare_self
    rw [hself] at this; cases this

theorem ordered_sub {s t : Node K V} (h : Sub s t) (ho : Ordered t) : Ordered s := by
  induction t with
  | leaf k v ver => simp only [Sub] at h; subst h; exact ho
  | inner k hh sz ver l r ihl ihr =>
    simp only [Sub] at h
    rcases h with h | h | h
    · subst h; exact ho
    · exact ihl h ho.1
    · exact ihr h ho.2.1

/-- persisted at or before version `v` -/
def sharedAt (v : Nat) : Node K V → Bool
  | .leaf _ _ ver => match ver with | some x => x ≤ v | none => false
  | .inner _ _ _ ver _ _ => match ver with | some x => x ≤ v | none => false

/-- the maximal subtrees of the newer tree that already existed at version `v`, pre-order:
    exactly what the `cur` cursor of `traverseOrphans` stops at -/
def sharedRoots (v : Nat) : Node K V → List (Node K V)
  | .leaf k vv ver => if sharedAt v (.leaf k vv ver) then [.leaf k vv ver] else []
  | .inner k h sz ver l r =>
    if sharedAt v (.inner k h sz ver l r) then [.inner k h sz ver l r]
    else sharedRoots v l ++ sharedRoots v r

theorem sharedRoots_sub (v : Nat) (t : Node K V) : ∀ s ∈ sharedRoots v t, Sub s t := by
  induction t with
  | leaf k vv ver =>
    intro s hs; simp only [sharedRoots] at hs
    split at hs <;> simp_all [Sub]
  | inner k h sz ver l r ihl ihr =>
    intro s hs; simp only [sharedRoots] at hs
    split at hs
    · simp at hs; subst hs; exact sub_refl _
    · rcases List.mem_append.mp hs with hs | hs
      · exact sub_inner_of_child (Or.inl (ihl s hs))
      · exact sub_inner_of_child (Or.inr (ihr s hs))

/-- in an ordered tree the shared roots are listed in increasing, pairwise disjoint key order -/
theorem sharedRoots_pairwise (v : Nat) (t : Node K V) (ho : Ordered t) :
    (sharedRoots v t).Pairwise KLt := by
  induction t with
  | leaf k vv ver => simp only [sharedRoots]; split <;> simp
  | inner k h sz ver l r ihl ihr =>
    simp only [sharedRoots]
    split
    · simp
    · rw [List.pairwise_append]
      refine ⟨ihl ho.1, ihr ho.2.1, ?_⟩
      intro a ha b hb
      exact klt_sub_right (klt_sub_left (klt_children ho) (sharedRoots_sub v l a ha)) (sharedRoots_sub v r b hb)
end Iavl
