import Iavl.Lemmas.Contig
import Iavl.Lemmas.VersionSharing
/-
  C14, lifted to histories: the available versions are a contiguous range in every state the version
  machine reaches, provided the two documented misuses are avoided (`OpOk`):
    * a bare `DeleteVersionsFrom(n)` that removes the version the tree object is positioned on while older
      versions survive (the next commit would be numbered from the deleted position);
    * a first commit through a tree object that was never loaded although the store already holds versions,
      with an initial-version option beyond latest+1.
-/
namespace Iavl
open Std
variable {K V C : Type} (ct : Content K V C)

theorem contig_mem_from_head {a : Nat} {l : List Nat} (h : Contig (a :: l)) (x y : Nat)
    (hy : y ∈ a :: l) (hax : a ≤ x) (hxy : x ≤ y) : x ∈ a :: l := by
  induction l generalizing a with
  | nil =>
    have : y = a := by simpa using hy
    have : x = a := by omega
    simp [this]
  | cons b rest ih =>
    by_cases hxa : x = a
    · simp [hxa]
    · have hb : b = a + 1 := h.1
      have hy' : y ∈ b :: rest := by
        rcases List.mem_cons.mp hy with e | e
        · omega
        · exact e
      exact List.mem_cons_of_mem _ (ih h.2 hy' (by omega))

/-- a contiguous list contains every number between two of its members -/
theorem contig_mem_between {l : List Nat} (h : Contig l) (q x y : Nat)
    (hq : q ∈ l) (hy : y ∈ l) (hqx : q ≤ x) (hxy : x ≤ y) : x ∈ l := by
  induction l with
  | nil => cases hq
  | cons a tl ih =>
    rcases List.mem_cons.mp hq with e | e
    · subst e; exact contig_mem_from_head h x y hy hqx hxy
    · have haq := contig_head_lt h q e
      rcases List.mem_cons.mp hy with e' | e'
      · omega
      · exact List.mem_cons_of_mem _ (ih (contig_tail h) e e')

theorem contig_asc (vs : List (Nat × C)) (h : Contig (vs.map (·.1))) : AscV vs := by
  induction vs with
  | nil => exact List.Pairwise.nil
  | cons a tl ih =>
    simp only [List.map_cons] at h
    refine List.Pairwise.cons ?_ (ih (contig_tail h))
    intro b hb
    exact contig_head_lt h b.1 (List.mem_map_of_mem hb)

theorem latest_mem (vs : List (Nat × C)) (hne : vs ≠ []) : latestVer vs ∈ vs.map (·.1) := by
  unfold latestVer
  cases hg : vs.getLast? with
  | none => exact absurd (List.getLast?_eq_none_iff.mp hg) hne
  | some p =>
    simp only [Option.map_some, Option.getD_some]
    exact List.mem_map_of_mem (List.mem_of_getLast? hg)

theorem le_latest_filter (vs : List (Nat × C)) (hc : Contig (vs.map (·.1))) (q : Nat → Bool) (b : Nat) (c : C)
    (hm : (b, c) ∈ vs) (hq : q b = true) : b ≤ latestVer (vs.filter (fun p => q p.1)) :=
  asc_le_latest _ (List.Pairwise.filter _ (contig_asc vs hc)) (b, c) (List.mem_filter.mpr ⟨hm, hq⟩)

/-- a number between a member and the latest version is a member -/
theorem mem_of_between (vs : List (Nat × C)) (hc : Contig (vs.map (·.1))) (q : Nat × C) (hq : q ∈ vs) (b : Nat)
    (h1 : q.1 ≤ b) (h2 : b ≤ latestVer vs) : ∃ c, (b, c) ∈ vs := by
  have hne : vs ≠ [] := by intro e; subst e; cases hq
  have := contig_mem_between hc q.1 b (latestVer vs) (List.mem_map_of_mem hq) (latest_mem vs hne) h1 h2
  obtain ⟨p, hp, e⟩ := List.mem_map.mp this
  exact ⟨p.2, by rw [← e]; exact hp⟩

/-- the side condition of one step -/
def OpOk (s : VState C) : Op K V → Prop
  | .delfrom n => (∀ p ∈ s.versions, n ≤ p.1) ∨ s.base < n
  | .save _ => s.versions ≠ [] → s.base = 0 → s.ivSet = true → s.ivOpt ≤ latestVer s.versions + 1
  | _ => True

/-- every step of the history satisfies its side condition in the state it is applied to -/
def RunOk (s : VState C) : List (Op K V) → Prop
  | [] => True
  | op :: ops => OpOk s op ∧ RunOk (s.step ct op).1 ops

def VState.run (s : VState C) : List (Op K V) → VState C
  | [] => s
  | op :: ops => VState.run (s.step ct op).1 ops

/-- contiguous, positive, and the tree object is not positioned above the latest version -/
structure CInv (s : VState C) : Prop where
  contig : Contig (verNums s)
  pos : ∀ v ∈ verNums s, 0 < v
  tip : s.versions = [] ∨ s.base ≤ latestVer s.versions

theorem load_cinv (s s' : VState C) (target lat : Nat) (h : CInv s) (hl : s.load target = some (s', lat)) :
    CInv s' := by
  have hv := load_versions s s' target lat hl
  rcases load_shape s s' target lat hl with e | ⟨t, c, hf, e⟩
  · subst e; exact h
  · refine ⟨by simpa [verNums, hv] using h.contig, by simpa [verNums, hv] using h.pos, ?_⟩
    right
    rw [hv, e]
    exact asc_le_latest s.versions (contig_asc _ h.contig) (t, c) (findVer_some_mem _ _ _ hf)

theorem step_cinv (s : VState C) (h : CInv s) (op : Op K V) (hok : OpOk s op) : CInv (s.step ct op).1 := by
  have hasc : AscV s.versions := contig_asc _ h.contig
  cases op with
  | set k v => exact ⟨h.contig, h.pos, h.tip⟩
  | remove k =>
    simp only [VState.step]
    split
    · exact h
    · exact ⟨h.contig, h.pos, h.tip⟩
  | rollback => exact ⟨h.contig, h.pos, h.tip⟩
  | read r => exact h
  | immRead ver r =>
    simp only [VState.step]
    split <;> exact h
  | getVersioned k ver => exact h
  | versionExists ver => exact h
  | available => exact h
  | latest => exact h
  | load target =>
    simp only [VState.step]
    cases hl : s.load target with
    | none => exact h
    | some p => obtain ⟨s', lat⟩ := p; exact load_cinv s s' target lat h hl
  | reopen iv target =>
    have hfresh : CInv (s.fresh ct iv) :=
      ⟨h.contig, h.pos, by
        rcases h.tip with e | _
        · left; exact e
        · right; simp [VState.fresh]⟩
    simp only [VState.step]
    cases hl : (s.fresh ct iv).load target with
    | none => exact hfresh
    | some p => obtain ⟨s', lat⟩ := p; exact load_cinv _ s' target lat hfresh hl
  | loadow target =>
    have hc := loadow_keeps_contig ct s target h.contig
    simp only [VState.step] at hc ⊢
    cases hl : s.load target with
    | none => exact h
    | some p =>
      obtain ⟨s', lat⟩ := p
      simp only [hl] at hc
      have h' := load_cinv s s' target lat h hl
      refine ⟨hc, ?_, ?_⟩
      · intro v hv
        simp only [verNums, List.mem_map, List.mem_filter] at hv
        obtain ⟨p, ⟨hp, _⟩, rfl⟩ := hv
        exact h'.pos _ (List.mem_map_of_mem hp)
      · by_cases he : s'.versions.filter (fun p => decide (p.1 ≤ s'.base)) = []
        · left; exact he
        · right
          have hvne : s'.versions ≠ [] := by intro e; rw [e] at he; exact he rfl
          have htip : s'.base ≤ latestVer s'.versions := by
            rcases h'.tip with e | e
            · exact absurd e hvne
            · exact e
          obtain ⟨q, hq⟩ := List.exists_mem_of_ne_nil _ he
          have hq' := List.mem_filter.mp hq
          obtain ⟨c, hc'⟩ := mem_of_between s'.versions h'.contig q hq'.1 s'.base (by simpa using hq'.2) htip
          exact le_latest_filter s'.versions h'.contig (fun v => decide (v ≤ s'.base)) s'.base c hc' (by simp)
  | prune n =>
    have hc := prune_keeps_contig ct s n h.contig
    simp only [VState.step] at hc ⊢
    split
    · exact h
    · rename_i hlat
      simp only [hlat, if_false] at hc
      refine ⟨hc, ?_, ?_⟩
      · intro v hv
        simp only [verNums, List.mem_map, List.mem_filter] at hv
        obtain ⟨p, ⟨hp, _⟩, rfl⟩ := hv
        exact h.pos _ (List.mem_map_of_mem hp)
      · rcases h.tip with e | e
        · left; simp [e]
        · right
          have hvne : s.versions ≠ [] := by intro e'; simp [e', latestVer] at hlat
          obtain ⟨p, hp, e'⟩ := List.mem_map.mp (latest_mem s.versions hvne)
          have : latestVer s.versions ≤ latestVer (s.versions.filter (fun p => decide (n < p.1))) :=
            le_latest_filter s.versions h.contig (fun v => decide (n < v)) _ p.2 (by rw [← e']; exact hp)
              (by simp; omega)
          exact Nat.le_trans e this
  | delfrom n =>
    have hc := delfrom_keeps_contig ct s n h.contig
    simp only [VState.step] at hc ⊢
    refine ⟨hc, ?_, ?_⟩
    · intro v hv
      simp only [verNums, List.mem_map, List.mem_filter] at hv
      obtain ⟨p, ⟨hp, _⟩, rfl⟩ := hv
      exact h.pos _ (List.mem_map_of_mem hp)
    · by_cases he : s.versions.filter (fun p => decide (p.1 < n)) = []
      · left; exact he
      · right
        obtain ⟨q, hq⟩ := List.exists_mem_of_ne_nil _ he
        have hq' := List.mem_filter.mp hq
        have hqn : q.1 < n := by simpa using hq'.2
        rcases hok with hall | hbase
        · have := hall q hq'.1; omega
        · have hvne : s.versions ≠ [] := by intro e; rw [e] at hq'; cases hq'.1
          have htip : s.base ≤ latestVer s.versions := by
            rcases h.tip with e | e
            · exact absurd e hvne
            · exact e
          show s.base ≤ _
          by_cases hqb : s.base ≤ q.1
          · have := le_latest_filter s.versions h.contig (fun v => decide (v < n)) q.1 q.2 hq'.1 (by simpa using hqn)
            exact Nat.le_trans hqb this
          · obtain ⟨c, hc'⟩ := mem_of_between s.versions h.contig q hq'.1 s.base (by omega) htip
            exact le_latest_filter s.versions h.contig (fun v => decide (v < n)) s.base c hc' (by simpa using hbase)
  | save same =>
    cases hf : findVer s.versions s.workingVersion with
    | some c =>
      cases same with
      | false => simp only [VState.step, hf]; exact h
      | true =>
        simp only [VState.step, hf, if_true]
        refine ⟨h.contig, h.pos, Or.inr ?_⟩
        exact asc_le_latest s.versions hasc (s.workingVersion, c) (findVer_some_mem _ _ _ hf)
    | none =>
      by_cases hl : latestVer s.versions < s.workingVersion
      · have hnew := (save_new ct s same hf hl).1
        have hlast : latestVer (s.versions ++ [(s.workingVersion, ct.commit s.workingVersion s.working)]) = s.workingVersion := by
          simp [latestVer]
        have hb : (s.step ct (.save same)).1.base = s.workingVersion := by
          simp only [VState.step, hf, hl, if_true]
        refine ⟨?_, ?_, Or.inr ?_⟩
        · simp only [verNums, hnew, List.map_append, List.map_cons, List.map_nil]
          apply contig_append _ h.contig
          intro x hx
          have hxm : x ∈ verNums s := List.mem_of_getLast? hx
          have hvne : s.versions ≠ [] := by intro e; simp [verNums, e] at hxm
          have hlat : latestVer s.versions = x := by
            unfold latestVer
            unfold verNums at hx
            rw [List.getLast?_map] at hx
            cases hg : s.versions.getLast? with
            | none => simp [hg] at hx
            | some p => simp [hg] at hx ⊢; exact hx
          have htip : s.base ≤ latestVer s.versions := by
            rcases h.tip with e | e
            · exact absurd e hvne
            · exact e
          have hxpos := h.pos x hxm
          unfold VState.workingVersion at hl ⊢
          by_cases hc : s.base + 1 = 1 ∧ s.ivSet = true
          · simp only [hc, and_self, if_true] at hl ⊢
            have := hok hvne (by omega) hc.2
            omega
          · simp only [hc, if_false] at hl ⊢
            omega
        · intro v hv
          simp only [verNums, hnew, List.map_append, List.map_cons, List.map_nil, List.mem_append, List.mem_singleton] at hv
          rcases hv with hv | hv
          · exact h.pos v hv
          · omega
        · rw [hnew, hlast, hb]; exact Nat.le_refl _
      · simp only [VState.step, hf, hl, if_false]
        exact h

theorem run_cinv (s : VState C) (h : CInv s) (ops : List (Op K V)) (hok : RunOk ct s ops) : CInv (s.run ct ops) := by
  induction ops generalizing s with
  | nil => exact h
  | cons op ops ih => exact ih _ (step_cinv ct s h op hok.1) hok.2

end Iavl
