import Iavl.Model.Pins
/-
  C06 / C04: a version with an open export is never deleted, and the reader counter is exactly the number of
  open exports of the version - whatever the order of exports, closes (repeated closes included), deletions,
  rollbacks and commits.
-/
namespace Iavl.Pins

def openOn (v : Nat) (e : Exporter) : Bool := e.open_ && e.version == v

structure Inv (s : St) : Prop where
  count : ∀ v, s.readers v = s.exporters.countP (openOn v)
  alive : ∀ e ∈ s.exporters, e.open_ = true → e.version ∈ s.versions

theorem countP_set_close (l : List Exporter) (i : Nat) (e : Exporter) (h : l[i]? = some e) (ho : e.open_ = true) (v : Nat) :
    (l.set i { e with open_ := false }).countP (openOn v) = l.countP (openOn v) - (if e.version = v then 1 else 0) ∧
    (e.version = v → 1 ≤ l.countP (openOn v)) := by
  induction l generalizing i with
  | nil => simp at h
  | cons a t ih =>
    cases i with
    | zero =>
      simp only [List.getElem?_cons_zero, Option.some.injEq] at h
      subst h
      simp only [List.set_cons_zero, List.countP_cons, openOn, ho, Bool.false_and, Bool.true_and, beq_iff_eq]
      by_cases hv : a.version = v <;> simp [hv]
    | succ j =>
      simp only [List.getElem?_cons_succ] at h
      obtain ⟨h1, h2⟩ := ih j h
      simp only [List.set_cons_succ, List.countP_cons]
      constructor
      · rw [h1]
        by_cases hv : e.version = v
        · have := h2 hv; simp only [hv, if_true] at *; omega
        · simp [hv]
      · intro hv; have := h2 hv; omega

theorem step_inv (s : St) (h : Inv s) (op : Op) : Inv (step s op) := by
  cases op with
  | «export» v =>
    simp only [step]
    split
    · rename_i hv
      refine ⟨?_, ?_⟩
      · intro x
        simp only [incr, List.countP_cons, openOn, Bool.true_and, beq_iff_eq]
        by_cases hx : x = v
        · subst hx; simp [h.count x, openOn]
        · have : ¬ v = x := fun e => hx e.symm
          simp [hx, this, h.count x, openOn]
      · intro e he ho
        rcases List.mem_cons.mp he with rfl | he
        · exact hv
        · exact h.alive e he ho
    · exact h
  | close i =>
    simp only [step]
    cases he : s.exporters[i]? with
    | none => exact h
    | some e =>
      simp only
      split
      · rename_i ho
        refine ⟨?_, ?_⟩
        · intro x
          obtain ⟨h1, h2⟩ := countP_set_close s.exporters i e he ho x
          rw [h1]
          simp only [decr]
          by_cases hx : x = e.version
          · subst hx; simp [h.count]
          · have : ¬ e.version = x := fun e' => hx e'.symm
            simp [hx, this, h.count x]
        · intro e' he' ho'
          rcases List.mem_or_eq_of_mem_set he' with hm | rfl
          · exact h.alive e' hm ho'
          · simp at ho'
      · exact h
  | prune n =>
    simp only [step]
    split
    · exact h
    · rename_i hno
      refine ⟨h.count, ?_⟩
      intro e he ho
      have hv := h.alive e he ho
      refine List.mem_filter.mpr ⟨hv, ?_⟩
      simp only [decide_eq_true_eq]
      rcases Nat.lt_or_ge n e.version with hlt | hge
      · exact hlt
      · exfalso
        apply hno
        unfold pruneRefused
        rw [List.any_eq_true]
        refine ⟨e.version, hv, ?_⟩
        have hc : 1 ≤ s.exporters.countP (openOn e.version) :=
          List.countP_pos_iff.mpr ⟨e, he, by simp [openOn, ho]⟩
        have := h.count e.version
        simp only [Bool.and_eq_true, decide_eq_true_eq, ne_eq]
        exact ⟨hge, by omega⟩
  | rollback n =>
    simp only [step]
    split
    · exact h
    · rename_i hno
      refine ⟨h.count, ?_⟩
      intro e he ho
      have hv := h.alive e he ho
      refine List.mem_filter.mpr ⟨hv, ?_⟩
      simp only [decide_eq_true_eq]
      rcases Nat.lt_or_ge e.version n with hlt | hge
      · exact hlt
      · exfalso
        apply hno
        unfold rollbackRefused
        rw [List.any_eq_true]
        refine ⟨e.version, hv, ?_⟩
        have hc : 1 ≤ s.exporters.countP (openOn e.version) :=
          List.countP_pos_iff.mpr ⟨e, he, by simp [openOn, ho]⟩
        have := h.count e.version
        simp only [Bool.and_eq_true, decide_eq_true_eq, ne_eq]
        exact ⟨hge, by omega⟩
  | commit v =>
    simp only [step]
    split
    · exact h
    · exact ⟨h.count, fun e he ho => List.mem_append_left _ (h.alive e he ho)⟩

theorem inv_init : Inv init := ⟨fun _ => rfl, by intro e he; cases he⟩

theorem run_inv (s : St) (h : Inv s) (ops : List Op) : Inv (run s ops) := by
  induction ops generalizing s with
  | nil => exact h
  | cons op ops ih => exact ih _ (step_inv s h op)

end Iavl.Pins
