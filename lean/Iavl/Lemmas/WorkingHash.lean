import Iavl.Lemmas.Refine
import Iavl.Model.Proof
import Iavl.Model.ExportImport
/- Spike for C02: the hash announced for the working tree is the hash of the committed tree, and
   stays the hash of that version whatever working version later queries pass. -/
namespace Iavl
open Std
variable (H : Bytes → Bytes)

/-- all nodes persisted ⇒ the caller-supplied version is irrelevant -/
theorem hashNode_saved (w w' : Nat) (t : Node Bytes Bytes) (hs : AllSaved t) :
    hashNode H w t = hashNode H w' t := by
  induction t with
  | leaf k v ver =>
    cases ver with
    | none => simp [AllSaved] at hs
    | some x => simp [hashNode, verOf]
  | inner k h sz ver l r ihl ihr =>
    obtain ⟨hv, hl, hr⟩ := hs
    cases ver with
    | none => simp at hv
    | some x => simp [hashNode, verOf, ihl hl, ihr hr]

/-- persisted nodes have persisted descendants (what `saveNewNodes` relies on when it stops at a
    node that already has a key) -/
def Closed : Node Bytes Bytes → Prop
  | .leaf .. => True
  | .inner _ _ _ ver l r => Closed l ∧ Closed r ∧ (ver.isSome → AllSaved l ∧ AllSaved r)

theorem allSaved_commitVer (w : Nat) (t : Node Bytes Bytes) (hc : Closed t) : AllSaved (commitVer w t) := by
  induction t with
  | leaf k v ver => cases ver <;> simp [commitVer, AllSaved]
  | inner k h sz ver l r ihl ihr =>
    obtain ⟨hcl, hcr, hsv⟩ := hc
    cases ver with
    | none => exact ⟨rfl, ihl hcl, ihr hcr⟩
    | some x => exact ⟨rfl, (hsv rfl).1, (hsv rfl).2⟩

/-- WorkingHash (computed with the working version `w`) = hash returned by SaveVersion at `w` -/
theorem workingHash_eq_commitHash (w w' : Nat) (t : Node Bytes Bytes) (hc : Closed t) :
    hashNode H w t = hashNode H w' (commitVer w t) := by
  induction t with
  | leaf k v ver => cases ver <;> simp [commitVer, hashNode, verOf]
  | inner k h sz ver l r ihl ihr =>
    obtain ⟨hcl, hcr, hsv⟩ := hc
    cases ver with
    | none => simp [commitVer, hashNode, verOf, ihl hcl, ihr hcr]
    | some x =>
      have hl := (hsv rfl).1
      have hr := (hsv rfl).2
      simp [commitVer, hashNode, verOf, hashNode_saved H w w' l hl, hashNode_saved H w w' r hr]

/-- K5 in one line: with an injective `H`, a hash query that passes the wrong working version
    disagrees with the commit hash as soon as an unsaved leaf is involved -/
theorem wrong_version_differs (hinj : ∀ a b, H a = H b → a = b) (k v : Bytes) :
    hashNode H 1 (.leaf k v none) ≠ hashNode H 5 (.leaf k v none) := by
  intro h
  simp only [hashNode, verOf, Option.getD_none] at h
  have h2 := hinj _ _ h
  simp only [leafPrefix, List.append_assoc] at h2
  have h3 := List.append_cancel_left h2
  have h4 := List.append_cancel_left h3
  -- varint 1 = [2] and varint 5 = [10]
  have e1 : varint ((1 : Nat) : Int) = [2] := by unfold varint; simp; unfold uvarint; simp
  have e5 : varint ((5 : Nat) : Int) = [10] := by unfold varint; simp; unfold uvarint; simp
  rw [e1, e5] at h4
  simp at h4
end Iavl
