import Iavl.Lemmas.GetRank
import Iavl.Lemmas.Remove
import Iavl.Lemmas.Set
/- Strictly sorted association lists: lookup after insert / erase, extensionality. -/
namespace Iavl
open Std
set_option linter.unusedSectionVars false
set_option linter.unusedSimpArgs false
variable {K V : Type} [Ord K] [BEq K] [TransOrd K] [LawfulEqOrd K]

def SortedKV (m : List (K × V)) : Prop := m.Pairwise (fun a b => compare a.1 b.1 = .lt)

theorem cmp_eq_iff {a b : K} : compare a b = .eq ↔ a = b := LawfulEqOrd.compare_eq_iff_eq

theorem cmp_gt_of_lt {a b : K} (h : compare a b = .lt) : compare b a = .gt := OrientedCmp.gt_of_lt h

theorem sortedKV_tail {a : K × V} {m : List (K × V)} (h : SortedKV (a :: m)) : SortedKV m :=
  List.Pairwise.of_cons h

theorem sortedKV_head_lt {a : K × V} {m : List (K × V)} (h : SortedKV (a :: m)) :
    ∀ p ∈ m, compare a.1 p.1 = .lt := (List.pairwise_cons.mp h).1

/-- a key smaller than every key of a sorted list is not in it -/
theorem lookup_none_of_all_gt (k : K) (m : List (K × V)) (h : ∀ p ∈ m, compare k p.1 = .lt) : lookup k m = none := by
  induction m with
  | nil => rfl
  | cons a m ih =>
    have ha := h a (by simp)
    simp only [lookup, ha]
    exact ih (fun p hp => h p (by simp [hp]))

theorem lookup_insertSorted (k : K) (v : V) (m : List (K × V)) (hs : SortedKV m) (k' : K) :
    lookup k' (insertSorted k v m) = if compare k' k = .eq then some v else lookup k' m := by
  induction m with
  | nil => simp [insertSorted, lookup]
  | cons a m ih =>
    obtain ⟨ak, av⟩ := a
    simp only [insertSorted]
    cases hc : compare k ak with
    | lt =>
      simp only [lookup]
    | eq =>
      have hk : k = ak := cmp_eq_iff.mp hc
      subst hk
      simp only [lookup]
      by_cases h1 : compare k' k = .eq <;> simp [h1]
    | gt =>
      simp only [lookup]
      by_cases h1 : compare k' ak = .eq
      · have hk : k' = ak := cmp_eq_iff.mp h1
        subst hk
        have : compare k' k ≠ .eq := by
          intro h; have := cmp_eq_iff.mp h; subst this; rw [h1] at hc; cases hc
        simp [h1, this]
      · simp only [h1, if_false]
        exact ih (sortedKV_tail hs)

theorem sortedKV_insertSorted (k : K) (v : V) (m : List (K × V)) (hs : SortedKV m) : SortedKV (insertSorted k v m) := by
  induction m with
  | nil => simp [insertSorted, SortedKV]
  | cons a m ih =>
    obtain ⟨ak, av⟩ := a
    simp only [insertSorted]
    cases hc : compare k ak with
    | lt =>
      refine List.pairwise_cons.mpr ⟨?_, hs⟩
      intro p hp
      rcases List.mem_cons.mp hp with hp | hp
      · subst hp; exact hc
      · exact TransCmp.lt_trans hc (sortedKV_head_lt hs p hp)
    | eq =>
      have hk : k = ak := cmp_eq_iff.mp hc
      subst hk
      exact List.pairwise_cons.mpr ⟨sortedKV_head_lt (a := (k, av)) hs, sortedKV_tail hs⟩
    | gt =>
      refine List.pairwise_cons.mpr ⟨?_, ih (sortedKV_tail hs)⟩
      intro p hp
      rcases mem_ins k v m hp with h | h
      · subst h; exact OrientedCmp.lt_of_gt hc
      · exact sortedKV_head_lt hs p h

theorem lookup_eraseSorted (k : K) (m : List (K × V)) (hs : SortedKV m) (k' : K) :
    lookup k' (eraseSorted k m) = if compare k' k = .eq then none else lookup k' m := by
  induction m with
  | nil => simp [eraseSorted, lookup]
  | cons a m ih =>
    obtain ⟨ak, av⟩ := a
    simp only [eraseSorted]
    by_cases hc : compare k ak = .eq
    · have hk : k = ak := cmp_eq_iff.mp hc
      subst hk
      simp only [hc, if_true, lookup]
      by_cases h1 : compare k' k = .eq
      · have : k' = k := cmp_eq_iff.mp h1
        subst this
        simp only [h1, if_true]
        exact lookup_none_of_all_gt k' m (sortedKV_head_lt hs)
      · simp [h1]
    · simp only [hc, if_false, lookup]
      by_cases h1 : compare k' ak = .eq
      · have hk : k' = ak := cmp_eq_iff.mp h1
        subst hk
        have : compare k' k ≠ .eq := by
          intro h; have := cmp_eq_iff.mp h; subst this; exact hc h1
        simp [h1, this]
      · simp only [h1, if_false]
        exact ih (sortedKV_tail hs)

theorem sortedKV_eraseSorted (k : K) (m : List (K × V)) (hs : SortedKV m) : SortedKV (eraseSorted k m) := by
  induction m with
  | nil => simp [eraseSorted, SortedKV]
  | cons a m ih =>
    obtain ⟨ak, av⟩ := a
    simp only [eraseSorted]
    by_cases hc : compare k ak = .eq
    · simp only [hc, if_true]; exact sortedKV_tail hs
    · simp only [hc, if_false]
      refine List.pairwise_cons.mpr ⟨?_, ih (sortedKV_tail hs)⟩
      intro p hp
      exact sortedKV_head_lt hs p (mem_erase k m hp)

/-- the head key of a sorted list is found -/
theorem lookup_head (a : K × V) (m : List (K × V)) : lookup a.1 (a :: m) = some a.2 := by
  have : compare a.1 a.1 = .eq := cmp_eq_iff.mpr rfl
  simp [lookup, this]

/-- two strictly sorted association lists with the same lookups are equal -/
theorem sortedKV_ext (a b : List (K × V)) (ha : SortedKV a) (hb : SortedKV b)
    (h : ∀ k, lookup k a = lookup k b) : a = b := by
  induction a generalizing b with
  | nil =>
    cases b with
    | nil => rfl
    | cons y b =>
      have := h y.1
      rw [lookup_head] at this
      simp [lookup] at this
  | cons x a ih =>
    cases b with
    | nil =>
      have := h x.1
      rw [lookup_head] at this
      simp [lookup] at this
    | cons y b =>
      -- the heads have the same key
      have hxy : compare x.1 y.1 = .eq := by
        cases hc : compare x.1 y.1 with
        | eq => rfl
        | lt =>
          have h1 := h x.1
          rw [lookup_head] at h1
          have : lookup x.1 (y :: b) = none := lookup_none_of_all_gt x.1 (y :: b) (by
            intro p hp
            rcases List.mem_cons.mp hp with hp | hp
            · subst hp; exact hc
            · exact TransCmp.lt_trans hc (sortedKV_head_lt hb p hp))
          rw [this] at h1; cases h1
        | gt =>
          have hlt : compare y.1 x.1 = .lt := OrientedCmp.lt_of_gt hc
          have h1 := h y.1
          rw [lookup_head] at h1
          have : lookup y.1 (x :: a) = none := lookup_none_of_all_gt y.1 (x :: a) (by
            intro p hp
            rcases List.mem_cons.mp hp with hp | hp
            · subst hp; exact hlt
            · exact TransCmp.lt_trans hlt (sortedKV_head_lt ha p hp))
          rw [this] at h1; cases h1
      have hk : x.1 = y.1 := cmp_eq_iff.mp hxy
      have hv : x.2 = y.2 := by
        have h1 := h x.1
        rw [lookup_head] at h1
        rw [hk, lookup_head] at h1
        exact Option.some.inj h1
      have hxe : x = y := Prod.ext hk hv
      subst hxe
      congr 1
      apply ih b (sortedKV_tail ha) (sortedKV_tail hb)
      intro k
      have h1 := h k
      simp only [lookup] at h1
      by_cases hc : compare k x.1 = .eq
      · have : k = x.1 := cmp_eq_iff.mp hc
        subst this
        rw [lookup_none_of_all_gt _ a (sortedKV_head_lt ha), lookup_none_of_all_gt _ b (sortedKV_head_lt hb)]
      · simpa [hc] using h1
end Iavl

namespace Iavl
open Std
set_option linter.unusedSectionVars false
set_option linter.unusedSimpArgs false
variable {K V : Type} [Ord K] [BEq K] [TransOrd K] [LawfulEqOrd K]

/-- an ordered tree lists its pairs in strictly ascending key order -/
theorem sortedKV_toList (t : Node K V) (ho : Ordered t) : SortedKV t.toList := by
  induction t with
  | leaf k v ver => simp [SortedKV]
  | inner k h sz ver l r ihl ihr =>
    obtain ⟨hol, hor, hl, hr⟩ := ho
    simp only [toList_inner, SortedKV]
    refine List.pairwise_append.mpr ⟨ihl hol, ihr hor, ?_⟩
    intro a ha b hb
    exact TransCmp.lt_of_lt_of_isLE (hl _ ha) (hr _ hb)

/-- in a sorted map the pair of a present key sits at index `rank key` -/
theorem getElem_rank_of_lookup (m : List (K × V)) (hs : SortedKV m) (k : K) (v : V)
    (h : lookup k m = some v) : m[rank k m]? = some (k, v) := by
  induction m with
  | nil => simp [lookup] at h
  | cons a m ih =>
    simp only [lookup] at h
    cases hc : compare k a.1 with
    | eq =>
      have hk : k = a.1 := cmp_eq_iff.mp hc
      simp only [hc, if_true, Option.some.injEq] at h
      have hr : rank k (a :: m) = 0 := by
        apply rank_all_ge
        intro p hp
        rcases List.mem_cons.mp hp with hp | hp
        · subst hp; rw [hk, cmp_eq_iff.mpr rfl]; simp
        · have := sortedKV_head_lt hs p hp
          rw [hk]; rw [cmp_gt_of_lt this]; simp
      rw [hr]
      simp only [List.getElem?_cons_zero, Option.some.injEq]
      exact Prod.ext hk.symm h
    | lt =>
      simp only [hc] at h
      have : lookup k m = none := lookup_none_of_all_gt k m (fun p hp => TransCmp.lt_trans hc (sortedKV_head_lt hs p hp))
      simp [this] at h
    | gt =>
      simp only [hc] at h
      have hlt : compare a.1 k = .lt := OrientedCmp.lt_of_gt hc
      have hr : rank k (a :: m) = rank k m + 1 := by
        simp [rank, List.filter_cons, hlt]
      rw [hr, List.getElem?_cons_succ]
      exact ih (sortedKV_tail hs) (by simpa using h)

/-- … and the key at index i has rank i -/
theorem rank_getElem (m : List (K × V)) (hs : SortedKV m) (i : Nat) (p : K × V) (h : m[i]? = some p) :
    rank p.1 m = i := by
  induction m generalizing i with
  | nil => simp at h
  | cons a m ih =>
    cases i with
    | zero =>
      simp only [List.getElem?_cons_zero, Option.some.injEq] at h
      subst h
      apply rank_all_ge
      intro q hq
      rcases List.mem_cons.mp hq with hq | hq
      · subst hq; rw [cmp_eq_iff.mpr rfl]; simp
      · rw [cmp_gt_of_lt (sortedKV_head_lt hs q hq)]; simp
    | succ j =>
      simp only [List.getElem?_cons_succ] at h
      have hm : p ∈ m := List.mem_of_getElem? h
      have hlt : compare a.1 p.1 = .lt := sortedKV_head_lt hs p hm
      have : rank p.1 (a :: m) = rank p.1 m + 1 := by simp [rank, List.filter_cons, hlt]
      rw [this, ih (sortedKV_tail hs) j h]
end Iavl
