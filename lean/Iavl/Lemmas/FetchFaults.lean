import Iavl.Model.V2Evict
/-
  Failing fetches: a store that fails some of the fetches of a good store (`Faulty st' st`). Every walk over a
  lazily loaded tree then either fails (`none`, Go: the error is returned) or gives the answer of the fault-free
  store - never a shorter or different one.
-/
namespace Iavl
open Std

variable {K V : Type}

/-- `st'` is `st` with some fetches failing -/
def Faulty (st' st : Nat → Option (Node K V)) : Prop := ∀ r, st' r = none ∨ st' r = st r

theorem Faulty.some {st' st : Nat → Option (Node K V)} (h : Faulty st' st) {r n} (hr : st' r = some n) :
    st r = some n := by
  rcases h r with h0 | h1
  · rw [h0] at hr; cases hr
  · rw [← h1]; exact hr

theorem size_faulty {st' st : Nat → Option (Node K V)} (hf : Faulty st' st) (e : ENode K V) {n}
    (h : e.size st' = some n) : e.size st = some n := by
  cases e with
  | stub ref =>
    simp only [ENode.size] at *
    cases hr : st' ref with
    | none => rw [hr] at h; cases h
    | some m => rw [hr] at h; rw [hf.some hr]; exact h
  | leaf k v ver => exact h
  | inner k hh sz ver l r => exact h

theorem toList_faulty {st' st : Nat → Option (Node K V)} (hf : Faulty st' st) (e : ENode K V) :
    ∀ {xs}, e.toList st' = some xs → e.toList st = some xs := by
  induction e with
  | stub ref =>
    intro xs h
    simp only [ENode.toList] at *
    cases hr : st' ref with
    | none => rw [hr] at h; cases h
    | some m => rw [hr] at h; rw [hf.some hr]; exact h
  | leaf k v ver => intro xs h; exact h
  | inner k hh sz ver l r ihl ihr =>
    intro xs h
    simp only [ENode.toList] at *
    cases hl : l.toList st' with
    | none => rw [hl] at h; cases h
    | some a =>
      cases hr : r.toList st' with
      | none => rw [hl, hr] at h; cases h
      | some b => rw [hl, hr] at h; rw [ihl hl, ihr hr]; exact h

theorem optAppend_some {α : Type} {asc : Bool} {x y : Option (List α)} {xs} (h : optAppend asc x y = some xs) :
    ∃ a b, x = some a ∧ y = some b := by
  cases x <;> cases y <;> simp [optAppend] at h ⊢

theorem ite_some_mono {α : Type} {p : Prop} [Decidable p] {x x' : Option (List α)} {a}
    (hx : ∀ a, x' = some a → x = some a) (h : (if p then x' else some []) = some a) :
    (if p then x else some []) = some a := by
  by_cases hp : p
  · simp only [hp, if_true] at *; exact hx _ h
  · simp only [hp, if_false] at *; exact h

section ordered
variable [Ord K]

theorem get_faulty {st' st : Nat → Option (Node K V)} (hf : Faulty st' st) (key : K) (e : ENode K V) :
    ∀ {a}, e.get st' key = some a → e.get st key = some a := by
  induction e with
  | stub ref =>
    intro a h
    simp only [ENode.get] at *
    cases hr : st' ref with
    | none => rw [hr] at h; cases h
    | some m => rw [hr] at h; rw [hf.some hr]; exact h
  | leaf k v ver => intro a h; exact h
  | inner k hh sz ver l r ihl ihr =>
    intro a h
    simp only [ENode.get] at *
    by_cases hc : compare key k = .lt
    · simp only [hc, if_true] at *; exact ihl h
    · simp only [hc, if_false] at *
      cases hg : r.get st' key with
      | none => rw [hg] at h; cases h
      | some iv =>
        cases hz : r.size st' with
        | none => rw [hg, hz] at h; cases h
        | some rs => rw [hg, hz] at h; rw [ihr hg, size_faulty hf r hz]; exact h

theorem has_faulty {st' st : Nat → Option (Node K V)} (hf : Faulty st' st) (key : K) (e : ENode K V) :
    ∀ {a}, e.has st' key = some a → e.has st key = some a := by
  induction e with
  | stub ref =>
    intro a h
    simp only [ENode.has] at *
    cases hr : st' ref with
    | none => rw [hr] at h; cases h
    | some m => rw [hr] at h; rw [hf.some hr]; exact h
  | leaf k v ver => intro a h; exact h
  | inner k hh sz ver l r ihl ihr =>
    intro a h
    simp only [ENode.has] at *
    by_cases he : compare k key = .eq
    · simp only [he, if_true] at *; exact h
    · simp only [he, if_false] at *
      by_cases hc : compare key k = .lt
      · simp only [hc, if_true] at *; exact ihl h
      · simp only [hc, if_false] at *; exact ihr h

theorem range_faulty {st' st : Nat → Option (Node K V)} (hf : Faulty st' st) (s e : Option K) (asc incl : Bool)
    (t : ENode K V) :
    ∀ {xs}, t.range st' s e asc incl = some xs → t.range st s e asc incl = some xs := by
  induction t with
  | stub ref =>
    intro xs h
    simp only [ENode.range] at *
    cases hr : st' ref with
    | none => rw [hr] at h; cases h
    | some m => rw [hr] at h; rw [hf.some hr]; exact h
  | leaf k v ver => intro xs h; exact h
  | inner k hh sz ver l r ihl ihr =>
    intro xs h
    simp only [ENode.range] at *
    obtain ⟨a, b, ha, hb⟩ := optAppend_some h
    rw [ha, hb] at h
    rw [ite_some_mono (fun _ hx => ihl hx) ha, ite_some_mono (fun _ hx => ihr hx) hb]
    exact h

end ordered
end Iavl
