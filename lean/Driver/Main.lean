def main : IO Unit := IO.println "hi"
