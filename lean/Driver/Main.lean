import Iavl.Exec
/-
  Model driver: reads a history file (one operation per line), executes it on the model and prints
  `<line number> => <model result>` for every operation line. `?` = the model gives no answer for
  this observation (it is then judged by the implementation-side oracle only).
-/
open Iavl.Exec

partial def loop (h : IO.FS.Stream) (out : IO.FS.Stream) (x : XState) (lineNo : Nat) : IO Unit := do
  let line ← h.getLine
  if line.isEmpty then return ()
  let l := (line.dropRightWhile (fun c => c == '\n' || c == '\r'))
  if l.isEmpty || l.startsWith "#" then
    loop h out x (lineNo + 1)
  else
    let args := (l.splitOn " ").filter (· ≠ "")
    let (x', r) := exec x args
    out.putStrLn (toString (lineNo + 1) ++ " => " ++ r)
    loop h out x' (lineNo + 1)

def main (argv : List String) : IO UInt32 := do
  match argv with
  | [path] =>
    let hnd ← IO.FS.Handle.mk path IO.FS.Mode.read
    let out ← IO.getStdout
    loop (IO.FS.Stream.ofHandle hnd) out init 0
    return 0
  | _ =>
    IO.eprintln "usage: iavl_driver <history-file>"
    return 2
