#!/usr/bin/env python3
"""Regenerates /verif/MANIFEST.json from the table below (kept next to the checks so the two do not drift)."""
import json
import os
import sys

ROOT = os.path.dirname(os.path.dirname(os.path.abspath(__file__)))
sys.path.insert(0, os.path.join(ROOT, "lib"))

NOTE = ("Trusted: Lean 4.33 kernel (axioms propext, Classical.choice, Quot.sound only; audited by #print axioms on every run, "
        "grep gate for sorry/native_decide/bv_decide/implemented_by); the hand-written model is tied to the code by differential "
        "execution (Go harness built from /repo with tag verif + compiled model driver) and by Facts.lean regenerated from the "
        "compiled constants, so assurance outside the explored histories rests on the model being faithful; SHA-256 in Lean is "
        "compared on every hash, not proved; caches, logging, real durability of the backends are not modelled.")

T_PROOF = "Lean 4 theorem (induction / refinement over the model) + model-vs-implementation correspondence on generated histories"

CLAIMED = {
 "C01": ("proof", "history_refines: for every finite history the tree machine (Go's recursiveSet/recursiveRemove/balance/get/has/getByIndex/range walk) answers exactly as the versioned map - proved by induction over operations for any lawful key order; the model is tied to /repo by running the compiled model and the real library on generated and corpus histories over the option grid (cache, fast index, flush threshold, backend, initial version) and comparing every answer", "5.C01", T_PROOF),
 "C02": ("proof", "the canonical hash is the model's hashNode over the version machine's trees (independent implementation incl. SHA-256 written in Lean); proved: working hash = commit hash, persisted hash independent of query version, reads preserve state; every hash the library returns (commit, working, per retained version, after reopen/prune/rollback/import) is compared byte for byte", "5.C02", T_PROOF),
 "C03": ("proof", "proved for an arbitrary 32-byte hash: generated existence proofs compute the root hash for every tree and key, are complete for present keys, and are sound modulo an explicit hash collision; an executable model of the ics23 verifier (ExistenceProof.Verify, NonExistenceProof.Verify, CheckAgainstSpec, validateIavlOps, IsLeftMost/IsRightMost/IsLeftNeighbor for IavlSpec) is proved sound for non-membership (an accepted non-existence proof against the root of an ordered tree shows an absent key, or a collision) and excludes the opposite claim; completeness is proved too (the existence proof of every stored pair and the non-existence proof built for every absent key are accepted by the verifier model, for ordered AVL trees within the prefix window with non-empty keys and values); the verifier model is compared with the real ics23 verifier on every proof the library produced, genuine and mutated (about 60000 verdicts per quick run); generated proof bytes and the real verifier's verdicts are compared on every history", "5.C03", T_PROOF),
 "C04": ("proof", "version-machine theorems (deletion removes exactly versions <= n, later versions and working state untouched, deleting the latest rejected) + orphans_exact (the two-cursor diff deletes exactly the nodes the next version does not use); the storage machine under small flush thresholds is tied by correspondence over prune-heavy histories incl. raw-store audit", "5.C04", T_PROOF),
 "C05": ("fault_enumeration", "exhaustive enumeration, on the implementation's own recorded write log, of every boundary between two physical writes of every mutating operation: reopen on the image, Load, all versions by tree walk and through the index, retry of the operation; judged against the states before/after. Lean contributes flush_split_same_result / cut_image (splitting a batch never changes the result; a cut image is a prefix image). Multi-batch operations are NOT atomic on the unchanged tree (K7, K7c recorded)", "5.C05", "crash-cut enumeration on the implementation + Lean lemma on batch splitting"),
 "C07": ("proof", "overlay-merge theorems (members and order of the index-plus-uncommitted iterator) and index_overlay_coherent: after any history of sets, removals, commits and discards the index with its uncommitted additions/removals answers lookups like the working map, iterates the working contents and persists exactly the committed contents; index coherence across build / disable / re-enable / older-version loads / rollback is decided by correspondence: every indexed answer (Get, GetVersioned, iterators) against the model of the tree walk, and the raw f-entries + label against the latest version", "5.C07", T_PROOF),
 "C08": ("proof", "walk_eq_spec: the pruned tree walk yields exactly rangeSpec for all bounds, both directions, inclusive or not; overlay iterator = overlaid state; the three iterator implementations and the callback/stop variants are compared with the model on generated bounds", "5.C08", T_PROOF),
 "C09": ("proof", "version-machine theorems for Rollback, LoadVersionForOverwriting and DeleteVersionsFrom (exactly the versions above the target disappear, working state = target); equality of all later observations follows from determinism of the machine; tied by correspondence incl. fast index on/off and reopen", "5.C09", T_PROOF),
 "C10": ("proof", "importer modelled as a total state machine: proved that Add and the decompressor never reach a Go panic for any node on any stack, import(export t) = t for persisted AVL trees, delta codec lossless; export streams (plain/compressed), import of genuine and hostile streams (result class, visibility, later hashes) compared with the model; every failing batch write of an import of more than 10000 nodes is enumerated (no hang, no silent success)", "5.C10", T_PROOF),
 "C11": ("proof", "AVL preservation by set/remove with exact stored heights and sizes, fib(h+2) <= n, lookup by key = (rank, value), lookup by rank = i-th pair: proved; with only the root in memory a lookup by key fetches <= height nodes, by rank <= 2*height, a proof query <= 10*height: proved on the model of the child fetches; height/size/rank answers and the exact storage-read counts (cache 0) are compared with the model, the real-valued AVL bound is checked on every reported pair", "5.C11", T_PROOF),
 "C12": ("proof", "the raw storage after every step is decoded by the model's proved-inverse decoder and audited against the model's retained versions (every retained tree rebuilt through root markers and child links equals the reference, no unreachable node, index = latest pairs); orphan-diff exactness proved", "5.C12", T_PROOF),
 "C13": ("proof", "round-trip theorems for the node codec (new and legacy child references, mode bits, range checks), legacy nodes, fast nodes, zig-zag varints, length-prefixed bytes, Go's uvarint with overflow checks, and decoded length <= input length; the model's total decoders are compared with MakeNode / MakeLegacyNode / fastnode.DeserializeNode / the varint and bytes decoders / the reference-root reader on structured, mutated and random inputs (result class and every decoded field), the library-written database is decoded and audited by the model after every step (C12 machinery), and conversely the model's independent encoder writes a database image of a retained version which the library opens, reads, proves, exports and extends with further commits (hashes compared)", "5.C13", T_PROOF),
 "C14": ("proof", "version-machine theorems (query agreement, commit onto an existing version succeeds iff same hash and changes nothing, new commit appends exactly one version, out-of-range loads fail and leave the machine unchanged) + correctness of the first-version binary search under root-key monotonicity; tied by correspondence with every version number queried", "5.C14", T_PROOF),
 "C15": ("proof", "apply_changeset: for all ordered trees under the sharing invariant of path-copying writes, applying the extracted change set (new leaves merged in key order with vanished leaves) to the predecessor's contents gives the version's contents; changeset_effect: each key once, ascending, a set wins over a deletion; changeset_of_every_history: the sharing invariant holds in every reachable state of the version machine, so the statement holds for every retained pair of consecutive versions of every history. TraverseStateChanges / SaveChangeSet are compared with this executable specification on every history (repeated writes of a key, set-then-remove, rewrites of identical values, no-op versions) and by replaying extracted change sets into an empty tree", "5.C15", T_PROOF),
 "C17": ("fault_enumeration", "single-fault enumeration: every storage call (Get, Has, iterator creation/step, batch Set/Delete/Write) of every operation fails in turn; outcome must be an error or the fault-free answer, and the store left by a failed write must reopen to before/after; reference answers come from the model", "5.C17", "fault enumeration on the implementation, reference answers from the Lean model"),
 "C18": ("proof", "the contract is the sorted-map machine kvStep; proved: namespace = half-open range up to the cut incremented prefix for every non-empty prefix (0xFF runs included) and the counterexample for the former same-length bound, no empty key / nil value stored, reads pure; MemDB, GoLevelDB, PrefixDB over both are run on identical generated programs (0x00/0xFF alphabet, foreign neighbour keys, batches) and compared with the contract and with each other", "5.C18", T_PROOF),
}

CLAIMED["C19"] = ("translation_validation", "the SQLite-backed v2 tree is run on normal-form histories (at most one write or removal per key per version, empty versions, trees shrinking to empty) over the option grid (checkpoint interval, height filter, eviction depth, sharding) and every commit hash, lookup, existence test, size, height and forward / reverse / inclusive iteration is compared with the Lean model of v1 (itself proved equal to the versioned map, C01, and hashing canonically, C02); no v2-specific theorem yet (v2_eq_v1 is a goal)", "5.C19", "v2 implementation vs the proved v1 model on generated histories")
CLAIMED["C20"] = ("translation_validation", "close / reopen / LoadVersion of every retained version (on, just after and far after a checkpoint), continuing the history after a restart at the latest version, DeleteVersionsTo followed by reopen, SaveSnapshot+LoadSnapshot and Export(pre/post)+WriteSnapshot+LoadSnapshot: hash and contents compared with the model of that version; K22 (continuing from an older version) recorded", "5.C20", "v2 implementation vs the proved v1 model on generated histories")

CLAIMED["C16"] = ("translation_validation", "legacy databases are written by the real legacy library (iavl v0.20.0, the version cmd/legacydump pins) from generated histories with and without legacy-side deletions; the current library opens them and every legacy version's contents and root hash, new commits on top, commits without writes on a legacy root, pruning below/at/above the boundary, rollback into the legacy range and reopenings are compared with the model's predictions; legacy codec round trips proved; K24 (converted-root key clash) recorded", "5.C16", "legacy library as producer + current library vs the Lean model on generated histories")

CLAIMED["C06"] = ("exploration", "PARTIAL. Proved on the model: committed versions are values untouched by later writes, commits and deletions of other versions. Searched on the implementation, not proved: (a) yield-point schedules - every commit and deletion of every generated history is parked at each protocol boundary (before/after the batch commit, after the reader check and after each per-version step of pruning) while every other committed version is read through the reader API and compared with the reads taken before the operation; a reader parked between its index check and the creation of its iterator while the next version is committed; export-pin checks (pinned before / after the reader check, double close); (b) 4 readers against 1 writer under the Go race detector (sync and async pruning, cache on/off, fast index on/off). Data-race freedom and interleavings below yield-point granularity cannot be carried by the Lean model", "5.C06", "yield-point schedule exploration + race detector; Lean lemma on immutability of committed versions")

NA = {
}


def main():
    m = {
        "version": 1,
        "setup_cmd": "bin/setup",
        "hooks": {"guard": "verif",
                  "enable": "go build -tags verif (harness modules use `replace github.com/cosmos/iavl => /repo`)",
                  "baseline_off_cmd": "cd /repo && for m in . cmd v2; do (cd $m && GOFLAGS=-mod=mod go test -vet=off -count=1 -timeout 25m ./...); done",
                  "source_commits": ["verif hooks: VerifFacts and no-op yield points (build tag verif)", "verif hooks: re-export internal decoders and node fields (build tag verif)", "verif hooks: yield point before the commit of SaveVersion (build tag verif)", "verif hooks: yield point between the index check and the creation of an index-backed iterator (build tag verif)", "verif hooks: yield point after the fast-index changes of SaveVersion are staged (build tag verif)"],
                  "add_only": True},
        "engines": [
            {"name": "lean-model", "path": "lean", "serves_properties": sorted(CLAIMED), "kind_free_text": "Lean 4 model, theorems (Iavl/Props), compiled driver"},
            {"name": "legacygen", "path": "harness/legacygen", "serves_properties": ["C16"], "kind_free_text": "Go program linking the legacy library iavl v0.20.0 to write legacy-format databases"},
            {"name": "harness-v2", "path": "harness/v2", "serves_properties": ["C19", "C20"], "kind_free_text": "Go correspondence harness for iavl/v2 (cgo sqlite), build tag verif"},
            {"name": "harness-v1", "path": "harness/v1", "serves_properties": sorted(CLAIMED), "kind_free_text": "Go correspondence harness (modes exec, kv, crash, fault), build tag verif"}],
        "checks": [],
        "not_applicable": [{"property_id": k, "reason": v} for k, v in sorted(NA.items())],
        "notes": "See DESIGN.md. Every check is `bin/check Cxx`; it rebuilds the harness and the model facts from /repo's current tree. Genuine defects found are in known_findings.json (fixed ones as `fix:` commits in /repo).",
    }
    for k, (cat, txt, ref, tech) in sorted(CLAIMED.items()):
        m["checks"].append({
            "property_id": k, "quick_cmd": "bin/check %s --tier quick" % k, "thorough_cmd": "bin/check %s --tier thorough" % k,
            "evidence_file": "/verif/evidence/%s.json" % k, "replay_cmd_template": "bin/check %s --replay {path}" % k,
            "engine": "lean-model", "level_claimed": {"category": cat, "text": txt, "design_ref": ref},
            "level_note": NOTE, "technique": tech})
    json.dump(m, open(os.path.join(ROOT, "MANIFEST.json"), "w"), indent=1)
    json.dump({k: v[0] for k, v in CLAIMED.items()}, open(os.path.join(ROOT, "lib", "levels.json"), "w"), indent=1)


if __name__ == "__main__":
    main()
