import json
claimed = {
 "C01": ("history_refines: for every finite history the tree machine (Go's recursiveSet/recursiveRemove/balance/get/has/getByIndex/range walk) answers exactly as the versioned map — proved by induction over operations for any lawful key order; the model is tied to /repo by running the compiled model and the real library on generated and corpus histories over the option grid (cache, fast index, flush threshold, backend, initial version) and comparing every answer", "5.C01"),
 "C02": ("the canonical hash is the model's hashNode over the version machine's trees (independent implementation incl. SHA-256 written in Lean); proved: working hash = commit hash, persisted hash independent of query version, reads preserve state; every hash the library returns (commit, working, per retained version, after reopen/prune/rollback) is compared byte for byte", "5.C02"),
 "C03": ("proved for an arbitrary 32-byte hash: generated existence proofs compute the root hash for every tree and key, are complete for present keys, and are sound modulo an explicit hash collision; non-membership construction and the real ics23 verifier's verdict (genuine and mutated claims, other roots) are tied by correspondence", "5.C03"),
 "C04": ("version-machine theorems (deletion removes exactly versions <= n, later versions and working state untouched, deleting the latest rejected) + orphans_exact (the two-cursor diff deletes exactly the nodes the next version does not use); the storage machine under small flush thresholds is tied by correspondence over prune-heavy histories", "5.C04"),
 "C07": ("overlay-merge theorems (members and order of the index-plus-uncommitted iterator); index coherence across build / disable / re-enable / older-version loads / rollback is decided by correspondence: every indexed answer (Get, GetVersioned, iterators) against the model of the tree walk", "5.C07"),
 "C08": ("walk_eq_spec: the pruned tree walk yields exactly rangeSpec for all bounds, both directions, inclusive or not; overlay iterator = overlaid state; the three iterator implementations and the callback/stop variants are compared with the model on generated bounds", "5.C08"),
 "C09": ("version-machine theorems for Rollback, LoadVersionForOverwriting and DeleteVersionsFrom (exactly the versions above the target disappear, working state = target); twin-equivalence of all later observations follows from determinism of the machine; tied by correspondence incl. fast index on/off and reopen", "5.C09"),
 "C14": ("version-machine theorems (query agreement, commit onto an existing version succeeds iff same hash and changes nothing, new commit appends exactly one version, out-of-range loads fail and leave the machine unchanged) + correctness of the first-version binary search under root-key monotonicity; tied by correspondence with every version number queried", "5.C14"),
}
claimed.update({
 "C10": ("importer modelled as a total state machine: proved that Add and the decompressor never reach a Go panic for any node on any stack, import(export t) = t for persisted AVL trees, delta codec lossless; export streams (plain/compressed), import of genuine and hostile streams (result class, visibility, later hashes) compared with the model", "5.C10"),
 "C11": ("AVL preservation by set/remove with exact stored heights and sizes, fib(h+2) <= n, lookup by key = (rank, value), lookup by rank = i-th pair: proved; height/size/rank answers compared with the model, AVL real-valued bound and storage-read counts (cache 0) checked on the implementation", "5.C11"),
 "C12": ("the raw storage after every step is decoded by the model's proved-inverse decoder and audited against the model's retained versions (every retained tree rebuilt through root markers and child links equals the reference, no unreachable node, index = latest pairs); orphan-diff exactness proved", "5.C12"),
})
claimed["C18"] = ("the contract is the sorted-map machine kvStep; proved: namespace = half-open range up to the cut incremented prefix for every non-empty prefix (0xFF runs included) and the counterexample for the former same-length bound, no empty key / nil value stored, reads pure; MemDB, GoLevelDB, PrefixDB over both are run on identical generated programs (0x00/0xFF alphabet, foreign neighbour keys, batches) and compared with the contract and with each other", "5.C18")
na = {
 "C05": "check not built yet in this session (crash-cut enumeration planned, DESIGN 5.C05)",
 "C06": "check not built yet in this session (schedule exploration via verif yield hooks planned, DESIGN 5.C06)",
 "C13": "check not built yet in this session", "C15": "check built (correspondence with the executable change-set specification); theorems pending, not claimed yet", "C16": "check not built yet in this session",
 "C17": "check not built yet in this session",
 "C19": "check not built yet in this session", "C20": "check not built yet in this session",
}
import os
if os.path.exists('/tmp/na_override.json'):
    na = json.load(open('/tmp/na_override.json'))
base_cmd = "for m in . ; do (cd /repo/$m && go test -vet=off -count=1 -timeout 25m ./...); done"
m = {
 "version": 1,
 "setup_cmd": "bin/setup",
 "hooks": {"guard": "verif", "enable": "go build -tags verif (harness modules replace github.com/cosmos/iavl => /repo)",
           "baseline_off_cmd": "cd /repo && for m in . cmd v2; do (cd $m && GOFLAGS=-mod=mod go test -vet=off -count=1 -timeout 25m ./...); done",
           "source_commits": ["verif hooks: VerifFacts and no-op yield points (build tag verif)"], "add_only": True},
 "engines": [{"name": "lean-model", "path": "lean", "serves_properties": sorted(claimed), "kind_free_text": "Lean 4 model + theorems + compiled driver"},
             {"name": "harness-v1", "path": "harness/v1", "serves_properties": sorted(claimed), "kind_free_text": "Go correspondence harness (build tag verif)"}],
 "checks": [], "not_applicable": [{"property_id": k, "reason": v} for k, v in sorted(na.items())],
 "notes": "See DESIGN.md. Every check is `bin/check Cxx`; it rebuilds the harness and the model facts from /repo's current tree.",
}
for k,(txt,ref) in sorted(claimed.items()):
    m["checks"].append({
      "property_id": k, "quick_cmd": "bin/check %s --tier quick" % k, "thorough_cmd": "bin/check %s --tier thorough" % k,
      "evidence_file": "/verif/evidence/%s.json" % k, "replay_cmd_template": "bin/check %s --replay {path}" % k,
      "engine": "lean-model", "level_claimed": {"category": "proof", "text": txt, "design_ref": ref},
      "level_note": "Trusted: Lean kernel (axioms propext, Classical.choice, Quot.sound only; audited each run); the hand-written model is tied to the code by differential execution (harness + compiled model driver), so assurance outside the explored histories rests on the model being faithful; SHA-256 in Lean is compared, not proved; caches, logging, durability of the backends are not modelled.",
      "technique": "Lean 4 theorem (induction/refinement) + model-vs-implementation correspondence on generated histories"})
json.dump(m, open('/verif/MANIFEST.json','w'), indent=1)
