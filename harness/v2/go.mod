module verif/h2

go 1.23.0

require github.com/cosmos/iavl/v2 v2.0.0

require (
	github.com/aybabtme/uniplot v0.0.0-20151203143629-039c559e5e7e // indirect
	github.com/beorn7/perks v1.0.1 // indirect
	github.com/bvinc/go-sqlite-lite v0.6.1 // indirect
	github.com/cespare/xxhash/v2 v2.3.0 // indirect
	github.com/cosmos/iavl-bench/bench v0.0.4 // indirect
	github.com/dustin/go-humanize v1.0.1 // indirect
	github.com/emicklei/dot v1.8.0 // indirect
	github.com/klauspost/compress v1.18.0 // indirect
	github.com/kocubinski/costor-api v1.1.2 // indirect
	github.com/mattn/go-colorable v0.1.13 // indirect
	github.com/mattn/go-isatty v0.0.20 // indirect
	github.com/munnerz/goautoneg v0.0.0-20191010083416-a7dc8b61c822 // indirect
	github.com/prometheus/client_golang v1.21.1 // indirect
	github.com/prometheus/client_model v0.6.1 // indirect
	github.com/prometheus/common v0.62.0 // indirect
	github.com/prometheus/procfs v0.15.1 // indirect
	github.com/rs/zerolog v1.33.0 // indirect
	github.com/spf13/cobra v1.9.1 // indirect
	github.com/spf13/pflag v1.0.6 // indirect
	golang.org/x/sys v0.31.0 // indirect
	google.golang.org/protobuf v1.36.6 // indirect
)

replace github.com/cosmos/iavl/v2 => /repo/v2
