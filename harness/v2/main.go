package main

// Correspondence harness for cosmos/iavl/v2 (C19, C20): the same line protocol as harness/v1,
// restricted to what v2 offers. `cfg ckpt=<interval> hf=<height filter> ed=<eviction depth> shard=0|1`.

import (
	"bufio"
	"context"
	"encoding/hex"
	"fmt"
	"os"
	"strconv"
	"strings"
	"time"

	iavl "github.com/cosmos/iavl/v2"
	"github.com/cosmos/iavl/v2/metrics"
)

func enc(b []byte) string {
	if b == nil {
		return "-"
	}
	return "x" + hex.EncodeToString(b)
}

func dec(s string) []byte {
	if s == "-" {
		return nil
	}
	b, err := hex.DecodeString(s[1:])
	if err != nil {
		panic(err)
	}
	if b == nil {
		b = []byte{}
	}
	return b
}

func atoi(s string) int64 {
	n, err := strconv.ParseInt(s, 10, 64)
	if err != nil {
		panic(err)
	}
	return n
}

type session struct {
	ckpt  int64
	hf    int8
	ed    int8
	shard bool
	dir   string
	tree  *iavl.Tree
	pool  *iavl.NodePool
}

var workdir string

func (s *session) reset() {
	s.closeTree()
	if s.dir != "" {
		os.RemoveAll(s.dir)
		s.dir = ""
	}
	s.ckpt, s.hf, s.ed, s.shard = 1000, 1, -1, false
}

func (s *session) closeTree() {
	if s.tree != nil {
		func() {
			defer func() { recover() }()
			s.tree.Close()
		}()
		s.tree = nil
	}
}

func (s *session) open() error {
	s.closeTree()
	if s.dir == "" {
		d, err := os.MkdirTemp(workdir, "v2")
		if err != nil {
			return err
		}
		s.dir = d
	}
	s.pool = iavl.NewNodePool()
	so := iavl.SqliteDbOptions{Path: s.dir, ShardTrees: s.shard}
	if os.Getenv("VERIF_DEBUG") != "" {
		so.Logger = iavl.NewDebugLogger()
	}
	sql, err := iavl.NewSqliteDb(s.pool, so)
	if err != nil {
		return err
	}
	s.tree = iavl.NewTree(sql, s.pool, iavl.TreeOptions{CheckpointInterval: s.ckpt, HeightFilter: s.hf, StateStorage: true,
		EvictionDepth: s.ed, MetricsProxy: &metrics.NilMetrics{}})
	return nil
}

func b2s(b bool) string {
	if b {
		return "1"
	}
	return "0"
}

func drain(it iavl.Iterator, err error) string {
	if err != nil {
		return "err"
	}
	var sb strings.Builder
	sb.WriteString("[")
	n := 0
	for ; it.Valid(); it.Next() {
		if n > 0 {
			sb.WriteString(" ")
		}
		sb.WriteString(enc(it.Key()) + "=" + enc(it.Value()))
		n++
		if n > 100000 {
			return "runaway"
		}
	}
	sb.WriteString("]")
	if it.Error() != nil {
		return "err"
	}
	it.Close()
	return sb.String() + " valid=0"
}

func (s *session) exec(args []string) string {
	switch args[0] {
	case "new":
		s.reset()
		return "ok"
	case "vrange": // vrange <v1,v2,...|-> <version>: VersionRange built by Add, then FindPrevious (C20: Model/V2Log.lean)
		var r iavl.VersionRange
		if args[1] != "-" {
			for _, tok := range strings.Split(args[1], ",") {
				if err := r.Add(atoi(tok)); err != nil {
					return "err-add"
				}
			}
		}
		return fmt.Sprint(r.FindPrevious(atoi(args[2])), " ", r.Find(atoi(args[2])))
	case "cfg":
		for _, a := range args[1:] {
			kv := strings.SplitN(a, "=", 2)
			switch kv[0] {
			case "ckpt":
				s.ckpt = atoi(kv[1])
			case "hf":
				s.hf = int8(atoi(kv[1]))
			case "ed":
				s.ed = int8(atoi(kv[1]))
			case "shard":
				s.shard = kv[1] == "1"
			}
		}
		return "ok"
	case "open": // open [version]: (re)open the database and load the version (0 / absent = fresh tree)
		if err := s.open(); err != nil {
			return "err"
		}
		if len(args) > 1 && args[1] != "0" {
			if err := s.tree.LoadVersion(atoi(args[1])); err != nil {
				return "err"
			}
			return fmt.Sprintf("ver=%d", s.tree.Version())
		}
		return "ver=0"
	case "close":
		s.closeTree()
		return "ok"
	}
	t := s.tree
	if t == nil {
		return "notree"
	}
	switch args[0] {
	case "set":
		upd, err := t.Set(dec(args[1]), dec(args[2]))
		if err != nil {
			return "err"
		}
		return "upd=" + b2s(upd)
	case "rm":
		v, removed, err := t.Remove(dec(args[1]))
		if err != nil {
			return "err"
		}
		if !removed {
			return "rm=0"
		}
		return "rm=1 " + enc(v)
	case "save":
		h, v, err := t.SaveVersion()
		if err != nil {
			if os.Getenv("VERIF_DEBUG") != "" {
				fmt.Fprintln(os.Stderr, "save error:", err)
			}
			return "err"
		}
		return fmt.Sprintf("ver=%d hash=%s", v, enc(h))
	case "get":
		v, err := t.Get(dec(args[1]))
		if err != nil {
			return "err"
		}
		return enc(v)
	case "has":
		b, err := t.Has(dec(args[1]))
		if err != nil {
			return "err"
		}
		return b2s(b)
	case "size":
		return fmt.Sprint(t.Size())
	case "height":
		return fmt.Sprint(t.Height())
	case "lhash", "chash":
		return enc(t.Hash())
	case "version":
		return fmt.Sprint(t.Version())
	case "iter": // iter S E asc|desc ; irangeinc S E asc = inclusive ascending
		if args[3] == "asc" {
			return drain(t.Iterator(dec(args[1]), dec(args[2]), false))
		}
		return drain(t.ReverseIterator(dec(args[1]), dec(args[2])))
	case "iterinc":
		return drain(t.Iterator(dec(args[1]), dec(args[2]), true))
	case "prune": // DeleteVersionsTo is asynchronous: wait for the pruning loops to drain
		if err := t.DeleteVersionsTo(atoi(args[1])); err != nil {
			return "err"
		}
		time.Sleep(800 * time.Millisecond)
		return "ok"
	case "snapshot":
		if err := t.SaveSnapshot(); err != nil {
			return "err"
		}
		return "ok"
	case "xsnap": // xsnap <version> pre|post: Export in that order -> WriteSnapshot into a fresh database -> LoadSnapshot there
		order := iavl.PreOrder
		if args[2] == "post" {
			order = iavl.PostOrder
		}
		if t.Version() != atoi(args[1]) {
			return "bad-version"
		}
		exp := t.Export(order)
		d2, err := os.MkdirTemp(workdir, "v2s")
		if err != nil {
			return "err"
		}
		pool2 := iavl.NewNodePool()
		sql2, err := iavl.NewSqliteDb(pool2, iavl.SqliteDbOptions{Path: d2, ShardTrees: s.shard})
		if err != nil {
			return "err"
		}
		if _, err := sql2.WriteSnapshot(context.Background(), t.Version(), exp.Next,
			iavl.SnapshotOptions{StoreLeafValues: true, WriteCheckpoint: true, TraverseOrder: order}); err != nil {
			sql2.Close()
			return "err:write"
		}
		ver := t.Version()
		s.closeTree()
		os.RemoveAll(s.dir)
		s.dir = d2
		s.pool = pool2
		s.tree = iavl.NewTree(sql2, pool2, iavl.TreeOptions{CheckpointInterval: s.ckpt, HeightFilter: s.hf, StateStorage: true,
			EvictionDepth: s.ed, MetricsProxy: &metrics.NilMetrics{}})
		if err := s.tree.LoadSnapshot(ver, order); err != nil {
			return "err:load"
		}
		return fmt.Sprintf("ver=%d", s.tree.Version())
	case "loadsnap": // loadsnap <version> pre|post : into a fresh Tree object on the same database
		order := iavl.PreOrder
		if args[2] == "post" {
			order = iavl.PostOrder
		}
		if err := s.open(); err != nil {
			return "err"
		}
		if err := s.tree.LoadSnapshot(atoi(args[1]), order); err != nil {
			return "err"
		}
		return fmt.Sprintf("ver=%d", s.tree.Version())
	}
	return "bad"
}

func main() {
	var err error
	workdir, err = os.MkdirTemp("", "verif-h2-")
	if err != nil {
		panic(err)
	}
	defer os.RemoveAll(workdir)
	if len(os.Args) < 3 || os.Args[1] != "exec" {
		fmt.Fprintln(os.Stderr, "usage: h2 exec <file> [start]")
		os.Exit(2)
	}
	f, err := os.Open(os.Args[2])
	if err != nil {
		panic(err)
	}
	defer f.Close()
	out := bufio.NewWriterSize(os.Stdout, 1<<16)
	defer out.Flush()
	s := &session{}
	s.reset()
	sc := bufio.NewScanner(f)
	sc.Buffer(make([]byte, 1<<20), 1<<26)
	start := 0
	if len(os.Args) > 3 {
		start = int(atoi(os.Args[3]))
	}
	lineNo := 0
	for sc.Scan() {
		line := sc.Text()
		lineNo++
		if lineNo <= start || line == "" || line[0] == '#' {
			continue
		}
		args := strings.Fields(line)
		res := guarded(out, func() string { return s.exec(args) })
		fmt.Fprintf(out, "%d %s => %s\n", lineNo, line, res)
		out.Flush()
	}
	s.reset()
}

func guarded(out *bufio.Writer, f func() string) (res string) {
	done := make(chan struct{})
	go func() {
		select {
		case <-done:
		case <-time.After(60 * time.Second):
			out.Flush()
			fmt.Fprintln(os.Stderr, "watchdog: operation hangs")
			os.Exit(3)
		}
	}()
	defer close(done)
	defer func() {
		if r := recover(); r != nil {
			res = "panic"
			if os.Getenv("VERIF_DEBUG") != "" {
				fmt.Fprintln(os.Stderr, "panic:", r)
			}
		}
	}()
	return f()
}
