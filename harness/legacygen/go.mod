module verif/legacygen

go 1.23.0

require (
	github.com/cometbft/cometbft-db v0.7.0
	github.com/cosmos/iavl v0.20.0
)

require (
	github.com/cespare/xxhash v1.1.0 // indirect
	github.com/confio/ics23/go v0.9.0 // indirect
	github.com/dgraph-io/badger/v2 v2.2007.4 // indirect
	github.com/dgraph-io/ristretto v0.0.3-0.20200630154024-f66de99634de // indirect
	github.com/dgryski/go-farm v0.0.0-20190423205320-6a90982ecee2 // indirect
	github.com/dustin/go-humanize v1.0.0 // indirect
	github.com/gogo/protobuf v1.3.2 // indirect
	github.com/golang/protobuf v1.5.2 // indirect
	github.com/golang/snappy v0.0.4 // indirect
	github.com/google/btree v1.1.2 // indirect
	github.com/jmhodges/levigo v1.0.0 // indirect
	github.com/klauspost/compress v1.15.9 // indirect
	github.com/pkg/errors v0.9.1 // indirect
	github.com/syndtr/goleveldb v1.0.1-0.20200815110645-5c35d600f0ca // indirect
	github.com/tecbot/gorocksdb v0.0.0-20191217155057-f0fad39f321c // indirect
	go.etcd.io/bbolt v1.3.6 // indirect
	golang.org/x/crypto v0.36.0 // indirect
	golang.org/x/net v0.38.0 // indirect
	golang.org/x/sys v0.31.0 // indirect
	google.golang.org/protobuf v1.33.0 // indirect
)
