package main

// legacygen: writes databases in the legacy (pre-1.0, hash-keyed) node format with the real legacy
// library (iavl v0.20.0, the version cmd/legacydump pins) from the legacy phase of a history, and
// records what that library reported (version numbers, root hashes).
//
// usage: legacygen <history-file> <out-dir>
// Lines between `new <id>` and `adopt` are executed: set / rm / save / ldel <v> / ldelrange <a> <b>.
// The database of history <id> is written to <out-dir>/<id>/test.db (goleveldb).

import (
	"bufio"
	"encoding/hex"
	"fmt"
	"os"
	"path/filepath"
	"strconv"
	"strings"

	dbm "github.com/cometbft/cometbft-db"
	"github.com/cosmos/iavl"
)

func enc(b []byte) string {
	if b == nil {
		return "-"
	}
	return "x" + hex.EncodeToString(b)
}

func dec(s string) []byte {
	if s == "-" {
		return nil
	}
	b, err := hex.DecodeString(s[1:])
	if err != nil {
		panic(err)
	}
	if b == nil {
		b = []byte{}
	}
	return b
}

func atoi(s string) int64 {
	n, err := strconv.ParseInt(s, 10, 64)
	if err != nil {
		panic(err)
	}
	return n
}

func main() {
	f, err := os.Open(os.Args[1])
	if err != nil {
		panic(err)
	}
	defer f.Close()
	outDir := os.Args[2]
	out := bufio.NewWriter(os.Stdout)
	defer out.Flush()
	sc := bufio.NewScanner(f)
	sc.Buffer(make([]byte, 1<<20), 1<<26)
	var db dbm.DB
	var t *iavl.MutableTree
	active := false
	lineNo := 0
	closeAll := func() {
		if db != nil {
			db.Close()
			db = nil
		}
		t = nil
	}
	for sc.Scan() {
		line := sc.Text()
		lineNo++
		if line == "" || line[0] == '#' {
			continue
		}
		a := strings.Fields(line)
		res := ""
		func() {
			defer func() {
				if r := recover(); r != nil {
					res = "panic"
				}
			}()
			switch a[0] {
			case "new":
				closeAll()
				active = false
				if len(a) < 3 || a[2] != "legacy" {
					return
				}
				dir := filepath.Join(outDir, a[1])
				os.MkdirAll(dir, 0o755)
				db, err = dbm.NewDB("test", dbm.GoLevelDBBackend, dir)
				if err != nil {
					panic(err)
				}
				t, err = iavl.NewMutableTreeWithOpts(db, 100, nil, true)
				if err != nil {
					panic(err)
				}
				if _, err := t.Load(); err != nil {
					panic(err)
				}
				active = true
				res = "ok"
			case "adopt":
				if active {
					closeAll()
					active = false
				}
				return
			default:
				if !active {
					return
				}
				switch a[0] {
				case "cfg":
					res = "ok"
				case "set":
					upd, err := t.Set(dec(a[1]), dec(a[2]))
					if err != nil {
						res = "err"
					} else if upd {
						res = "upd=1"
					} else {
						res = "upd=0"
					}
				case "rm":
					v, removed, err := t.Remove(dec(a[1]))
					if err != nil {
						res = "err"
					} else if !removed {
						res = "rm=0"
					} else {
						res = "rm=1 " + enc(v)
					}
				case "save":
					h, v, err := t.SaveVersion()
					if err != nil {
						res = "err"
					} else {
						res = fmt.Sprintf("ver=%d hash=%s", v, enc(h))
					}
				case "ldel":
					if err := t.DeleteVersion(atoi(a[1])); err != nil {
						res = "err"
					} else {
						res = "ok"
					}
				case "ldelrange":
					if err := t.DeleteVersionsRange(atoi(a[1]), atoi(a[2])); err != nil {
						res = "err"
					} else {
						res = "ok"
					}
				default:
					res = "bad"
				}
			}
		}()
		if res != "" {
			fmt.Fprintf(out, "%d %s => %s\n", lineNo, line, res)
		}
	}
	closeAll()
}
