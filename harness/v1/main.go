package main

// Correspondence harness for cosmos/iavl (v1). Reads histories (one operation per line), executes
// them against the real library built from /repo's working tree and prints `<line> => <result>`.
// See /verif/DESIGN.md §2.2 for the line protocol.

import (
	"bufio"
	"encoding/hex"
	"fmt"
	"os"
	"path/filepath"
	"strconv"
	"strings"
	"time"

	corestore "cosmossdk.io/core/store"
	"github.com/cosmos/iavl"
	"github.com/cosmos/iavl/fastnode"
	idb "github.com/cosmos/iavl/db"
	ics23 "github.com/cosmos/ics23/go"
)

// ---------- encoding helpers ----------

func enc(b []byte) string {
	if b == nil {
		return "-"
	}
	return "x" + hex.EncodeToString(b)
}

func dec(s string) []byte {
	if s == "-" {
		return nil
	}
	if !strings.HasPrefix(s, "x") {
		panic("bad bytes token " + s)
	}
	b, err := hex.DecodeString(s[1:])
	if err != nil {
		panic(err)
	}
	if b == nil {
		b = []byte{}
	}
	return b
}

func atoi(s string) int64 {
	n, err := strconv.ParseInt(s, 10, 64)
	if err != nil {
		panic(err)
	}
	return n
}

// ---------- state ----------

type config struct {
	db    string // mem | ldb | pfx:<hex>
	cache int
	fast  bool
	thr   int // 0 = default
	iv    int64 // -1 = unset
	sync  bool
	async bool
}

type session struct {
	cfg     config
	backend corestore.KVStoreWithBatch // the raw backend (kept across reopen)
	rec     *recDB
	tree    *iavl.MutableTree
	dir     string
	streams map[string][]*iavl.ExportNode
	exporters map[string]*iavl.Exporter
	keepStreams bool
	legacyPhase bool
	legacyID    string
}

var workdir string

func (s *session) reset() {
	s.closeTree()
	if s.backend != nil {
		s.backend.Close()
		s.backend = nil
	}
	if s.dir != "" {
		os.RemoveAll(s.dir)
		s.dir = ""
	}
	s.rec = nil
	s.cfg = config{db: "mem", cache: 0, fast: true, thr: 0, iv: -1}
	if !s.keepStreams || s.streams == nil {
		s.streams = map[string][]*iavl.ExportNode{}
	}
	s.exporters = map[string]*iavl.Exporter{}
}

func (s *session) closeTree() {
	for _, e := range s.exporters {
		e.Close()
	}
	s.exporters = map[string]*iavl.Exporter{}
	if s.tree != nil {
		func() {
			defer func() { recover() }()
			s.tree.Close()
		}()
		s.tree = nil
	}
}

func (s *session) ensureBackend() {
	if s.backend != nil {
		return
	}
	switch {
	case s.cfg.db == "mem":
		s.backend = idb.NewMemDB()
	case s.cfg.db == "ldb":
		d, err := os.MkdirTemp(workdir, "ldb")
		if err != nil {
			panic(err)
		}
		s.dir = d
		l, err := idb.NewGoLevelDB("t", d)
		if err != nil {
			panic(err)
		}
		s.backend = l
	case strings.HasPrefix(s.cfg.db, "pfx:"):
		p := dec(s.cfg.db[4:])
		s.backend = idb.NewPrefixDB(idb.NewMemDB(), p)
	case strings.HasPrefix(s.cfg.db, "pfxl:"):
		p := dec(s.cfg.db[5:])
		d, err := os.MkdirTemp(workdir, "ldb")
		if err != nil {
			panic(err)
		}
		s.dir = d
		l, err := idb.NewGoLevelDB("t", d)
		if err != nil {
			panic(err)
		}
		s.backend = idb.NewPrefixDB(l, p)
	default:
		panic("bad db " + s.cfg.db)
	}
	s.rec = newRecDB(s.backend)
}

func (s *session) newTree() *iavl.MutableTree {
	s.ensureBackend()
	var opts []iavl.Option
	if s.cfg.thr > 0 {
		opts = append(opts, iavl.FlushThresholdOption(s.cfg.thr))
	}
	if s.cfg.iv >= 0 {
		opts = append(opts, iavl.InitialVersionOption(uint64(s.cfg.iv)))
	}
	if s.cfg.sync {
		opts = append(opts, iavl.SyncOption(true))
	}
	if s.cfg.async {
		opts = append(opts, iavl.AsyncPruningOption(true))
	}
	return iavl.NewMutableTree(s.rec, s.cfg.cache, !s.cfg.fast, iavl.NewNopLogger(), opts...)
}

// setCfgLenient: configuration given during the legacy phase (the backend is fixed by `adopt`)
func (s *session) setCfgLenient(args []string) {
	var rest []string
	for _, a := range args {
		if !strings.HasPrefix(a, "db=") {
			rest = append(rest, a)
		}
	}
	s.setCfg(rest)
}

func copyDir(src, dst string) error {
	return filepath.Walk(src, func(p string, info os.FileInfo, err error) error {
		if err != nil {
			return err
		}
		rel, _ := filepath.Rel(src, p)
		if info.IsDir() {
			return os.MkdirAll(filepath.Join(dst, rel), 0o755)
		}
		b, err := os.ReadFile(p)
		if err != nil {
			return err
		}
		return os.WriteFile(filepath.Join(dst, rel), b, 0o644)
	})
}

func (s *session) setCfg(args []string) {
	for _, a := range args {
		kv := strings.SplitN(a, "=", 2)
		switch kv[0] {
		case "db":
			if s.backend != nil && kv[1] != s.cfg.db {
				panic("db change after open")
			}
			s.cfg.db = kv[1]
		case "cache":
			s.cfg.cache = int(atoi(kv[1]))
		case "fast":
			s.cfg.fast = kv[1] == "1"
		case "thr":
			s.cfg.thr = int(atoi(kv[1]))
		case "iv":
			if kv[1] == "-" {
				s.cfg.iv = -1
			} else {
				s.cfg.iv = atoi(kv[1])
			}
		case "sync":
			s.cfg.sync = kv[1] == "1"
		case "async":
			s.cfg.async = kv[1] == "1"
		default:
			panic("bad cfg " + a)
		}
	}
}

// ---------- formatting ----------

func fmtPairs(ps [][2][]byte) string {
	var sb strings.Builder
	sb.WriteString("[")
	for i, p := range ps {
		if i > 0 {
			sb.WriteString(" ")
		}
		sb.WriteString(enc(p[0]) + "=" + enc(p[1]))
	}
	sb.WriteString("]")
	return sb.String()
}

func drain(it corestore.Iterator, err error) string {
	if err != nil {
		return "err"
	}
	var ps [][2][]byte
	for ; it.Valid(); it.Next() {
		ps = append(ps, [2][]byte{cp(it.Key()), cp(it.Value())})
		if len(ps) > 100000 {
			return "runaway"
		}
	}
	e := it.Error()
	it.Close()
	if e != nil {
		return "err"
	}
	v := "0"
	if it.Valid() {
		v = "1"
	}
	return fmtPairs(ps) + " valid=" + v
}

func fmtExist(e *ics23.ExistenceProof) string {
	if e == nil {
		return "nil"
	}
	var sb strings.Builder
	sb.WriteString("E(" + enc(e.Key) + " " + enc(e.Value) + " " + enc(e.Leaf.Prefix) + " [")
	for i, op := range e.Path {
		if i > 0 {
			sb.WriteString(" ")
		}
		sb.WriteString(enc(op.Prefix) + ":" + enc(nilToEmpty(op.Suffix)))
	}
	sb.WriteString("])")
	return sb.String()
}

func nilToEmpty(b []byte) []byte {
	if b == nil {
		return []byte{}
	}
	return b
}

func fmtProof(p *ics23.CommitmentProof) string {
	if p == nil {
		return "nil"
	}
	if e := p.GetExist(); e != nil {
		return "exist " + fmtExist(e)
	}
	if n := p.GetNonexist(); n != nil {
		return "nonexist " + enc(n.Key) + " L=" + fmtExist(n.Left) + " R=" + fmtExist(n.Right)
	}
	return "other"
}

// proof oracle: the verdict of the real ics23 verifier under IavlSpec on the genuine claim, and the
// number of false claims it accepts (other value, other key, opposite kind, other roots).
func proofOracle(t *iavl.ImmutableTree, p *ics23.CommitmentProof, key []byte, others []*iavl.ImmutableTree, helpers bool) string {
	root := t.Hash()
	pos, neg := 0, 0
	if e := p.GetExist(); e != nil {
		val := e.Value
		if ics23.VerifyMembership(ics23.IavlSpec, root, p, key, val) {
			pos = 1
		}
		if ics23.VerifyMembership(ics23.IavlSpec, root, p, key, append(cp(val), 1)) {
			neg++
		}
		if len(val) > 0 && ics23.VerifyMembership(ics23.IavlSpec, root, p, key, val[:len(val)-1]) {
			neg++
		}
		if ics23.VerifyMembership(ics23.IavlSpec, root, p, append(cp(key), 0), val) {
			neg++
		}
		if len(key) > 1 && ics23.VerifyMembership(ics23.IavlSpec, root, p, key[:len(key)-1], val) {
			neg++
		}
		if ics23.VerifyNonMembership(ics23.IavlSpec, root, p, key) {
			neg++
		}
		for _, o := range others {
			_, ov, _ := o.GetWithIndex(key)
			claimTrue := ov != nil && string(ov) == string(val)
			if !claimTrue && ics23.VerifyMembership(ics23.IavlSpec, o.Hash(), p, key, val) {
				neg++
			}
		}
	} else if n := p.GetNonexist(); n != nil {
		if ics23.VerifyNonMembership(ics23.IavlSpec, root, p, key) {
			pos = 1
		}
		if ics23.VerifyMembership(ics23.IavlSpec, root, p, key, []byte("v")) {
			neg++
		}
		// the same proof must not show absence of the neighbours themselves
		if n.Left != nil && ics23.VerifyNonMembership(ics23.IavlSpec, root, p, n.Left.Key) {
			neg++
		}
		if n.Right != nil && ics23.VerifyNonMembership(ics23.IavlSpec, root, p, n.Right.Key) {
			neg++
		}
		for _, o := range others {
			_, ov, _ := o.GetWithIndex(key)
			if ov != nil && ics23.VerifyNonMembership(ics23.IavlSpec, o.Hash(), p, key) {
				neg++
			}
		}
	}
	// the tree's own verification helpers must agree with the verdict on the genuine claim and refuse
	// the claim for a neighbouring key
	// (only for committed versions: on the uncommitted working tree the helpers read through
	// ImmutableTree.Get, which does not see uncommitted writes - outside the property)
	if !helpers {
		return fmt.Sprintf("v=%d neg=%d root=%s", pos, neg, enc(root))
	}
	tv := 0
	if ok, err := t.VerifyProof(p, key); err == nil && ok {
		tv = 1
	}
	if ok, err := t.VerifyProof(p, append(cp(key), 0)); err == nil && ok && p.GetExist() != nil {
		neg++
	}
	if p.GetExist() != nil {
		if ok, err := t.VerifyNonMembership(p, key); err == nil && ok {
			neg++
		}
	} else if ok, err := t.VerifyMembership(p, key); err == nil && ok {
		neg++
	}
	if tv != pos {
		neg += 100 // the helper disagrees with the verifier
	}
	return fmt.Sprintf("v=%d neg=%d root=%s", pos, neg, enc(root))
}

// ---------- read operations on an immutable tree ----------

type pairCollector struct {
	ps   [][2][]byte
	stop int
}

func (c *pairCollector) fn(k, v []byte) bool {
	c.ps = append(c.ps, [2][]byte{cp(k), cp(v)})
	return c.stop > 0 && len(c.ps) >= c.stop
}

func stopArg(args []string) int {
	for _, a := range args {
		if strings.HasPrefix(a, "stop=") {
			return int(atoi(a[5:]))
		}
	}
	return 0
}

func b2s(b bool) string {
	if b {
		return "1"
	}
	return "0"
}

func (s *session) immOp(t *iavl.ImmutableTree, args []string) string {
	switch args[0] {
	case "get":
		v, err := t.Get(dec(args[1]))
		if err != nil {
			return "err"
		}
		return enc(v)
	case "has":
		b, err := t.Has(dec(args[1]))
		if err != nil {
			return "err"
		}
		return b2s(b)
	case "gwi":
		i, v, err := t.GetWithIndex(dec(args[1]))
		if err != nil {
			return "err"
		}
		return fmt.Sprintf("%d %s", i, enc(v))
	case "gbi":
		k, v, err := t.GetByIndex(atoi(args[1]))
		if err != nil {
			return "err"
		}
		return enc(k) + " " + enc(v)
	case "size":
		return fmt.Sprint(t.Size())
	case "height":
		return fmt.Sprint(t.Height())
	case "version":
		return fmt.Sprint(t.Version())
	case "hash":
		return enc(t.Hash())
	case "iter":
		return drain(t.Iterator(dec(args[1]), dec(args[2]), args[3] == "asc"))
	case "iterate":
		c := &pairCollector{stop: stopArg(args)}
		st, err := t.Iterate(c.fn)
		if err != nil {
			return "err"
		}
		return fmtPairs(c.ps) + " stopped=" + b2s(st)
	case "irange":
		c := &pairCollector{stop: stopArg(args)}
		st := t.IterateRange(dec(args[1]), dec(args[2]), args[3] == "asc", c.fn)
		return fmtPairs(c.ps) + " stopped=" + b2s(st)
	case "irangeinc":
		c := &pairCollector{stop: stopArg(args)}
		var vers []string
		st := t.IterateRangeInclusive(dec(args[1]), dec(args[2]), args[3] == "asc", func(k, v []byte, ver int64) bool {
			vers = append(vers, fmt.Sprint(ver))
			return c.fn(k, v)
		})
		return fmtPairs(c.ps) + " stopped=" + b2s(st) + " vers=" + strings.Join(vers, ",")
	case "proof", "memproof", "nonmemproof":
		var p *ics23.CommitmentProof
		var err error
		key := dec(args[1])
		switch args[0] {
		case "proof":
			p, err = t.GetProof(key)
		case "memproof":
			p, err = t.GetMembershipProof(key)
		default:
			p, err = t.GetNonMembershipProof(key)
		}
		if err != nil {
			return "err"
		}
		var others []*iavl.ImmutableTree
		if s.tree != nil {
			for _, v := range s.tree.AvailableVersions() {
				if int64(v) != t.Version() {
					if o, err := s.tree.GetImmutable(int64(v)); err == nil && o.Size() > 0 {
						others = append(others, o)
					}
				}
			}
		}
		return fmtProof(p) + " ## " + proofOracle(t, p, key, others, !(s.tree != nil && t == s.tree.ImmutableTree))
	case "export":
		// export plain|zip [store=<id>]
		ex, err := t.Export()
		if err != nil {
			return "err"
		}
		defer ex.Close()
		var src iavl.NodeExporter = ex
		if args[1] == "zip" {
			src = iavl.NewCompressExporter(ex)
		}
		var nodes []*iavl.ExportNode
		for {
			n, err := src.Next()
			if err == iavl.ErrorExportDone {
				break
			}
			if err != nil {
				return "err"
			}
			nodes = append(nodes, n)
			if len(nodes) > 1000000 {
				return "runaway"
			}
		}
		for _, a := range args[2:] {
			if strings.HasPrefix(a, "store=") {
				s.streams[a[6:]] = nodes
			}
		}
		return fmtStream(nodes)
	case "changes":
		// changes <start> <end>: TraverseStateChanges
		var sb strings.Builder
		err := t.TraverseStateChanges(atoi(args[1]), atoi(args[2]), func(version int64, cs *iavl.ChangeSet) error {
			sb.WriteString(fmt.Sprintf("v%d{", version))
			for i, p := range cs.Pairs {
				if i > 0 {
					sb.WriteString(" ")
				}
				if p.Delete {
					sb.WriteString("del:" + enc(p.Key))
				} else {
					sb.WriteString(enc(p.Key) + "=" + enc(p.Value))
				}
			}
			sb.WriteString("}")
			return nil
		})
		if err != nil {
			return "err " + sb.String()
		}
		return "ok " + sb.String()
	}
	panic("bad imm op " + args[0])
}

func fmtStream(nodes []*iavl.ExportNode) string {
	var sb strings.Builder
	sb.WriteString("[")
	for i, n := range nodes {
		if i > 0 {
			sb.WriteString(" ")
		}
		sb.WriteString(fmt.Sprintf("%s/%s/%d/%d", enc(n.Key), enc(n.Value), n.Version, n.Height))
	}
	sb.WriteString("]")
	return sb.String()
}

func parseStream(s string) []*iavl.ExportNode {
	// tokens key/value/version/height separated by ','; "nil" = nil node
	var out []*iavl.ExportNode
	if s == "" || s == "-" {
		return out
	}
	for _, tok := range strings.Split(s, ",") {
		if tok == "nil" {
			out = append(out, nil)
			continue
		}
		f := strings.Split(tok, "/")
		out = append(out, &iavl.ExportNode{Key: dec(f[0]), Value: dec(f[1]), Version: atoi(f[2]), Height: int8(atoi(f[3]))})
	}
	return out
}

// ---------- the operation interpreter ----------

func (s *session) exec(args []string) string {
	t := s.tree
	if s.legacyPhase && args[0] != "adopt" && args[0] != "new" {
		if args[0] == "cfg" {
			s.setCfgLenient(args[1:])
		}
		return "" // executed by the legacy library (harness/legacygen)
	}
	switch args[0] {
	case "new":
		s.keepStreams = false
		s.reset()
		if len(args) > 2 && args[2] == "legacy" {
			s.legacyPhase = true
			s.legacyID = args[1]
			return ""
		}
		return "ok"
	case "adopt": // continue on the database the legacy library wrote for this history
		s.legacyPhase = false
		d := filepath.Join(os.Getenv("VERIF_LEGACY_DIR"), s.legacyID)
		// work on a copy: the original may be adopted again by a replay
		cpDir, err := os.MkdirTemp(workdir, "legacy")
		if err != nil {
			panic(err)
		}
		if err := copyDir(d, cpDir); err != nil {
			return "err:nodb"
		}
		s.dir = cpDir
		l, err := idb.NewGoLevelDB("test", cpDir)
		if err != nil {
			return "err:open"
		}
		s.backend = l
		s.rec = newRecDB(s.backend)
		s.cfg.db = "ldb"
		s.tree = s.newTree()
		v, err := s.tree.Load()
		if err != nil {
			return "err"
		}
		return fmt.Sprintf("ver=%d", v)
	case "fresh": // a new empty database; exported streams are kept
		s.keepStreams = true
		s.reset()
		return "ok"
	case "cfg":
		s.setCfg(args[1:])
		return "ok"
	case "open":
		s.closeTree()
		s.tree = s.newTree()
		target := int64(0)
		if len(args) > 1 {
			target = atoi(args[1])
		}
		v, err := s.tree.LoadVersion(target)
		if err != nil {
			return "err"
		}
		return fmt.Sprintf("ver=%d", v)
	case "opennl": // a new tree object on the same store that is NOT loaded (replay from the empty tree)
		s.closeTree()
		s.tree = s.newTree()
		return "ok"
	case "close":
		s.closeTree()
		return "ok"
	case "loaddb": // loaddb {k:v k:v ...}: a fresh MemDB filled with an externally encoded image, then Load()
		img := strings.Join(args[1:], " ")
		img = strings.TrimSuffix(strings.TrimPrefix(img, "{"), "}")
		s.closeTree()
		if s.backend != nil {
			s.backend.Close()
		}
		m := idb.NewMemDB()
		if img != "" {
			for _, tok := range strings.Fields(img) {
				kv := strings.SplitN(tok, ":", 2)
				k, _ := hex.DecodeString(kv[0])
				v, _ := hex.DecodeString(kv[1])
				if v == nil {
					v = []byte{}
				}
				m.Set(k, v)
			}
		}
		s.backend = m
		s.rec = newRecDB(m)
		s.cfg.db = "mem"
		s.tree = s.newTree()
		v, err := s.tree.Load()
		if err != nil {
			return "err"
		}
		return fmt.Sprintf("ver=%d", v)
	case "dump":
		s.ensureBackend()
		var sb strings.Builder
		for i, p := range snapshot(s.backend) {
			if i > 0 {
				sb.WriteString(" ")
			}
			sb.WriteString(hex.EncodeToString(p.k) + ":" + hex.EncodeToString(p.v))
		}
		return "{" + sb.String() + "}"
	case "ixdump":
		// C07, index machine: the persisted fast index as it is on the store - the label and every entry
		// with its "version last updated"
		s.ensureBackend()
		label := "none"
		var ents []string
		for _, p := range snapshot(s.backend) {
			if string(p.k) == "mstorage_version" {
				if parts := strings.Split(string(p.v), "-"); len(parts) == 2 && parts[0] == "1.1.0" {
					label = parts[1]
				} else if string(p.v) != "1.0.0" {
					label = "bad:" + string(p.v)
				}
			}
			if len(p.k) > 0 && p.k[0] == 'f' {
				fn, err := fastnode.DeserializeNode(p.k[1:], p.v)
				if err != nil {
					ents = append(ents, enc(p.k[1:])+"=undecodable")
					continue
				}
				ents = append(ents, fmt.Sprintf("%s=%s@%d", enc(fn.GetKey()), enc(fn.GetValue()), fn.GetVersionLastUpdatedAt()))
			}
		}
		return "label=" + label + " idx=[" + strings.Join(ents, ",") + "]"
	case "writes":
		var sb strings.Builder
		for i, w := range s.rec.log {
			if i > 0 {
				sb.WriteString(" | ")
			}
			for j, o := range w {
				if j > 0 {
					sb.WriteString(" ")
				}
				if o.del {
					sb.WriteString("d:" + hex.EncodeToString(o.k))
				} else {
					sb.WriteString("s:" + hex.EncodeToString(o.k) + ":" + hex.EncodeToString(o.v))
				}
			}
		}
		s.rec.log = nil
		return "{" + sb.String() + "}"
	}
	if t == nil {
		return "notree"
	}
	switch args[0] {
	case "set":
		upd, err := t.Set(dec(args[1]), dec(args[2]))
		if err != nil {
			return "err"
		}
		return "upd=" + b2s(upd)
	case "rm":
		v, removed, err := t.Remove(dec(args[1]))
		if err != nil {
			return "err"
		}
		if !removed {
			return "rm=0"
		}
		return "rm=1 " + enc(v)
	case "save":
		h, v, err := t.SaveVersion()
		if err != nil {
			return "err"
		}
		return fmt.Sprintf("ver=%d hash=%s", v, enc(h))
	case "rollback":
		t.Rollback()
		return "ok"
	case "load":
		v, err := t.LoadVersion(atoi(args[1]))
		if err != nil {
			return "err"
		}
		return fmt.Sprintf("ver=%d", v)
	case "loadow":
		if err := t.LoadVersionForOverwriting(atoi(args[1])); err != nil {
			if os.Getenv("VERIF_DEBUG") != "" {
				fmt.Fprintln(os.Stderr, "loadow:", err)
			}
			return "err"
		}
		return "ok"
	case "prune":
		if err := t.DeleteVersionsTo(atoi(args[1])); err != nil {
			return "err"
		}
		return "ok"
	case "delfrom":
		if err := t.DeleteVersionsFrom(atoi(args[1])); err != nil {
			return "err"
		}
		return "ok"
	case "get":
		v, err := t.Get(dec(args[1]))
		if err != nil {
			return "err"
		}
		return enc(v)
	case "whash":
		return enc(t.WorkingHash())
	case "lhash":
		return enc(t.Hash()) // hash of the last saved version
	case "wver":
		return fmt.Sprint(t.WorkingVersion())
	case "isempty":
		return b2s(t.IsEmpty())
	case "latest":
		v, err := t.GetLatestVersion()
		if err != nil {
			return "err"
		}
		return fmt.Sprint(v)
	case "avail":
		var xs []string
		for _, v := range t.AvailableVersions() {
			xs = append(xs, fmt.Sprint(v))
		}
		return "[" + strings.Join(xs, ",") + "]"
	case "vexists":
		return b2s(t.VersionExists(atoi(args[1])))
	case "getv":
		v, err := t.GetVersioned(dec(args[1]), atoi(args[2]))
		if err != nil {
			return "err"
		}
		return enc(v)
	case "miter", "iter": // MutableTree.Iterator (the embedded ImmutableTree must not be used directly)
		return drain(t.Iterator(dec(args[1]), dec(args[2]), args[3] == "asc"))
	case "miterate", "iterate": // MutableTree.Iterate
		c := &pairCollector{stop: stopArg(args)}
		st, err := t.Iterate(c.fn)
		if err != nil {
			return "err"
		}
		return fmtPairs(c.ps) + " stopped=" + b2s(st)
	case "imm": // imm <version> <read-op...>
		it, err := t.GetImmutable(atoi(args[1]))
		if err != nil {
			return "err"
		}
		return s.immOp(it, args[2:])
	case "vproof":
		p, err := t.GetVersionedProof(dec(args[1]), atoi(args[2]))
		if err != nil {
			return "err"
		}
		it, err := t.GetImmutable(atoi(args[2]))
		if err != nil {
			return "err"
		}
		return fmtProof(p) + " ## " + proofOracle(it, p, dec(args[1]), nil, true)
	case "savecs": // savecs k=v,del:k,...
		cs := &iavl.ChangeSet{}
		if len(args) > 1 && args[1] != "-" {
			for _, tok := range strings.Split(args[1], ",") {
				if strings.HasPrefix(tok, "del:") {
					cs.Pairs = append(cs.Pairs, &iavl.KVPair{Delete: true, Key: dec(tok[4:])})
				} else {
					f := strings.SplitN(tok, "=", 2)
					cs.Pairs = append(cs.Pairs, &iavl.KVPair{Key: dec(f[0]), Value: dec(f[1])})
				}
			}
		}
		v, err := t.SaveChangeSet(cs)
		if err != nil {
			return "err"
		}
		return fmt.Sprintf("ver=%d", v)
	case "import": // import <version> plain|zip (stream=<id> | nodes=<list>) [nocommit] [close]
		return s.doImport(args[1:])
	case "setiv": // SetInitialVersion on the open tree
		t.SetInitialVersion(uint64(atoi(args[1])))
		// trees the crash / fault modes open on an image of this store get the same initial version
		s.cfg.iv = atoi(args[1])
		return "ok"
	case "hold": // hold <id> <version>: open an exporter and keep it
		it, err := t.GetImmutable(atoi(args[2]))
		if err != nil {
			return "err"
		}
		ex, err := it.Export()
		if err != nil {
			return "err"
		}
		s.exporters[args[1]] = ex
		return "ok"
	case "dclose": // close one exporter twice (explicit Close plus a deferred one)
		if e, ok := s.exporters[args[1]]; ok {
			e.Close()
			e.Close()
			delete(s.exporters, args[1])
		}
		return "ok"
	case "release":
		if e, ok := s.exporters[args[1]]; ok {
			e.Close()
			delete(s.exporters, args[1])
		}
		return "ok"
	case "replaycs": // replay the extracted change sets of all versions into an empty tree
		return s.replayCS()
	case "ifempty": // ifempty <op...>: run the operation only when the working tree is empty
		if !t.IsEmpty() {
			return "skipped"
		}
		return s.exec(args[1:])
	case "reads": // reads [imm N] <read-op...>: storage reads made by one lookup on an obtained tree
		it := t.ImmutableTree
		rest := args[1:]
		if rest[0] == "imm" {
			var err error
			it, err = t.GetImmutable(atoi(rest[1]))
			if err != nil {
				return "err"
			}
			rest = rest[2:]
		}
		h := int(it.Height())
		before := s.rec.reads
		var r string
		switch rest[0] {
		case "proof":
			p, err := it.GetProof(dec(rest[1]))
			if err != nil {
				r = "err"
			} else {
				r = fmtProof(p)
			}
		default:
			r = s.immOp(it, rest)
		}
		return fmt.Sprintf("%d h=%d ## %s", s.rec.reads-before, h, r)
	default:
		// every read of the immutable API on the working tree
		return s.immOp(t.ImmutableTree, args)
	}
}

// replayCS: TraverseStateChanges over the whole retained range, SaveChangeSet of each into a new
// tree (same initial version), comparing contents (and reporting whether hashes agree).
func (s *session) replayCS() string {
	t := s.tree
	vs := t.AvailableVersions()
	if len(vs) == 0 {
		return "ok n=0 hashes=0"
	}
	first, last := int64(vs[0]), int64(vs[len(vs)-1])
	twin := iavl.NewMutableTree(idb.NewMemDB(), 0, !s.cfg.fast, iavl.NewNopLogger(), iavl.InitialVersionOption(uint64(first)))
	if _, err := twin.Load(); err != nil {
		return "err:twinload"
	}
	n, hashes := 0, 0
	bad := ""
	err := t.TraverseStateChanges(first, last+1, func(version int64, cs *iavl.ChangeSet) error {
		v, err := twin.SaveChangeSet(cs)
		if err != nil {
			bad = fmt.Sprintf("savecs-failed@%d", version)
			return err
		}
		if v != version {
			bad = fmt.Sprintf("version %d != %d", v, version)
			return fmt.Errorf("x")
		}
		orig, err := t.GetImmutable(version)
		if err != nil {
			bad = "getimmutable"
			return err
		}
		a := &pairCollector{}
		b := &pairCollector{}
		orig.IterateRange(nil, nil, true, a.fn)
		twin.ImmutableTree.IterateRange(nil, nil, true, b.fn)
		if fmtPairs(a.ps) != fmtPairs(b.ps) {
			bad = fmt.Sprintf("contents@%d", version)
			return fmt.Errorf("x")
		}
		if string(orig.Hash()) == string(twin.Hash()) {
			hashes++
		}
		n++
		return nil
	})
	if err != nil && bad == "" {
		return "err"
	}
	if bad != "" {
		return "mismatch " + bad
	}
	return fmt.Sprintf("ok n=%d hashes=%d", n, hashes)
}

func (s *session) doImport(args []string) string {
	ver := atoi(args[0])
	zip := args[1] == "zip"
	var nodes []*iavl.ExportNode
	commit, closeIt := true, true
	for _, a := range args[2:] {
		switch {
		case strings.HasPrefix(a, "stream="):
			nodes = s.streams[a[7:]]
		case strings.HasPrefix(a, "nodes="):
			nodes = parseStream(a[6:])
		case a == "nocommit":
			commit = false
		case a == "noclose":
			closeIt = false
		}
	}
	imp, err := s.tree.Import(ver)
	if err != nil {
		return "err:new"
	}
	if closeIt {
		defer imp.Close()
	}
	var dst iavl.NodeImporter = imp
	if zip {
		dst = iavl.NewCompressImporter(imp)
	}
	for i, n := range nodes {
		if n != nil {
			c := *n
			n = &c
		}
		if err := dst.Add(n); err != nil {
			return fmt.Sprintf("err:add@%d", i)
		}
	}
	if commit {
		if err := imp.Commit(); err != nil {
			return "err:commit"
		}
	}
	return "ok"
}

func main() {
	if len(os.Args) < 2 {
		fmt.Fprintln(os.Stderr, "usage: h1 exec <file> | h1 crash <file> | ...")
		os.Exit(2)
	}
	var err error
	workdir, err = os.MkdirTemp("", "verif-h1-")
	if err != nil {
		panic(err)
	}
	defer os.RemoveAll(workdir)
	switch os.Args[1] {
	case "facts":
		for _, l := range iavl.VerifFacts() {
			fmt.Println(l)
		}
		// the proof specification of the linked ics23 module (Model/Ics23.lean is written against it)
		sp := ics23.IavlSpec
		fmt.Printf("ics23MinPrefixLength=%d\n", sp.InnerSpec.MinPrefixLength)
		fmt.Printf("ics23MaxPrefixLength=%d\n", sp.InnerSpec.MaxPrefixLength)
		fmt.Printf("ics23ChildSize=%d\n", sp.InnerSpec.ChildSize)
		fmt.Printf("ics23ChildOrderLen=%d\n", len(sp.InnerSpec.ChildOrder))
		fmt.Printf("ics23EmptyChildLen=%d\n", len(sp.InnerSpec.EmptyChild))
		fmt.Printf("ics23LeafPrefixLen=%d\n", len(sp.LeafSpec.Prefix))
		fmt.Printf("ics23LeafPrefixByte=%d\n", sp.LeafSpec.Prefix[0])
		fmt.Printf("ics23MaxDepth=%d\n", sp.MaxDepth)
		fmt.Printf("ics23MinDepth=%d\n", sp.MinDepth)
		fmt.Printf("ics23PrehashKeyBeforeComparison=%d\n", map[bool]int{false: 0, true: 1}[sp.PrehashKeyBeforeComparison])
	case "exec":
		runExec(os.Args[2])
	case "kv":
		runKV(os.Args[2])
	case "crash":
		runCrash(os.Args[2])
	case "fault":
		runFault(os.Args[2])
	case "codec":
		runCodec(os.Args[2])
	case "conc":
		runConc(os.Args[2])
	case "stress":
		runStress(os.Args[2:])
	case "bigimport":
		runBigImport(os.Args[2:])
	default:
		fmt.Fprintln(os.Stderr, "unknown mode")
		os.Exit(2)
	}
}

func runExec(path string) {
	f, err := os.Open(path)
	if err != nil {
		panic(err)
	}
	defer f.Close()
	out := bufio.NewWriterSize(os.Stdout, 1<<16)
	defer out.Flush()
	s := &session{}
	s.reset()
	sc := bufio.NewScanner(f)
	sc.Buffer(make([]byte, 1<<20), 1<<28)
	start := 0
	if len(os.Args) > 3 {
		start = int(atoi(os.Args[3]))
	}
	lineNo := 0
	for sc.Scan() {
		line := sc.Text()
		lineNo++
		if lineNo <= start || line == "" || line[0] == '#' {
			continue
		}
		args := strings.Fields(line)
		res := guarded(out, func() string { return s.exec(args) })
		if res != "" {
			fmt.Fprintf(out, "%d %s => %s\n", lineNo, line, res)
			out.Flush()
		}
	}
	s.reset()
}

// guarded runs one operation with panic recovery and a watchdog (a hang kills the process with
// status 3 after flushing what was produced so far).
func guarded(out *bufio.Writer, f func() string) (res string) {
	done := make(chan struct{})
	go func() {
		select {
		case <-done:
		case <-time.After(60 * time.Second):
			out.Flush()
			fmt.Fprintln(os.Stderr, "watchdog: operation hangs")
			os.Exit(3)
		}
	}()
	defer close(done)
	defer func() {
		if r := recover(); r != nil {
			res = "panic"
			if os.Getenv("VERIF_DEBUG") != "" {
				fmt.Fprintln(os.Stderr, "panic:", r)
			}
		}
	}()
	return f()
}
