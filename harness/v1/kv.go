package main

// kv mode (C18): identical programs on MemDB, GoLevelDB, PrefixDB(MemDB), PrefixDB(GoLevelDB).
// A line's result is the common answer of the four backends, or `DIFF mem=… ldb=… pm=… pl=…`.

import (
	"bufio"
	"bytes"
	"fmt"
	"os"
	"strings"

	corestore "cosmossdk.io/core/store"
	idb "github.com/cosmos/iavl/db"
)

type kvBackend struct {
	name    string
	db      corestore.KVStoreWithBatch
	under   corestore.KVStoreWithBatch // underlying store of a prefixed view (nil otherwise)
	prefix  []byte
	batches map[string]corestore.Batch
	dir     string
}

type kvSession struct {
	bs []*kvBackend
}

func (s *kvSession) close() {
	for _, b := range s.bs {
		if b.under != nil {
			b.under.Close()
		} else {
			b.db.Close()
		}
		if b.dir != "" {
			os.RemoveAll(b.dir)
		}
	}
	s.bs = nil
}

func (s *kvSession) open(prefix []byte) {
	s.close()
	mk := func() (corestore.KVStoreWithBatch, string) {
		d, err := os.MkdirTemp(workdir, "kv")
		if err != nil {
			panic(err)
		}
		l, err := idb.NewGoLevelDB("t", d)
		if err != nil {
			panic(err)
		}
		return l, d
	}
	l1, d1 := mk()
	l2, d2 := mk()
	m2 := idb.NewMemDB()
	s.bs = []*kvBackend{
		{name: "mem", db: idb.NewMemDB()},
		{name: "ldb", db: l1, dir: d1},
		// the prefix handed to NewPrefixDB has spare capacity, as a caller's `append(buf[:0], ...)` would give:
		// a wrapper that builds keys with append(prefix, key...) must not write into it
		{name: "pm", db: idb.NewPrefixDB(m2, append(make([]byte, 0, 64), prefix...)), under: m2, prefix: prefix},
		{name: "pl", db: idb.NewPrefixDB(l2, append(make([]byte, 0, 64), prefix...)), under: l2, prefix: prefix, dir: d2},
	}
	for _, b := range s.bs {
		b.batches = map[string]corestore.Batch{}
	}
}

func errOK(err error) string {
	if err != nil {
		return "err"
	}
	return "ok"
}

func kvDrain(it corestore.Iterator, err error) string {
	if err != nil {
		return "err"
	}
	defer it.Close()
	var ps [][2][]byte
	for ; it.Valid(); it.Next() {
		ps = append(ps, [2][]byte{cp(it.Key()), cp(it.Value())})
		if len(ps) > 100000 {
			return "runaway"
		}
	}
	if it.Error() != nil {
		return "err"
	}
	if it.Valid() {
		return "valid-after-end"
	}
	return fmtPairs(ps)
}

func (b *kvBackend) exec(prefix []byte, args []string) (res string) {
	defer func() {
		if r := recover(); r != nil {
			res = "panic"
		}
	}()
	switch args[0] {
	case "kget":
		v, err := b.db.Get(dec(args[1]))
		if err != nil {
			return "err"
		}
		return enc(v)
	case "khas":
		ok, err := b.db.Has(dec(args[1]))
		if err != nil {
			return "err"
		}
		return b2s(ok)
	case "kset":
		return errOK(b.db.Set(dec(args[1]), dec(args[2])))
	case "kdel":
		return errOK(b.db.Delete(dec(args[1])))
	case "kiter":
		return kvDrain(b.db.Iterator(dec(args[1]), dec(args[2])))
	case "kriter":
		return kvDrain(b.db.ReverseIterator(dec(args[1]), dec(args[2])))
	case "kbnew":
		if old, ok := b.batches[args[1]]; ok {
			old.Close()
		}
		b.batches[args[1]] = b.db.NewBatch()
		return "ok"
	case "kbset":
		bt, ok := b.batches[args[1]]
		if !ok {
			return "err"
		}
		return errOK(bt.Set(dec(args[2]), dec(args[3])))
	case "kbdel":
		bt, ok := b.batches[args[1]]
		if !ok {
			return "err"
		}
		return errOK(bt.Delete(dec(args[2])))
	case "kbwrite":
		bt, ok := b.batches[args[1]]
		if !ok {
			return "err"
		}
		return errOK(bt.Write())
	case "kbclose":
		bt, ok := b.batches[args[1]]
		if !ok {
			return "err"
		}
		return errOK(bt.Close())
	case "krawset":
		k, v := dec(args[1]), dec(args[2])
		if b.under != nil {
			return errOK(b.under.Set(k, v))
		}
		if bytes.HasPrefix(k, prefix) && len(k) > len(prefix) {
			return errOK(b.db.Set(k[len(prefix):], v))
		}
		return "ok"
	case "krawdump":
		if b.under == nil {
			return "n/a"
		}
		var ps [][2][]byte
		for _, p := range snapshot(b.under) {
			if bytes.HasPrefix(p.k, prefix) && len(p.k) > len(prefix) {
				continue
			}
			ps = append(ps, [2][]byte{p.k, p.v})
		}
		return fmtPairs(ps)
	}
	return "bad"
}

func runKV(path string) {
	f, err := os.Open(path)
	if err != nil {
		panic(err)
	}
	defer f.Close()
	out := bufio.NewWriterSize(os.Stdout, 1<<16)
	defer out.Flush()
	s := &kvSession{}
	defer s.close()
	var prefix []byte
	sc := bufio.NewScanner(f)
	sc.Buffer(make([]byte, 1<<20), 1<<26)
	start := 0
	if len(os.Args) > 3 {
		start = int(atoi(os.Args[3]))
	}
	lineNo := 0
	for sc.Scan() {
		line := sc.Text()
		lineNo++
		if lineNo <= start || line == "" || line[0] == '#' {
			continue
		}
		args := strings.Fields(line)
		var res string
		if args[0] == "knew" {
			prefix = []byte("p")
			for _, a := range args[2:] {
				if strings.HasPrefix(a, "pfx=") {
					prefix = dec(a[4:])
				}
			}
			s.open(prefix)
			res = "ok"
		} else if s.bs == nil {
			res = "nostore"
		} else {
			res = guarded(out, func() string {
				var rs []string
				same := true
				first := ""
				for _, b := range s.bs {
					r := b.exec(prefix, args)
					if r == "n/a" {
						continue
					}
					if first == "" {
						first = r
					} else if r != first {
						same = false
					}
					rs = append(rs, b.name+"="+r)
				}
				if same {
					return first
				}
				return "DIFF " + strings.Join(rs, " ")
			})
		}
		fmt.Fprintf(out, "%d %s => %s\n", lineNo, line, res)
		out.Flush()
	}
}
