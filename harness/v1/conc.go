package main

// conc mode (C06): schedule exploration through the verif yield hooks of /repo (build tag verif).
//
// Every history is executed as in exec mode, but each writer operation that commits or deletes
// versions (save, prune) runs in its own goroutine and is parked at every yield point it reaches
// (between ndb.Commit and resetLatestVersion; after the reader check and after every per-version
// step of deleteVersionsTo). While it is parked, the controller reads every committed version that
// the operation is not deleting through the reader API (GetImmutable + Get / Has / GetWithIndex /
// Iterator / GetProof / Export) and compares with the same reads taken before the operation began:
// a read of a committed version must return the contents of that version as of its commit.
// `pinprune <v> <n>` checks the export pin: an exporter on version v is created in a reader
// goroutine which is parked just before / just after it registers as a reader while the writer runs
// DeleteVersionsTo(n); the deletion must be refused or the export must deliver the complete version.

import (
	"bufio"
	"fmt"
	"os"
	"sort"
	"strings"
	"sync"
	"sync/atomic"
	"time"

	"github.com/cosmos/iavl"
)

var yieldMu sync.Mutex
var concCount int

// readVersion: a digest of everything a reader can ask of version v.
func (s *session) readVersion(v int64, keys [][]byte) (res map[string]string) {
	res = map[string]string{}
	defer func() {
		if r := recover(); r != nil {
			res["panic"] = fmt.Sprint(r)
		}
	}()
	it, err := s.tree.GetImmutable(v)
	if err != nil {
		res["getimmutable"] = "err"
		return res
	}
	res["hash"] = enc(it.Hash())
	res["size"] = fmt.Sprint(it.Size())
	for _, k := range keys {
		val, err := it.Get(k)
		res["get "+enc(k)] = fmt.Sprintf("%s %v", enc(val), err != nil)
		idx, val2, err := it.GetWithIndex(k)
		res["gwi "+enc(k)] = fmt.Sprintf("%d %s %v", idx, enc(val2), err != nil)
		has, err := it.Has(k)
		res["has "+enc(k)] = fmt.Sprintf("%v %v", has, err != nil)
	}
	res["iter"] = drain(it.Iterator(nil, nil, true))
	if it.Size() > 0 && len(keys) > 0 {
		p, err := it.GetProof(keys[0])
		if err != nil {
			res["proof"] = "err"
		} else {
			res["proof"] = fmtProof(p)
		}
	}
	ex, err := it.Export()
	if err != nil {
		res["export"] = "err"
	} else {
		var nodes []*iavl.ExportNode
		for {
			n, err := ex.Next()
			if err != nil {
				if err != iavl.ErrorExportDone {
					res["export-error"] = "1"
				}
				break
			}
			nodes = append(nodes, n)
		}
		ex.Close()
		res["export"] = fmtStream(nodes)
	}
	return res
}

func diffReads(a, b map[string]string) string {
	var ks []string
	for k := range a {
		ks = append(ks, k)
	}
	sort.Strings(ks)
	for _, k := range ks {
		if a[k] != b[k] {
			x, y := a[k], b[k]
			if len(x) > 60 {
				x = x[:60]
			}
			if len(y) > 60 {
				y = y[:60]
			}
			return fmt.Sprintf("%s: before=%s during=%s", k, x, y)
		}
	}
	return ""
}

func (s *session) concOp(args []string, keys [][]byte) string {
	t := s.tree
	avail := t.AvailableVersions()
	var target int64 = -1
	if args[0] == "prune" {
		target = atoi(args[1])
	}
	// the reference reads are taken before the operation; for every other operation they are taken
	// through a separate tree object on the same store (tree walk only, it writes nothing), so that the
	// writer's own caches are as cold as a restart left them when the operation begins
	reader := s
	concCount++
	if concCount%2 == 0 {
		obs := &session{cfg: s.cfg, backend: s.backend, rec: s.rec, exporters: map[string]*iavl.Exporter{}}
		obs.tree = iavl.NewMutableTree(s.rec, 0, true, iavl.NewNopLogger())
		if _, err := obs.tree.Load(); err == nil {
			reader = obs
			defer func() {
				defer func() { recover() }()
				obs.tree.Close()
			}()
		}
	}
	base := map[int64]map[string]string{}
	for _, v := range avail {
		if int64(v) <= target {
			continue // a version the writer is deleting is not being read (property: "deleting other versions")
		}
		base[int64(v)] = reader.readVersion(int64(v), keys)
	}
	at := make(chan string)
	resume := make(chan struct{})
	done := make(chan string, 1)
	yieldMu.Lock()
	iavl.VerifYield = func(p string) {
		if strings.HasPrefix(p, "export:") || strings.HasPrefix(p, "iter:") {
			return
		}
		at <- p
		<-resume
	}
	yieldMu.Unlock()
	go func() {
		done <- guardedQuiet(func() string { return s.exec(args) })
	}()
	points := 0
	problem := ""
	var res string
loop:
	for {
		select {
		case p := <-at:
			points++
			// the hooks are silent while the controller itself reads (its exports pass yield points)
			for v, b := range base {
				now := s.readVersion(v, keys)
				if d := diffReads(b, now); d != "" && problem == "" {
					problem = fmt.Sprintf("at %s#%d version %d %s", p, points, v, d)
				}
			}
			resume <- struct{}{}
		case res = <-done:
			break loop
		case <-time.After(30 * time.Second):
			problem = "writer hangs"
			break loop
		}
	}
	yieldMu.Lock()
	iavl.VerifYield = nil
	yieldMu.Unlock()
	// after the operation: every version it kept still reads the same
	if !strings.HasPrefix(res, "err") {
		for v, b := range base {
			now := s.readVersion(v, keys)
			if d := diffReads(b, now); d != "" && problem == "" {
				problem = fmt.Sprintf("after the operation version %d %s", v, d)
			}
		}
	}
	// after the operation: in every version that exists now (the new one included) the index-backed
	// lookup, the tree walk and the existence test agree for every key
	if problem == "" && !strings.HasPrefix(res, "err") {
		for _, v := range s.tree.AvailableVersions() {
			now := s.readVersion(int64(v), keys)
			for _, k := range keys {
				g := strings.Fields(now["get "+enc(k)])
				w := strings.Fields(now["gwi "+enc(k)])
				h := strings.Fields(now["has "+enc(k)])
				if len(g) < 2 || len(w) < 3 || len(h) < 2 {
					continue
				}
				if g[0] != w[1] || (h[0] == "true") != (w[1] != "-") {
					problem = fmt.Sprintf("after the operation version %d key %s: Get=%s GetWithIndex=%s Has=%s", v, enc(k), g[0], w[1], h[0])
					break
				}
			}
			if problem != "" {
				break
			}
		}
	}
	if problem != "" {
		return fmt.Sprintf("%s ## points=%d %s", res, points, problem)
	}
	return fmt.Sprintf("%s ## points=%d ok", res, points)
}

// pinPrune: the export pin against DeleteVersionsTo(n), n >= v.
//   where = export:pinned   the reader has registered (and is parked) when the deletion starts:
//                           the deletion must be refused
//   where = prune:checked   the writer has passed its reader check (and is parked) when the export
//                           of version v is opened: a pinned version must not be deleted
//   where = export:before-pin  the reader has not registered yet: the deletion may proceed, but the
//                           export must then fail or be complete, never a shorter stream
func (s *session) pinPrune(v, n int64, where string, keys [][]byte) string {
	t := s.tree
	it, err := t.GetImmutable(v)
	if err != nil {
		return "err"
	}
	want := s.readVersion(v, keys)["export"]
	type exres struct {
		stream string
		err    bool
	}
	drainEx := func(ex *iavl.Exporter) exres {
		var nodes []*iavl.ExportNode
		bad := false
		for {
			nd, err := ex.Next()
			if err != nil {
				if err != iavl.ErrorExportDone {
					bad = true
				}
				break
			}
			nodes = append(nodes, nd)
		}
		return exres{fmtStream(nodes), bad}
	}
	setYield := func(f func(string)) {
		yieldMu.Lock()
		iavl.VerifYield = f
		yieldMu.Unlock()
	}
	defer setYield(nil)
	at := make(chan struct{})
	resume := make(chan struct{})
	var perr error
	var r exres
	if where == "double-close" {
		// two exports of version v; one of them is closed twice (deferred Close plus explicit Close):
		// the other still pins the version
		ex1, err1 := it.Export()
		ex2, err2 := it.Export()
		if err1 != nil || err2 != nil {
			return "export-refused"
		}
		ex1.Close()
		ex1.Close()
		perr = t.DeleteVersionsTo(n)
		r = drainEx(ex2)
		ex2.Close()
		if perr == nil {
			return "version pinned by a second open export was deleted after the first one was closed twice"
		}
		if r.err || r.stream != want {
			return "refused but export incomplete"
		}
		return "refused ok"
	}
	if where == "async-queued" {
		// asynchronous pruning: the deletion is queued (DeleteVersionsTo returns at once), THEN an export of a
		// version in the range is opened, before the background pruner looks at the request (it polls every
		// 100 ms): the pruner must find the reader and leave the version alone until the export is closed.
		// A second tree object with the AsyncPruning option on the same store does the work; if the pruner
		// happened to make its reader check before the pin was in place (the K9t window) nothing is judged.
		s.cfg.async = true
		t2 := s.newTree()
		s.cfg.async = false
		if _, err := t2.Load(); err != nil {
			return "err"
		}
		defer t2.Close()
		it2, err := t2.GetImmutable(v)
		if err != nil {
			return "err"
		}
		// when the pruner's reader check lets the deletion pass, the hook right behind the check fires: if that
		// happened before (or within 2 ms after) the pin was in place, the check ran in the K9t window
		var checkedAt int64
		setYield(func(p string) {
			if p == "prune:checked" {
				atomic.CompareAndSwapInt64(&checkedAt, 0, time.Now().UnixNano())
			}
		})
		if err := t2.DeleteVersionsTo(n); err != nil {
			return "err"
		}
		ex, err := it2.Export()
		if err != nil {
			return "export-refused"
		}
		pinnedAt := time.Now().UnixNano()
		time.Sleep(400 * time.Millisecond)
		c := atomic.LoadInt64(&checkedAt)
		early := c != 0 && c <= pinnedAt+2_000_000
		exists := t2.VersionExists(v)
		r = drainEx(ex)
		ex.Close()
		if early {
			return "raced ok"
		}
		if !exists {
			return "version pinned by an export opened after the asynchronous deletion was queued has been deleted"
		}
		if r.err || r.stream != want {
			return "pinned version kept but its export is incomplete"
		}
		return "held ok"
	}
	if where == "prune:checked" {
		setYield(func(p string) {
			if p == where {
				at <- struct{}{}
				<-resume
			}
		})
		wdone := make(chan error, 1)
		go func() { wdone <- t.DeleteVersionsTo(n) }()
		select {
		case <-at:
		case perr = <-wdone:
			return "writer-finished-without-reaching-the-check"
		case <-time.After(10 * time.Second):
			return "writer-did-not-reach-" + where
		}
		setYield(nil)
		ex, err := it.Export() // pins version v while the writer is past its check
		if err != nil {
			resume <- struct{}{}
			<-wdone
			return "export-refused"
		}
		resume <- struct{}{}
		perr = <-wdone
		r = drainEx(ex)
		ex.Close()
		if perr == nil {
			return "TOCTOU: version pinned by an open export was deleted (export " + map[bool]string{true: "failed", false: "delivered " + map[bool]string{true: "the complete", false: "a WRONG"}[r.stream == want] + " stream"}[r.err] + ")"
		}
		return "refused ok"
	}
	setYield(func(p string) {
		if p == where {
			at <- struct{}{}
			<-resume
		}
	})
	rdone := make(chan exres, 1)
	go func() {
		defer func() {
			if rr := recover(); rr != nil {
				rdone <- exres{"panic", true}
			}
		}()
		ex, err := it.Export()
		if err != nil {
			rdone <- exres{"err", true}
			return
		}
		x := drainEx(ex)
		ex.Close()
		rdone <- x
	}()
	select {
	case <-at:
	case <-time.After(10 * time.Second):
		return "reader-did-not-reach-" + where
	}
	setYield(nil)
	perr = t.DeleteVersionsTo(n)
	resume <- struct{}{}
	r = <-rdone
	if where == "export:pinned" {
		if perr == nil {
			return "pinned version deleted"
		}
		if r.err || r.stream != want {
			return "refused but export incomplete"
		}
		return "refused ok"
	}
	// export:before-pin
	if perr != nil {
		return "refused ok"
	}
	if r.err || r.stream == want {
		return "pruned ok"
	}
	return "pruned; export delivered a shorter or different stream as complete"
}

// iterRace: a reader of the latest version v has decided to use the persisted index (it is parked
// between that check and the creation of the iterator) while the writer commits version v+1; the
// reader must still iterate exactly the contents of v.
func (s *session) iterRace() string {
	t := s.tree
	v := t.Version()
	it, err := t.GetImmutable(v)
	if err != nil || v == 0 {
		return s.exec([]string{"save"}) + " ## iter skipped"
	}
	want := drain(it.Iterator(nil, nil, true))
	at := make(chan struct{}, 1)
	resume := make(chan struct{})
	var parked int32
	yieldMu.Lock()
	iavl.VerifYield = func(p string) {
		if p == "iter:checked" && atomic.CompareAndSwapInt32(&parked, 0, 1) {
			at <- struct{}{}
			<-resume
		}
	}
	yieldMu.Unlock()
	got := make(chan string, 1)
	go func() {
		defer func() {
			if r := recover(); r != nil {
				got <- fmt.Sprint("panic ", r)
			}
		}()
		got <- drain(it.Iterator(nil, nil, true))
	}()
	reached := false
	select {
	case <-at:
		reached = true
	case g := <-got:
		// the reader did not take the index path (index disabled): nothing to race
		yieldMu.Lock()
		iavl.VerifYield = nil
		yieldMu.Unlock()
		res := s.exec([]string{"save"})
		if g != want {
			return res + " ## iter reader differs without any writer"
		}
		return res + " ## iter no-index ok"
	case <-time.After(10 * time.Second):
		return "hang"
	}
	_ = reached
	res := s.exec([]string{"save"}) // the writer commits v+1 (its own index reads pass: parked is set)
	resume <- struct{}{}
	g := <-got
	yieldMu.Lock()
	iavl.VerifYield = nil
	yieldMu.Unlock()
	if g != want {
		a, b := want, g
		if len(a) > 80 {
			a = a[:80]
		}
		if len(b) > 80 {
			b = b[:80]
		}
		return fmt.Sprintf("%s ## iter reader of version %d parked after the index check iterates %s instead of %s", res, v, b, a)
	}
	return res + " ## iter ok"
}

// getRace (C06): a reader of the latest version looks key k up through the fast index while its index entry
// is not cached; its storage read is performed and then held back while the writer removes (or rewrites) k
// and commits the next version. Whatever the reader then does with what it read must not survive the
// commit: afterwards k is read again through every path of the new version.
// (On the library as it is the reader holds the nodeDB lock across the read, so the commit waits for it and
// the gate's patience runs out: the writer's commit then simply comes after the reader.)
func (s *session) getRace(key []byte, newVal []byte) string {
	t := s.tree
	v := t.Version()
	it, err := t.GetImmutable(v)
	if err != nil || v == 0 || s.rec == nil {
		return "skipped"
	}
	fkey := append([]byte{'f'}, key...)
	at := make(chan struct{}, 1)
	rel := make(chan struct{})
	s.rec.mu.Lock()
	s.rec.gateKey, s.rec.gateAt, s.rec.gateRelease, s.rec.gatePatience = fkey, at, rel, 400*time.Millisecond
	s.rec.mu.Unlock()
	got := make(chan string, 1)
	go func() {
		defer func() {
			if r := recover(); r != nil {
				got <- fmt.Sprint("panic ", r)
			}
		}()
		val, err := it.Get(key)
		if err != nil {
			got <- "err"
			return
		}
		got <- enc(val)
	}()
	gatedRead := false
	var early string
	select {
	case <-at:
		gatedRead = true
	case early = <-got:
		// the reader did not read the index entry from storage (index off, or the entry was cached)
	case <-time.After(10 * time.Second):
		return "hang"
	}
	var res string
	if newVal == nil {
		res = s.exec([]string{"rm", enc(key)})
	} else {
		res = s.exec([]string{"set", enc(key), enc(newVal)})
	}
	res2 := s.exec([]string{"save"})
	if gatedRead {
		close(rel)
		early = <-got
	}
	s.rec.mu.Lock()
	s.rec.gateKey = nil
	s.rec.mu.Unlock()
	_ = res
	return res2 + " reader=" + early + " ## gated=" + b2s(gatedRead) + " ok"
}

func runConc(path string) {
	f, err := os.Open(path)
	if err != nil {
		panic(err)
	}
	defer f.Close()
	out := bufio.NewWriterSize(os.Stdout, 1<<16)
	defer out.Flush()
	s := &session{}
	s.reset()
	sc := bufio.NewScanner(f)
	sc.Buffer(make([]byte, 1<<20), 1<<28)
	start := 0
	if len(os.Args) > 3 {
		start = int(atoi(os.Args[3]))
	}
	lineNo := 0
	keyset := map[string]bool{}
	for sc.Scan() {
		line := sc.Text()
		lineNo++
		if lineNo <= start || line == "" || line[0] == '#' {
			continue
		}
		args := strings.Fields(line)
		if args[0] == "new" {
			keyset = map[string]bool{}
		}
		if (args[0] == "set" || args[0] == "rm") && len(args) > 1 {
			keyset[args[1]] = true
		}
		var keys [][]byte
		var ks []string
		for k := range keyset {
			ks = append(ks, k)
		}
		sort.Strings(ks)
		for _, k := range ks {
			keys = append(keys, dec(k))
		}
		var res string
		switch {
		case (args[0] == "save" || args[0] == "prune") && s.tree != nil:
			res = guarded(out, func() string { return s.concOp(args, keys) })
		case args[0] == "iterrace" && s.tree != nil:
			res = guarded(out, func() string { return s.iterRace() })
		case args[0] == "getrace" && s.tree != nil:
			res = guarded(out, func() string {
				var nv []byte
				if args[2] != "-" {
					nv = dec(args[2])
				}
				return s.getRace(dec(args[1]), nv)
			})
		case args[0] == "pinprune" && s.tree != nil:
			res = guarded(out, func() string {
				return "pin ## " + s.pinPrune(atoi(args[1]), atoi(args[2]), args[3], keys)
			})
		default:
			res = guarded(out, func() string { return s.exec(args) })
		}
		if res != "" {
			fmt.Fprintf(out, "%d %s => %s\n", lineNo, line, res)
			out.Flush()
		}
	}
	s.reset()
}
