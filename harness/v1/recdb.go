package main

// recDB: a storage wrapper implementing corestore.KVStoreWithBatch around one of the bundled
// backends. It (a) counts point reads, (b) records every physical batch write as a list of
// operations, (c) can fail the n-th storage call of a given kind (fault injection, C17).

import (
	"time"
	"bytes"
	"errors"
	"sort"
	"sync"

	corestore "cosmossdk.io/core/store"
)

type bop struct {
	del bool
	k   []byte
	v   []byte
}

var errInjected = errors.New("verif: injected storage fault")

type recDB struct {
	inner corestore.KVStoreWithBatch
	mu    sync.Mutex
	reads int
	log   [][]bop // physical writes in order

	// fault injection: fail the faultAt-th (1-based) call counted over the kinds in faultKinds
	faultArmed bool
	faultKinds map[string]bool
	faultAt    int
	faultSeen  int
	faultFired int
	calls      []string // call kinds in order since arm (for enumeration)
	recordCall bool

	// read gate (conc mode): the next Get of gateKey is performed, then held back until gateRelease is
	// closed or gatePatience has passed; gateAt is signalled when the read has been performed
	gateKey      []byte
	gateAt       chan struct{}
	gateRelease  chan struct{}
	gatePatience time.Duration
}

func newRecDB(inner corestore.KVStoreWithBatch) *recDB { return &recDB{inner: inner} }

// hit registers a storage call of kind k; returns true when this call must fail.
func (d *recDB) hit(k string) bool {
	d.mu.Lock()
	defer d.mu.Unlock()
	if d.recordCall {
		d.calls = append(d.calls, k)
	}
	if !d.faultArmed {
		return false
	}
	if d.faultKinds != nil && !d.faultKinds[k] {
		return false
	}
	d.faultSeen++
	if d.faultSeen == d.faultAt {
		d.faultFired++
		return true
	}
	return false
}

func (d *recDB) Get(key []byte) ([]byte, error) {
	if d.hit("get") {
		return nil, errInjected
	}
	d.mu.Lock()
	d.reads++
	gated := d.gateKey != nil && bytes.Equal(key, d.gateKey)
	var at, rel chan struct{}
	var patience time.Duration
	if gated {
		at, rel, patience = d.gateAt, d.gateRelease, d.gatePatience
		d.gateKey = nil // one shot
	}
	d.mu.Unlock()
	v, err := d.inner.Get(key)
	if gated {
		at <- struct{}{}
		select {
		case <-rel:
		case <-time.After(patience):
		}
	}
	return v, err
}

func (d *recDB) Has(key []byte) (bool, error) {
	if d.hit("has") {
		return false, errInjected
	}
	d.mu.Lock()
	d.reads++
	d.mu.Unlock()
	return d.inner.Has(key)
}

func (d *recDB) Set(key, value []byte) error {
	if d.hit("set") {
		return errInjected
	}
	d.mu.Lock()
	d.log = append(d.log, []bop{{false, cp(key), cp(value)}})
	d.mu.Unlock()
	return d.inner.Set(key, value)
}

func (d *recDB) Delete(key []byte) error {
	if d.hit("delete") {
		return errInjected
	}
	d.mu.Lock()
	d.log = append(d.log, []bop{{true, cp(key), nil}})
	d.mu.Unlock()
	return d.inner.Delete(key)
}

type faultIter struct {
	corestore.Iterator
	d      *recDB
	failed bool
}

func (it *faultIter) Next() {
	if it.failed {
		return
	}
	if it.d.hit("iternext") {
		it.failed = true
		return
	}
	it.Iterator.Next()
}
func (it *faultIter) Valid() bool {
	if it.failed {
		return false
	}
	return it.Iterator.Valid()
}
func (it *faultIter) Error() error {
	if it.failed {
		return errInjected
	}
	return it.Iterator.Error()
}

func (d *recDB) Iterator(start, end []byte) (corestore.Iterator, error) {
	if d.hit("iter") {
		return nil, errInjected
	}
	it, err := d.inner.Iterator(start, end)
	if err != nil {
		return nil, err
	}
	return &faultIter{Iterator: it, d: d}, nil
}

func (d *recDB) ReverseIterator(start, end []byte) (corestore.Iterator, error) {
	if d.hit("iter") {
		return nil, errInjected
	}
	it, err := d.inner.ReverseIterator(start, end)
	if err != nil {
		return nil, err
	}
	return &faultIter{Iterator: it, d: d}, nil
}

func (d *recDB) Close() error { return nil } // the harness owns the backend

type recBatch struct {
	d     *recDB
	inner corestore.Batch
	ops   []bop
}

func (d *recDB) NewBatch() corestore.Batch { return &recBatch{d: d, inner: d.inner.NewBatch()} }
func (d *recDB) NewBatchWithSize(n int) corestore.Batch {
	return &recBatch{d: d, inner: d.inner.NewBatchWithSize(n)}
}

func (b *recBatch) Set(key, value []byte) error {
	if b.d.hit("bset") {
		return errInjected
	}
	if err := b.inner.Set(key, value); err != nil {
		return err
	}
	b.ops = append(b.ops, bop{false, cp(key), cp(value)})
	return nil
}

func (b *recBatch) Delete(key []byte) error {
	if b.d.hit("bdel") {
		return errInjected
	}
	if err := b.inner.Delete(key); err != nil {
		return err
	}
	b.ops = append(b.ops, bop{true, cp(key), nil})
	return nil
}

func (b *recBatch) write(sync bool) error {
	if b.d.hit("bwrite") {
		return errInjected
	}
	var err error
	if sync {
		err = b.inner.WriteSync()
	} else {
		err = b.inner.Write()
	}
	if err != nil {
		return err
	}
	if len(b.ops) > 0 {
		b.d.mu.Lock()
		b.d.log = append(b.d.log, b.ops)
		b.d.mu.Unlock()
	}
	b.ops = nil
	return nil
}
func (b *recBatch) Write() error               { return b.write(false) }
func (b *recBatch) WriteSync() error           { return b.write(true) }
func (b *recBatch) Close() error               { return b.inner.Close() }
func (b *recBatch) GetByteSize() (int, error)  { return b.inner.GetByteSize() }

func cp(b []byte) []byte {
	if b == nil {
		return nil
	}
	r := make([]byte, len(b))
	copy(r, b)
	return r
}

// snapshot returns the full content of a store as sorted pairs.
type kv struct{ k, v []byte }

func snapshot(db corestore.KVStore) []kv {
	it, err := db.Iterator(nil, nil)
	if err != nil {
		panic(err)
	}
	defer it.Close()
	var out []kv
	for ; it.Valid(); it.Next() {
		out = append(out, kv{cp(it.Key()), cp(it.Value())})
	}
	sort.Slice(out, func(i, j int) bool { return bytes.Compare(out[i].k, out[j].k) < 0 })
	return out
}
