package main

// codec mode (C13): the public decoders of stored bytes on arbitrary input. Results are printed in
// the canonical form the model's decoders print; a panic is caught and printed as `panic`.

import (
	"bufio"
	"encoding/binary"
	"encoding/hex"
	"fmt"
	"os"
	"runtime/debug"
	"strings"

	"github.com/cosmos/iavl"
	idb "github.com/cosmos/iavl/db"
	"github.com/cosmos/iavl/fastnode"
	ics23 "github.com/cosmos/ics23/go"
)

// parseExist reads `<key> <value> <leafprefix> <n> <pfx1> <sfx1> ...` or `-` (no proof) from toks.
func parseExist(toks []string) (*ics23.ExistenceProof, []string) {
	if toks[0] == "-" {
		return nil, toks[1:]
	}
	e := &ics23.ExistenceProof{Key: dec(toks[0]), Value: dec(toks[1]), Leaf: &ics23.LeafOp{
		Hash: ics23.HashOp_SHA256, PrehashValue: ics23.HashOp_SHA256, Length: ics23.LengthOp_VAR_PROTO, Prefix: dec(toks[2])}}
	n := int(atoi(toks[3]))
	toks = toks[4:]
	for i := 0; i < n; i++ {
		e.Path = append(e.Path, &ics23.InnerOp{Hash: ics23.HashOp_SHA256, Prefix: dec(toks[0]), Suffix: dec(toks[1])})
		toks = toks[2:]
	}
	return e, toks
}

// icsVerify: the verdict of the real ics23 verifier under IavlSpec (C03: the Lean model of the
// verifier, about which soundness is proved, is compared with it on genuine and mutated proofs).
//   vex  <root> <key> <value> <exist...>
//   vnon <root> <key> L <exist...|-> R <exist...|->
func icsVerify(args []string) string {
	root := dec(args[1])
	key := dec(args[2])
	if args[0] == "vex" {
		e, _ := parseExist(args[4:])
		p := &ics23.CommitmentProof{Proof: &ics23.CommitmentProof_Exist{Exist: e}}
		return b2s(ics23.VerifyMembership(ics23.IavlSpec, root, p, key, dec(args[3])))
	}
	l, rest := parseExist(args[4:])
	r, _ := parseExist(rest[1:])
	p := &ics23.CommitmentProof{Proof: &ics23.CommitmentProof_Nonexist{Nonexist: &ics23.NonExistenceProof{Key: key, Left: l, Right: r}}}
	return b2s(ics23.VerifyNonMembership(ics23.IavlSpec, root, p, key))
}

func codecExec(args []string) (res string) {
	defer func() {
		if r := recover(); r != nil {
			res = "panic"
			if os.Getenv("VERIF_DEBUG") != "" {
				fmt.Fprintln(os.Stderr, "panic:", r, string(debug.Stack()))
			}
		}
	}()
	switch args[0] {
	case "vex", "vnon":
		return icsVerify(args)
	}
	bz := dec(args[1])
	switch args[0] {
	case "makenode":
		nk := make([]byte, 12)
		nk[7] = 7
		nk[11] = 3
		n, err := iavl.MakeNode(nk, bz)
		if err != nil {
			return "err"
		}
		h, sz, _, key, value, hash, l, r, _ := iavl.VerifNodeFields(n)
		if h == 0 {
			return fmt.Sprintf("leaf sz=%d k=%s v=%s", sz, enc(key), enc(nilToEmpty(value)))
		}
		return fmt.Sprintf("inner h=%d sz=%d k=%s hash=%s l=%s r=%s", h, sz, enc(key), enc(nilToEmpty(hash)), hex.EncodeToString(l), hex.EncodeToString(r))
	case "makelegacy":
		hsh := make([]byte, 32)
		n, err := iavl.MakeLegacyNode(hsh, bz)
		if err != nil {
			return "err"
		}
		h, sz, ver, key, value, _, l, r, _ := iavl.VerifNodeFields(n)
		if h == 0 {
			return fmt.Sprintf("leaf h=%d sz=%d ver=%d k=%s v=%s", h, sz, ver, enc(key), enc(nilToEmpty(value)))
		}
		return fmt.Sprintf("inner h=%d sz=%d ver=%d k=%s l=%s r=%s", h, sz, ver, enc(key), hex.EncodeToString(l), hex.EncodeToString(r))
	case "fastnode":
		n, err := fastnode.DeserializeNode([]byte("k"), bz)
		if err != nil {
			return "err"
		}
		return fmt.Sprintf("ver=%d v=%s", n.GetVersionLastUpdatedAt(), enc(nilToEmpty(n.GetValue())))
	case "decbytes":
		b, n, err := iavl.VerifDecodeBytes(bz)
		if err != nil {
			return "err"
		}
		return fmt.Sprintf("%s n=%d", enc(nilToEmpty(b)), n)
	case "decvarint":
		i, n, err := iavl.VerifDecodeVarint(bz)
		if err != nil {
			return "err"
		}
		return fmt.Sprintf("%d n=%d", i, n)
	case "decuvarint":
		u, n, err := iavl.VerifDecodeUvarint(bz)
		if err != nil {
			return "err"
		}
		return fmt.Sprintf("%d n=%d", u, n)
	case "lrootval":
		// a legacy-format store with one version whose root hash is the given 32 bytes: root record
		// r<version> = hash, node record n<hash> = a legacy leaf. Whatever the bytes of the hash are (its first
		// byte may equal a key-space prefix), the store must load and the leaf must be read.
		if len(bz) != 32 {
			return "bad"
		}
		db := idb.NewMemDB()
		var rec []byte
		var tmp [binary.MaxVarintLen64]byte
		for _, x := range []int64{0, 1, 1} { // height, size, version
			rec = append(rec, tmp[:binary.PutVarint(tmp[:], x)]...)
		}
		rec = append(rec, 1, 'k') // key
		rec = append(rec, 1, 'v') // value
		db.Set(append([]byte{'n'}, bz...), rec)
		db.Set([]byte{'r', 0, 0, 0, 0, 0, 0, 0, 1}, bz)
		t := iavl.NewMutableTree(db, 0, true, iavl.NewNopLogger())
		v, err := t.Load()
		if err != nil {
			return "err:load"
		}
		val, err := t.Get([]byte("k"))
		if err != nil {
			return "err:get"
		}
		t.Close()
		return fmt.Sprintf("ok ver=%d val=%s", v, enc(val))
	case "rootval":
		// an arbitrary value stored under the root key of version 1, plus a node key it may refer to
		db := idb.NewMemDB()
		rk := append([]byte{'s'}, 0, 0, 0, 0, 0, 0, 0, 1, 0, 0, 0, 1)
		if len(bz) == 0 {
			bz = []byte{}
		}
		db.Set(rk, bz)
		// the reference-root reader: GetRoot + the decode of the root record, nothing below it
		t := iavl.NewMutableTree(db, 0, true, iavl.NewNopLogger())
		t.Load()
		t.VersionExists(1)
		t.GetImmutable(1)
		t.Close()
		return "nopanic"
	}
	return "bad"
}

func runCodec(path string) {
	f, err := os.Open(path)
	if err != nil {
		panic(err)
	}
	defer f.Close()
	out := bufio.NewWriterSize(os.Stdout, 1<<16)
	defer out.Flush()
	sc := bufio.NewScanner(f)
	sc.Buffer(make([]byte, 1<<20), 1<<26)
	start := 0
	if len(os.Args) > 3 {
		start = int(atoi(os.Args[3]))
	}
	lineNo := 0
	for sc.Scan() {
		line := sc.Text()
		lineNo++
		if lineNo <= start || line == "" || line[0] == '#' {
			continue
		}
		args := strings.Fields(line)
		res := "ok"
		if args[0] != "new" {
			res = guarded(out, func() string { return codecExec(args) })
		}
		fmt.Fprintf(out, "%d %s => %s\n", lineNo, line, res)
	}
}
