package main

// stress mode (C06, searched not proved): N reader goroutines read committed versions (lookups,
// iteration, proofs, export) while one writer keeps writing, committing and deleting versions no
// reader holds. Built with -race (bin/h1race): every race report is a violation; every read is
// compared with the contents recorded when the version was committed.

import (
	"bytes"
	"fmt"
	"math/rand"
	"os"
	"sort"
	"sync"
	"sync/atomic"
	"time"

	"github.com/cosmos/iavl"
	idb "github.com/cosmos/iavl/db"
	ics23 "github.com/cosmos/ics23/go"
)

type verRec struct {
	contents map[string][]byte
	hash     []byte
}

func runStress(args []string) {
	seed := atoi(args[0])
	durMs := atoi(args[1])
	rng := rand.New(rand.NewSource(seed))
	cacheSizes := []int{0, 0, 3, 100}
	cache := cacheSizes[rng.Intn(len(cacheSizes))]
	fast := rng.Intn(2) == 0
	async := rng.Intn(4) == 0
	var opts []iavl.Option
	if async {
		opts = append(opts, iavl.AsyncPruningOption(true))
	}
	if rng.Intn(2) == 0 {
		opts = append(opts, iavl.FlushThresholdOption(300))
	}
	db := idb.NewMemDB()
	tree := iavl.NewMutableTree(db, cache, !fast, iavl.NewNopLogger(), opts...)
	if _, err := tree.Load(); err != nil {
		fmt.Println("mismatch load:", err)
		return
	}
	fmt.Printf("cfg cache=%d fast=%v async=%v\n", cache, fast, async)

	var mu sync.Mutex
	recs := map[int64]*verRec{}
	claims := map[int64]int{}
	var published []int64
	var prunedTo int64
	var stop int32
	var reads int64
	var problems []string
	report := func(s string) {
		mu.Lock()
		if len(problems) < 5 {
			problems = append(problems, s)
		}
		mu.Unlock()
	}

	keys := make([][]byte, 24)
	for i := range keys {
		keys[i] = []byte(fmt.Sprintf("k%02d", i))
	}

	var wg sync.WaitGroup
	// writer
	wg.Add(1)
	go func() {
		defer wg.Done()
		wr := rand.New(rand.NewSource(seed + 1))
		working := map[string][]byte{}
		for atomic.LoadInt32(&stop) == 0 {
			for i := 0; i < wr.Intn(6); i++ {
				k := keys[wr.Intn(len(keys))]
				if wr.Intn(3) == 0 {
					tree.Remove(k)
					delete(working, string(k))
				} else {
					v := []byte(fmt.Sprintf("v%d", wr.Intn(1000)))
					tree.Set(k, v)
					working[string(k)] = v
				}
			}
			h, v, err := tree.SaveVersion()
			if err != nil {
				report("save: " + err.Error())
				return
			}
			c := make(map[string][]byte, len(working))
			for k, val := range working {
				c[k] = val
			}
			mu.Lock()
			recs[v] = &verRec{contents: c, hash: h}
			published = append(published, v)
			// delete versions nobody holds, keeping the three latest
			lim := v - 3
			for cv, n := range claims {
				if n > 0 && cv-1 < lim {
					lim = cv - 1
				}
			}
			doPrune := lim > prunedTo && wr.Intn(3) == 0
			if doPrune {
				// readers pick only versions above prunedTo: publish the new bound first
				prunedTo = lim
			}
			mu.Unlock()
			if doPrune {
				if err := tree.DeleteVersionsTo(lim); err != nil {
					report("prune: " + err.Error())
					return
				}
			}
		}
	}()
	// readers
	nReaders := 4
	for r := 0; r < nReaders; r++ {
		wg.Add(1)
		go func(id int) {
			defer wg.Done()
			rr := rand.New(rand.NewSource(seed + 100 + int64(id)))
			for atomic.LoadInt32(&stop) == 0 {
				mu.Lock()
				var cands []int64
				for _, v := range published {
					if v > prunedTo {
						cands = append(cands, v)
					}
				}
				if len(cands) == 0 {
					mu.Unlock()
					time.Sleep(time.Millisecond)
					continue
				}
				v := cands[rr.Intn(len(cands))]
				claims[v]++
				rec := recs[v]
				mu.Unlock()
				func() {
					defer func() {
						if p := recover(); p != nil {
							report(fmt.Sprintf("panic reading version %d: %v", v, p))
						}
					}()
					it, err := tree.GetImmutable(v)
					if err != nil {
						report(fmt.Sprintf("GetImmutable(%d): %v", v, err))
						return
					}
					if !bytes.Equal(it.Hash(), rec.hash) {
						report(fmt.Sprintf("version %d: hash differs from the commit hash", v))
					}
					for i := 0; i < 6; i++ {
						k := keys[rr.Intn(len(keys))]
						want := rec.contents[string(k)]
						got, err := it.Get(k)
						if err != nil || !bytes.Equal(got, want) {
							report(fmt.Sprintf("version %d Get(%s) = %q want %q err=%v", v, k, got, want, err))
						}
						_, got2, err := it.GetWithIndex(k)
						if err != nil || !bytes.Equal(got2, want) {
							report(fmt.Sprintf("version %d GetWithIndex(%s) = %q want %q", v, k, got2, want))
						}
						has, _ := it.Has(k)
						if has != (want != nil) {
							report(fmt.Sprintf("version %d Has(%s) = %v", v, k, has))
						}
					}
					if rr.Intn(3) == 0 {
						itr, err := it.Iterator(nil, nil, true)
						if err == nil {
							n := 0
							var ks []string
							for k := range rec.contents {
								ks = append(ks, k)
							}
							sort.Strings(ks)
							for ; itr.Valid(); itr.Next() {
								if n >= len(ks) || string(itr.Key()) != ks[n] || !bytes.Equal(itr.Value(), rec.contents[ks[n]]) {
									report(fmt.Sprintf("version %d iteration differs at element %d", v, n))
									break
								}
								n++
							}
							if itr.Error() == nil && n != len(ks) {
								report(fmt.Sprintf("version %d iteration yields %d of %d", v, n, len(ks)))
							}
							itr.Close()
						}
					}
					if rr.Intn(4) == 0 && len(rec.contents) > 0 {
						k := keys[rr.Intn(len(keys))]
						p, err := it.GetProof(k)
						if err != nil {
							report(fmt.Sprintf("version %d GetProof: %v", v, err))
						} else if want, ok := rec.contents[string(k)]; ok {
							if !ics23.VerifyMembership(ics23.IavlSpec, rec.hash, p, k, want) {
								report(fmt.Sprintf("version %d membership proof of %s does not verify", v, k))
							}
						} else if !ics23.VerifyNonMembership(ics23.IavlSpec, rec.hash, p, k) {
							report(fmt.Sprintf("version %d non-membership proof of %s does not verify", v, k))
						}
					}
					if rr.Intn(6) == 0 {
						ex, err := it.Export()
						if err == nil {
							leaves := 0
							for {
								nd, err := ex.Next()
								if err != nil {
									if err != iavl.ErrorExportDone {
										report(fmt.Sprintf("version %d export error: %v", v, err))
									}
									break
								}
								if nd.Height == 0 {
									leaves++
								}
							}
							ex.Close()
							if leaves != len(rec.contents) {
								report(fmt.Sprintf("version %d export has %d leaves, want %d", v, leaves, len(rec.contents)))
							}
						}
					}
					atomic.AddInt64(&reads, 1)
				}()
				mu.Lock()
				claims[v]--
				mu.Unlock()
			}
		}(r)
	}
	time.Sleep(time.Duration(durMs) * time.Millisecond)
	atomic.StoreInt32(&stop, 1)
	wg.Wait()
	tree.Close()
	mu.Lock()
	defer mu.Unlock()
	if len(problems) > 0 {
		for _, p := range problems {
			fmt.Println("mismatch", p)
		}
		os.Exit(1)
	}
	fmt.Printf("ok versions=%d reads=%d prunedTo=%d\n", len(published), reads, prunedTo)
}
