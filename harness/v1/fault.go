package main

// fault mode (C17): every operation of a history is first executed fault-free; then, for every
// storage call it made (Get, Has, iterator creation / step, batch Set / Delete / Write), the
// operation is re-executed from the same storage image with exactly that call failing. Outcome
// classes per position: `err` (the failure is reported), `same` (the answer equals the fault-free
// one), `bad` (a different answer presented as success), `panic`, `fatal`.
// For mutating operations the database left behind is reopened and must show the state before or
// after the operation.

import (
	"bufio"
	"fmt"
	"os"
	"strings"

	"github.com/cosmos/iavl"
	idb "github.com/cosmos/iavl/db"
)

func restoreDB(img []kv) *idb.MemDB {
	db := idb.NewMemDB()
	for _, p := range img {
		db.Set(p.k, p.v)
	}
	return db
}

// newFaultSession builds a session on a copy of the image, positioned like the original: opened at
// `target` (0 = latest) with the pending uncommitted writes replayed.
func (s *session) cloneAt(img []kv, target int64, pending []string) *session {
	c := &session{cfg: s.cfg, streams: s.streams, exporters: map[string]*iavl.Exporter{}}
	c.backend = restoreDB(img)
	c.rec = newRecDB(c.backend)
	c.tree = c.newTree()
	if _, err := c.tree.LoadVersion(target); err != nil {
		return nil
	}
	for _, l := range pending {
		c.exec(strings.Fields(l))
	}
	return c
}

func stateDigest(db *idb.MemDB, cfg config) string {
	s := &session{cfg: cfg}
	t, err := s.openImage(db)
	if err != nil {
		return "load-failed"
	}
	defer t.Close()
	return observeTree(t).String()
}

func faultable(op string) bool {
	switch op {
	case "new", "fresh", "cfg", "close", "dump", "writes", "rollback", "wver", "isempty", "size",
		"height", "version", "hold", "release", "reads", "ifempty":
		return false
	}
	return true
}

func (s *session) faultCheck(args []string, img []kv, target int64, pending []string, ref string) string {
	mut := isMutating(args[0])
	// dry run: count the storage calls of the operation
	c := s.cloneAt(img, target, pending)
	if c == nil {
		return "faults=0 skipped"
	}
	c.rec.calls = nil
	c.rec.recordCall = true
	r0 := splitRes(guardedQuiet(func() string { return c.exec(args) }))
	calls := append([]string{}, c.rec.calls...)
	c.rec.recordCall = false
	postDigest := ""
	preDigest := ""
	if mut {
		postDigest = stateDigest(restoreDB(snapshot(c.backend)), s.cfg)
		preDigest = stateDigest(restoreDB(img), s.cfg)
	}
	c.closeTree()
	if r0 != splitRes(ref) {
		return fmt.Sprintf("faults=%d nondeterministic (%s vs %s)", len(calls), r0, splitRes(ref))
	}
	// a write to the working tree (Set / Remove) that reports a failure must leave the working tree as it
	// was: otherwise later reads answer with absences or values as if nothing had happened
	workingOp := args[0] == "set" || args[0] == "rm"
	workDigest := func(x *session) (d string) {
		defer func() {
			if r := recover(); r != nil {
				d = fmt.Sprint("panic:", r)
			}
		}()
		a := &pairCollector{}
		x.tree.ImmutableTree.IterateRange(nil, nil, true, a.fn)
		out := fmtPairs(a.ps) + fmt.Sprintf(" size=%d", x.tree.Size())
		for _, p := range a.ps {
			v, err := x.tree.Get(p[0])
			out += fmt.Sprintf(" %s=%s/%v", enc(p[0]), enc(v), err != nil)
		}
		if len(args) > 1 {
			v, err := x.tree.Get(dec(args[1]))
			out += fmt.Sprintf(" probe=%s/%v", enc(v), err != nil)
		}
		return out
	}
	preWork := ""
	if workingOp {
		if c0 := s.cloneAt(img, target, pending); c0 != nil {
			preWork = workDigest(c0)
			c0.closeTree()
		}
	}
	nerr, nsame := 0, 0
	var bad []string
	limit := len(calls)
	if limit > 400 {
		limit = 400
	}
	for k := 1; k <= limit; k++ {
		c := s.cloneAt(img, target, pending)
		if c == nil {
			continue
		}
		c.rec.faultArmed = true
		c.rec.faultAt = k
		c.rec.faultSeen = 0
		c.rec.faultFired = 0
		r := splitRes(guardedQuiet(func() string { return c.exec(args) }))
		fired := c.rec.faultFired > 0
		c.rec.faultArmed = false
		class := ""
		switch {
		case !fired:
			class = "same" // the call sequence changed and the position was not reached
		case r == "panic":
			class = "panic"
		case strings.HasPrefix(r, "err"):
			class = "err"
			if workingOp {
				if d := workDigest(c); d != preWork {
					class = "err-but-working-tree-changed"
				}
			}
			if mut {
				d := stateDigest(restoreDB(snapshot(c.backend)), s.cfg)
				if d != preDigest && d != postDigest {
					class = "err-but-store-mixed"
				}
			}
		case r == r0:
			class = "same"
			if mut {
				d := stateDigest(restoreDB(snapshot(c.backend)), s.cfg)
				if d != postDigest {
					class = "ok-but-store-differs"
				}
			}
		default:
			class = "bad"
		}
		func() {
			defer func() { recover() }()
			c.closeTree()
		}()
		switch class {
		case "err":
			nerr++
		case "same":
			nsame++
		default:
			if len(bad) < 6 {
				bad = append(bad, fmt.Sprintf("%d:%s:%s", k, calls[k-1], class))
			} else if len(bad) == 6 {
				bad = append(bad, "...")
			}
		}
	}
	if len(bad) > 0 {
		return fmt.Sprintf("faults=%d err=%d same=%d bad=[%s]", len(calls), nerr, nsame, strings.Join(bad, ","))
	}
	return fmt.Sprintf("faults=%d err=%d same=%d ok", len(calls), nerr, nsame)
}

func splitRes(s string) string {
	if i := strings.Index(s, " ## "); i >= 0 {
		return s[:i]
	}
	return s
}

func guardedQuiet(f func() string) (res string) {
	defer func() {
		if r := recover(); r != nil {
			res = "panic"
		}
	}()
	return f()
}

func runFault(path string) {
	f, err := os.Open(path)
	if err != nil {
		panic(err)
	}
	defer f.Close()
	out := bufio.NewWriterSize(os.Stdout, 1<<16)
	defer out.Flush()
	s := &session{}
	s.reset()
	sc := bufio.NewScanner(f)
	sc.Buffer(make([]byte, 1<<20), 1<<28)
	start := 0
	if len(os.Args) > 3 {
		start = int(atoi(os.Args[3]))
	}
	lineNo := 0
	var pending []string
	var target int64 // version the tree is positioned on (0 = latest at open)
	for sc.Scan() {
		line := sc.Text()
		lineNo++
		if lineNo <= start || line == "" || line[0] == '#' {
			continue
		}
		args := strings.Fields(line)
		var res string
		if faultable(args[0]) && s.backend != nil && s.tree != nil && args[0] != "open" {
			img := snapshot(s.backend)
			pend := append([]string{}, pending...)
			tgt := target
			res = guarded(out, func() string { return s.exec(args) })
			if res != "panic" {
				fr := guarded(out, func() string { return s.faultCheck(args, img, tgt, pend, res) })
				res = res + " ## " + fr
			}
		} else {
			res = guarded(out, func() string { return s.exec(args) })
		}
		ok := !strings.HasPrefix(res, "err") && res != "panic"
		switch args[0] {
		case "set", "rm":
			pending = append(pending, line)
		case "save", "savecs", "import":
			if ok {
				pending = nil
				if v, err := s.tree.GetLatestVersion(); err == nil {
					target = v
				}
			}
		case "rollback":
			pending = nil
		case "load", "loadow":
			if ok {
				pending = nil
				target = atoi(args[1])
			}
		case "open":
			pending = nil
			target = 0
			if len(args) > 1 {
				target = atoi(args[1])
			}
		case "new", "fresh", "delfrom":
			pending = nil
			target = 0
		}
		fmt.Fprintf(out, "%d %s => %s\n", lineNo, line, res)
		out.Flush()
	}
	s.reset()
}
