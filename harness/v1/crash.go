package main

// crash mode (C05): every history is executed normally; around every storage-mutating operation
// the physical batch writes are recorded, and for every boundary between two consecutive physical
// writes the storage image "state before + first i writes" is reopened and judged:
//   - Load() must succeed;
//   - the observable state (available versions; hash and contents of each by tree walk; for the
//     latest version also through the fast index: Get of every key and MutableTree.Iterate) must be
//     the state before the operation or the state after it;
//   - repeating the interrupted operation must succeed and reach the crash-free result.

import (
	"bufio"
	"bytes"
	"fmt"
	"os"
	"sort"
	"strings"

	"github.com/cosmos/iavl"
	idb "github.com/cosmos/iavl/db"
)

func imageDB(pre []kv, writes [][]bop, upto int) *idb.MemDB {
	db := idb.NewMemDB()
	for _, p := range pre {
		db.Set(p.k, p.v)
	}
	for i := 0; i < upto; i++ {
		for _, o := range writes[i] {
			if o.del {
				db.Delete(o.k)
			} else {
				db.Set(o.k, o.v)
			}
		}
	}
	return db
}

type verState struct {
	hash     string
	contents string
	problem  string
}

type obsState struct {
	loadErr  bool
	avail    []int
	vers     map[int]verState
	indexBad string
}

func (o *obsState) String() string {
	if o.loadErr {
		return "load-failed"
	}
	var sb strings.Builder
	sb.WriteString(fmt.Sprint(o.avail))
	for _, v := range o.avail {
		s := o.vers[v]
		sb.WriteString(fmt.Sprintf(";%d:%s:%s:%s", v, s.hash, s.contents, s.problem))
	}
	sb.WriteString(";idx=" + o.indexBad)
	return sb.String()
}

func observeTree(t *iavl.MutableTree) (o *obsState) {
	o = &obsState{vers: map[int]verState{}}
	o.avail = t.AvailableVersions()
	for _, v := range o.avail {
		vs := verState{}
		func() {
			defer func() {
				if r := recover(); r != nil {
					vs.problem = "panic"
				}
			}()
			it, err := t.GetImmutable(int64(v))
			if err != nil {
				vs.problem = "unreadable"
				return
			}
			vs.hash = enc(it.Hash())
			itr := iavl.NewIterator(nil, nil, true, it)
			var ps [][2][]byte
			for ; itr.Valid(); itr.Next() {
				ps = append(ps, [2][]byte{cp(itr.Key()), cp(itr.Value())})
			}
			if itr.Error() != nil {
				vs.problem = "walk-error"
			}
			itr.Close()
			if int64(len(ps)) != it.Size() {
				vs.problem = "walk-short"
			}
			vs.contents = fmtPairs(ps)
			for _, p := range ps {
				val, err := it.Get(p[0]) // may be served by the fast index
				if err != nil || !bytes.Equal(val, p[1]) {
					vs.problem = "get!=walk@" + enc(p[0])
				}
			}
		}()
		o.vers[v] = vs
	}
	// working tree == latest version: index-backed iteration vs tree walk
	func() {
		defer func() {
			if r := recover(); r != nil {
				o.indexBad = "panic"
			}
		}()
		c := &pairCollector{}
		if _, err := t.Iterate(c.fn); err != nil {
			o.indexBad = "iterate-error"
			return
		}
		if len(o.avail) > 0 {
			last := o.vers[o.avail[len(o.avail)-1]]
			if last.problem == "" && fmtPairs(c.ps) != last.contents {
				o.indexBad = "iterate!=walk"
			}
		}
	}()
	return o
}

func (s *session) openImage(db *idb.MemDB) (*iavl.MutableTree, error) {
	var opts []iavl.Option
	if s.cfg.thr > 0 {
		opts = append(opts, iavl.FlushThresholdOption(s.cfg.thr))
	}
	if s.cfg.iv >= 0 {
		opts = append(opts, iavl.InitialVersionOption(uint64(s.cfg.iv)))
	}
	t := iavl.NewMutableTree(db, 0, !s.cfg.fast, iavl.NewNopLogger(), opts...)
	_, err := t.Load()
	return t, err
}

func sameAvail(a, b []int) bool {
	if len(a) != len(b) {
		return false
	}
	for i := range a {
		if a[i] != b[i] {
			return false
		}
	}
	return true
}

// judge one cut image against the states before / after the operation.
func judge(o, pre, post *obsState, deleting func(v int) bool) string {
	if o.loadErr {
		return "load-failed"
	}
	if o.String() == pre.String() || o.String() == post.String() {
		return ""
	}
	if o.indexBad != "" {
		return "index:" + o.indexBad
	}
	// version by version
	for _, v := range o.avail {
		vs := o.vers[v]
		if vs.problem != "" {
			if deleting(v) {
				return fmt.Sprintf("mixture: version %d being deleted is listed but %s", v, vs.problem)
			}
			return fmt.Sprintf("damaged: version %d (not being deleted) is %s", v, vs.problem)
		}
		ref, ok := pre.vers[v]
		if !ok {
			ref, ok = post.vers[v]
		}
		if !ok {
			return fmt.Sprintf("phantom: version %d is listed but exists neither before nor after", v)
		}
		if pv, ok := post.vers[v]; ok && (vs.hash == pv.hash && vs.contents == pv.contents) {
			continue
		}
		if vs.hash != ref.hash || vs.contents != ref.contents {
			return fmt.Sprintf("changed: version %d differs from its contents before and after", v)
		}
	}
	for _, v := range pre.avail {
		if deleting(v) {
			continue
		}
		if _, ok := post.vers[v]; !ok {
			continue
		}
		if _, ok := o.vers[v]; !ok {
			return fmt.Sprintf("lost: version %d (kept by the operation) is not available", v)
		}
	}
	if !sameAvail(o.avail, pre.avail) && !sameAvail(o.avail, post.avail) {
		return "partial: the available versions are neither those before nor those after (every listed version intact)"
	}
	return "differs"
}

func isMutating(op string) bool {
	switch op {
	case "save", "prune", "loadow", "delfrom", "import", "savecs", "open":
		return true
	}
	return false
}

func (s *session) crashCheck(args []string, pending []string, pre []kv, writes [][]bop) string {
	n := len(writes)
	if n < 2 {
		return fmt.Sprintf("n=%d cuts=0 ok", n)
	}
	obs := func(upto int) (*obsState, *iavl.MutableTree) {
		t, err := s.openImage(imageDB(pre, writes, upto))
		if err != nil {
			return &obsState{loadErr: true}, t
		}
		return observeTree(t), t
	}
	preO, t0 := obs(0)
	t0.Close()
	postO, t1 := obs(n)
	t1.Close()
	var target int64
	if len(args) > 1 {
		target = atoi(args[1])
	}
	deleting := func(v int) bool {
		switch args[0] {
		case "prune":
			return int64(v) <= target
		case "loadow":
			return int64(v) > target
		case "delfrom":
			return int64(v) >= target
		}
		return false
	}
	partials := 0
	firstState, firstRetry := "", ""
	for i := 1; i < n; i++ {
		o, t := obs(i)
		why := judge(o, preO, postO, deleting)
		if strings.HasPrefix(why, "partial") {
			partials++
			why = ""
		}
		if why != "" && firstState == "" {
			firstState = fmt.Sprintf("n=%d cut=%d %s", n, i, why)
		}
		if o.loadErr {
			if t != nil {
				t.Close()
			}
			continue // nothing to retry on a store that does not load
		}
		// retry the interrupted operation (also from a state that is neither before nor after: the
		// operation must still be completable)
		retry := func() (res string) {
			defer func() {
				if r := recover(); r != nil {
					res = "retry-panic"
				}
			}()
			switch args[0] {
			case "save", "savecs":
				lat, _ := t.GetLatestVersion()
				postLatest := int64(0)
				if len(postO.avail) > 0 {
					postLatest = int64(postO.avail[len(postO.avail)-1])
				}
				if lat == postLatest {
					return "" // already the new state
				}
				sub := &session{cfg: s.cfg, tree: t, rec: newRecDB(idb.NewMemDB()), streams: s.streams, exporters: map[string]*iavl.Exporter{}}
				for _, l := range pending {
					sub.exec(strings.Fields(l))
				}
				if r := sub.exec(args); strings.HasPrefix(r, "err") || r == "panic" {
					return "retry-failed"
				}
			case "prune":
				lat, _ := t.GetLatestVersion()
				if target >= lat {
					return ""
				}
				if err := t.DeleteVersionsTo(target); err != nil {
					return "retry-failed"
				}
			case "loadow":
				if err := t.LoadVersionForOverwriting(target); err != nil {
					return "retry-failed"
				}
			case "delfrom":
				if err := t.DeleteVersionsFrom(target); err != nil {
					return "retry-failed"
				}
				if _, err := t.Load(); err != nil {
					return "retry-failed"
				}
			default:
				return ""
			}
			after := observeTree(t)
			if after.String() != postO.String() {
				return "retry-differs"
			}
			return ""
		}()
		t.Close()
		if retry != "" && firstRetry == "" {
			firstRetry = fmt.Sprintf("cut=%d %s", i, retry)
		}
	}
	if firstState != "" || firstRetry != "" {
		if firstState == "" {
			return fmt.Sprintf("n=%d %s", n, firstRetry)
		}
		if firstRetry == "" {
			return firstState
		}
		return firstState + " ; also " + firstRetry
	}
	return fmt.Sprintf("n=%d cuts=%d partial=%d ok", n, n-1, partials)
}

func runCrash(path string) {
	f, err := os.Open(path)
	if err != nil {
		panic(err)
	}
	defer f.Close()
	out := bufio.NewWriterSize(os.Stdout, 1<<16)
	defer out.Flush()
	s := &session{}
	s.reset()
	sc := bufio.NewScanner(f)
	sc.Buffer(make([]byte, 1<<20), 1<<28)
	start := 0
	if len(os.Args) > 3 {
		start = int(atoi(os.Args[3]))
	}
	lineNo := 0
	var pending []string
	var lastWrites [][]bop
	for sc.Scan() {
		line := sc.Text()
		lineNo++
		if lineNo <= start || line == "" || line[0] == '#' {
			continue
		}
		args := strings.Fields(line)
		var res string
		if args[0] == "wlog" {
			// the physical writes of the last mutating operation: operation sizes and chunk lengths, for the
			// model of BatchWithFlusher (MemDB only: other backends size their batches differently)
			if lastWrites == nil || s.cfg.db != "mem" {
				fmt.Fprintf(out, "%d %s => %s\n", lineNo, line, "none")
				continue
			}
			thr := s.cfg.thr
			if thr <= 0 {
				thr = iavl.DefaultOptions().FlushThreshold
			}
			var ops, chunks []string
			for _, w := range lastWrites {
				chunks = append(chunks, fmt.Sprint(len(w)))
				for _, o := range w {
					if o.del {
						ops = append(ops, fmt.Sprintf("d%d", len(o.k)))
					} else {
						ops = append(ops, fmt.Sprintf("s%d+%d", len(o.k), len(o.v)))
					}
				}
			}
			fmt.Fprintf(out, "%d %s => thr=%d ops=%s chunks=%s\n", lineNo, line, thr, strings.Join(ops, ","), strings.Join(chunks, ","))
			continue
		}
		if isMutating(args[0]) && s.backend != nil && s.rec != nil {
			pre := snapshot(s.backend)
			s.rec.log = nil
			res = guarded(out, func() string { return s.exec(args) })
			writes := s.rec.log
			lastWrites = nil
			if args[0] == "save" || args[0] == "prune" || (args[0] == "delfrom" && !s.cfg.fast) {
				// operations that are ONE logical batch written through the flusher (a rollback commits
				// twice when the fast index is enabled: the deletion, then the rebuilt index)
				lastWrites = writes
			}
			s.rec.log = nil
			if !strings.HasPrefix(res, "err") && res != "panic" {
				pend := append([]string{}, pending...)
				cr := guarded(out, func() string { return s.crashCheck(args, pend, pre, writes) })
				res = res + " ## " + cr
			}
		} else {
			res = guarded(out, func() string { return s.exec(args) })
		}
		switch args[0] {
		case "set", "rm":
			pending = append(pending, line)
		case "save", "savecs", "rollback", "load", "loadow", "open", "new", "fresh", "import":
			// (DeleteVersionsFrom is not in this list: it leaves the uncommitted writes of the tree object in place)
			if !strings.HasPrefix(res, "err") {
				pending = nil
			}
		}
		fmt.Fprintf(out, "%d %s => %s\n", lineNo, line, res)
		out.Flush()
	}
	s.reset()
}

var _ = sort.Ints
