module verif/h1

go 1.23.0

require (
	cosmossdk.io/core v1.0.0
	github.com/cosmos/iavl v0.0.0
	github.com/cosmos/ics23/go v0.11.0
)

require (
	github.com/cosmos/gogoproto v1.7.0 // indirect
	github.com/emicklei/dot v1.8.0 // indirect
	github.com/gogo/protobuf v1.3.2 // indirect
	github.com/golang/snappy v0.0.4 // indirect
	github.com/google/btree v1.1.3 // indirect
	github.com/google/go-cmp v0.7.0 // indirect
	github.com/syndtr/goleveldb v1.0.1-0.20210819022825-2ae1ddf74ef7 // indirect
	golang.org/x/crypto v0.36.0 // indirect
	golang.org/x/sys v0.31.0 // indirect
	google.golang.org/protobuf v1.36.6 // indirect
)

replace github.com/cosmos/iavl => /repo
