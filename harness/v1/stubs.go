package main

func runFault(path string) { panic("not built yet") }
func runCodec(path string) { panic("not built yet") }
