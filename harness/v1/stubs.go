package main

