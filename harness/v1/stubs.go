package main

func runCodec(path string) { panic("not built yet") }
