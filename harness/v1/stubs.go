package main

func runCrash(path string) { panic("not built yet") }
func runFault(path string) { panic("not built yet") }
func runCodec(path string) { panic("not built yet") }
