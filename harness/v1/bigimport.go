package main

// bigimport mode (C17 / C10, implementation only): an import of more than maxBatchSize (10000) nodes
// is written in several batches, the earlier ones by a background goroutine. Every single failing
// batch write (Write / WriteSync) of such an import is enumerated:
//   - Add or Commit must report an error, or the imported version must be complete (same root hash,
//     every pair readable from a fresh tree object on the same store);
//   - Close() after the failure must return (no hang on the background-write channel);
//   - nothing may panic.
// Lines: "cfg ...", then one "ok ..." / "mismatch ..." line per fault position, then a summary.

import (
	"bytes"
	"fmt"
	"os"
	"time"

	"github.com/cosmos/iavl"
	idb "github.com/cosmos/iavl/db"
)

func runBigImport(args []string) {
	seed := atoi(args[0])
	nLeaves := []int{5200, 7600, 10400, 15300}[seed%4] + int(seed%7)*10
	if len(args) > 1 {
		nLeaves = int(atoi(args[1]))
	}
	src := iavl.NewMutableTree(idb.NewMemDB(), 0, true, iavl.NewNopLogger())
	want := map[string][]byte{}
	for i := 0; i < nLeaves; i++ {
		k := []byte(fmt.Sprintf("k%06d", (int64(i)*7919+seed*13)%1000003))
		v := []byte(fmt.Sprintf("v%d", i))
		src.Set(k, v)
		want[string(k)] = v
	}
	wantHash, ver, err := src.SaveVersion()
	if err != nil {
		fmt.Println("mismatch source save:", err)
		os.Exit(1)
	}
	it, _ := src.GetImmutable(ver)
	ex, err := it.Export()
	if err != nil {
		fmt.Println("mismatch export:", err)
		os.Exit(1)
	}
	var nodes []*iavl.ExportNode
	for {
		n, err := ex.Next()
		if err != nil {
			break
		}
		nodes = append(nodes, n)
	}
	ex.Close()
	fmt.Printf("cfg leaves=%d nodes=%d\n", len(want), len(nodes))

	bad := 0
	positions := 0
	for _, fastOff := range []bool{true, false} {
		// fault-free run: count the batch writes
		count := func() int {
			rec := newRecDB(idb.NewMemDB())
			rec.recordCall = true
			runImport(rec, fastOff, nodes, ver)
			n := 0
			for _, c := range rec.calls {
				if c == "bwrite" {
					n++
				}
			}
			return n
		}()
		for k := 1; k <= count; k++ {
			positions++
			rec := newRecDB(idb.NewMemDB())
			rec.faultArmed = true
			rec.faultKinds = map[string]bool{"bwrite": true}
			rec.faultAt = k
			res := runImport(rec, fastOff, nodes, ver)
			rec.faultArmed = false
			verdict := ""
			switch {
			case res.panicked != "":
				verdict = "panic: " + res.panicked
			case res.closeHung:
				verdict = "Close() after the failed import never returns"
			case rec.faultFired == 0:
				verdict = "" // position not reached (schedule-dependent count): nothing to judge
			case res.err == nil:
				// reported as successful: then the version must be complete on the store
				if why := importedComplete(rec, ver, wantHash, want); why != "" {
					verdict = "import reported success although a batch write failed: " + why
				}
			}
			if verdict != "" {
				bad++
				fmt.Printf("mismatch fastoff=%v fault=bwrite#%d/%d: %s\n", fastOff, k, count, verdict)
			} else {
				fmt.Printf("ok fastoff=%v fault=bwrite#%d/%d err=%v\n", fastOff, k, count, res.err != nil)
			}
		}
	}
	if bad > 0 {
		os.Exit(1)
	}
	fmt.Printf("ok positions=%d\n", positions)
}

type importRes struct {
	err       error
	panicked  string
	closeHung bool
}

func runImport(rec *recDB, fastOff bool, nodes []*iavl.ExportNode, ver int64) (res importRes) {
	t := iavl.NewMutableTree(rec, 0, fastOff, iavl.NewNopLogger())
	imp, err := t.Import(ver)
	if err != nil {
		res.err = err
		return
	}
	func() {
		defer func() {
			if p := recover(); p != nil {
				res.panicked = fmt.Sprint(p)
			}
		}()
		for _, n := range nodes {
			if err := imp.Add(n); err != nil {
				res.err = err
				return
			}
		}
		res.err = imp.Commit()
	}()
	done := make(chan struct{})
	go func() {
		defer func() { recover(); close(done) }()
		imp.Close()
	}()
	select {
	case <-done:
	case <-time.After(10 * time.Second):
		res.closeHung = true
	}
	return
}

// importedComplete opens a fresh tree object on the store and reads everything back.
func importedComplete(rec *recDB, ver int64, wantHash []byte, want map[string][]byte) (why string) {
	defer func() {
		if p := recover(); p != nil {
			why = fmt.Sprint("panic while reading the imported version: ", p)
		}
	}()
	t := iavl.NewMutableTree(rec, 0, true, iavl.NewNopLogger())
	if _, err := t.LoadVersion(ver); err != nil {
		return "the version does not load: " + err.Error()
	}
	if !bytes.Equal(t.Hash(), wantHash) {
		return "root hash differs"
	}
	n := 0
	itr, err := t.Iterator(nil, nil, true)
	if err != nil {
		return "iterator: " + err.Error()
	}
	defer itr.Close()
	for ; itr.Valid(); itr.Next() {
		if !bytes.Equal(want[string(itr.Key())], itr.Value()) {
			return fmt.Sprintf("pair %q differs", itr.Key())
		}
		n++
	}
	if err := itr.Error(); err != nil {
		return "reading the imported version fails: " + err.Error()
	}
	if n != len(want) {
		return fmt.Sprintf("%d of %d pairs readable", n, len(want))
	}
	return ""
}
