"""History generators for the v1 harness (DESIGN.md §2.2).

Every random choice derives from one random.Random seeded from VERIF_SEED; a history is a list
of text lines and *is* its own replay. The generator keeps a plain versioned-map shadow of the
history only to choose meaningful arguments (existing keys, neighbours, valid prune targets) — it
is not an oracle.
"""
import os
import random

KEYS = [b"a", b"b", b"c", b"ab", b"ac", b"abc", b"b\x00", b"b\xff", b"\x00", b"\xff",
        b"k" * 40, b"d", b"e", b"ba", b"\xff\xff", b"a\x00"]


def enc(b):
    if b is None:
        return "-"
    return "x" + b.hex()


class Profile:
    """knobs of one generator run"""

    def __init__(self, **kw):
        self.nkeys = 8                 # size of the key alphabet used by one history
        self.versions = (3, 10)        # number of versions
        self.ops_per_version = (0, 6)
        self.p_noop_version = 0.2
        self.p_empty_value = 0.1
        self.p_remove = 0.3
        self.p_prune = 0.2
        self.p_loadow = 0.08
        self.p_reopen = 0.15
        self.p_load_old = 0.05
        self.p_rollback = 0.1
        self.p_delfrom = 0.03
        self.reads = ["get", "has", "gwi", "gbi", "size", "height"]
        self.reads_per_version = (0, 4)
        self.imm_reads_per_version = (0, 3)
        self.imm_reads = ["get", "has", "gwi", "gbi", "size", "height", "hash", "iter", "iterate", "irange"]
        self.meta_reads = ["latest", "avail", "vexists", "getv", "wver"]
        self.meta_per_version = (0, 2)
        self.hash_reads = ["whash", "lhash", "hash"]
        self.p_hash_read = 0.3
        self.proofs = 0.0              # probability of a proof query after a commit
        self.iters = 0.0               # probability of iterator queries per version
        self.exports = 0.0
        self.changes = 0.0
        self.dbs = ["mem", "mem", "mem", "ldb", "pfx:x70ff", "pfx:x7000"]
        self.caches = [0, 0, 1, 2, 3, 100]
        self.fasts = [True, True, False]
        self.thrs = [150, 200, 300, 400, 1000, 0, 0]
        self.ivs = [None, None, None, None, 1, 5, 7]
        self.dump = 0.0                # probability of a raw dump after a mutating step
        self.ixdump = 0.0              # probability of reading the persisted fast index (label, entries, stamps) for the index machine
        self.check_all_versions = 0.3  # probability of a full sweep of all retained versions after a step
        self.big = 0.0                 # probability of a "big tree" history (up to 60 keys)
        self.empty_out = 0.0           # probability that the history ends by removing every key and pruning everything
        self.p_savecs = 0.0            # probability that a version is written through SaveChangeSet
        self.p_reopen_old = 0.0        # reopen positioned on an older version (reads only), then back to latest
        self.p_save_existing = 0.5     # after loading an old version: replay the same writes (idempotent save)
        self.p_huge = 0.0              # probability (per history end) of one version of > 2000 keys that is then rolled back, followed by a restart
        self.p_unloaded = 0.0          # probability (per history end) of replaying the first version on a handle that was not loaded
        self.p_iterrace = 0.0          # conc mode only: probability that a commit races a parked index reader
        self.p_hold = 0.0              # probability that a deletion is attempted while an export pins one of its versions
        self.p_churn = 0.05            # probability of a version with many inserts, a hash query, then many removals
        for k, v in kw.items():
            if not hasattr(self, k):
                raise KeyError(k)
            setattr(self, k, v)


class Hist:
    def __init__(self, rng, prof, hid):
        self.r = rng
        self.p = prof
        self.lines = []
        self.versions = {}     # committed: version -> dict
        self.working = {}
        self.base = 0
        self.dirty = False
        self.iv_pending = None
        self.iv_opt = 0
        self.wlog = {}         # version -> list of write ops (for idempotent re-save)
        self.pruned_ever = False
        self.curlog = []
        big = rng.random() < prof.big
        n = rng.randint(20, 60) if big else rng.randint(2, prof.nkeys)
        if big:
            self.keys = [bytes([rng.randrange(256) for _ in range(rng.randint(1, 6))]) for _ in range(n)]
            self.keys = list(dict.fromkeys(self.keys))
        else:
            self.keys = rng.sample(KEYS, min(n, len(KEYS)))
        if rng.random() < 0.08:
            self.keys.append(rng.choice([b"L" * 128, b"M" * 127, b"N" * 129]))
        if rng.random() < 0.07:
            # neighbours in key order that share a long prefix (the delta codec of the compressed stream
            # writes the shared length as a varint: 127 / 128 / 255 / 256 are where its size changes)
            n = rng.choice([126, 127, 128, 129, 130, 200, 255, 256, 300])
            self.keys += [b"P" * n + s for s in (b"", b"a", b"b\x00", b"zz")][:rng.randint(2, 4)]
        if rng.random() < float(os.environ.get("VERIF_P_EMPTYKEY", "0.12")):
            # the empty key is a legal key (only nil is refused) and sorts first
            self.keys.append(b"")
        self.cfg = {}
        self.emit("new %s" % hid)
        self.choose_cfg(first=True)
        self.iv0 = self.cfg["iv"]
        self.emit("open")
        self.opened = True
        if self.cfg["iv"] is None and rng.random() < 0.08:
            # the initial version given through the setter on the open tree instead of the option
            iv = rng.choice([1, 3, 7])
            self.emit("setiv %d" % iv)
            self.iv_pending = iv
            self.iv0 = iv

    # ----- helpers
    def emit(self, s):
        self.lines.append(s)

    def choose_cfg(self, first=False):
        r, p = self.r, self.p
        if first:
            self.cfg["db"] = r.choice(p.dbs)
            iv = r.choice(p.ivs)
        else:
            iv = None  # a reopen with the option unset (a larger InitialVersion than the first version is an error)
            if self.iv_opt and r.random() < 0.5:
                iv = self.iv_opt
        self.cfg["cache"] = r.choice(p.caches)
        self.cfg["fast"] = r.choice(p.fasts)
        self.cfg["thr"] = r.choice(p.thrs)
        self.cfg["iv"] = iv
        self.emit("cfg db=%s cache=%d fast=%d thr=%d iv=%s%s" % (
            self.cfg["db"], self.cfg["cache"], int(self.cfg["fast"]), self.cfg["thr"],
            "-" if iv is None else str(iv), " sync=%d" % r.randint(0, 1) if r.random() < 0.3 else ""))
        self.iv_pending = iv
        self.iv_opt = iv or 0

    def latest(self):
        return max(self.versions) if self.versions else 0

    def first(self):
        return min(self.versions) if self.versions else 0

    def wver(self):
        if self.base + 1 == 1 and self.iv_pending is not None:
            return self.iv_pending
        return self.base + 1

    def value(self):
        r = self.r
        if r.random() < self.p.p_empty_value:
            return b""
        if r.random() < 0.02:
            # lengths at which the length prefix grows by a byte
            return bytes([r.randrange(256)]) * r.choice([127, 128, 129, 255, 256, 16383, 16384])
        return bytes([r.randrange(256) for _ in range(r.choice([1, 1, 2, 3, 8, 33]))])

    def some_key(self, present_bias=0.5):
        r = self.r
        if self.working and r.random() < present_bias:
            return r.choice(sorted(self.working))
        return r.choice(self.keys)

    def probe_key(self):
        """a key for a read: present, absent, neighbour, prefix or extension of a present key"""
        r = self.r
        x = r.random()
        if x < 0.5 or not self.working:
            return r.choice(self.keys)
        k = r.choice(sorted(self.working))
        if x < 0.6:
            return k + b"\x00"
        if x < 0.7:
            return k[:-1] if len(k) > 1 else k
        if x < 0.8 and k:
            return k[:-1] + bytes([(k[-1] + 1) % 256])
        if x < 0.85:
            return k + b"\xff"
        return k

    def bound(self):
        r = self.r
        x = r.random()
        if x < 0.25:
            return None
        if x < 0.3:
            return b""
        return self.probe_key()

    # ----- steps
    def churn(self):
        """one version that grows by many keys, is hashed while uncommitted, and then shrinks again:
        rebalancing (single and double rotations) of nodes created in the same version, with memoised hashes"""
        r = self.r
        pool = list(self.keys) + [b"q%02d" % i for i in range(r.randint(6, 24))]
        r.shuffle(pool)
        for k in pool:
            v = self.value()
            self.emit("set %s %s" % (enc(k), enc(v)))
            self.curlog.append(("set", k, v))
            self.working[k] = v
            self.dirty = True
        for rounds in range(r.randint(1, 3)):
            op = r.choice(["whash", "whash", "hash", "proof " + enc(self.probe_key())])
            if self.hash_ok("iv" if op == "whash" else "v1"):
                self.emit(op)
            ks = sorted(self.working)
            r.shuffle(ks)
            for k in ks[:r.randint(1, max(1, len(ks) // 2))]:
                self.emit("rm %s" % enc(k))
                self.curlog.append(("rm", k))
                del self.working[k]
            if r.random() < 0.5 and self.hash_ok("iv"):
                self.emit("whash")
        self.read_ops(2)

    def write_ops(self):
        r, p = self.r, self.p
        if r.random() < p.p_churn:
            self.churn()
            return
        if r.random() < p.p_noop_version:
            return
        for _ in range(r.randint(*p.ops_per_version)):
            self.one_write()

    def one_write(self):
        r, p = self.r, self.p
        if r.random() < p.p_remove:
            k = self.some_key(0.7)
            self.emit("rm %s" % enc(k))
            self.curlog.append(("rm", k))
            if k in self.working:
                del self.working[k]
                self.dirty = True
        else:
            k = self.some_key(0.4)
            v = self.value()
            if r.random() < 0.02:
                self.emit("set %s -" % enc(k))   # nil value: rejected without effect
                return
            self.emit("set %s %s" % (enc(k), enc(v)))
            self.curlog.append(("set", k, v))
            self.working[k] = v
            self.dirty = True

    def hash_ok(self, kind="v1"):
        # K5 / K5r: before the first commit with a non-default initial version, `ImmutableTree.Hash` and proofs on
        # the dirty working tree hash the unsaved nodes for version 1 (kind "v1"), `WorkingHash` for the initial
        # version (kind "iv"); the nodes memoise whichever comes first, so the answers of the other kind depend on
        # the order (K5r, open). One kind per dirty tree is generated - the commit after it must be canonical
        # whatever was asked and whatever is written afterwards (K5, repaired).
        if not (self.base == 0 and self.iv_pending not in (None, 1)) or not self.dirty:
            return True
        q = getattr(self, "ivq", None)
        if q is None or q == kind:
            self.ivq = kind
            return True
        return False

    def read_ops(self, n=None):
        r, p = self.r, self.p
        if n is None:
            n = r.randint(*p.reads_per_version)
        for _ in range(n):
            self.one_read(r.choice(p.reads), "")
        if r.random() < p.p_hash_read:
            op = r.choice(p.hash_reads)
            if op == "lhash" or self.hash_ok("iv" if op == "whash" else "v1"):
                self.emit(op)
        for _ in range(r.randint(*p.meta_per_version)):
            op = r.choice(p.meta_reads)
            if op == "vexists":
                self.emit("vexists %d" % r.randint(0, self.latest() + 1))
            elif op == "getv":
                self.emit("getv %s %d" % (enc(self.probe_key()), r.randint(0, self.latest() + 1)))
            else:
                self.emit(op)
        if r.random() < p.iters:
            self.iter_ops("")
        if p.proofs > 0 and r.random() < 0.3 and self.versions:
            # versioned proofs while the working tree holds uncommitted changes
            self.emit("vproof %s %d" % (enc(self.probe_key()), r.choice(sorted(self.versions)[-2:])))

    def one_read(self, op, prefix):
        r = self.r
        if op in ("get", "has", "gwi"):
            self.emit("%s%s %s" % (prefix, op, enc(self.probe_key())))
        elif op == "gbi":
            self.emit("%sgbi %d" % (prefix, r.randint(0, max(1, len(self.working) + 1)) if r.random() < 0.93 else -r.randint(1, 3)))
        elif op in ("size", "height"):
            self.emit(prefix + op)
        elif op == "hash":
            if prefix or self.hash_ok():
                self.emit(prefix + "hash")
        elif op == "iter":
            self.emit("%siter %s %s %s" % (prefix, enc(self.bound()), enc(self.bound()), r.choice(["asc", "desc"])))
        elif op == "iterate":
            st = "" if r.random() < 0.6 else " stop=%d" % r.randint(1, 4)
            self.emit(prefix + "iterate" + st)
        elif op in ("irange", "irangeinc"):
            st = "" if r.random() < 0.6 else " stop=%d" % r.randint(1, 4)
            self.emit("%s%s %s %s %s%s" % (prefix, op, enc(self.bound()), enc(self.bound()), r.choice(["asc", "desc"]), st))

    def iter_ops(self, prefix):
        r = self.r
        for _ in range(r.randint(1, 3)):
            op = r.choice(["iter", "iterate", "irange", "irangeinc", "miter", "miterate"] if not prefix else ["iter", "iterate", "irange", "irangeinc"])
            if op == "miter":
                self.emit("miter %s %s %s" % (enc(self.bound()), enc(self.bound()), r.choice(["asc", "desc"])))
            elif op == "miterate":
                self.emit("miterate" + ("" if r.random() < 0.6 else " stop=%d" % r.randint(1, 4)))
            else:
                self.one_read(op, prefix)

    def imm_reads(self):
        r, p = self.r, self.p
        if not self.versions:
            return
        for _ in range(r.randint(*p.imm_reads_per_version)):
            v = r.choice(sorted(self.versions) + [self.latest() + 1, max(0, self.first() - 1)])
            save_w = self.working
            self.working = self.versions.get(v, {})
            self.one_read(r.choice(p.imm_reads), "imm %d " % v)
            self.working = save_w

    def sweep(self):
        """read everything from every retained version (and the working tree)"""
        for v in sorted(self.versions):
            pre = "imm %d " % v
            self.emit(pre + "hash")
            self.emit(pre + "size")
            self.emit(pre + "iterate")
            for k in sorted(set(self.keys) | set(self.versions[v])):
                self.emit(pre + "get " + enc(k))
        self.emit("avail")
        self.emit("latest")
        self.emit("miterate")
        for k in sorted(set(self.keys) | set(self.working)):
            self.emit("get " + enc(k))
            self.emit("gwi " + enc(k))

    def save(self):
        v = self.wver()
        # (C06) commit while a reader of the latest version sits between its index check and its iterator
        racing = self.base > 0 and v not in self.versions and self.r.random() < self.p.p_iterrace
        self.emit("iterrace" if racing else "save")
        if v in self.versions:
            # existing version: succeeds only with identical root hash; the shadow does not know —
            # resynchronise from what the model says is not possible here, so such saves are only
            # generated when the writes were replayed identically (see load_old).
            self.working = dict(self.versions[v])
        else:
            self.versions[v] = dict(self.working)
            self.wlog[v] = list(self.curlog)
        self.base = v
        self.iv_pending = None
        self.dirty = False
        self.curlog = []

    def savecs(self):
        r = self.r
        pairs = []
        shadow = dict(self.working)
        bad = r.random() < 0.12
        for _ in range(r.randint(0, 5)):
            if r.random() < 0.35 and shadow:
                k = r.choice(sorted(shadow))
                pairs.append("del:" + enc(k))
                del shadow[k]
            else:
                k = r.choice(self.keys)
                v = self.value()
                pairs.append("%s=%s" % (enc(k), enc(v)))
                shadow[k] = v
        if bad:
            # a key that is absent before, during and after the other pairs (wherever the removal is inserted)
            touched = {pp.split("=")[0].replace("del:", "") for pp in pairs}
            missing = [k for k in self.keys if k not in shadow and k not in self.working and enc(k) not in touched] or [b"\x01missing"]
            pairs.insert(r.randint(0, len(pairs)), "del:" + enc(r.choice(missing)))
            self.emit("savecs " + ",".join(pairs))   # rejected: removal of a missing key
            self.emit("rollback")
            self.emit("avail")
            return
        self.emit("savecs " + (",".join(pairs) if pairs else "-"))
        self.working = shadow
        v = self.wver()
        if v not in self.versions:
            self.versions[v] = dict(self.working)
            self.wlog[v] = []
        self.base = v
        self.iv_pending = None
        self.dirty = False
        self.curlog = []

    def after_commit(self):
        r, p = self.r, self.p
        if r.random() < p.proofs:
            self.proof_ops()
        if r.random() < p.exports:
            v = r.choice(sorted(self.versions))
            self.emit("imm %d export %s" % (v, r.choice(["plain", "zip"])))
        if r.random() < p.changes and self.versions:
            lo = self.first() + 1 if self.pruned_ever else self.first()
            if lo <= self.latest():
                a = r.randint(lo, self.latest() + 1)
                b = r.randint(a, self.latest() + 2)
                self.emit("changes %d %d" % (a, b))
            if not self.pruned_ever and r.random() < 0.3:
                self.emit("replaycs")
        if r.random() < p.dump:
            self.emit("dump")
        if r.random() < p.ixdump:
            self.emit("ixdump")
        if r.random() < p.check_all_versions:
            self.sweep()

    def proof_ops(self):
        r = self.r
        vs = [v for v in self.versions if self.versions[v]]
        if not vs:
            return
        for _ in range(r.randint(1, 3)):
            v = r.choice(vs)
            m = self.versions[v]
            ks = sorted(m)
            cands = list(ks) + [b""] if False else list(ks)
            # absent keys around every present key
            extra = []
            for k in ks:
                extra += [k + b"\x00", k[:-1] if len(k) > 1 else b"\x01", k + b"\xff"]
            extra += [b"\x00\x00", b"\xff\xff\xff"]
            k = r.choice(cands + extra + self.keys)
            kind = r.choice(["proof", "proof", "proof", "memproof", "nonmemproof"])
            self.emit("imm %d %s %s" % (v, kind, enc(k)))
        if r.random() < 0.3 and self.working and self.hash_ok():
            self.emit("proof %s" % enc(self.probe_key()))
        if r.random() < 0.2:
            self.emit("vproof %s %d" % (enc(self.probe_key()), r.randint(0, self.latest() + 1)))

    def prune(self):
        r = self.r
        lo, hi = self.first(), self.latest()
        if hi <= lo:
            if r.random() < 0.3 and hi > 0:
                self.emit("prune %d" % hi)   # deleting the latest version: rejected
            return
        if r.random() < 0.15:
            # an out-of-date request: everything up to n is gone already; it must change nothing
            self.emit("prune %d" % r.randint(0, max(0, lo - 1)))
            self.emit("avail")
            self.emit("vexists %d" % max(0, lo - 1))
            return
        # the tree must not be positioned on a version that is going away
        n = r.randint(lo, hi - 1)
        if self.base <= n and r.random() < 0.9:
            return
        pinnable = [v for v in sorted(self.versions) if v <= n and self.versions[v]]
        if pinnable and r.random() < self.p.p_hold:
            # an open export pins version e: the request is refused and must have no effect at all
            e = r.choice(pinnable)
            self.emit("hold h %d" % e)
            if r.random() < 0.35:
                # a second export of the same version, closed twice: the first one still pins the version
                self.emit("hold g %d" % e)
                self.emit("dclose g")
            self.emit("prune %d" % n)
            self.emit("avail")
            self.emit("vexists %d" % lo)
            self.emit("imm %d iterate" % lo)
            self.emit("imm %d hash" % e)
            self.emit("release h")
            if r.random() < 0.5:
                return
        if r.random() < 0.1:
            self.emit("prune %d" % hi)       # rejected, no effect
            return
        self.emit("prune %d" % n)
        self.pruned_ever = True
        for v in list(self.versions):
            if v <= n:
                del self.versions[v]
        if 0 < self.base <= n and r.random() < 0.7:
            self.after_loaded_version_deleted()

    def after_loaded_version_deleted(self):
            # the version the tree object was loaded at has just been deleted: it is gone for every query, also
            # for the ones that could be answered from what the object still holds in memory
            r = self.r
            b = self.base
            self.emit("vexists %d" % b)
            self.emit("imm %d hash" % b)
            self.emit("imm %d get %s" % (b, enc(self.probe_key())))
            self.emit("imm %d iterate" % b)
            self.emit("getv %s %d" % (enc(self.probe_key()), b))
            self.emit("avail")
            if self.dirty:
                self.rollback()
            self.emit("load 0")
            self.base = self.latest()
            self.working = dict(self.versions[self.base])
            self.curlog = []

    def reopen(self, target=None):
        r = self.r
        if self.dirty and r.random() < 0.5:
            self.emit("rollback")
            self.working = dict(self.versions.get(self.base, {})) if self.base else {}
            self.dirty = False
        self.emit("close")
        self.choose_cfg()
        if target is None:
            self.emit("open")
            target = self.latest()
        else:
            self.emit("open %d" % target)
        self.base = target
        self.working = dict(self.versions.get(target, {}))
        self.dirty = False
        self.curlog = []

    def rollback(self):
        self.emit("rollback")
        self.ivq = None
        self.working = dict(self.versions.get(self.base, {})) if self.base else {}
        self.dirty = False
        self.curlog = []

    def loadow(self):
        r = self.r
        if not self.versions:
            return
        if self.dirty:
            self.rollback()   # K12 (unsaved overlay survives a load) is covered by its own corpus history
        v = r.choice(sorted(self.versions))
        self.emit("loadow %d" % v)
        for u in list(self.versions):
            if u > v:
                del self.versions[u]
        self.base = v
        self.working = dict(self.versions[v])
        self.dirty = False
        self.curlog = []

    def delfrom(self):
        r = self.r
        if len(self.versions) < 2:
            return
        if self.dirty:
            self.rollback()
        vs = sorted(self.versions)
        if r.random() < 0.12:
            # every version goes: the store is empty again and is written to afterwards
            self.emit("delfrom %d" % vs[0])
            self.versions.clear()
            self.wlog.clear()
            self.reopen()
            self.base = 0
            self.working = {}
            self.iv0 = self.cfg["iv"]
            self.emit("avail")
            self.emit("latest")
            self.read_ops(2)
            return
        v = r.choice(vs[1:])
        if r.random() < 0.5 and (v - 1) in self.versions:
            # the other order: position the tree on the version that will be the latest, delete everything
            # above it, and go on with this tree object (no reload afterwards)
            self.emit("load %d" % (v - 1))
            self.base = v - 1
            self.working = dict(self.versions[self.base])
            self.curlog = []
            self.dirty = False
            # ... possibly with uncommitted writes on that tree object when the deletion happens: they stay
            # uncommitted (K36: the index rebuilt by the deletion must describe the committed version)
            dirty_first = r.random() < 0.5
            if dirty_first:
                for _ in range(r.randint(1, 3)):
                    self.one_write()
            self.emit("delfrom %d" % v)
            for u in list(self.versions):
                if u >= v:
                    del self.versions[u]
            if dirty_first:
                self.emit("ixdump")
                self.sweep()
                if r.random() < 0.5:
                    self.rollback()
                    self.sweep()
            self.read_ops(2)
            return
        self.emit("delfrom %d" % v)
        for u in list(self.versions):
            if u >= v:
                del self.versions[u]
        self.emit("load 0")
        self.base = self.latest()
        self.working = dict(self.versions[self.base])
        self.curlog = []

    def load_old(self):
        """LoadVersion of an older version, then either re-commit identical writes (idempotent) or
        different ones (must fail), then return to the latest version"""
        r = self.r
        if len(self.versions) < 2:
            return
        if self.dirty:
            self.rollback()
        vs = sorted(self.versions)
        v = r.choice(vs[:-1])
        self.emit("load %d" % v)
        self.base = v
        self.working = dict(self.versions[v])
        self.read_ops(2)
        if r.random() < 0.12:
            # ... and the history is pruned past the version the object stands on
            n = r.randint(v, vs[-1] - 1)
            self.emit("prune %d" % n)
            self.pruned_ever = True
            for u in list(self.versions):
                if u <= n:
                    del self.versions[u]
            self.after_loaded_version_deleted()
            return
        nxt = v + 1
        if nxt in self.versions and nxt in self.wlog and r.random() < self.p.p_save_existing:
            for op in self.wlog[nxt]:
                if op[0] == "rm":
                    self.emit("rm %s" % enc(op[1]))
                else:
                    self.emit("set %s %s" % (enc(op[1]), enc(op[2])))
            self.emit("save")          # same hash: succeeds without effect
            self.base = nxt
            self.working = dict(self.versions[nxt])
            self.read_ops(2)
            if nxt == vs[-1] and r.random() < 0.6:
                # the replay reached the latest version: go on from this tree object (its nodes were
                # built in memory by the replay, not read from the store) instead of reloading
                self.dirty = False
                self.curlog = []
                if r.random() < 0.5:
                    self.write_ops()
                    self.rollback()
                    self.read_ops(2)
                sets = [op for op in self.wlog[nxt] if op[0] == "set" and self.working.get(op[1]) == op[2]]
                if sets and r.random() < 0.5:
                    # the next version rewrites a pair of the replayed version with the identical value:
                    # a new leaf all the same (its version is part of the hash, it is listed in the change set)
                    op = r.choice(sets)
                    self.emit("set %s %s" % (enc(op[1]), enc(op[2])))
                    self.curlog.append(("set", op[1], op[2]))
                    self.dirty = True
                return
        elif nxt in self.versions and r.random() < 0.5:
            self.emit("set %s %s" % (enc(b"zz-differs"), enc(b"1")))
            self.emit("save")          # different hash: must fail and leave the store unchanged
            self.emit("rollback")
            self.emit("avail")
        self.emit("load 0")
        self.base = self.latest()
        self.working = dict(self.versions[self.base])
        self.dirty = False
        self.curlog = []

    def huge_rollback(self):
        """a version that writes more than two thousand keys (more than 4096 node records), discarded by a
        rollback to the version before it, then a restart: record ranges deleted in several chunks"""
        r = self.r
        if not self.versions or self.base != self.latest():
            return
        if self.dirty:
            self.rollback()
        pre = self.base
        n = r.randint(2100, 2600)
        for i in range(n):
            k = b"h%05d" % i
            v = bytes([r.randrange(1, 256)])
            self.emit("set %s %s" % (enc(k), enc(v)))
            self.working[k] = v
        self.dirty = True
        self.save()
        if r.random() < 0.5:
            self.write_ops()
            self.save()
        self.emit("loadow %d" % pre)
        for u in list(self.versions):
            if u > pre:
                del self.versions[u]
        self.base = pre
        self.working = dict(self.versions[pre])
        self.dirty = False
        self.curlog = []
        self.emit("avail")
        self.reopen()
        self.emit("avail")
        self.emit("latest")
        self.emit("vexists %d" % (pre + 1))
        self.sweep()

    def unloaded_replay(self):
        """a new tree object on the existing store that is not loaded: the first version is replayed from
        the empty tree and committed again (identical: succeeds without effect; different: refused)"""
        r = self.r
        f = self.first()
        if not self.versions or self.pruned_ever or f not in self.wlog or f != (self.iv0 or 1):
            return
        if self.dirty:
            self.rollback()
        self.emit("close")
        self.emit("cfg db=%s cache=%d fast=%d thr=%d iv=%s" % (self.cfg["db"], r.choice(self.p.caches), int(r.choice(self.p.fasts)), r.choice(self.p.thrs),
                                                              "-" if self.iv0 is None else str(self.iv0)))
        self.cfg["iv"] = self.iv0
        self.iv_pending = self.iv0
        self.iv_opt = self.iv0 or 0
        self.emit("opennl")
        for op in self.wlog[f]:
            if op[0] == "rm":
                self.emit("rm %s" % enc(op[1]))
            else:
                self.emit("set %s %s" % (enc(op[1]), enc(op[2])))
        if r.random() < 0.6:
            self.emit("save")                      # identical: the first version again, nothing changes
            self.emit("wver")
        else:
            self.emit("set %s %s" % (enc(b"zz-differs"), enc(b"1")))
            self.emit("save")                      # different: refused
            self.emit("wver")                      # ... and the initial version stays pending
            self.emit("rollback")
        # (no reads through this handle before it is loaded: the fast-index upgrade check runs in Load)
        self.emit("avail")
        self.emit("latest")
        self.emit("load 0")
        self.base = self.latest()
        self.working = dict(self.versions[self.base])
        self.dirty = False
        self.curlog = []
        self.sweep()

    def run(self):
        r, p = self.r, self.p
        nv = r.randint(*p.versions)
        for _ in range(nv):
            if r.random() < p.p_savecs and not self.dirty:
                self.savecs()
                self.imm_reads()
                self.after_commit()
                continue
            self.write_ops()
            self.read_ops()
            if r.random() < p.p_rollback:
                self.rollback()
                self.read_ops(1)
                self.write_ops()
                self.read_ops(1)
                if r.random() < 0.5:
                    # discard again, without a commit in between
                    self.rollback()
                    self.read_ops(2)
                    if r.random() < 0.5:
                        self.emit("lhash")
                        if self.hash_ok("iv"):
                            self.emit("whash")
                    self.write_ops()
            self.save()
            self.imm_reads()
            self.after_commit()
            x = r.random()
            if x < p.p_prune:
                self.prune()
                self.after_commit()
            x = r.random()
            if x < p.p_loadow:
                self.loadow()
                self.after_commit()
            elif x < p.p_loadow + p.p_reopen:
                if len(self.versions) >= 2 and r.random() < p.p_reopen_old:
                    if self.dirty:
                        self.rollback()
                    self.reopen(r.choice(sorted(self.versions)[:-1]))
                    self.sweep()
                    self.emit("load 0")
                    self.base = self.latest()
                    self.working = dict(self.versions[self.base])
                else:
                    self.reopen()
                self.read_ops(2)
                if r.random() < 0.5:
                    self.sweep()
            elif x < p.p_loadow + p.p_reopen + p.p_load_old:
                self.load_old()
            elif x < p.p_loadow + p.p_reopen + p.p_load_old + p.p_delfrom:
                self.delfrom()
                self.after_commit()
        if r.random() < p.p_huge and self.opened:
            self.huge_rollback()
        if r.random() < p.p_unloaded and self.opened:
            self.unloaded_replay()
        if r.random() < p.empty_out and self.opened:
            # once every key has been removed and older versions deleted no node remains at all
            if self.dirty:
                self.rollback()
            for k in sorted(self.working):
                self.emit("rm " + enc(k))
            self.working = {}
            self.save()
            self.save()
            if self.latest() > self.first():
                self.emit("prune %d" % (self.latest() - 1))
                for v in list(self.versions):
                    if v < self.latest():
                        del self.versions[v]
            self.emit("dump")
        self.sweep()
        if p.dump > 0:
            self.emit("dump")
        return self.lines


def generate(seed, n, prof, start_id=0):
    """n histories; returns list of (id, lines)"""
    out = []
    for i in range(n):
        rng = random.Random((seed * 1000003 + start_id + i) & 0xFFFFFFFFFFFF)
        h = Hist(rng, prof, "h%d" % (start_id + i))
        out.append(("h%d" % (start_id + i), h.run()))
    return out


# ---------------------------------------------------------------------------------------------
# C10: export / import round trips and hostile node streams

def _rand_stream(r, nleaves, ver_max):
    """a well-formed post-order stream of a random AVL-shaped tree: list of [key, value, version, height]"""
    keys = sorted({bytes([r.randrange(97, 123) for _ in range(r.randint(1, 3))]) for _ in range(nleaves)})

    def build(ks):
        if len(ks) == 1:
            return [[ks[0], bytes([r.randrange(256)]), r.randint(1, ver_max), 0]], 0
        mid = (len(ks) + 1) // 2
        l, hl = build(ks[:mid])
        rr, hr = build(ks[mid:])
        h = max(hl, hr) + 1
        v = max(l[-1][2], rr[-1][2], r.randint(1, ver_max))
        return l + rr + [[ks[mid], None, v, h]], h
    if not keys:
        return []
    return build(keys)[0]


def _fmt_nodes(nodes):
    out = []
    for n in nodes:
        if n is None:
            out.append("nil")
        else:
            out.append("%s/%s/%d/%d" % (enc(n[0]), enc(n[1]), n[2], n[3]))
    return ",".join(out) if out else "-"


def _mutate_stream(r, nodes, import_ver):
    nodes = [list(n) for n in nodes]
    for _ in range(r.randint(1, 3)):
        if not nodes:
            break
        i = r.randrange(len(nodes))
        m = r.randrange(14)
        if nodes[i] is None:
            continue
        if m == 0:
            nodes[i][2] = r.choice([-1, -5, 0, import_ver + 1, 2 ** 40])
        elif m == 1:
            nodes[i][3] = r.choice([-1, -128, 0, 1, 2, 5, 127])
        elif m == 2:
            nodes[i][0] = None
        elif m == 3:
            nodes[i][1] = None if nodes[i][1] is not None else b"v"
        elif m == 4:
            del nodes[i]
        elif m == 5:
            nodes.insert(i, list(nodes[i]))
        elif m == 6:
            j = r.randrange(len(nodes))
            nodes[i], nodes[j] = nodes[j], nodes[i]
        elif m == 7:
            nodes[i] = None
        elif m == 8:
            nodes[i][0] = b""
        elif m == 9:
            nodes = nodes[:i]
        elif m == 10:
            nodes.append([b"zz", None, 1, r.randint(1, 4)])
        elif m == 11:
            nodes[i][1] = b""
        elif m == 12:
            nodes = [[b"k", None, 1, 3]] + nodes
        else:
            nodes[i][2] = import_ver
    return nodes


def _zip_hostile(r, import_ver):
    """a hostile compressed stream: delta prefixes longer than the previous key, branch nodes without
    subtrees, huge shared lengths, nil nodes"""
    out = []
    for _ in range(r.randint(1, 5)):
        m = r.randrange(8)
        if m == 0:
            out.append([None, None, r.randint(-3, 3), r.randint(1, 3)])           # branch on empty stacks
        elif m == 1:
            out.append([bytes([r.randint(1, 9)]) + b"a", b"v", 1, 0])             # shared > len(lastKey)
        elif m == 2:
            out.append([b"\xff\xff\xff\xff\xff\xff\xff\xff\xff\x01" + b"a", b"v", 1, 0])  # huge shared
        elif m == 3:
            out.append([b"", b"v", 1, 0])                                         # empty delta: uvarint fails
        elif m == 4:
            out.append(None)
        elif m == 5:
            out.append([b"\x00" + bytes([r.randrange(97, 123)]), b"v", r.randint(1, import_ver), 0])
        elif m == 6:
            out.append([b"\x80", b"v", 1, 0])                                     # truncated uvarint
        else:
            out.append([None, b"x", 0, 1])
    return out


def gen_c10(seed, n, start_id=0):
    out = []
    prof = Profile(p_prune=0.15, p_loadow=0.05, p_reopen=0.1, check_all_versions=0.0, big=0.15,
                   reads_per_version=(0, 1), imm_reads_per_version=(0, 0), meta_per_version=(0, 0),
                   p_hash_read=0.1, versions=(1, 6), p_empty_value=0.05)
    for i in range(n):
        rng = random.Random((seed * 7919 + start_id + i) & 0xFFFFFFFFFFFF)
        hid = "x%d" % (start_id + i)
        kind = rng.random()
        if kind < 0.55:
            # genuine round trip
            h = Hist(rng, prof, hid)
            lines = h.run()
            # drop the final sweep (cheap) and export
            vs = sorted(h.versions)
            if not vs:
                out.append((hid, lines))
                continue
            v = rng.choice(vs)
            mode = rng.choice(["plain", "zip"])
            lines.append("imm %d export %s store=s" % (v, mode))
            lines.append("imm %d hash" % v)
            lines.append("fresh")
            lines.append("cfg db=%s cache=%d fast=%d thr=%d iv=-" % (
                rng.choice(["mem", "ldb", "pfx:x70ff"]), rng.choice([0, 2, 100]), rng.randint(0, 1), rng.choice([0, 200, 1000])))
            lines.append("open")
            iv = v if rng.random() < 0.8 else v + rng.randint(1, 3)   # importing at a later version is allowed
            lines.append("import %d %s stream=s" % (iv, mode))
            m = h.versions[v]
            lines += ["avail", "latest", "lhash", "hash", "size", "height", "miterate", "vexists %d" % v,
                      "vexists %d" % max(0, v - 1)]
            for k in sorted(m)[:6]:
                lines.append("get " + enc(k))
                lines.append("imm %d proof %s" % (iv, enc(k)))
            lines.append("imm %d proof %s" % (iv, enc(b"\x00\x00nope")))
            # behaves identically under further writes
            h2keys = h.keys
            for _ in range(rng.randint(1, 3)):
                for _ in range(rng.randint(0, 4)):
                    if rng.random() < 0.3 and m:
                        lines.append("rm " + enc(rng.choice(sorted(m))))
                    else:
                        lines.append("set %s %s" % (enc(rng.choice(h2keys)), enc(bytes([rng.randrange(256)]))))
                lines.append("save")
            lines += ["avail", "miterate", "close", "open", "avail", "lhash", "miterate"]
            if rng.random() < 0.3:
                lines += ["prune %d" % iv, "avail", "miterate", "lhash"]
            out.append((hid, lines))
        else:
            lines = ["new " + hid, "cfg db=mem cache=%d fast=%d thr=%d iv=-" % (rng.choice([0, 100]), rng.randint(0, 1), rng.choice([0, 200])), "open"]
            import_ver = rng.choice([1, 2, 3, 5])
            zipm = rng.random() < 0.4
            if zipm:
                nodes = _zip_hostile(rng, import_ver)
            else:
                nodes = _rand_stream(rng, rng.randint(0, 7), import_ver)
                if rng.random() < 0.85:
                    nodes = _mutate_stream(rng, nodes, import_ver)
            flags = ""
            if rng.random() < 0.15:
                flags = " nocommit"
            lines.append("import %d %s nodes=%s%s" % (import_ver, "zip" if zipm else "plain", _fmt_nodes(nodes), flags))
            # nothing is visible unless Commit succeeded; the tree stays usable
            lines += ["avail", "latest", "size", "lhash", "close", "open", "avail", "size", "lhash"]
            lines += ["ifempty miterate", "ifempty set x61 x31", "ifempty rm x61", "ifempty set x62 x32", "ifempty save", "avail"]
            out.append((hid, lines))
    return out


# ---------------------------------------------------------------------------------------------
# C11: insertion orders that stress rebalancing; every key and every rank queried; storage reads
# per lookup counted with nothing cached

def gen_c11(seed, n, start_id=0):
    out = []
    for i in range(n):
        r = random.Random((seed * 104729 + start_id + i) & 0xFFFFFFFFFFFF)
        hid = "b%d" % (start_id + i)
        nk = r.choice([1, 2, 3, 5, 8, 13, 21, 34, 55, 80])
        order = r.choice(["asc", "desc", "alt", "rand", "rand"])
        keys = sorted({bytes([r.randrange(256) for _ in range(r.randint(1, 3))]) for _ in range(nk)})
        if order == "desc":
            seq = keys[::-1]
        elif order == "alt":
            seq = []
            a, b = 0, len(keys) - 1
            while a <= b:
                seq.append(keys[a])
                if a != b:
                    seq.append(keys[b])
                a += 1
                b -= 1
        elif order == "rand":
            seq = keys[:]
            r.shuffle(seq)
        else:
            seq = keys[:]
        lines = ["new " + hid,
                 "cfg db=%s cache=0 fast=%d thr=%d iv=-" % (r.choice(["mem", "mem", "ldb"]), r.randint(0, 1), r.choice([0, 300])),
                 "open"]
        present = []
        commits = 0
        per = r.choice([1, 3, 7, 1000])

        def probe():
            lines.append("height")
            lines.append("size")
            if not present:
                return
            ks = sorted(present)
            for k in r.sample(ks, min(len(ks), 6)):
                lines.append("gwi " + enc(k))
            for idx in r.sample(range(len(ks)), min(len(ks), 6)) + [len(ks), len(ks) + 3, -1, -len(ks)]:
                lines.append("gbi %d" % idx)
            lines.append("gwi " + enc(ks[0][:-1] + b"\x00" if len(ks[0]) > 1 else b""))

        def counted(ver):
            if not present:
                return
            ks = sorted(present)
            pre = "reads imm %d " % ver
            for k in r.sample(ks, min(len(ks), 4)):
                lines.append(pre + "get " + enc(k))
                lines.append(pre + "has " + enc(k))
                lines.append(pre + "gwi " + enc(k))
                lines.append(pre + "proof " + enc(k))
            lines.append(pre + "gbi %d" % r.randrange(len(ks)))
            lines.append(pre + "gbi %d" % (len(ks) - 1))
            lines.append(pre + "proof " + enc(ks[-1] + b"\x01"))
            lines.append(pre + "proof " + enc(b""))
            lines.append(pre + "has " + enc(ks[0] + b"\x00"))

        for j, k in enumerate(seq):
            lines.append("set %s %s" % (enc(k), enc(bytes([r.randrange(1, 256)]))))
            present.append(k)
            if (j + 1) % per == 0:
                lines.append("save")
                commits += 1
                probe()
        lines.append("save")
        commits += 1
        probe()
        counted(commits)
        # removals that empty subtrees
        rm = present[:]
        r.shuffle(rm)
        cut = r.choice([len(rm) // 2, len(rm) - 1, len(rm)])
        for j, k in enumerate(rm[:cut]):
            lines.append("rm " + enc(k))
            present.remove(k)
            if j % 5 == 4:
                probe()
        lines.append("save")
        commits += 1
        probe()
        counted(commits)
        if r.random() < 0.5 and commits > 2:
            lines.append("prune %d" % r.randint(1, commits - 1))
            counted(commits)     # re-keyed roots add a fall-back read
            lines.append("close")
            lines.append("open")
            counted(commits)
        out.append((hid, lines))
    return out


# ---------------------------------------------------------------------------------------------
# C18: programs over the ordered key-value contract

KV_PREFIXES = [b"p", b"p\xff", b"\xff", b"\xff\xff", b"p\x00", b"a\xff\xff", b"\x00", b"pq",
               # binary prefixes whose tail is not valid UTF-8 (a lone continuation byte, a dangling lead byte, 0xFE,
               # the replacement character itself): byte-wise helpers that go through strings mistreat them
               b"p\x80", b"\xc3", b"p\xfe", b"\xef\xbf\xbd", b"a\xe2\x82", b"\x80\x80", b"p\xff\xfe", b"q\xbf\xff"]


def _incr(bz):
    """big-endian increment with carry, trailing bytes after the incremented one cut (None on overflow)"""
    b = bytearray(bz)
    for i in range(len(b) - 1, -1, -1):
        if b[i] < 0xFF:
            b[i] += 1
            return bytes(b[:i + 1])
    return None


def gen_kv(seed, n, start_id=0):
    out = []
    alphabet = [b"\x00", b"\xff", b"a", b"b", b"p", b"q"]
    for i in range(n):
        r = random.Random((seed * 15485863 + start_id + i) & 0xFFFFFFFFFFFF)
        hid = "k%d" % (start_id + i)
        pfx = r.choice(KV_PREFIXES)
        lines = ["knew %s pfx=%s" % (hid, enc(pfx))]

        def key():
            x = r.random()
            if x < 0.03:
                return None
            if x < 0.06:
                return b""
            return bytes(r.choice(alphabet)[0:1][0:1] [0:1] if False else r.choice(alphabet)) if r.random() < 0.4 else \
                b"".join(r.choice(alphabet) for _ in range(r.randint(1, 3)))

        def val():
            x = r.random()
            if x < 0.04:
                return None
            if x < 0.1:
                return b""
            return bytes([r.randrange(256) for _ in range(r.randint(1, 3))])

        def bound():
            x = r.random()
            if x < 0.3:
                return None
            if x < 0.34:
                return b""
            return b"".join(r.choice(alphabet) for _ in range(r.randint(1, 2)))

        # keys of the underlying store just outside the namespace (and the namespace marker itself)
        outside = [pfx, pfx[:-1] if len(pfx) > 1 else b"\x01", pfx[:-1] + bytes([pfx[-1] - 1]) if pfx[-1] > 0 else b"\x00"]
        inc = _incr(pfx)
        if inc is not None:
            outside += [inc, inc + b"\x00", inc + b"\x00" * (len(pfx) - len(inc)), inc + b"a"]
        outside = [k for k in outside if k and not (k.startswith(pfx) and len(k) > len(pfx))]
        for k in r.sample(outside, r.randint(0, len(outside))):
            lines.append("krawset %s %s" % (enc(k), enc(bytes([r.randrange(1, 256)]))))
        if r.random() < 0.3:
            lines.append("krawset %s %s" % (enc(pfx + r.choice(alphabet)), enc(b"in")))
        nb = 0
        open_batches = []
        for _ in range(r.randint(5, 40)):
            x = r.random()
            if x < 0.25:
                lines.append("kset %s %s" % (enc(key()), enc(val())))
            elif x < 0.33:
                lines.append("kdel %s" % enc(key()))
            elif x < 0.43:
                lines.append("kget %s" % enc(key()))
            elif x < 0.5:
                lines.append("khas %s" % enc(key()))
            elif x < 0.62:
                lines.append("kiter %s %s" % (enc(bound()), enc(bound())))
            elif x < 0.74:
                lines.append("kriter %s %s" % (enc(bound()), enc(bound())))
            elif x < 0.78:
                nb += 1
                open_batches.append("b%d" % nb)
                lines.append("kbnew b%d" % nb)
            elif x < 0.92 and open_batches:
                b = r.choice(open_batches)
                y = r.random()
                if y < 0.12:
                    # several operations on ONE key inside one batch, in either order, on a key that may be stored
                    # already: the batch applies them in order, the last one wins
                    k = key()
                    if r.random() < 0.5:
                        lines.append("kset %s %s" % (enc(k), enc(val())))
                    seq = r.choice([("s", "d"), ("d", "s"), ("s", "d", "s"), ("s", "s"), ("d", "d")])
                    for o in seq:
                        if o == "s":
                            lines.append("kbset %s %s %s" % (b, enc(k), enc(val())))
                        else:
                            lines.append("kbdel %s %s" % (b, enc(k)))
                    if r.random() < 0.7:
                        lines.append("kbwrite %s" % b)
                        lines.append("kget %s" % enc(k))
                        lines.append("kiter - -")
                elif y < 0.5:
                    lines.append("kbset %s %s %s" % (b, enc(key()), enc(val())))
                elif y < 0.7:
                    lines.append("kbdel %s %s" % (b, enc(key())))
                elif y < 0.9:
                    lines.append("kbwrite %s" % b)
                else:
                    lines.append("kbclose %s" % b)
            else:
                lines.append("kiter - -")
        lines += ["kiter - -", "kriter - -", "krawdump"]
        out.append((hid, lines))
    return out


# ---------------------------------------------------------------------------------------------
# C13: decoder inputs — valid encodings from an independent (third) encoder, their mutations, and
# random bytes

def _uv(n):
    out = bytearray()
    while n >= 0x80:
        out.append((n & 0x7F) | 0x80)
        n >>= 7
    out.append(n)
    return bytes(out)


def _sv(i):
    u = (i << 1) if i >= 0 else ((-i << 1) - 1)
    return _uv(u)


def _bs(b):
    return _uv(len(b)) + b


def _rb(r, lo=0, hi=6):
    return bytes([r.randrange(256) for _ in range(r.randint(lo, hi))])


def _enc_node(r):
    if r.random() < 0.4:
        return _sv(0) + _sv(r.choice([1, 1, 0, -1, 5, 2 ** 40])) + _bs(_rb(r)) + _bs(_rb(r, 0, 40))
    h = r.choice([1, 2, 3, 7, 127, -1, -128])
    mode = r.choice([0, 0, 0, 1, 2, 3])

    def child(legacy):
        if legacy:
            return _bs(_rb(r, 32, 32) if r.random() < 0.8 else _rb(r, 0, 40))
        return _sv(r.choice([1, 2, 300, 2 ** 40, -1, 0])) + _sv(r.choice([0, 1, 2, 70000, 2 ** 32 - 1, 2 ** 32, -1]))
    return (_sv(h) + _sv(r.choice([2, 3, 1000, 0])) + _bs(_rb(r, 1, 5)) + _bs(_rb(r, 32, 32) if r.random() < 0.9 else _rb(r, 0, 33))
            + _sv(mode if r.random() < 0.9 else r.choice([4, -1, 100])) + child(mode & 1) + child(mode & 2))


def _enc_legacy(r):
    if r.random() < 0.4:
        return _sv(0) + _sv(1) + _sv(r.choice([1, 7, 2 ** 50, -3])) + _bs(_rb(r)) + _bs(_rb(r, 0, 10))
    return (_sv(r.choice([1, 2, 9, -4, 127])) + _sv(r.randint(2, 50)) + _sv(r.randint(1, 99)) + _bs(_rb(r, 1, 4))
            + _bs(_rb(r, 32, 32)) + _bs(_rb(r, 32, 32)))


def _mutate_bytes(r, b):
    b = bytearray(b)
    for _ in range(r.randint(1, 3)):
        m = r.randrange(9)
        if m == 0 and b:
            b[r.randrange(len(b))] ^= 1 << r.randrange(8)
        elif m == 1 and b:
            del b[r.randrange(len(b)):]
        elif m == 2:
            b += _rb(r, 1, 4)
        elif m == 3 and b:
            i = r.randrange(len(b))
            b[i:i + 1] = b"\xff" * r.randint(1, 11)      # over-long varint
        elif m == 4 and b:
            i = r.randrange(len(b))
            b[i:i + 1] = _uv(r.choice([2 ** 63 - 1, 2 ** 63, 2 ** 64 - 1, 2 ** 31, 2 ** 32]))   # huge length / value
        elif m == 5 and b:
            del b[r.randrange(len(b))]
        elif m == 6 and b:
            b[r.randrange(len(b))] = r.choice([0, 0x80, 0xFF, 0x7F, 1])
        elif m == 7:
            b = bytearray(_rb(r, 0, 3)) + b
        else:
            b.insert(r.randrange(len(b) + 1), r.randrange(256))
    return bytes(b)


def gen_codec(seed, n, start_id=0):
    out = []
    for i in range(n):
        r = random.Random((seed * 49979687 + start_id + i) & 0xFFFFFFFFFFFF)
        hid = "d%d" % (start_id + i)
        lines = ["new " + hid]
        for _ in range(60):
            kind = r.choice(["makenode", "makenode", "makelegacy", "fastnode", "decbytes", "decvarint", "decuvarint", "rootval", "lrootval"])
            if kind == "lrootval":
                first = r.choice([0x73, 0x73, 0x6e, 0x72, 0x66, 0x6d, 0x00, 0xff, r.randrange(256)])
                lines.append("lrootval %s" % enc(bytes([first]) + _rb(r, 31, 31)))
                continue
            x = r.random()
            if kind == "makenode":
                b = _enc_node(r)
            elif kind == "makelegacy":
                b = _enc_legacy(r)
            elif kind == "fastnode":
                b = _sv(r.choice([0, 1, 5, 2 ** 62, -1])) + _bs(_rb(r, 0, 20))
            elif kind == "decbytes":
                b = _bs(_rb(r, 0, 20)) + _rb(r, 0, 3)
            elif kind == "decvarint":
                b = _sv(r.choice([0, 1, -1, 63, -64, 2 ** 63 - 1, -2 ** 63, r.randint(-2 ** 40, 2 ** 40)])) + _rb(r, 0, 2)
            elif kind == "decuvarint":
                b = _uv(r.choice([0, 1, 127, 128, 2 ** 64 - 1, 2 ** 63, r.randint(0, 2 ** 50)])) + _rb(r, 0, 2)
            else:
                b = r.choice([b"", b"s", b"s" + _rb(r, 12, 12), b"s" + _rb(r, 8, 8), b"s" + _rb(r, 0, 20), _enc_node(r), _rb(r, 1, 30)])
            if kind != "rootval":
                if x < 0.45:
                    b = _mutate_bytes(r, b)
                elif x < 0.6:
                    b = _rb(r, 0, 24)
            lines.append("%s %s" % (kind, enc(b)))
        out.append((hid, lines))
    return out


# ---------------------------------------------------------------------------------------------
# C19 / C20: v2 histories in the form v2 requires (at most one write or removal per key per
# version), with the option grid, reloads at retained versions, pruning and snapshots

def gen_vrange(seed, n, start_id=0):
    """C20: `VersionRange` programs - ranges of 0..12 checkpoints (dense, sparse, single), queries at, between,
    below and above them; a few ranges that `Add` must refuse"""
    out = []
    for i in range(n):
        r = random.Random((seed * 49979687 + start_id + i) & 0xFFFFFFFFFFFF)
        hid = "vr%d" % (start_id + i)
        lines = ["new " + hid]
        for _ in range(40):
            k = r.choice([0, 1, 1, 2, 3, 4, 5, 8, 12])
            vs, cur = [], 0
            for _ in range(k):
                cur += r.choice([1, 1, 2, 3, 5, 10, 100])
                vs.append(cur)
            if vs and r.random() < 0.08:
                j = r.randrange(len(vs))
                vs.insert(j, vs[j] if r.random() < 0.5 else max(0, vs[j] - 1))   # duplicate / unordered: refused
            pts = [0, 1, cur + 1, cur + 7] + vs + [v + 1 for v in vs] + [max(0, v - 1) for v in vs]
            for q in r.sample(pts, min(len(pts), 3)):
                lines.append("vrange %s %d" % (",".join(map(str, vs)) if vs else "-", q))
        out.append((hid, lines))
    return out


def gen_v2(seed, n, start_id=0, persist=False):
    out = []
    if persist:
        out += gen_vrange(seed, max(1, n // 100), start_id)
    for i in range(n):
        r = random.Random((seed * 86028121 + start_id + i) & 0xFFFFFFFFFFFF)
        hid = "w%d" % (start_id + i)
        ckpt = r.choice([1, 2, 3, 5, 1000] + ([3, 4, 5, 5] if persist else []))
        shard = r.randint(0, 1)
        cfgline = "cfg ckpt=%d hf=%d ed=%d shard=%d" % (ckpt, r.choice([0, 1, 1, 2]), r.choice([-1, 0, 1, 8]), shard)
        lines = ["new " + hid, cfgline, "open"]
        big = r.random() < 0.15
        nk = r.randint(15, 40) if big else r.randint(2, 9)
        keys = list(dict.fromkeys(
            [bytes([r.randrange(256) for _ in range(r.randint(1, 4))]) for _ in range(nk)] if big else r.sample(KEYS, min(nk, len(KEYS)))))
        working = {}
        versions = {}     # version -> contents
        wlog = {}         # version -> write lines
        checkpoints = []
        ver = 0
        nv = r.randint(2, 9)
        if persist and 3 <= ckpt <= 5 and r.random() < 0.6:
            nv = r.randint(ckpt + 4, 2 * ckpt + 4)   # a deletion target strictly inside a checkpoint interval is possible

        def bound():
            x = r.random()
            if x < 0.3:
                return None
            return r.choice(keys) if x < 0.8 else r.choice(keys) + b"\x00"

        def reads(m):
            for _ in range(r.randint(0, 4)):
                x = r.random()
                k = r.choice(keys) if r.random() < 0.8 else r.choice(keys) + b"\x01"
                if x < 0.35:
                    lines.append("get " + enc(k))
                elif x < 0.5:
                    lines.append("has " + enc(k))
                elif x < 0.6:
                    lines.append("size")
                    lines.append("height")
                elif x < 0.8:
                    lines.append("iter %s %s %s" % (enc(bound()), enc(bound()), r.choice(["asc", "desc"])))
                else:
                    lines.append("iterinc %s %s asc" % (enc(bound()), enc(bound())))

        def sweep(m):
            lines.append("chash")
            lines.append("size")
            lines.append("iter - - asc")
            lines.append("iter - - desc")
            for k in sorted(set(keys) | set(m)):
                lines.append("get " + enc(k))

        def one_version():
            nonlocal ver
            w = []
            touched = set()
            if r.random() > 0.2:
                for _ in range(r.randint(0, 6)):
                    k = r.choice(keys)
                    if k in touched:
                        continue
                    touched.add(k)
                    if k in working and r.random() < 0.35:
                        w.append("rm " + enc(k))
                        del working[k]
                    else:
                        v = bytes([r.randrange(256) for _ in range(r.choice([0, 1, 2, 8]))])
                        w.append("set %s %s" % (enc(k), enc(v)))
                        working[k] = v
            if r.random() < 0.1 and working and len(touched) < len(working):
                # trees that shrink to empty
                for k in sorted(working):
                    if k not in touched:
                        w.append("rm " + enc(k))
                        del working[k]
            lines.extend(w)
            reads(working)
            lines.append("save")
            ver += 1
            versions[ver] = dict(working)
            wlog[ver] = w
            if ver == 1 or (ckpt > 0 and ver - checkpoints[-1] >= ckpt):
                checkpoints.append(ver)

        for _ in range(nv):
            one_version()
            if r.random() < 0.3:
                sweep(working)
        sweep(working)
        if persist:
            pruned_to = 0
            snapped = set()
            rounds = r.randint(1, 4)
            for rd in range(rounds):
                last_round = rd == rounds - 1
                x = r.random()
                loadable = [v for v in versions if v >= max([c for c in checkpoints if c <= pruned_to] or [min(versions)])]
                if x < 0.6:
                    tgt = r.choice(loadable)
                    lines.append("close")
                    lines.append("open %d" % tgt)
                    working = dict(versions[tgt])
                    sweep(working)
                    # continuing the history from there yields the same hashes as the uninterrupted run
                    v = tgt
                    # K22: continuing the history from a reloaded *older* version is not supported by v2 (sharded
                    # tables: "table tree_N already exists"; unsharded: a later prune leaves the latest version
                    # unloadable): generation continues only from the latest version (below)
                    # ... except re-committing versions that exist (no checkpoint becomes due there: the last
                    # checkpoint of the store is at most one interval behind every existing version), in the last
                    # round of the history (no deletion of old versions follows): that works and is checked
                    recommitted = False
                    while v + 1 in versions and v + 1 in wlog and last_round and r.random() < 0.8:
                        lines.extend(wlog[v + 1])
                        lines.append("save")
                        v += 1
                        working = dict(versions[v])
                        recommitted = True
                    sweep(working)
                    if recommitted:
                        for u in r.sample(loadable, min(3, len(loadable))):
                            lines.append("close")
                            lines.append("open %d" % u)
                            sweep(dict(versions[u]))
                        lines.append("close")
                        lines.append("open %d" % v)
                        working = dict(versions[v])
                    ver = v
                    if tgt == max(versions) and r.random() < 0.7:
                        # continue the history after a restart at the latest version
                        for _ in range(r.randint(1, 3)):
                            one_version()
                        sweep(working)
                    # drop the shadow of versions above what was re-committed (they are overwritten on continue)
                    if v == max(versions):
                        pass
                    else:
                        # return to the latest version for the next round
                        lines.append("close")
                        lines.append("open %d" % max(versions))
                        working = dict(versions[max(versions)])
                        ver = max(versions)
                elif x < 0.8 and len(versions) > 2 and ver == max(versions):
                    ptgt = r.randint(1, max(versions) - 1)
                    inside = [v for v in versions if v < max(versions) and any(c + 2 <= v for c in checkpoints if c > 1) and v not in checkpoints]
                    if inside and r.random() < 0.6:
                        ptgt = r.choice(inside)          # at least two versions past a checkpoint, not on one
                    if ptgt > pruned_to:
                        lines.append("prune %d" % ptgt)
                        pruned_to = ptgt
                        lines.append("close")
                        lines.append("open %d" % max(versions))
                        working = dict(versions[max(versions)])
                        sweep(working)
                        # every version that must stay loadable (from the last checkpoint not after the target)
                        # is reloaded after a restart: the change log between checkpoints must still be complete
                        keep = [v for v in versions if v >= max([c for c in checkpoints if c <= pruned_to] or [min(versions)])]
                        for v in r.sample(keep, min(3, len(keep))):
                            lines.append("close")
                            lines.append("open %d" % v)
                            sweep(dict(versions[v]))
                        lines.append("close")
                        lines.append("open %d" % max(versions))
                        working = dict(versions[max(versions)])
                elif ver == max(versions) and ver not in snapped and versions[ver]:
                    snapped.add(ver)
                    if r.random() < 0.5:
                        lines.append("snapshot")
                        lines.append("loadsnap %d pre" % ver)
                        sweep(working)
                        # back to a tree loaded from the version tables before anything else is done with it
                        # (pruning on a snapshot-loaded Tree object ends the process: its shard list is empty)
                        lines.append("close")
                        lines.append("open %d" % ver)
                    else:
                        # export in either order -> WriteSnapshot into a fresh database -> LoadSnapshot
                        lines.append("xsnap %d %s" % (ver, r.choice(["pre", "post"])))
                        versions = {ver: dict(working)}
                        checkpoints = [ver]
                        wlog = {}
                        pruned_to = ver
                        sweep(working)
                        break     # the property promises the imported tree, not reloading the snapshot database
                    sweep(working)
        out.append((hid, lines))
    return out


# ---------------------------------------------------------------------------------------------
# C16: a legacy phase executed by the real legacy library (iavl v0.20.0), then the current library
# on the same database

def gen_legacy(seed, n, start_id=0):
    out = []
    for i in range(n):
        r = random.Random((seed * 32452843 + start_id + i) & 0xFFFFFFFFFFFF)
        hid = "l%d" % (start_id + i)
        prof = Profile(nkeys=7, dbs=["mem"], ivs=[None], p_empty_value=0.05, p_hash_read=0.2, check_all_versions=0.0)
        h = Hist.__new__(Hist)
        h.r, h.p, h.lines = r, prof, []
        h.versions, h.working, h.base, h.dirty = {}, {}, 0, False
        h.iv_pending, h.iv_opt, h.wlog, h.curlog, h.pruned_ever = None, 0, {}, [], False
        h.iv0 = None
        h.keys = r.sample(KEYS, r.randint(2, 7))
        h.cfg = {"db": "mem"}
        h.opened = True
        h.emit("new %s legacy" % hid)
        fast = r.choice([True, True, False])
        h.emit("cfg cache=%d fast=%d thr=%d iv=-" % (r.choice([0, 2, 100]), int(fast), r.choice([0, 0, 200, 400])))
        h.cfg.update(cache=0, fast=fast, thr=0, iv=None)
        # legacy phase
        quiet = r.random() < 0.2
        nleg = r.randint(3, 6) if quiet else r.randint(1, 6)
        for i in range(nleg):
            # a quiet store: written once, then only commits without writes (the root node stays older than
            # every version that survives legacy-side pruning)
            if (i == 0) if quiet else (r.random() > 0.25):
                for _ in range(r.randint(1 if quiet else 0, 5)):
                    h.one_write()
            h.save()
        legacy_latest = h.latest()
        # legacy-side deletions (so that orphan records exist / are consumed)
        x = r.random()
        if quiet:
            b = r.randint(1, nleg - 2)
            h.emit("ldelrange 1 %d" % (b + 1))
            for v in range(1, b + 1):
                h.versions.pop(v, None)
        elif x < 0.3 and nleg >= 2:
            v = r.randint(1, nleg - 1)
            h.emit("ldel %d" % v)
            h.versions.pop(v, None)
        elif x < 0.5 and nleg >= 3:
            a = r.randint(1, nleg - 2)
            b = r.randint(a + 1, nleg - 1)
            h.emit("ldelrange %d %d" % (a, b + 1 if b + 1 <= nleg else b))
            for v in range(a, (b + 1 if b + 1 <= nleg else b)):
                h.versions.pop(v, None)
        h.emit("adopt")
        h.base = legacy_latest
        h.working = dict(h.versions[legacy_latest])
        h.dirty = False
        h.curlog = []
        h.sweep()
        for v in range(0, legacy_latest + 2):
            h.emit("vexists %d" % v)
        if quiet and r.random() < 0.8:
            # commits without writes on the (old) legacy root, a rollback into the legacy range, a restart
            for _ in range(r.randint(1, 2)):
                h.save()
            v = r.choice(sorted(u for u in h.versions if u <= legacy_latest))
            h.emit("loadow %d" % v)
            for u in list(h.versions):
                if u > v:
                    del h.versions[u]
            h.base = v
            h.working = dict(h.versions[v])
            h.curlog = []
            legacy_latest = min(legacy_latest, v)
            h.emit("avail")
            h.emit("close")
            h.emit("cfg cache=%d fast=%d thr=%d iv=-" % (r.choice([0, 3, 100]), r.randint(0, 1), r.choice([0, 300])))
            h.emit("open")
            h.base = h.latest()
            h.working = dict(h.versions.get(h.base, {}))
            h.emit("avail")
            h.emit("latest")
            h.sweep()
        # directed: roll back into the legacy range, commit on top, delete across the boundary, restart.
        # The legacy orphan records whose upper version is the rollback target then name nodes that
        # the target version - and everything committed on top - still uses.
        legs = [v for v in sorted(h.versions) if v < legacy_latest]
        if legs and r.random() < 0.3:
            v = r.choice(legs)
            h.emit("loadow %d" % v)
            for u in list(h.versions):
                if u > v:
                    del h.versions[u]
            h.base = v
            h.working = dict(h.versions[v])
            h.curlog = []
            legacy_latest = v
            for _ in range(r.randint(1, 3)):
                for _ in range(r.randint(1, 4)):
                    h.one_write()
                h.save()
            lo, hi = h.first(), h.latest()
            nn = r.randint(v, hi - 1)
            h.emit("prune %d" % nn)
            for u in list(h.versions):
                if u <= nn:
                    del h.versions[u]
            h.pruned_ever = True
            h.sweep()
            h.emit("close")
            h.emit("cfg cache=%d fast=%d thr=%d iv=-" % (r.choice([0, 3, 100]), r.randint(0, 1), r.choice([0, 300])))
            h.emit("open")
            h.base = h.latest()
            h.working = dict(h.versions.get(h.base, {}))
            h.sweep()
        # new-format phase on top
        for _ in range(r.randint(1, 6)):
            x = r.random()
            if x < 0.55:
                if r.random() > 0.3:
                    for _ in range(r.randint(0, 4)):
                        h.one_write()
                h.read_ops(1)
                h.save()      # incl. commits without writes on a legacy root
                if r.random() < 0.4:
                    h.sweep()
            elif x < 0.75 and len(h.versions) >= 2:
                # prune below, at and above the boundary
                lo, hi = h.first(), h.latest()
                if hi > lo and not h.dirty:
                    nn = r.choice([lo, legacy_latest - 1, legacy_latest, legacy_latest + 1, r.randint(lo, hi - 1)])
                    nn = max(lo, min(nn, hi - 1))
                    if h.base > nn:
                        h.emit("prune %d" % nn)
                        # the legacy versions are deleted in bulk: a target inside the legacy range below its
                        # latest version deletes nothing; at or above it all legacy versions go at once
                        if nn >= legacy_latest or legacy_latest not in h.versions:
                            for v in list(h.versions):
                                if v <= nn:
                                    del h.versions[v]
                        h.pruned_ever = True
                        h.sweep()
            elif x < 0.87 and not h.dirty and h.versions:
                # rollback, possibly into the legacy range
                v = r.choice(sorted(h.versions))
                h.emit("loadow %d" % v)
                for u in list(h.versions):
                    if u > v:
                        del h.versions[u]
                h.base = v
                h.working = dict(h.versions[v])
                h.curlog = []
                h.sweep()
            else:
                if h.dirty:
                    h.rollback()
                h.emit("close")
                fast2 = r.choice([True, False])
                h.emit("cfg cache=%d fast=%d thr=%d iv=-" % (r.choice([0, 3, 100]), int(fast2), r.choice([0, 300])))
                h.emit("open")
                h.base = h.latest()
                h.working = dict(h.versions.get(h.base, {}))
                h.sweep()
        if h.dirty:
            h.rollback()
        h.sweep()
        out.append((hid, h.lines))
    return out


# ---------------------------------------------------------------------------------------------
# C06: writer programs whose commits and deletions are parked at every yield point while every
# committed version is read; pin checks at the end

def gen_conc(seed, n, start_id=0):
    out = []
    prof = Profile(p_prune=0.35, p_loadow=0.0, p_reopen=0.1, p_load_old=0.0, p_delfrom=0.0, p_rollback=0.1,
                   check_all_versions=0.05, reads_per_version=(0, 1), imm_reads_per_version=(0, 1),
                   meta_per_version=(0, 1), p_hash_read=0.1, versions=(2, 7), nkeys=6, ivs=[None, None, 3],
                   dbs=["mem", "mem", "ldb"], thrs=[150, 300, 0, 0], caches=[0, 0, 3, 100], p_empty_value=0.05,
                   p_iterrace=0.3)
    for i in range(n):
        rng = random.Random((seed * 67867967 + start_id + i) & 0xFFFFFFFFFFFF)
        h = Hist(rng, prof, "q%d" % (start_id + i))
        lines = h.run()
        if h.dirty:
            lines.append("rollback")
        vs = sorted(h.versions)
        if len(vs) >= 2 and h.base == vs[-1]:
            v = rng.choice(vs[:-1])
            nn = rng.choice([x for x in vs[:-1] if x >= v])
            lines.append("pinprune %d %d %s" % (v, nn, rng.choice(["export:pinned", "export:pinned", "export:before-pin", "prune:checked", "double-close", "async-queued"])))
        if vs and h.base == vs[-1] and h.versions[vs[-1]] and rng.random() < 0.5:
            # a reader's storage read of an index entry that is not cached overlaps the commit that removes or
            # rewrites that key (fresh tree object: cold fast-node cache)
            k = rng.choice(sorted(h.versions[vs[-1]]))
            lines += ["close", "open"]
            lines.append("getrace %s %s" % (enc(k), "-" if rng.random() < 0.6 else enc(bytes([rng.randrange(256)]))))
            lines += ["get " + enc(k), "has " + enc(k), "gwi " + enc(k), "miterate", "getv %s %d" % (enc(k), vs[-1] + 1),
                      "imm %d get %s" % (vs[-1] + 1, enc(k)), "imm %d get %s" % (vs[-1], enc(k))]
        out.append(("q%d" % (start_id + i), lines))
    return out


# ---------------------------------------------------------------------------------------------
# C13, direction "independent encoder writes, library reads": a history whose store is replaced by
# the database image the *model* encodes for one retained version

def gen_sync_soak(seed, n, start_id=0):
    """C05: long runs of small synchronous commits on one tree object (every commit far below the flush
    threshold, so each must be one physical write): state that a batch wrapper carries from one commit
    to the next (counters, size estimates) only shows after thousands of staged entries. The write log of
    every commit is compared with the flusher model (`wlog`)."""
    out = []
    for i in range(n):
        r = random.Random((seed * 2147483587 + start_id + i) & 0xFFFFFFFFFFFF)
        hid = "soak%d" % (start_id + i)
        lines = ["new " + hid, "cfg db=mem cache=%d fast=1 thr=0 iv=- sync=1" % r.choice([0, 100]), "open"]
        k = 0
        for c in range(r.randint(24, 30)):
            for _ in range(r.randint(140, 170)):
                if k > 50 and r.random() < 0.1:
                    lines.append("rm %s" % enc(b"s%05d" % r.randrange(k)))
                else:
                    lines.append("set %s %s" % (enc(b"s%05d" % k), enc(bytes([r.randrange(256)]))))
                    k += 1
            lines.append("save")
            lines.append("wlog")
        lines += ["close", "open", "latest", "size", "lhash"]
        out.append((hid, lines))
    return out


def gen_encodedb(seed, n, start_id=0):
    out = []
    prof = Profile(p_prune=0.15, p_loadow=0.05, p_reopen=0.1, check_all_versions=0.0, big=0.15, dump=0.0,
                   reads_per_version=(0, 1), imm_reads_per_version=(0, 0), meta_per_version=(0, 0),
                   p_hash_read=0.0, versions=(1, 6), p_empty_value=0.1, dbs=["mem"], ivs=[None])
    for i in range(n):
        rng = random.Random((seed * 2147483629 + start_id + i) & 0xFFFFFFFFFFFF)
        hid = "e%d" % (start_id + i)
        h = Hist(rng, prof, hid)
        lines = h.run()
        if h.dirty:
            lines.append("rollback")
        vs = sorted(h.versions)
        if not vs:
            out.append((hid, lines))
            continue
        v = rng.choice(vs)
        lines.append("cfg cache=%d fast=%d thr=%d iv=-" % (rng.choice([0, 3, 100]), rng.randint(0, 1), rng.choice([0, 300])))
        # (half of the images record an inherited root in the short form `s<version>` written before lazy pruning)
        lines.append("encodedb %d%s" % (v, " short" if rng.random() < 0.5 else ""))
        m = h.versions[v]
        lines += ["avail", "latest", "lhash", "hash", "size", "height", "miterate", "imm %d iterate" % v, "imm %d hash" % v]
        for k in sorted(m)[:8]:
            lines.append("get " + enc(k))
            lines.append("gwi " + enc(k))
            if m[k] != b"":
                lines.append("imm %d proof %s" % (v, enc(k)))
        lines.append("gbi 0")
        lines.append("imm %d export plain" % v)
        for _ in range(rng.randint(1, 3)):
            for _ in range(rng.randint(0, 4)):
                if rng.random() < 0.3 and m:
                    lines.append("rm " + enc(rng.choice(sorted(m))))
                else:
                    lines.append("set %s %s" % (enc(rng.choice(h.keys)), enc(bytes([rng.randrange(256)]))))
            lines.append("save")
        lines += ["avail", "miterate", "lhash", "dump"]
        out.append((hid, lines))
    return out


# ---------------------------------------------------------------------------------------------
# C03, verifier tie: the proofs the implementation produced in a first pass (with the root they were
# produced against) are fed, genuine and mutated, to the real ics23 verifier (harness `vex` / `vnon`)
# and to the Lean model of that verifier (about which soundness is proved); verdicts must agree.

import re as _re
import zlib

_EXIST = _re.compile(r"E\((\S+) (\S+) (\S+) \[([^\]]*)\]\)")


def _parse_exist(txt):
    m = _EXIST.fullmatch(txt)
    if not m:
        return None
    ops = [tuple(o.split(":")) for o in m.group(4).split()] if m.group(4) else []
    return {"k": m.group(1), "v": m.group(2), "lp": m.group(3), "ops": ops}


def _parse_proof(txt):
    """impl text of a proof query -> ('exist', E) | ('nonexist', key, L, R) | None"""
    if txt.startswith("exist "):
        e = _parse_exist(txt[6:])
        return ("exist", e) if e else None
    if txt.startswith("nonexist "):
        m = _re.fullmatch(r"nonexist (\S+) L=(nil|E\(.*?\]\)) R=(nil|E\(.*?\]\))", txt)
        if not m:
            return None
        return ("nonexist", m.group(1), None if m.group(2) == "nil" else _parse_exist(m.group(2)),
                None if m.group(3) == "nil" else _parse_exist(m.group(3)))
    return None


def _fmt_exist(e):
    if e is None:
        return "-"
    return "%s %s %s %d%s" % (e["k"], e["v"], e["lp"], len(e["ops"]), "".join(" %s %s" % o for o in e["ops"]))


def _hx(b):
    return "x" + b.hex()


def _unhx(s):
    return bytes.fromhex(s[1:])


def _mutate_exist(r, e):
    """one structural mutation of an existence proof (never in place)"""
    e = {"k": e["k"], "v": e["v"], "lp": e["lp"], "ops": list(e["ops"])}
    ops = e["ops"]
    c = r.randrange(14)
    if c == 0 and ops:
        ops.pop()                                   # drop the op next to the root
    elif c == 1 and ops:
        ops.pop(0)                                  # drop the op next to the leaf
    elif c == 2 and ops:
        i = r.randrange(len(ops))
        ops.insert(i, ops[i])                       # duplicate an op
    elif c == 3 and ops:
        i = r.randrange(len(ops))
        p = _unhx(ops[i][0])
        ops[i] = (_hx(p[:-1]), ops[i][1])           # prefix one byte short
    elif c == 4 and ops:
        i = r.randrange(len(ops))
        ops[i] = (ops[i][0] + "20", ops[i][1])      # prefix one byte long
    elif c == 5 and ops:
        i = r.randrange(len(ops))
        sfx = _unhx(ops[i][1])
        ops[i] = (ops[i][0], _hx(r.choice([b"", sfx[:-1] if sfx else b"\x20" + bytes(32), sfx + b"\x00", b"\x20" + bytes(32)])))
    elif c == 6 and ops:
        i = r.randrange(len(ops))
        p = bytearray(_unhx(ops[i][0]))
        j = r.randrange(len(p))
        p[j] ^= 1 << r.randrange(8)
        ops[i] = (_hx(bytes(p)), ops[i][1])         # one bit of the prefix (height / size / version / hash)
    elif c == 7 and ops:
        i = r.randrange(len(ops))
        p, sfx = _unhx(ops[i][0]), _unhx(ops[i][1])
        # move the sibling hash to the other side: a left step presented as a right step and vice versa
        if sfx:
            ops[i] = (_hx(p + sfx[1:] + b"\x20") if len(sfx) == 33 else ops[i][0], "x")
        elif len(p) > 34:
            ops[i] = (_hx(p[:-34] + b"\x20"), _hx(p[-34:-1]))
    elif c == 8:
        e["lp"] = r.choice(["x00", "x0002", "x000202ff", "x010202", "x", "x00020280", "x000203"])
    elif c == 9:
        e["v"] = e["v"] + "00"
    elif c == 10:
        e["k"] = e["k"] + "00"
    elif c == 11:
        e["ops"] = []
    elif c == 12 and len(ops) >= 2:
        i = r.randrange(len(ops) - 1)
        ops[i], ops[i + 1] = ops[i + 1], ops[i]
    elif c == 13 and ops:
        i = r.randrange(len(ops))
        # a huge height varint: keeps parsing, pushes the prefix length out of the window
        ops[i] = ("x" + "ffffffffffffffff7f"[:2 * r.randint(1, 9)] + ops[i][0][1:], ops[i][1])
    return e


def gen_icsverify(seed, results, per_hist=40):
    out = []
    for h in results:
        r = random.Random((seed * 7368787 + zlib.crc32(h["id"].encode())) & 0xFFFFFFFFFFFF)
        items = []
        for line, impl in zip(h["lines"], h["impl"]):
            if not impl or " ## " not in impl or "proof" not in line:
                continue
            txt, orc = impl.split(" ## ", 1)
            m = _re.search(r"root=(\S+)", orc)
            pr = _parse_proof(txt)
            if m and pr:
                items.append((m.group(1), pr))
        if not items:
            continue
        pool = {}
        for root, pr in items:
            es = [pr[1]] if pr[0] == "exist" else [e for e in pr[2:] if e]
            pool.setdefault(root, []).extend(es)
        roots = sorted(pool)
        lines = ["new v" + h["id"]]
        r.shuffle(items)
        for root, pr in items[:per_hist]:
            if pr[0] == "exist":
                e = pr[1]
                lines.append("vex %s %s %s %s" % (root, e["k"], e["v"], _fmt_exist(e)))
                lines.append("vex %s %s %s %s" % (r.choice(roots), e["k"], e["v"], _fmt_exist(e)))
                lines.append("vex %s %s %s00 %s" % (root, e["k"], e["v"], _fmt_exist(e)))
                for _ in range(3):
                    m2 = _mutate_exist(r, e)
                    lines.append("vex %s %s %s %s" % (root, m2["k"], m2["v"], _fmt_exist(m2)))
                # the same proof presented as an absence proof of its own key / of a neighbouring key
                lines.append("vnon %s %s L %s R -" % (root, e["k"] + "00", _fmt_exist(e)))
                lines.append("vnon %s %s L - R %s" % (root, e["k"][:-2] if len(e["k"]) > 3 else "x", _fmt_exist(e)))
            else:
                _, key, L, R = pr
                lines.append("vnon %s %s L %s R %s" % (root, key, _fmt_exist(L), _fmt_exist(R)))
                lines.append("vnon %s %s L %s R %s" % (r.choice(roots), key, _fmt_exist(L), _fmt_exist(R)))
                others = pool[root]
                cands = [key] + [e["k"] for e in (L, R) if e] + [e["k"] + "00" for e in (L, R) if e] + \
                        [key + "00", key[:-2] if len(key) > 3 else "x", "x", "xffffffff"]
                for k2 in r.sample(cands, min(3, len(cands))):
                    lines.append("vnon %s %s L %s R %s" % (root, k2, _fmt_exist(L), _fmt_exist(R)))
                lines.append("vnon %s %s L %s R %s" % (root, key, _fmt_exist(R), _fmt_exist(L)))      # swapped
                lines.append("vnon %s %s L %s R -" % (root, key, _fmt_exist(L)))                     # one side dropped
                lines.append("vnon %s %s L - R %s" % (root, key, _fmt_exist(R)))
                lines.append("vnon %s %s L - R -" % (root, key))
                for _ in range(3):                                                                   # another (non-adjacent?) leaf
                    o = r.choice(others)
                    if r.random() < 0.5:
                        lines.append("vnon %s %s L %s R %s" % (root, key, _fmt_exist(o), _fmt_exist(R)))
                    else:
                        lines.append("vnon %s %s L %s R %s" % (root, key, _fmt_exist(L), _fmt_exist(o)))
                for _ in range(3):
                    if L and (not R or r.random() < 0.5):
                        lines.append("vnon %s %s L %s R %s" % (root, key, _fmt_exist(_mutate_exist(r, L)), _fmt_exist(R)))
                    elif R:
                        lines.append("vnon %s %s L %s R %s" % (root, key, _fmt_exist(L), _fmt_exist(_mutate_exist(r, R))))
        out.append(("v" + h["id"], lines))
    return out
