"""Per-property configuration and the check procedure (DESIGN.md §4.1)."""
import json
import random
import os
import shutil
import time

import common as C
import v1gen
from v1gen import Profile

ROOT = C.ROOT

# ---------------------------------------------------------------------------------------------
# property registry. kind: which procedure decides it.
#   v1hist  – operation histories through harness v1 `exec` + model driver
# Each entry: profile (generator knobs), quick_n / thorough_n, oracle (implementation-side rule),
# observable classes.

def proof_oracle(h, i, line, impl, orc):
    """C03: every produced proof verifies under the real ics23 verifier (v=1) and no false claim does (neg=0)."""
    if orc is None:
        return None
    f = dict(x.split("=") for x in orc.split() if "=" in x)
    if "v" in f and impl != "err":
        if f.get("neg", "0") != "0":
            return "the real ics23 verifier accepts %s false claim(s) with this proof" % f["neg"]
        if f["v"] != "1":
            return "the produced proof does not verify against the version's root hash"
    return None


import math
import re


def c11_oracle(h, i, line, impl, orc):
    """C11: AVL bound on reported height/size; storage reads per lookup with nothing cached."""
    if line.startswith("reads "):
        try:
            cnt, hh = impl.split()
            cnt = int(cnt)
            hh = int(hh.split("=")[1])
        except Exception:
            return None
        inner = line.split()[1:]
        if inner[0] == "imm":
            inner = inner[2:]
        op = inner[0]
        if op in ("get", "has", "gwi", "gbi") and cnt > 2 * hh + 2:
            return "%s read %d stored nodes, more than 2h+2 = %d" % (op, cnt, 2 * hh + 2)
        if op in ("proof", "memproof", "nonmemproof") and cnt > 10 * hh + 10:
            return "%s read %d stored nodes, more than 10h+10 = %d" % (op, cnt, 10 * hh + 10)
        return None
    if line.endswith("height") and impl.isdigit():
        # find the size reported next to it (the generator emits `size` right after `height`)
        if i + 1 < len(h["lines"]) and h["lines"][i + 1].endswith("size") and (h["impl"][i + 1] or "").isdigit():
            n = int(h["impl"][i + 1])
            hh = int(impl)
            if n > 0 and hh > 1.4405 * math.log2(n + 2) + 1e-9:
                return "height %d exceeds 1.4405*log2(%d+2)" % (hh, n)
    return None


def crash_oracle(h, i, line, impl, orc):
    """C05: the crash-cut enumeration of the harness must end in `ok` for every mutating operation"""
    if orc is None:
        return None
    if orc.startswith("v="):
        return proof_oracle(h, i, line, impl, orc)   # the verdict attached to a proof query (not a mutating operation)
    if orc.endswith(" ok") or orc == "ok":
        return None
    return "crash cut: " + orc


def fault_oracle(h, i, line, impl, orc):
    """C17: every single-fault position must surface as an error or leave the answer unchanged"""
    if orc is None or orc.endswith(" ok") or orc.endswith("skipped"):
        return None
    if orc.startswith("v="):
        return proof_oracle(h, i, line, impl, orc)
    op = line.split()
    op = op[2] if op[0] == "imm" else op[0]
    if op in ("irange", "irangeinc", "replaycs"):
        return None   # IterateRange / IterateRangeInclusive have no error result (outside the property); replaycs is a harness composite
    return "fault injection: " + orc


def conc_oracle(h, i, line, impl, orc):
    """C06: reads of committed versions at every yield point equal the reads before the operation;
    the export pin holds"""
    if orc is None or orc.endswith(" ok") or orc == "ok":
        return None
    if orc.startswith("v="):
        return proof_oracle(h, i, line, impl, orc)   # the verdict attached to a proof query, not a schedule
    return "schedule: " + orc


PROPS = {
    "C01": dict(kind="v1hist", quick_n=1500, thorough_n=16000,
                profile=Profile(p_huge=0.006, p_unloaded=0.15, p_hash_read=0.0, check_all_versions=0.5, iters=0.3, big=0.05, p_load_old=0.12, p_save_existing=0.8, ixdump=0.15),
                title="versioned key-value semantics"),
    "C02": dict(kind="v1hist", quick_n=1500, thorough_n=16000,
                profile=Profile(p_hash_read=0.9, proofs=0.3, iters=0.2, exports=0.0, check_all_versions=0.4, p_churn=0.15, p_load_old=0.15, p_save_existing=0.8,
                                big=0.05, imm_reads=["hash", "hash", "get", "iterate"]),
                title="canonical root hash"),
    "C03": dict(kind="v1hist", quick_n=800, thorough_n=10000, oracle=proof_oracle, icsverify=True,
                profile=Profile(proofs=1.0, p_empty_value=0.04, check_all_versions=0.05, big=0.1,
                                reads_per_version=(0, 1), imm_reads_per_version=(0, 1)),
                title="ICS-23 proofs"),
    "C07": dict(kind="v1hist", quick_n=1500, thorough_n=24000,
                profile=Profile(p_reopen=0.35, p_reopen_old=0.4, fasts=[True, True, False], check_all_versions=0.5,
                                iters=0.6, meta_reads=["getv", "getv", "latest"], meta_per_version=(1, 3),
                                p_loadow=0.12, p_delfrom=0.08, p_hash_read=0.0, ixdump=0.5),
                title="fast index coherence"),
    "C09": dict(kind="v1hist", quick_n=1500, thorough_n=24000,
                profile=Profile(p_huge=0.006, p_loadow=0.3, p_delfrom=0.1, p_rollback=0.3, p_reopen=0.2, check_all_versions=0.5,
                                p_hash_read=0.5, iters=0.2, ixdump=0.2),
                title="rollback erases the future"),
    "C04": dict(kind="v1hist", quick_n=1500, thorough_n=24000,
                profile=Profile(p_hold=0.3, p_prune=0.6, p_noop_version=0.4, check_all_versions=0.7, proofs=0.2, p_hash_read=0.3,
                                thrs=[120, 150, 150, 200, 300, 400, 0], caches=[0, 0, 0, 1, 3, 100],
                                p_loadow=0.1, p_reopen=0.2, nkeys=5),
                title="pruning safety"),
    "C08": dict(kind="v1hist", quick_n=1200, thorough_n=12000,
                profile=Profile(iters=1.0, imm_reads=["iter", "iterate", "irange", "irangeinc"],
                                imm_reads_per_version=(1, 5), check_all_versions=0.1, big=0.1),
                title="iterator contract"),
    "C10": dict(kind="v1hist", quick_n=1200, thorough_n=24000, gen="c10", oracle=proof_oracle, bigimport=True,
                profile=None, title="export/import fidelity, total importer"),
    "C15": dict(kind="v1hist", quick_n=1200, thorough_n=24000, oracle=lambda h, i, line, impl, orc: (
                    "replaying the extracted change sets does not reproduce the versions: " + impl
                    if line == "replaycs" and not impl.startswith("ok") else None),
                profile=Profile(p_load_old=0.12, p_save_existing=0.8, changes=0.8, p_savecs=0.3, p_noop_version=0.3, check_all_versions=0.1, p_prune=0.15,
                                p_loadow=0.05, p_hash_read=0.1, reads_per_version=(0, 2), imm_reads_per_version=(0, 1)),
                title="change sets"),
    "C11": dict(kind="v1hist", quick_n=600, thorough_n=12000, gen="c11", oracle=c11_oracle, profile=None,
                title="balance, rank, read cost"),
    "C12": dict(kind="v1hist", quick_n=1200, thorough_n=24000,
                profile=Profile(p_hold=0.3, dump=0.7, ixdump=0.3, p_prune=0.5, p_noop_version=0.35, p_loadow=0.12, p_delfrom=0.1, p_reopen=0.2,
                                check_all_versions=0.1, p_hash_read=0.0, reads_per_version=(0, 1),
                                imm_reads_per_version=(0, 1), meta_per_version=(0, 1), nkeys=5,
                                thrs=[120, 150, 200, 300, 400, 0], caches=[0, 0, 1, 3, 100], empty_out=0.3),
                title="storage = reachable set"),
    "C18": dict(kind="v1hist", quick_n=1500, thorough_n=40000, gen="kv", mode="kv", profile=None,
                title="ordered-KV contract of the bundled backends"),
    "C05": dict(kind="v1hist", quick_n=1200, thorough_n=32000, mode="crash", oracle=crash_oracle,
                profile=Profile(versions=(2, 6), ops_per_version=(0, 5), p_prune=0.4, p_loadow=0.2, p_reopen=0.25,
                                p_delfrom=0.05, check_all_versions=0.0, reads_per_version=(0, 1),
                                imm_reads_per_version=(0, 0), meta_per_version=(0, 0), p_hash_read=0.0,
                                thrs=[150, 200, 250, 300, 400, 600, 0], caches=[0, 0, 2, 100], dbs=["mem"],
                                nkeys=6, p_load_old=0.0, ivs=[None, None, 1, 4]),
                title="crash atomicity"),
    "C17": dict(kind="v1hist", quick_n=600, thorough_n=16000, mode="fault", oracle=fault_oracle, bigimport=True,
                profile=Profile(versions=(2, 5), ops_per_version=(0, 4), p_prune=0.3, p_loadow=0.15, p_reopen=0.15,
                                p_delfrom=0.0, check_all_versions=0.0, reads_per_version=(1, 3),
                                imm_reads_per_version=(1, 3), meta_per_version=(0, 2), p_hash_read=0.1, iters=0.5,
                                proofs=0.4, exports=0.3, changes=0.3, p_empty_value=0.0,
                                thrs=[200, 400, 0, 0], caches=[0, 0, 2, 100], dbs=["mem"], nkeys=5, p_load_old=0.0,
                                ivs=[None]),
                title="storage failures surface as errors"),
    "C13": dict(kind="multi", quick_n=400, thorough_n=16000, title="on-disk format, total decoders",
                parts=[dict(gen="codec", mode="codec", frac=1.0),
                       dict(gen="encodedb", mode="exec", frac=0.5),
                       dict(gen="profile", mode="exec", frac=0.6,
                            profile=Profile(dump=1.0, p_prune=0.3, p_noop_version=0.3, p_loadow=0.1, p_reopen=0.2,
                                            check_all_versions=0.05, p_hash_read=0.2, reads_per_version=(0, 1),
                                            imm_reads_per_version=(0, 1), meta_per_version=(0, 1)))]),
    "C19": dict(kind="v1hist", quick_n=300, thorough_n=12000, gen="v2", mode="v2", profile=None,
                title="v2 computes the same tree as v1"),
    "C20": dict(kind="v1hist", quick_n=200, thorough_n=8000, gen="v2p", mode="v2", profile=None,
                title="v2 persistence"),
    "C16": dict(kind="v1hist", quick_n=150, thorough_n=6000, gen="legacy", mode="legacy", profile=None,
                title="legacy-format databases stay usable"),
    "C06": dict(kind="v1hist", quick_n=1000, thorough_n=24000, mode="conc", gen="conc", oracle=conc_oracle, profile=None, stress=True,
                title="concurrent readers"),
    "C14": dict(kind="v1hist", quick_n=1500, thorough_n=16000,
                profile=Profile(p_unloaded=0.15, p_hold=0.3, meta_per_version=(2, 5), p_load_old=0.25, p_prune=0.3, p_reopen=0.25,
                                check_all_versions=0.2, p_noop_version=0.35),
                title="version bookkeeping"),
}


# ---------------------------------------------------------------------------------------------
# known findings: signatures are predicates over (history lines, index of first diverging line, divergence)

def _small_thr(lines, idx):
    """the flush threshold in force at line idx is a small explicit one (the operation's writes were
    legitimately split over several physical batches)"""
    thr = 0
    for l in lines[:idx + 1]:
        if l.startswith("cfg "):
            for tok in l.split():
                if tok.startswith("thr="):
                    thr = int(tok[4:])
    return 0 < thr <= 1000


def sig_multibatch_commit_cut(lines, d):
    # K7: a commit split over several physical writes (flush threshold of a few hundred bytes)
    why = d.get("why") or ""
    # (an interrupted commit can always be repeated on the unchanged tree: a failing retry is not this finding)
    return (d["kind"] == "oracle" and d["line"].split()[0] in ("save", "savecs") and _small_thr(lines, d["idx"])
            and ("load-failed" in why or "index:" in why or "get!=walk" in why) and "retry-" not in why)


def sig_multibatch_commit_fault(lines, d):
    # K7 under C17: a commit split over several physical writes whose later write fails leaves the earlier ones behind
    why = d.get("why") or ""
    return (d["kind"] == "oracle" and d["line"].split()[0] in ("save", "savecs", "prune", "loadow") and _small_thr(lines, d["idx"])
            and "err-but-store-mixed" in why and "bad" not in why.replace("bad=[", "") and ":panic" not in why)


def sig_multibatch_delete_cut(lines, d):
    # K7c: a deletion of old versions / a rollback split over several physical writes
    why = d.get("why") or ""
    # an interrupted rollback may be impossible to repeat from the half-deleted state; an interrupted
    # deletion of old versions can always be repeated on the unchanged tree, so a failing retry of `prune`
    # is not this finding
    op = d["line"].split()[0]
    return (d["kind"] == "oracle" and op in ("prune", "loadow", "delfrom") and _small_thr(lines, d["idx"])
            and ("mixture:" in why or "load-failed" in why or "retry-" in why or "index:" in why or "lost:" in why)
            and not (op == "prune" and "retry-" in why))


def sig_v2_recommit_sharded(lines, d):
    # K22: v2: re-committing existing versions after reloading an older one replaces their root rows: the
    # checkpoint flag of a re-committed checkpoint version is lost, so a later tree object sees an older "last
    # checkpoint", finds a checkpoint due at a version whose shard table already exists and fails (sharded);
    # unsharded, a later deletion of old versions leaves the latest version unloadable.
    # The checkpoint bookkeeping of the unchanged library is replayed here so that only the failures it
    # explains are taken for K22: any other failing save / open after such a reload is a violation.
    idx = d["idx"]
    K, shard = 0, False
    n = cur = 0
    db_ckpts, mem_ckpts, tables = [], [], set()
    recommitted = pruned_after_recommit = False
    predicted_fail = False
    for li, l in enumerate(lines[:idx + 1]):
        a = l.split()
        if not a:
            continue
        if a[0] == "cfg":
            for tok in a[1:]:
                if tok.startswith("ckpt="):
                    K = int(tok[5:])
                if tok.startswith("shard="):
                    shard = tok == "shard=1"
        elif a[0] == "open":
            cur = int(a[1]) if len(a) > 1 else 0
            mem_ckpts = sorted(db_ckpts)
        elif a[0] == "prune" and recommitted:
            pruned_after_recommit = True
        elif a[0] == "save":
            nxt = cur + 1
            due = nxt == 1 or (K > 0 and mem_ckpts and nxt - mem_ckpts[-1] >= K) or (K > 0 and not mem_ckpts)
            fails = due and shard and nxt in tables
            if li == idx:
                predicted_fail = fails
                break
            if fails:
                continue          # the library reported an error: nothing changed
            if nxt <= n:
                recommitted = True
            cur = nxt
            n = max(n, cur)
            if due:
                tables.add(cur)
                if cur not in db_ckpts:
                    db_ckpts.append(cur)
                mem_ckpts.append(cur)
            elif cur in db_ckpts:
                db_ckpts.remove(cur)
    first = d["line"].split()[0]
    err = (d["impl"] or "").startswith("err")
    if first == "save":
        return err and predicted_fail
    if first == "open":
        return err and recommitted and pruned_after_recommit
    return False


def sig_legacy_converted_root_clash(lines, d):
    # K24: the model flagged the trigger (two different legacy roots with the same node version re-stored
    # under the same new-format key) earlier in this history
    return "K24" in (d.get("hazards") or [])


def sig_pin_toctou(lines, d):
    # K9t: the reader check of deleteVersionsTo is check-then-act
    return d["kind"] == "oracle" and d["line"].startswith("pinprune") and d["line"].endswith("prune:checked") and "TOCTOU" in (d.get("why") or "")


def sig_hash_on_dirty_tree_iv(lines, d):
    # K5: before the first commit of a tree with InitialVersion > 1, a hash / proof query on the dirty
    # working tree memoised hashes computed for version 1
    iv = None
    dirty = False
    queried = False
    for l in lines[:d["idx"] + 1]:
        a = l.split()
        if a[0] == "cfg":
            for tok in a[1:]:
                if tok.startswith("iv=") and tok != "iv=-":
                    iv = int(tok[3:])
        elif a[0] == "setiv":
            iv = int(a[1])
        elif a[0] in ("set", "rm"):
            dirty = True
        elif a[0] in ("hash", "whash", "proof", "memproof", "nonmemproof") and dirty and iv is not None and iv > 1:
            queried = True
        elif a[0] == "save":
            break
    # (K5r: only the read-only queries on that dirty tree; the commit itself was repaired, K5)
    return queried and d["line"].split()[0] in ("hash", "whash", "proof", "memproof", "nonmemproof")


def sig_empty_value_proof(lines, d):
    # K6: ics23 rejects an empty value: the proof (or a neighbour leaf of a non-membership proof) carries value `x`
    return d["kind"] == "oracle" and (" x " in (d["impl"] or "") and "proof" in d["line"])


def sig_empty_key_proof(lines, d):
    # K28: ics23 refuses an existence leaf whose key is empty (format E(<key> <value> ...), empty bytes print as `x`)
    return d["kind"] == "oracle" and "E(x " in (d["impl"] or "") and "proof" in d["line"]


SIGNATURES = {
    "empty-key-proof": sig_empty_key_proof,
    "empty-value-proof": sig_empty_value_proof,
    "hash-on-dirty-tree-iv": sig_hash_on_dirty_tree_iv,
    "pin-toctou": sig_pin_toctou,
    "legacy-converted-root-clash": sig_legacy_converted_root_clash,
    "v2-recommit-sharded": sig_v2_recommit_sharded,
    "multibatch-commit-cut": sig_multibatch_commit_cut,
    "multibatch-delete-cut": sig_multibatch_delete_cut,
    "multibatch-commit-fault": sig_multibatch_commit_fault,
}


def match_known(prop, lines, d):
    for k in C.load_known():
        if k.get("status") != "open" or not (prop in k.get("properties", []) or "*" in k.get("properties", [])):
            continue
        f = SIGNATURES.get(k.get("signature"))
        if f and f(lines, d):
            return k
    return None


# ---------------------------------------------------------------------------------------------

def corpus(prop):
    d = os.path.join(ROOT, "corpus", prop)
    out = []
    if os.path.isdir(d):
        for f in sorted(os.listdir(d)):
            if f.endswith(".hist"):
                lines = [l.rstrip("\n") for l in open(os.path.join(d, f)) if l.strip()]
                # history ids name scratch databases: keep corpus ids apart from generated ones
                tag = "c" + "".join(ch for ch in f[:-5] if ch.isalnum())[:24]
                for i, l in enumerate(lines):
                    a = l.split()
                    if a[0] in ("new", "knew"):
                        a[1] = tag
                        lines[i] = " ".join(a)
                out.append(("corpus/" + f, lines))
    return out


def nontrivial(lines):
    """a history is non-trivial if it commits >= 2 versions and makes >= 1 structural change"""
    if len(lines) > 1 and lines[1].split()[0] in ("makenode", "makelegacy", "fastnode", "decbytes", "decvarint", "decuvarint", "rootval"):
        return True
    if lines and lines[0].startswith("knew"):
        return sum(1 for l in lines if l.startswith("kset") or l.startswith("kbwrite")) >= 2
    saves = sum(1 for l in lines if l == "save" or l.startswith("savecs") or l.startswith("import"))
    writes = sum(1 for l in lines if l.startswith("set ") or l.startswith("rm ") or l.startswith("savecs") or l.startswith("import"))
    return saves >= 2 and writes >= 1


def op_histogram(hists):
    h = {}
    for _, lines in hists:
        for l in lines:
            k = l.split()[0]
            if k == "imm":
                k = "imm:" + l.split()[2]
            h[k] = h.get(k, 0) + 1
    return h


def result_profile(results):
    """what the answers looked like: per operation kind how many answers were errors, refusals, absences;
    how many answers the model decided (and so were compared); the option grid the histories ran on"""
    classes, cfgs = {}, {}
    compared = undecided = 0
    for h in results:
        for l, i, m in zip(h["lines"], h["impl"], h["model"]):
            a = l.split()
            if not a:
                continue
            k = a[0] if a[0] != "imm" or len(a) < 3 else "imm:" + a[2]
            if k == "cfg":
                for tok in a[1:]:
                    cfgs[tok] = cfgs.get(tok, 0) + 1
            if m in (None, "?"):
                undecided += 1
            else:
                compared += 1
            r = (i or "").split(" ## ")[0]
            cl = "err" if r.startswith("err") else "absent" if r in ("-", "- -", "0", "[]") else "panic/hang" if r in ("panic", "hang", "fatal") else None
            if cl:
                d = classes.setdefault(k, {})
                d[cl] = d.get(cl, 0) + 1
    return {"answers_compared_with_model": compared, "answers_without_model_prediction": undecided,
            "error_or_absence_answers_by_kind": classes, "option_grid": cfgs}


def run_check(prop, tier, seed, n_override=None):
    cfg = PROPS[prop]
    t0 = time.time()
    work = C.mkwork(prop)
    violations = []
    known_seen = []
    proof = {"obligations": 0, "discharged": 0, "theorems": [], "grep_gate": []}
    broken = None
    try:
        try:
            proof = C.prepare(prop, v2=(cfg.get("mode") == "v2"), legacy=(cfg.get("mode") == "legacy"),
                              race=bool(cfg.get("stress")))
        except C.BuildBroken as e:
            broken = {"what": e.what, "detail": e.detail}
            C.log("BUILD BROKEN:", e.what, "\n", e.detail)
            if not os.path.exists(os.path.join(C.H1, "bin", "h1")) or "go build" in e.what:
                # the implementation does not build: nothing can be decided
                path = C.write_replay(prop, seed, 0, {"property": prop, "kind": "build", "what": e.what, "detail": e.detail})
                print("VIOLATION property=%s replay=%s no-failing-input-found" % (prop, path))
                return 1
        proof_broken = broken is not None or proof["obligations"] != proof["discharged"] or bool(proof["grep_gate"])
        n = n_override or (cfg["thorough_n"] if (tier == "thorough" or proof_broken) else cfg["quick_n"])
        if cfg.get("gen") == "conc":
            hists = corpus(prop) + v1gen.gen_conc(seed, n)
        elif cfg.get("gen") == "legacy":
            hists = corpus(prop) + v1gen.gen_legacy(seed, n)
        elif cfg.get("gen") in ("v2", "v2p"):
            hists = corpus(prop) + v1gen.gen_v2(seed, n, persist=(cfg["gen"] == "v2p"))
        elif cfg.get("kind") == "multi":
            hists = list(corpus(prop))
            groups = []
            for part in cfg["parts"]:
                k = max(1, int(n * part["frac"]))
                if part["gen"] == "codec":
                    hs = v1gen.gen_codec(seed, k)
                elif part["gen"] == "encodedb":
                    hs = v1gen.gen_encodedb(seed, k)
                else:
                    hs = v1gen.generate(seed, k, part["profile"])
                groups.append((part["mode"], hs))
                hists += hs
        elif cfg.get("gen") == "kv":
            hists = corpus(prop) + v1gen.gen_kv(seed, n)
        elif cfg.get("gen") == "c11":
            hists = corpus(prop) + v1gen.gen_c11(seed, n)
        elif cfg.get("gen") == "c10":
            hists = corpus(prop) + v1gen.gen_c10(seed, n)
        else:
            hists = corpus(prop) + v1gen.generate(seed, n, cfg["profile"])
        mode = cfg.get("mode", "exec")
        if mode == "crash":
            # ask for the physical write log after half of the mutating operations (tie of Model/Flusher.lean)
            wr = random.Random(seed * 31 + 7)
            def with_wlog(lines):
                out = []
                for l in lines:
                    out.append(l)
                    if l.split()[0] in ("save", "prune", "loadow", "delfrom") and wr.random() < 0.5:
                        out.append("wlog")
                return out
            hists = [(hid, with_wlog(lines)) for hid, lines in hists]
            if prop == "C05":
                hists += v1gen.gen_sync_soak(seed, 1 if n <= cfg["quick_n"] else 6)
        if cfg.get("kind") == "multi":
            results = []
            cps = corpus(prop)
            if cps:
                results += C.run_parallel(cps, work, mode="exec")
            for gi, (gmode, hs) in enumerate(groups):
                results += C.run_parallel(hs, os.path.join(work, "g%d" % gi), mode=gmode)
            mode_of = {}
            for gmode, hs in groups:
                for hid, _ in hs:
                    mode_of[hid] = gmode
        else:
            results = C.run_parallel(hists, work, mode=mode)
            mode_of = {}
        if cfg.get("icsverify"):
            # second pass: the proofs just produced, genuine and mutated, judged by the real ics23 verifier
            # and by the Lean model of it (a verifier panic on a hostile proof counts as "not accepted")
            vh = v1gen.gen_icsverify(seed, results)
            vres = C.run_parallel(vh, os.path.join(work, "ics"), mode="codec")
            for r in vres:
                r["impl"] = ["0" if x == "panic" else x for x in r["impl"]]
                mode_of[r["id"]] = "codec"
            results += vres
            hists = hists + vh
        oracle = cfg.get("oracle")
        ops = 0
        agreed = 0
        distinct = set()
        for h in results:
            ops += len(h["lines"])
            d = C.first_divergence(h, oracle)
            if nontrivial(h["lines"]):
                distinct.add(C.hist_digest(h["lines"]))
            if d is None:
                agreed += 1
                continue
            k = match_known(prop, h["lines"], d)
            while k and d["kind"] == "oracle":
                # a recorded finding about one answer (the state is untouched): keep judging the rest of the history
                known_seen.append((k, h, d))
                d = C.first_divergence(h, oracle, start=d["idx"] + 1)
                k = match_known(prop, h["lines"], d) if d else None
            if d is None:
                agreed += 1
                continue
            if k:
                known_seen.append((k, h, d))
                continue
            violations.append((h, d))
        # report
        reported = set()
        for k, h, d in known_seen:
            if k["id"] not in reported:
                reported.add(k["id"])
                print("KNOWN-FINDING: property=%s %s (%s)" % (prop, k["what"], k["id"]))
        # a divergence is reported only if the history diverges again when it is run alone (an operation
        # that merely ran into the harness watchdog on a loaded machine does not reproduce)
        confirmed = []
        for h, d in violations:
            if len(confirmed) >= 3:
                break
            hmode = mode_of.get(h["id"], mode)
            if (d.get("impl") or "") in ("hang", "runaway", None) or d["kind"] in ("no-output",):
                r = C.run_one(h["lines"], work, mode=hmode, tag="confirm")
                d2 = C.first_divergence(r, oracle)
                if d2 is None or match_known(prop, h["lines"], d2):
                    C.log("not reproduced when run alone (timing):", h["id"], d["line"])
                    continue
                d = d2
            confirmed.append((h, d))
        violations = confirmed
        nviol = 0
        for h, d in violations[:3]:
            hmode = mode_of.get(h["id"], mode)

            def still(lines, d0=d, hmode=hmode):
                r = C.run_one(lines, work, mode=hmode, tag="shrink")
                d1 = C.first_divergence(r, oracle)
                return (d1 is not None and d1["kind"] == d0["kind"] and not match_known(prop, lines, d1)
                        and d1["line"].split()[0] == d0["line"].split()[0]
                        and ((d1["impl"] or "").startswith("err") == (d0["impl"] or "").startswith("err"))
                        and re.sub(r"[0-9a-fx#]+", "", d1.get("why") or "") == re.sub(r"[0-9a-fx#]+", "", d0.get("why") or ""))
            small = C.shrink(h["lines"], still, budget_s=45 if tier == "quick" else 120)
            r = C.run_one(small, work, mode=hmode, tag="final")
            d1 = C.first_divergence(r, oracle) or d
            nviol += 1
            path = C.write_replay(prop, seed, nviol, {
                "property": prop, "kind": "spec-violation" if d1["kind"] != "diverge" or True else "correspondence",
                "history": small, "first_diverging_line": d1["line"], "line_index": d1["idx"],
                "implementation": d1["impl"], "model": d1["model"], "why": d1.get("why"),
                "original_history_id": h["id"], "harness_mode": hmode,
                "replay_cmd": "bin/check %s --replay <this file>" % prop})
            print("VIOLATION property=%s replay=%s" % (prop, path))
        stress_runs = []
        if cfg.get("stress"):
            k, dur = (6, 1500) if tier != "thorough" else (48, 3000)
            stress_runs = C.run_stress([seed * 1000 + i for i in range(k)], dur, jobs=4)
            for sr in stress_runs:
                if not sr["ok"]:
                    nviol += 1
                    path = C.write_replay(prop, seed, nviol, {
                        "property": prop, "kind": "race" if sr["races"] else "stress-mismatch", "stress_seed": sr["seed"],
                        "cfg": sr["cfg"], "result": sr["result"], "mismatches": sr["mismatches"], "race_report": sr["race_report"],
                        "replay_cmd": "harness/v1/bin/h1race stress %d %d" % (sr["seed"], dur)})
                    print("VIOLATION property=%s replay=%s" % (prop, path))
                    break
        big_runs = []
        if cfg.get("bigimport"):
            big_runs = C.run_bigimport([seed * 100 + i for i in range(4 if tier != "thorough" else 16)])
            for br in big_runs:
                if not br["ok"]:
                    nviol += 1
                    path = C.write_replay(prop, seed, nviol, {
                        "property": prop, "kind": "large-import-under-write-fault", "bigimport_seed": br["seed"], "cfg": br["cfg"],
                        "mismatches": br["mismatches"], "replay_cmd": "harness/v1/bin/h1 bigimport %d" % br["seed"]})
                    print("VIOLATION property=%s replay=%s" % (prop, path))
                    break
        if not violations and proof_broken:
            nviol += 1
            path = C.write_replay(prop, seed, nviol, {
                "property": prop, "kind": "proof",
                "what": "a proof obligation of this property no longer checks against the model regenerated from /repo",
                "build": broken, "theorems": proof.get("theorems"), "grep_gate": proof.get("grep_gate"),
                "searched": "%d histories (thorough generators), no failing input" % len(hists)})
            print("VIOLATION property=%s replay=%s no-failing-input-found" % (prop, path))
        samples = [hists[len(corpus(prop))][1][:40]] if len(hists) > len(corpus(prop)) else []
        thm = proof["theorems"][0]["theorem"] if proof["theorems"] else None
        prof = result_profile(results)
        level = json.load(open(os.path.join(ROOT, "lib", "levels.json"))).get(prop, "proof")
        ev = {
            "property_id": prop, "tier": tier if tier in ("quick", "thorough") else "quick", "seed": seed,
            "level": level,
            "coverage": {
                # Lean obligations of this property (none for the properties decided by translation validation only)
                "obligations": proof["obligations"], "discharged": proof["discharged"],
                "programs": len(hists), "disagreements_checked": prof["answers_compared_with_model"],
                "result_profile": prof,
                "checker_cmd": "cd lean && lake build Iavl.Props.%s && lake env lean <#print axioms of each theorem>" % prop,
                "trusted_base": C.TRUSTED_BASE,
                "theorems": proof["theorems"],
                "evaluations": ops, "distinct_nontrivial": len(distinct),
                "rule": "histories from lib/v1gen.py (profile of this property) seeded by VERIF_SEED, plus corpus; "
                        "non-trivial = >=2 commits and >=1 write, distinct by content hash",
                "traces_validated_against_impl": agreed,
                "histories": len(hists), "operations_by_kind": op_histogram(hists),
                "samples": samples + ([{"theorem": thm}] if thm else []),
                "known_findings_seen": sorted(reported),
                "stress_runs": [{k: v for k, v in sr.items() if k != "race_report"} for sr in stress_runs],
                "large_import_fault_runs": big_runs,
            },
            "assumptions": C.TRUSTED_BASE,
            "wall_s": round(time.time() - t0, 1),
            "violations": nviol,
        }
        C.write_evidence(prop, ev)
        return 1 if nviol else 0
    finally:
        shutil.rmtree(work, ignore_errors=True)


def replay(prop, path):
    if path.endswith(".hist"):
        r = {"history": [l.rstrip("\n") for l in open(path) if l.strip()]}
    else:
        r = json.load(open(path))
    lines = r.get("history")
    if not lines:
        print(json.dumps(r, indent=1))
        return 0
    cfg = PROPS[prop]
    C.prepare(prop, v2=(cfg.get("mode") == "v2"), legacy=(cfg.get("mode") == "legacy"))
    work = C.mkwork(prop)
    try:
        res = C.run_one(lines, work, mode=r.get("harness_mode") or PROPS[prop].get("mode", "exec"), tag="replay")
        for l, i, m in zip(res["lines"], res["impl"], res["model"]):
            mark = "   " if (m in (None, "?") or C.split_oracle(i)[0] == m) else "!!!"
            print("%s %s\n      impl : %s\n      model: %s" % (mark, l, i, m))
        d = C.first_divergence(res, PROPS[prop].get("oracle"))
        if d:
            print("DIVERGES at line %d: %s" % (d["idx"] + 1, d["line"]))
            return 1
        print("no divergence")
        return 0
    finally:
        shutil.rmtree(work, ignore_errors=True)
